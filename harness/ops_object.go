package main

import (
	"fmt"
	"math"

	"github.com/trajectoryjp/spatial_id_go/v4/common/object"
	"github.com/trajectoryjp/spatial_id_go/v4/common/spatial"
)

// Setters of the object package on EXISTING valid objects: a refused call reports an error and leaves the object as it was;
// an accepted one changes exactly its own field (C15: "for every error-returning exported function of … object").
// QuatFromAxisAngle called directly (C20): the library itself only ever passes the angle pi.
func init() {
	// tileset: h x y v z which val → "OK|ERR:h/x/y/v/z" after SetHZoom (which = 0) or SetVZoom (which = 1)
	op("tileset", func(a []string) string {
		t, err := object.NewTileXYZ(atoi(a[0]), atoi(a[1]), atoi(a[2]), atoi(a[3]), atoi(a[4]))
		if err != nil || t == nil {
			return "BADARG"
		}
		var e error
		if a[5] == "0" {
			e = t.SetHZoom(atoi(a[6]))
		} else {
			e = t.SetVZoom(atoi(a[6]))
		}
		st := "OK"
		if e != nil {
			st = "ERR"
		}
		return fmt.Sprintf("%s:%d/%d/%d/%d/%d", st, t.HZoom(), t.X(), t.Y(), t.VZoom(), t.Z())
	})
	// ptset: lon lat alt which val → "OK|ERR:lon:lat:alt" after SetLon (which = 0) or SetLat (which = 1)
	op("ptset", func(a []string) string {
		p, err := object.NewPoint(atof(a[0]), atof(a[1]), atof(a[2]))
		if err != nil {
			return "BADARG"
		}
		var e error
		if a[3] == "0" {
			e = p.SetLon(atof(a[4]))
		} else {
			e = p.SetLat(atof(a[4]))
		}
		st := "OK"
		if e != nil {
			st = "ERR"
		}
		return st + ":" + ptStr(p)
	})
	// extreset: id1 id2 → "OK|ERR:<ID()>" after NewExtendedSpatialID(id1) (valid) and ResetExtendedSpatialID(id2)
	op("extreset", func(a []string) string {
		o, err := object.NewExtendedSpatialID(a[0])
		if err != nil {
			return "BADARG"
		}
		st := "OK"
		if e := o.ResetExtendedSpatialID(a[1]); e != nil {
			st = "ERR"
		}
		return st + ":" + o.ID()
	})
	// vaxis: ax ay az angle → the quaternion of QuatFromAxisAngle
	op("vaxis", func(a []string) string {
		q := spatial.QuatFromAxisAngle(spatial.Vector3{X: atof(a[0]), Y: atof(a[1]), Z: atof(a[2])}, atof(a[3]))
		return fbits(q.W) + ":" + fbits(q.X) + ":" + fbits(q.Y) + ":" + fbits(q.Z)
	})
	register("objset", func(n int) {
		for i := 0; i < n; i++ {
			switch rng.Intn(4) {
			case 3:
				a, b := randExt(), randExt()
				id2 := b.id()
				if rng.Intn(2) == 0 {
					id2 = malformed(id2)
				}
				do("extreset", a.id(), id2)
			case 0:
				h, v := randZoom(), randZoom()
				val := []int64{-1, 36, 37, -5, 1 << 40, 0, 35, int64(rng.Intn(36)), int64(rng.Intn(36))}[rng.Intn(9)]
				do("tileset", s(h), s(randIdx(h)), s(randIdx(h)), s(v), s(int64(rng.Intn(2001)-1000)), s(int64(rng.Intn(2))), s(val))
			case 1:
				lon, lat, alt := rng.Float64()*360-180, rng.Float64()*170-85, (rng.Float64()*2-1)*1e4
				which := int64(rng.Intn(2))
				var val float64
				if which == 0 {
					val = []float64{180, -180, 180.0000001, -181, 1e300, rng.Float64()*360 - 180, rng.Float64()*400 - 200}[rng.Intn(7)]
				} else {
					val = []float64{85.0511287798, -85.0511287798, 85.05112877981, -85.0511287799, 86, -90, 1e300, rng.Float64()*170 - 85, rng.Float64()*200 - 100}[rng.Intn(9)]
				}
				do("ptset", fbits(lon), fbits(lat), fbits(alt), s(which), fbits(val))
			default:
				ax := [3]float64{rng.NormFloat64(), rng.NormFloat64(), rng.NormFloat64()}
				if rng.Intn(4) == 0 {
					ax = [3]float64{0, 0, float64(1 + rng.Intn(5))}
				}
				ang := (rng.Float64()*2 - 1) * 4 * math.Pi // negative angles and more than one turn
				switch rng.Intn(8) {
				case 0:
					ang = math.Pi
				case 1:
					ang = -math.Pi / 2
				case 2:
					ang = 3 * math.Pi
				}
				do("vaxis", fbits(ax[0]), fbits(ax[1]), fbits(ax[2]), fbits(ang))
			}
		}
	})
}
