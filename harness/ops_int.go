package main

import (
	"fmt"

	"github.com/trajectoryjp/spatial_id_go/v4/common/object"
	"github.com/trajectoryjp/spatial_id_go/v4/integrate"
	"github.com/trajectoryjp/spatial_id_go/v4/operated"
	"github.com/trajectoryjp/spatial_id_go/v4/shape"
	"github.com/trajectoryjp/spatial_id_go/v4/transform"
)

func s(v int64) string { return fmt.Sprint(v) }

// some IDs of a list replaced by malformed ones (probability p per list)
func maybeCorrupt(l []string, p float64) []string {
	if len(l) > 0 && rng.Float64() < p {
		i := rng.Intn(len(l))
		l[i] = malformed(l[i])
	}
	return l
}

func randShift(h int64) int64 {
	n := pow2(h)
	switch rng.Intn(8) {
	case 0:
		return 0
	case 1:
		return 1
	case 2:
		return -1
	case 3:
		return n
	case 4:
		return -n
	case 5:
		return rng.Int63n(8*n+1) - 4*n
	default:
		return int64(rng.Intn(9) - 4)
	}
}

func init() {
	// ---- operations (implementation side) ----
	op("shift", func(a []string) string {
		return operated.GetShiftingSpatialID(a[0], atoi(a[1]), atoi(a[2]), atoi(a[3]))
	})
	// two consecutive shifts; compared by the driver with the single shift by the sum
	op("shift2", func(a []string) string {
		return operated.GetShiftingSpatialID(operated.GetShiftingSpatialID(a[0], atoi(a[1]), atoi(a[2]), atoi(a[3])), atoi(a[4]), atoi(a[5]), atoi(a[6]))
	})
	op("n6", func(a []string) string { return join(operated.Get6spatialIdsAdjacentToFaces(a[0])) })
	op("n8", func(a []string) string { return join(operated.Get8spatialIdsAroundHorizontal(a[0])) })
	op("n26", func(a []string) string { return join(operated.Get26spatialIdsAroundVoxel(a[0])) })
	op("nN", func(a []string) string {
		return setOrErr(operated.GetNspatialIdsAroundVoxcels(split(a[0]), atoi(a[1]), atoi(a[2])))
	})
	op("chgExt", func(a []string) string {
		l, err := integrate.ChangeExtendedSpatialIdsZoom(split(a[0]), atoi(a[1]), atoi(a[2]))
		return setOrErrZ(l, err, 0, 35, atoi(a[1]), atoi(a[2]))
	})
	// chgbig: two related IDs refined far enough that the result has at least 65536 elements; the answer is summarised as
	// "<length>:<number of distinct IDs>" (a result is de-duplicated as a whole, however long it is)
	op("chgbig", func(a []string) string {
		r, err := integrate.ChangeExtendedSpatialIdsZoom([]string{a[0], a[1]}, atoi(a[2]), atoi(a[3]))
		if err != nil {
			return "ERR"
		}
		m := make(map[string]struct{}, len(r))
		for _, id := range r {
			m[id] = struct{}{}
		}
		return fmt.Sprintf("%d:%d", len(r), len(m))
	})
	op("chgSp", func(a []string) string {
		l, err := integrate.ChangeSpatialIdsZoom(split(a[0]), atoi(a[1]))
		return setOrErrZ(l, err, 0, 35, atoi(a[1]))
	})
	op("hz", func(a []string) string {
		return join(integrate.HorizontalZoom(atoi(a[0]), atoi(a[1]), atoi(a[2]), atoi(a[3])))
	})
	op("vz", func(a []string) string { return join(integrate.VerticalZoom(atoi(a[0]), atoi(a[1]), atoi(a[2]))) })
	op("hzmm", func(a []string) string {
		p, q, r, t := integrate.HorizontalZoomMinMax(atoi(a[0]), atoi(a[1]), atoi(a[2]), atoi(a[3]))
		return i64s([]int64{p, q, r, t})
	})
	op("sp2ext", func(a []string) string { return seqOrErr(shape.ConvertSpatialIdsToExtendedSpatialIds(split(a[0]))) })
	op("ext2sp", func(a []string) string { return seqOrErr(shape.ConvertExtendedSpatialIdsToSpatialIds(split(a[0]))) })
	op("expand", func(a []string) string {
		o, err := object.NewExtendedSpatialID(a[0])
		if err != nil {
			return "BADARG"
		}
		return join(transform.ConvertExtendedSpatialIDToSpatialIDs(o))
	})
	op("voxid", func(a []string) string { return i64s(transform.GetVoxelIDfromSpatialID(a[0])) })
	// parse an extended ID into an object and print it again: FieldParams and ID
	op("parse", func(a []string) string {
		o, err := object.NewExtendedSpatialID(a[0])
		if err != nil {
			return "ERR"
		}
		return i64s(o.FieldParams()) + ";" + o.ID()
	})

	// ---- generators ----
	register("shift", func(n int) {
		for i := 0; i < n; i++ {
			e := randExt()
			id := e.id()
			if rng.Intn(25) == 0 {
				id = malformed(id)
			}
			dx, dy := randShift(e.h), randShift(e.h)
			var dv int64
			switch rng.Intn(4) {
			case 0:
				dv = int64(rng.Intn(9) - 4)
			case 1:
				dv = rng.Int63n(1<<41) - (1 << 40)
			default:
				dv = rng.Int63n(4*pow2(e.v)+1) - 2*pow2(e.v)
			}
			do("shift", id, s(dx), s(dy), s(dv))
		}
	})
	register("shift2", func(n int) {
		for i := 0; i < n; i++ {
			e := randExt()
			do("shift2", e.id(), s(randShift(e.h)), s(randShift(e.h)), s(int64(rng.Intn(2001)-1000)),
				s(randShift(e.h)), s(randShift(e.h)), s(int64(rng.Intn(2001)-1000)))
		}
	})
	register("nbr", func(n int) {
		for i := 0; i < n; i++ {
			e := randExt()
			if rng.Intn(4) == 0 {
				e.h = int64(rng.Intn(3))
				e = clampExt(e)
			}
			id := e.id()
			if rng.Intn(30) == 0 {
				id = malformed(id)
			}
			do([]string{"n6", "n8", "n26"}[rng.Intn(3)], id)
		}
	})
	register("nN", func(n int) {
		for i := 0; i < n; i++ {
			var l []ext
			base := randExt()
			if rng.Intn(3) == 0 {
				base.h = int64(rng.Intn(4))
				base = clampExt(base)
			}
			l = append(l, base)
			k := rng.Intn(4)
			for j := 0; j < k; j++ { // adjacent voxels of the same zoom: overlapping neighbourhoods
				r := l[rng.Intn(len(l))]
				r.x += int64(rng.Intn(3) - 1)
				r.y += int64(rng.Intn(3) - 1)
				r.f += int64(rng.Intn(3) - 1)
				l = append(l, clampExt(r))
			}
			if rng.Intn(5) == 0 { // mixed zooms in one list: any relative of an element, in particular its twins (the same numbers
				// at another vertical or horizontal zoom are another voxel with its own neighbourhood)
				l = append(l, relative(l[rng.Intn(len(l))]))
			}
			if rng.Intn(6) == 0 { // a voxel of a grid that is narrower than the stencil (zoom 0 or 1), first or last in the list
				c := clampExt(ext{int64(rng.Intn(2)), int64(rng.Intn(2)), int64(rng.Intn(2)), zoomNear(base.v, 2, 2), base.f})
				if rng.Intn(2) == 0 {
					l = append(l, c)
				} else {
					l = append([]ext{c}, l...)
				}
			}
			idl := maybeCorrupt(ids(l), 0.04)
			if rng.Intn(25) == 0 { // the empty list (also together with negative layer counts)
				idl = nil
			}
			H, V := int64(rng.Intn(5)), int64(rng.Intn(5))
			if rng.Intn(20) == 0 {
				H = -int64(rng.Intn(3)) - 1
			}
			if rng.Intn(20) == 0 {
				V = -int64(rng.Intn(3)) - 1
			}
			do("nN", join(idl), s(H), s(V))
		}
	})
	register("chgExt", func(n int) {
		for i := 0; i < n; i++ {
			l := randExtList(4)
			if rng.Intn(15) == 0 {
				// a ground-level voxel and, next to it in the list, a finer voxel of the same (or a descendant) tile JUST BELOW ground:
				// f = 0 at the coarse zoom does not contain f = -1 … -(2^d - 1) at the finer one (floor, not truncation)
				a := randExt()
				a.f = 0
				if a.v < 33 && a.h < 34 {
					d := int64(1 + rng.Intn(2))
					dh := int64(rng.Intn(2))
					b := ext{a.h + dh, a.x<<uint(dh) + int64(rng.Intn(1<<uint(dh))), a.y<<uint(dh) + int64(rng.Intn(1<<uint(dh))), a.v + d, -1 - int64(rng.Intn(1<<uint(d)-1+1))%(1<<uint(d))}
					if b.f <= -(int64(1) << uint(d)) {
						b.f = -1
					}
					l = []ext{a, b}
					if rng.Intn(3) == 0 {
						l = []ext{b, a}
					}
				}
			}
			// target zooms: bounded refinement (≤ +3 horizontally, ≤ +5 vertically) relative to the coarsest input
			minH, minV := int64(35), int64(35)
			for _, e := range l {
				if e.h < minH {
					minH = e.h
				}
				if e.v < minV {
					minV = e.v
				}
			}
			var H, V int64
			if rng.Intn(3) == 0 {
				H = int64(rng.Intn(int(minH) + 1))
			} else {
				H = zoomNear(minH, 3, 3)
			}
			if rng.Intn(3) == 0 {
				V = int64(rng.Intn(int(minV) + 1))
			} else {
				V = zoomNear(minV, 4, 5)
			}
			switch rng.Intn(40) {
			case 0:
				H = 36 + int64(rng.Intn(3))
			case 1:
				V = -1 - int64(rng.Intn(3))
			}
			idl := maybeCorrupt(ids(l), 0.04)
			do("chgExt", join(idl), s(H), s(V))
		}
	})
	register("chgbig", func(n int) {
		for i := 0; i < n; i++ {
			h, v := int64(rng.Intn(28)), int64(rng.Intn(30))
			e := randExtAt(h, v)
			dh, dv := int64(6), int64(4) // 4^6 * 2^4 = 65536 results per input
			if rng.Intn(2) == 0 {
				dh, dv = 5, 6
			}
			var o ext
			switch rng.Intn(3) {
			case 0:
				o = e // repeated
			case 1: // a descendant: its results are a subset of the first element's
				o = ext{h + 1, e.x<<1 + int64(rng.Intn(2)), e.y<<1 + int64(rng.Intn(2)), v + 1, e.f<<1 + int64(rng.Intn(2))}
			default: // a sibling: disjoint
				o = e
				o.x ^= 1
			}
			if h == 0 && o.x != e.x {
				o = e
			}
			ids := []string{e.id(), o.id()}
			if rng.Intn(2) == 0 {
				ids[0], ids[1] = ids[1], ids[0]
			}
			do("chgbig", ids[0], ids[1], s(h+dh), s(v+dv))
		}
	})
	register("chgSp", func(n int) {
		for i := 0; i < n; i++ {
			k := 1 + rng.Intn(3)
			var l []ext
			minZ := int64(35)
			for j := 0; j < k; j++ {
				var e ext
				if j == 0 || rng.Intn(2) == 0 {
					e = randSp()
				} else {
					b := l[rng.Intn(len(l))]
					d := int64(rng.Intn(3))
					if d > b.h {
						d = b.h
					}
					e = ext{b.h - d, b.x >> uint(d), b.y >> uint(d), b.h - d, b.f >> uint(d)}
				}
				if e.h < minZ {
					minZ = e.h
				}
				l = append(l, e)
			}
			Z := zoomNear(minZ, 4, 2)
			if rng.Intn(40) == 0 {
				Z = 36
			}
			idl := maybeCorrupt(spids(l), 0.04)
			do("chgSp", join(idl), s(Z))
		}
	})
	register("axis", func(n int) {
		for i := 0; i < n; i++ {
			e := randExt()
			switch rng.Intn(3) {
			case 0:
				do("hz", s(e.h), s(e.x), s(e.y), s(zoomNear(e.h, 6, 3)))
			case 1:
				do("vz", s(e.v), s(e.f), s(zoomNear(e.v, 8, 6)))
			default:
				do("hzmm", s(e.h), s(e.x), s(e.y), s(randZoom()))
			}
		}
	})
	// every ordered zoom pair × boundary indices of both signs (C03 boundary lattice)
	register("axisLattice", func(n int) {
		for zi := int64(0); zi <= 35; zi++ {
			for zo := int64(0); zo <= 35; zo++ {
				m := pow2(zi)
				for _, f := range []int64{-m, -m + 1, -3, -2, -1, 0, 1, 2, m - 1, -(m / 2), m/2 - 1, -(m / 2) - 1} {
					if f < -m || f > m-1 {
						continue
					}
					if zo-zi <= 10 {
						do("vz", s(zi), s(f), s(zo))
					}
				}
				for _, x := range []int64{0, 1, 2, 3, m - 1, m - 2, m / 2, m/2 - 1} {
					if x < 0 || x > m-1 {
						continue
					}
					y := m - 1 - x
					do("hzmm", s(zi), s(x), s(y), s(zo))
					if zo-zi <= 4 {
						do("hz", s(zi), s(x), s(y), s(zo))
					}
				}
			}
		}
	})
	register("notation", func(n int) {
		for i := 0; i < n; i++ {
			switch rng.Intn(5) {
			case 0:
				k := rng.Intn(4)
				l := []string{}
				for j := 0; j < k; j++ {
					e := randExt()
					l = append(l, fmt.Sprintf("%d/%d/%d/%d", e.v, e.f, e.x, e.y))
				}
				do("sp2ext", join(maybeCorrupt(l, 0.15)))
			case 1:
				k := rng.Intn(4)
				l := []string{}
				for j := 0; j < k; j++ {
					l = append(l, randExt().id())
				}
				do("ext2sp", join(maybeCorrupt(l, 0.15)))
			case 2:
				e := randExt()
				// bounded expansion
				if e.v > e.h+3 {
					e.v = e.h + int64(rng.Intn(4))
					e = clampExt(e)
				}
				if e.h > e.v+6 {
					e.h = e.v + int64(rng.Intn(7))
					e = clampExt(e)
				}
				do("expand", e.id())
			case 3:
				id := randExt().id()
				if rng.Intn(4) == 0 {
					id = malformed(id)
				}
				do("parse", id)
			default:
				id := randExt().id()
				if rng.Intn(5) == 0 {
					id = malformed(id)
				}
				do("voxid", id)
			}
		}
	})
}
