package main

import (
	"fmt"
	"strings"

	"github.com/trajectoryjp/spatial_id_go/v4/common/object"
	"github.com/trajectoryjp/spatial_id_go/v4/transform"
)

func pairOrErr(a, b int64, err error) string {
	if err != nil {
		return "ERR"
	}
	return fmt.Sprintf("%d,%d", a, b)
}

func intOrErr(a int64, err error) string {
	if err != nil {
		return "ERR"
	}
	return fmt.Sprint(a)
}

// base offsets: zero, powers of two, odd, negative, the documented 2^24
func randOffset() int64 {
	switch rng.Intn(10) {
	case 0, 1:
		return 0
	case 2:
		return 1 << 24
	case 3:
		return int64(1) << uint(rng.Intn(26))
	case 4:
		return -(int64(1) << uint(rng.Intn(26)))
	case 5:
		return int64(rng.Intn(17) - 8)
	case 6:
		return int64(2*rng.Intn(1000) + 1)
	default:
		return rng.Int63n(1<<26) - (1 << 25)
	}
}

// a source index for zoom z, sometimes just outside the valid range
func randFOut(z int64) int64 {
	n := pow2(z)
	switch rng.Intn(20) {
	case 0:
		return n
	case 1:
		return -n - 1
	default:
		return randF(z)
	}
}

func parseTiles(s string) ([]*object.TileXYZ, error) {
	var ts []*object.TileXYZ
	for _, t := range split(s) {
		f := strings.Split(t, "/")
		tile, err := object.NewTileXYZ(atoi(f[0]), atoi(f[1]), atoi(f[2]), atoi(f[3]), atoi(f[4]))
		if err != nil {
			return nil, err
		}
		ts = append(ts, tile)
	}
	return ts, nil
}

func init() {
	op("z2k", func(a []string) string {
		return pairOrErr(transform.ConvertZToMinMaxAltitudekey(atoi(a[0]), atoi(a[1]), atoi(a[2]), atoi(a[3]), atoi(a[4])))
	})
	op("k2z", func(a []string) string {
		return pairOrErr(transform.ConvertAltitudekeyToMinMaxZ(atoi(a[0]), atoi(a[1]), atoi(a[2]), atoi(a[3]), atoi(a[4])))
	})
	op("z2kmin", func(a []string) string {
		return intOrErr(transform.VerifConvertZToMinAltitudekey(atoi(a[0]), atoi(a[1]), atoi(a[2]), atoi(a[3]), atoi(a[4])))
	})
	op("z2kmax", func(a []string) string {
		return intOrErr(transform.VerifConvertZToMaxAltitudekey(atoi(a[0]), atoi(a[1]), atoi(a[2]), atoi(a[3]), atoi(a[4])))
	})
	op("validx", func(a []string) string {
		return fmt.Sprint(transform.VerifValidateIndexExists(atoi(a[0]), atoi(a[1]), a[2] == "true"))
	})
	op("tile2ext", func(a []string) string {
		ts, err := parseTiles(a[0])
		if err != nil {
			return "ERR"
		}
		r, err := transform.ConvertTileXYZsToExtendedSpatialIDs(ts, atoi(a[1]), atoi(a[2]), atoi(a[3]))
		if err != nil {
			return "ERR"
		}
		l := make([]string, len(r))
		for i := range r {
			l[i] = r[i].ID()
		}
		return sortedJoin(l)
	})
	op("tile2sp", func(a []string) string {
		ts, err := parseTiles(a[0])
		if err != nil {
			return "ERR"
		}
		return setOrErr(transform.ConvertTileXYZsToSpatialIDs(ts, atoi(a[1]), atoi(a[2]), atoi(a[3])))
	})

	register("altkey", func(n int) {
		for i := 0; i < n; i++ {
			zi, zo, E := randZoom(), randZoom(), randZoom()
			O := randOffset()
			switch rng.Intn(6) {
			case 0, 1:
				do("z2k", s(randFOut(zi)), s(zi), s(zo), s(E), s(O))
			case 2:
				// keys are non-negative: [0, 2^zk)
				k := randIdx(zi)
				if rng.Intn(20) == 0 {
					k = pow2(zi)
				} else if rng.Intn(20) == 0 {
					k = -1
				}
				do("k2z", s(k), s(zi), s(zo), s(E), s(O))
			case 3:
				// a key and a scale chosen so that the altitude is near the f range: offset near 2^(E-1)… exercise non-error paths
				E2 := int64(20 + rng.Intn(12))
				zk := zoomNear(E2, 6, 4)
				k := randIdx(zk)
				off := int64(0)
				if zk > 0 {
					off = pow2(E2) / 2
					if rng.Intn(3) == 0 {
						off += int64(rng.Intn(9) - 4)
					}
				}
				do("k2z", s(k), s(zk), s(zoomNear(25, 8, 6)), s(E2), s(off))
			case 4:
				// source voxel near ground with offset 2^24-like scale: mostly successful conversions
				f := randF(zi)
				if zi > 3 {
					f = int64(rng.Intn(2001) - 1000)
				}
				E2 := int64(20 + rng.Intn(12))
				do("z2k", s(f), s(zi), s(zoomNear(E2, 6, 4)), s(E2), s(pow2(E2)/2+int64(rng.Intn(9)-4)))
			default:
				f := randFOut(zi)
				if rng.Intn(2) == 0 {
					do("z2kmin", s(f), s(zi), s(zo), s(E), s(O))
				} else {
					do("z2kmax", s(f), s(zi), s(zo), s(E), s(O))
				}
			}
		}
	})
	// exhaustive lattice over zooms × offsets × boundary indices, both directions
	register("altkeyLattice", func(n int) {
		zs := []int64{0, 1, 2, 3, 24, 25, 26, 27, 35}
		es := []int64{0, 1, 3, 24, 25, 26, 28, 35}
		offs := []int64{0, 1, 2, 3, 5, 8, -1, -3, -8, 1 << 24, 12345}
		for _, zi := range zs {
			for _, zo := range zs {
				for _, E := range es {
					for _, O := range offs {
						m := pow2(zi)
						for _, f := range []int64{-m, -m + 1, -3, -2, -1, 0, 1, 2, 3, m - 2, m - 1, m / 2, -(m / 2), m, -m - 1} {
							do("z2k", s(f), s(zi), s(zo), s(E), s(O))
							if f >= -1 {
								do("k2z", s(f), s(zi), s(zo), s(E), s(O))
							}
						}
					}
				}
			}
		}
	})
	register("tiles", func(n int) {
		for i := 0; i < n; i++ {
			if rng.Intn(20) == 0 {
				// every tile at horizontal zoom 0 (or every tile at the same zoom), with a requested vertical zoom outside 0..35: an
				// error for the whole call whatever the tiles are
				h := int64(0)
				if rng.Intn(3) == 0 {
					h = int64(rng.Intn(3))
				}
				zk := int64(20 + rng.Intn(6))
				var ts []string
				for j := 1 + rng.Intn(3); j > 0; j-- {
					ts = append(ts, fmt.Sprintf("%d/%d/%d/%d/%d", h, randIdx(h), randIdx(h), zk, randIdx(zk)))
				}
				outV := []int64{36, 36, 37, 40, -1, -2, zk, 0}[rng.Intn(8)] // (valid ones without a large expansion)
				do("tile2ext", join(ts), "25", "0", s(outV))
				continue
			}
			if rng.Intn(10) == 0 {
				// the plain altitude scale (base exponent 25, offset 0) with the tiles already at the output zoom: the conversion is
				// the identity on VALID keys — and still an error, for the whole call, on a key outside 0 .. 2^zoom-1
				zk := int64(rng.Intn(26))
				h := randZoom()
				name := "tile2ext"
				if rng.Intn(3) == 0 {
					name = "tile2sp"
					h = zoomNear(zk, 3, 6)
				}
				var ts []string
				for j := 1 + rng.Intn(3); j > 0; j-- {
					z := randIdx(zk)
					if rng.Intn(3) == 0 {
						z = []int64{-1, pow2(zk), pow2(zk) + 5, -3, 5 * pow2(zk)}[rng.Intn(5)]
					}
					ts = append(ts, fmt.Sprintf("%d/%d/%d/%d/%d", h, randIdx(h), randIdx(h), zk, z))
				}
				do(name, join(ts), "25", "0", s(zk))
				continue
			}
			E := int64(20 + rng.Intn(12))
			off := pow2(E)/2 + int64(rng.Intn(9)-4)
			if rng.Intn(4) == 0 {
				off = randOffset()
			}
			outV := int64(18 + rng.Intn(15))
			name := "tile2ext"
			if rng.Intn(3) == 0 {
				name = "tile2sp"
			}
			k := 1 + rng.Intn(3)
			var ts []string
			var prev [5]int64
			for j := 0; j < k; j++ {
				h := randZoom()
				if name == "tile2sp" { // bounded expansion: |h - outV| small
					h = zoomNear(outV, 3, 6)
				}
				// bounded refinement of one key into f cells: 2^(E-zk+outV-25) <= 64
				lo, hi := E+outV-31, E+outV-25+4
				if lo < 0 {
					lo = 0
				}
				if hi > 35 {
					hi = 35
				}
				if lo > hi {
					lo = hi
				}
				zk := lo + int64(rng.Intn(int(hi-lo+1)))
				t := [5]int64{h, randIdx(h), randIdx(h), zk, randIdx(zk)}
				if zk > 4 && rng.Intn(2) == 0 { // near the middle of the key range: altitude near 0
					t[4] = pow2(zk)/2 + int64(rng.Intn(41)-20)
				}
				if j > 0 && rng.Intn(2) == 0 { // same footprint, neighbouring or identical key: overlapping ranges
					t = prev
					t[4] += int64(rng.Intn(3) - 1)
					// results that agree in all but ONE component are different voxels: same x, y, key at another
					// horizontal zoom; same zoom and key with x and y exchanged or one of them moved
					switch rng.Intn(8) {
					case 0:
						if nh := t[0] + int64(rng.Intn(3)-1); nh >= 0 && nh <= 35 && t[1] < pow2(nh) && t[2] < pow2(nh) &&
							(name != "tile2sp" || (nh >= outV-3 && nh <= outV+6)) {
							t[0] = nh
						}
					case 1:
						t[1], t[2] = t[2], t[1]
					case 2:
						if t[1]+1 < pow2(t[0]) {
							t[1]++
						}
					case 3, 4: // (vZoom, z) and (vZoom+1, z - 2^32) are different tiles that agree in vZoom*2^32 + z
						t = prev
						if t[4] >= 1<<32 && t[3] < 35 {
							t[3]++
							t[4] -= 1 << 32
						} else if t[3] > 32 && t[4]+(1<<32) < pow2(t[3]-1) {
							t[3]--
							t[4] += 1 << 32
						}
						t[1], t[2] = randIdx(t[0]), randIdx(t[0])
					}
				}
				switch rng.Intn(40) {
				case 0:
					t[0] = 36
				case 1:
					t[3] = -1
				case 2:
					t[4] = pow2(zk) // key out of range: whole call fails
				}
				prev = t
				ts = append(ts, fmt.Sprintf("%d/%d/%d/%d/%d", t[0], t[1], t[2], t[3], t[4]))
			}
			if rng.Intn(40) == 0 {
				outV = 36
			}
			do(name, join(ts), s(E), s(off), s(outV))
		}
	})
}
