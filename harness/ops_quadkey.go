package main

import (
	"fmt"
	"sort"
	"strconv"
	"strings"

	"github.com/trajectoryjp/spatial_id_go/v4/common/object"
	"github.com/trajectoryjp/spatial_id_go/v4/transform"
)

func fl(x float64) string { return strconv.FormatFloat(x, 'g', -1, 64) }

func pairsStr(l [][2]int64) string {
	c := append([][2]int64(nil), l...)
	sort.Slice(c, func(i, j int) bool {
		if c[i][0] != c[j][0] {
			return c[i][0] < c[j][0]
		}
		return c[i][1] < c[j][1]
	})
	s := make([]string, len(c))
	for i, p := range c {
		s[i] = fmt.Sprintf("%d:%d", p[0], p[1])
	}
	return strings.Join(s, " ")
}

func init() {
	op("qenc", func(a []string) string {
		return fmt.Sprint(transform.VerifConvertHorizontalIDToQuadkey(a[0] + "/" + a[1] + "/" + a[2]))
	})
	op("qdec", func(a []string) string {
		x, y := transform.VerifConvertQuadkeyToHorizontalID(atoi(a[0]), atoi(a[1]))
		return fmt.Sprintf("%d,%d", x, y)
	})
	op("qv2ext", func(a []string) string {
		var l []*object.QuadkeyAndVerticalID
		badElem := false // a zoom of an ELEMENT outside its range is an invalid zoom too: the error comes with an empty list
		for _, it := range split(a[0]) {
			f := strings.Split(it, ":")
			l = append(l, object.NewQuadkeyAndVerticalID(atoi(f[0]), atoi(f[1]), atoi(f[2]), atoi(f[3]), 0, 0))
			if atoi(f[0]) < 1 || atoi(f[0]) > 31 || atoi(f[2]) < 0 || atoi(f[2]) > 35 {
				badElem = true
			}
		}
		r, err := transform.ConvertQuadkeysAndVerticalIDsToExtendedSpatialIDs(l, atoi(a[1]), atoi(a[2]))
		if err != nil && len(r) > 0 && badElem {
			return "ERR-NONEMPTY-ON-ZOOM-ERROR"
		}
		return setOrErrZ(r, err, 0, 35, atoi(a[1]), atoi(a[2]))
	})
	// qv2sp: the spatial-ID variant (one output zoom for both axes)
	op("qv2sp", func(a []string) string {
		var l []*object.QuadkeyAndVerticalID
		for _, it := range split(a[0]) {
			f := strings.Split(it, ":")
			l = append(l, object.NewQuadkeyAndVerticalID(atoi(f[0]), atoi(f[1]), atoi(f[2]), atoi(f[3]), 0, 0))
		}
		r, err := transform.ConvertQuadkeysAndVerticalIDsToSpatialIDs(l, atoi(a[1]))
		return setOrErrZ(r, err, 0, 35, atoi(a[1]))
	})
	// index form with equal NON-ZERO heights (max == min selects the index form whatever the common value is)
	op("qv2exte", func(a []string) string {
		var l []*object.QuadkeyAndVerticalID
		hgt := atof(a[3])
		for _, it := range split(a[0]) {
			f := strings.Split(it, ":")
			l = append(l, object.NewQuadkeyAndVerticalID(atoi(f[0]), atoi(f[1]), atoi(f[2]), atoi(f[3]), hgt, hgt))
		}
		return setOrErr(transform.ConvertQuadkeysAndVerticalIDsToExtendedSpatialIDs(l, atoi(a[1]), atoi(a[2])))
	})
	op("e2qve", func(a []string) string {
		hgt := atof(a[3])
		r, err := transform.ConvertExtendedSpatialIDsToQuadkeysAndVerticalIDs(split(a[0]), atoi(a[1]), atoi(a[2]), hgt, hgt)
		if err != nil {
			return "ERR"
		}
		if len(r) == 0 {
			return "[]"
		}
		gs := make([]string, len(r))
		for i, g := range r {
			ok := "H"
			if g.MaxHeight() != hgt || g.MinHeight() != hgt {
				ok = "HEIGHTS-NOT-ECHOED"
			}
			gs[i] = fmt.Sprintf("%d/%d/%s|%s", g.QuadkeyZoom(), g.VerticalZoom(), ok, pairsStr(g.InnerIDList()))
		}
		return strings.Join(gs, ";")
	})
	op("e2qv", func(a []string) string {
		r, err := transform.ConvertExtendedSpatialIDsToQuadkeysAndVerticalIDs(split(a[0]), atoi(a[1]), atoi(a[2]), 0, 0)
		if err != nil {
			return "ERR"
		}
		if len(r) == 0 {
			return "[]"
		}
		gs := make([]string, len(r))
		for i, g := range r {
			gs[i] = fmt.Sprintf("%d/%d/%s/%s|%s", g.QuadkeyZoom(), g.VerticalZoom(), fl(g.MaxHeight()), fl(g.MinHeight()), pairsStr(g.InnerIDList()))
		}
		return strings.Join(gs, ";")
	})
	op("e2qa", func(a []string) string {
		r, err := transform.ConvertExtendedSpatialIDsToQuadkeysAndAltitudekeys(split(a[0]), atoi(a[1]), atoi(a[2]), atoi(a[3]), atoi(a[4]))
		if err != nil {
			return "ERR"
		}
		if len(r) == 0 {
			return "[]"
		}
		gs := make([]string, len(r))
		for i, g := range r {
			gs[i] = fmt.Sprintf("%d/%d/%d/%d|%s", g.QuadkeyZoom(), g.AltitudekeyZoom(), g.ZBaseExponent(), g.ZBaseOffset(), pairsStr(g.InnerIDList()))
		}
		return strings.Join(gs, ";")
	})

	// round trip on the implementation: extended IDs -> (quadkey, vertical index) groups at (a[1], a[2]) -> extended IDs at
	// (a[3], a[4]); the driver compares with the two-step zoom change of the C03 model
	op("qvrt", func(a []string) string {
		r, err := transform.ConvertExtendedSpatialIDsToQuadkeysAndVerticalIDs(split(a[0]), atoi(a[1]), atoi(a[2]), 0, 0)
		if err != nil {
			return "ERR"
		}
		var l []*object.QuadkeyAndVerticalID
		for _, g := range r {
			for _, p := range g.InnerIDList() {
				l = append(l, object.NewQuadkeyAndVerticalID(g.QuadkeyZoom(), p[0], g.VerticalZoom(), p[1], g.MaxHeight(), g.MinHeight()))
			}
		}
		return setOrErr(transform.ConvertQuadkeysAndVerticalIDsToExtendedSpatialIDs(l, atoi(a[3]), atoi(a[4])))
	})

	qzoom := func() int64 {
		switch rng.Intn(6) {
		case 0:
			return 1
		case 1:
			return 31
		default:
			return 1 + int64(rng.Intn(31))
		}
	}
	register("quadkey", func(n int) {
		for i := 0; i < n; i++ {
			z := qzoom()
			switch rng.Intn(5) {
			case 0, 1:
				x, y := randIdx(z), randIdx(z)
				if rng.Intn(4) == 0 { // high bits zero: quadkeys with leading 0 digits
					x >>= uint(rng.Intn(int(z) + 1))
					y >>= uint(rng.Intn(int(z) + 1))
				}
				if rng.Intn(40) == 0 { // index beyond the zoom: encoder guard i < zoom
					x += pow2(z)
				}
				do("qenc", s(z), s(x), s(y))
			case 2, 3:
				k := rng.Int63n(int64(1) << uint(2*z))
				if rng.Intn(4) == 0 {
					k >>= uint(2 * rng.Intn(int(z)+1))
				}
				if rng.Intn(30) == 0 { // key with more digits than the zoom: truncated walk
					k = k*4 + int64(rng.Intn(4))
				}
				do("qdec", s(k), s(z))
			default: // round trip composed on the implementation: dec(enc(x,y)) printed as a qdec case
				x, y := randIdx(z), randIdx(z)
				k := transform.VerifConvertHorizontalIDToQuadkey(fmt.Sprintf("%d/%d/%d", z, x, y))
				do("qdec", s(k), s(z))
			}
		}
	})
	register("quadkeyExh", func(n int) { // exhaustive for zooms 1..5
		for z := int64(1); z <= 5; z++ {
			for x := int64(0); x < pow2(z); x++ {
				for y := int64(0); y < pow2(z); y++ {
					do("qenc", s(z), s(x), s(y))
				}
			}
			for k := int64(0); k < int64(1)<<uint(2*z); k++ {
				do("qdec", s(k), s(z))
			}
		}
	})
	register("qvrt", func(n int) {
		for i := 0; i < n; i++ {
			var l []ext
			h := 1 + int64(rng.Intn(31))
			v := randZoom()
			k := 1 + rng.Intn(3)
			for j := 0; j < k; j++ { // all at the same zooms so that "same zoom" round trips are meaningful
				if j > 0 && rng.Intn(2) == 0 {
					r := l[rng.Intn(len(l))]
					r.x += int64(rng.Intn(3) - 1)
					r.f += int64(rng.Intn(3) - 1)
					l = append(l, clampExt(r))
				} else {
					l = append(l, randExtAt(h, v))
				}
			}
			outH, outV, backH, backV := h, v, h, v
			if rng.Intn(2) == 0 { // different output zooms: equals the zoom change of C03 on each axis
				outH = zoomNear(h, 3, 2)
				if outH < 1 {
					outH = 1
				}
				if outH > 31 {
					outH = 31
				}
				outV = zoomNear(v, 4, 3)
				backH = zoomNear(outH, 3, 2)
				backV = zoomNear(outV, 4, 3)
			}
			do("qvrt", join(ids(l)), s(outH), s(outV), s(backH), s(backV))
		}
	})
	register("qv", func(n int) {
		for i := 0; i < n; i++ {
			switch rng.Intn(3) {
			case 0: // pairs -> extended IDs
				k := 1 + rng.Intn(3)
				var l []string
				qz := qzoom()
				outH := zoomNear(qz, 4, 2)
				vz := randZoom()
				outV := zoomNear(vz, 5, 4)
				for j := 0; j < k; j++ {
					q := rng.Int63n(int64(1) << uint(2*qz))
					vi := randF(vz)
					zq, zv := qz, vz
					switch rng.Intn(40) {
					case 0:
						zq = 0
					case 1:
						zq = 32
					case 2:
						zv = 36
					case 3: // beyond the largest key the decoder accepts
						q = 4611686018427388064 + 1 + int64(rng.Intn(3))
					case 4: // the largest keys of zoom 31 (leading base-4 digits 2 and 3)
						if qz == 31 {
							q = int64(1)<<62 - 1 - int64(rng.Intn(1000))
						}
					}
					if rng.Intn(6) == 0 { // the very last keys of a zoom: 4^zoom - 1 - (0..300) — at zoom 31 they lie within one
						// float64 spacing (512) of 2^62, every one of them a valid key
						q = int64(1)<<uint(2*qz) - 1 - int64(rng.Intn(300))
						if q < 0 {
							q = 0
						}
					}
					if qz == 31 && rng.Intn(3) == 0 { // keys of the upper half of the zoom-31 grid
						q = int64(1)<<61 + rng.Int63n(int64(1)<<61)
						if rng.Intn(2) == 0 {
							q += int64(1) << 60
						}
					}
					l = append(l, fmt.Sprintf("%d:%d:%d:%d", zq, q, zv, vi))
					if rng.Intn(6) == 0 { // the same key NUMBER at a neighbouring quadkey zoom is a different tile
						z2 := zq + int64(1-2*rng.Intn(2))
						if z2 >= 1 && z2 <= 31 && q < int64(1)<<uint(2*z2) {
							l = append(l, fmt.Sprintf("%d:%d:%d:%d", z2, q, zv, vi))
						}
					}
					if rng.Intn(3) == 0 {
						l = append(l, l[len(l)-1])
					}
				}
				if rng.Intn(40) == 0 {
					outH = 36
				}
				if rng.Intn(25) == 0 { // an element whose quadkey zoom is outside 1..31 but a legal OUTPUT zoom (0, 32..35), asked for at
					// exactly its own zooms: still an error for the whole call
					zq := []int64{0, 0, 32, 33, 35}[rng.Intn(5)]
					zv := randZoom()
					if rng.Intn(3) == 0 {
						zv = zq
					}
					q := int64(rng.Intn(3000))
					if zq == 0 {
						q = int64(rng.Intn(2))
					}
					e := fmt.Sprintf("%d:%d:%d:%d", zq, q, zv, randF(zv))
					l = []string{e} // (alone: valid elements of other zooms would be expanded to zoom zq before the error)
					if rng.Intn(2) == 0 {
						l = append(l, fmt.Sprintf("%d:%d:%d:%d", zq, q+1, zv, randF(zv)))
					}
					outH, outV = zq, zv
					if zv == zq {
						do("qv2sp", join(l), s(zq))
					}
				}
				if rng.Intn(4) == 0 { // spatial-ID variant: one zoom, bounded expansion on both axes
					z := zoomNear(qz, 2, 1)
					if vz > z+4 || vz < z-5 {
						z = zoomNear(vz, 2, 1)
					}
					if (z-qz) <= 3 && (z-vz) <= 6 {
						do("qv2sp", join(l), s(z))
					}
				}
				if rng.Intn(5) == 0 {
					do("qv2exte", join(l), s(outH), s(outV), fbits([]float64{100, -3.5, 1e-9, 500}[rng.Intn(4)]))
				}
				do("qv2ext", join(l), s(outH), s(outV))
			case 1: // extended IDs -> quadkey/vertical groups
				l := randExtList(3)
				if rng.Intn(5) == 0 {
					// P, then an element inside P (it adds no new pair), then P's column again at another altitude — and shuffles
					// of the three: what is computed for one element must not leak into the next
					p0 := l[0]
					inner := p0
					if p0.h < 34 && p0.v < 34 {
						inner = ext{p0.h + 1, p0.x<<1 + int64(rng.Intn(2)), p0.y<<1 + int64(rng.Intn(2)), p0.v + 1, p0.f<<1 + int64(rng.Intn(2))}
					}
					other := clampExt(ext{p0.h, p0.x, p0.y, p0.v, p0.f + int64(1-2*rng.Intn(2))})
					l = []ext{p0, inner, other}
					if rng.Intn(3) == 0 {
						rng.Shuffle(len(l), func(i, j int) { l[i], l[j] = l[j], l[i] })
					}
				}
				var idl []string
				minH, minV := int64(35), int64(35)
				for _, e := range l {
					if e.h < minH {
						minH = e.h
					}
					if e.v < minV {
						minV = e.v
					}
				}
				outH := zoomNear(minH, 4, 2)
				if outH < 1 {
					outH = 1
				}
				if outH > 31 {
					outH = 31
				}
				outV := zoomNear(minV, 5, 4)
				switch rng.Intn(40) {
				case 0:
					outH = 0
				case 1:
					outH = 32
				case 2:
					outV = 36
				}
				if rng.Intn(5) == 0 { // the spatial-ID entry point (h = v)
					var sl []ext
					for _, e := range l {
						e.v = e.h
						sl = append(sl, clampExtF(e))
					}
					// bounded expansion: both output zooms near the (single) zoom of the spatial IDs
					sv := zoomNear(minH, 4, 3)
					do("s2qv", join(maybeCorrupt(spids(sl), 0.05)), s(outH), s(sv))
				}
				idl = zoomFieldOut(maybeCorrupt(ids(l), 0.05))
				if rng.Intn(5) == 0 {
					do("e2qve", join(idl), s(outH), s(outV), fbits([]float64{100, -3.5, 1e-9, 500}[rng.Intn(4)]))
				}
				do("e2qv", join(idl), s(outH), s(outV))
			default: // extended IDs -> quadkey/altitudekey groups
				l := randExtList(3)
				minH := int64(35)
				for i := range l {
					if l[i].h < minH {
						minH = l[i].h
					}
					// altitudes near ground so that conversions succeed
					if l[i].v > 3 {
						l[i].f = int64(rng.Intn(41) - 20)
					}
				}
				outQ := zoomNear(minH, 4, 2)
				if outQ < 1 {
					outQ = 1
				}
				if outQ > 31 {
					outQ = 31
				}
				E := int64(20 + rng.Intn(12))
				maxV := int64(0)
				for _, e := range l {
					if e.v > maxV {
						maxV = e.v
					}
				}
				// bounded key refinement: key cells not much thinner than the thinnest voxel
				outA := E + (25 - 0) - 25
				outA = zoomNear(E, 6, 3)
				off := pow2(E)/2 + int64(rng.Intn(9)-4)
				// keep ranges short: the coarsest voxel (lowest v) spans 2^(25-v) m = 2^(25-v+outA-E) keys
				minV := int64(35)
				for _, e := range l {
					if e.v < minV {
						minV = e.v
					}
				}
				if 25-minV+outA-E > 6 {
					outA = E + minV - 25 + int64(rng.Intn(7))
					if outA < 0 {
						outA = 0
					}
					if outA > 35 {
						outA = 35
					}
				}
				if 25-minV+outA-E > 8 {
					continue
				}
				idl := zoomFieldOut(maybeCorrupt(ids(l), 0.05))
				switch rng.Intn(40) {
				case 0:
					outQ = 0
				case 1:
					outQ = 32
				case 2:
					outA = 36
				case 3:
					outA = -1
				}
				do("e2qa", join(idl), s(outQ), s(outA), s(E), s(off))
			}
		}
	})
}
