package main

import (
	"strings"

	"github.com/trajectoryjp/spatial_id_go/v4/detector"
	"github.com/trajectoryjp/spatial_id_go/v4/integrate"
)

func init() {
	// zio: zoom an ID in to (H,V) and back out to its own zooms, on the implementation
	op("zio", func(a []string) string {
		e := strings.Split(a[0], "/")
		in, err := integrate.ChangeExtendedSpatialIdsZoom([]string{a[0]}, atoi(a[1]), atoi(a[2]))
		if err != nil {
			return "ERR"
		}
		return setOrErr(integrate.ChangeExtendedSpatialIdsZoom(in, atoi(e[0]), atoi(e[3])))
	})
	// mrgkids: merge the complete set of descendants of an ID at (H,V) back at its own zooms
	op("mrgkids", func(a []string) string {
		e := strings.Split(a[0], "/")
		in, err := integrate.ChangeExtendedSpatialIdsZoom([]string{a[0]}, atoi(a[1]), atoi(a[2]))
		if err != nil {
			return "ERR"
		}
		return setOrErr(integrate.MergeExtendedSpatialIds(in, atoi(e[0]), atoi(e[3])))
	})
	// ovkids: an ID overlaps each of its descendants and its ancestor, both argument orders
	op("ovkids", func(a []string) string {
		in, err := integrate.ChangeExtendedSpatialIdsZoom([]string{a[0]}, atoi(a[1]), atoi(a[2]))
		if err != nil {
			return "ERR"
		}
		for _, d := range in {
			r1, e1 := detector.CheckExtendedSpatialIdsOverlap(a[0], d)
			r2, e2 := detector.CheckExtendedSpatialIdsOverlap(d, a[0])
			if e1 != nil || e2 != nil || !r1 || !r2 {
				return "false:" + d
			}
		}
		return "true"
	})
	gen := func(name string) func(n int) {
		return func(n int) {
			for i := 0; i < n; i++ {
				e := randExt()
				H := zoomNear(e.h, 0, 2)
				V := zoomNear(e.v, 0, 3)
				if name == "ovkids" && rng.Intn(2) == 0 { // also towards ancestors
					H = zoomNear(e.h, 5, 0)
					V = zoomNear(e.v, 5, 0)
				}
				do(name, e.id(), s(H), s(V))
			}
		}
	}
	register("zio", gen("zio"))
	register("mrgkids", gen("mrgkids"))
	register("ovkids", gen("ovkids"))
}
