package main

import (
	"fmt"
	"math/rand"
	"os"
	"os/exec"
	"strings"
	"sync"
)

// runConcurrent: obtain the cases of the families with their sequential results, then execute all of them on g goroutines at once,
// every goroutine in its own order, on shared argument slices, and compare every result with the sequential one.
// Emits one case line:  conc <families> <cases> <goroutines> <OK | MISMATCH …>
func runConcurrent(fams string, n int, seed int64, g int) {
	// The cases and their sequential results are produced by a CHILD process (this binary in generation mode), so that this
	// process has executed no library code when the goroutines start: a lazily initialised package-level cache is then first
	// written under concurrency, where the race detector sees it.
	child := exec.Command(os.Args[0], "-fam", fams, "-n", fmt.Sprint(n), "-seed", fmt.Sprint(seed))
	child.Stderr = os.Stderr
	gen, err := child.Output()
	if err != nil {
		fmt.Fprintln(os.Stderr, "generation child failed:", err)
		os.Exit(3)
	}
	type cs struct {
		op   string
		args []string
		res  string
	}
	var cases []cs
	for _, line := range strings.Split(string(gen), "\n") {
		if line == "" {
			continue
		}
		f := strings.Split(line, "\t")
		if f[0] == "det" || len(f) < 2 {
			continue
		}
		for i := range f {
			f[i] = unesc(f[i])
		}
		cases = append(cases, cs{f[0], f[1 : len(f)-1], f[len(f)-1]})
	}
	shareSlices = true // argument slices and points are shared between the goroutines (caches guarded by mutexes)
	var wg sync.WaitGroup
	var mu sync.Mutex
	bad := ""
	for w := 0; w < g; w++ {
		wg.Add(1)
		go func(w int) {
			defer wg.Done()
			r := rand.New(rand.NewSource(seed*7919 + int64(w)))
			order := r.Perm(len(cases))
			for _, i := range order {
				c := cases[i]
				got := guard(func() string { return ops[c.op](c.args) })
				if got != c.res {
					mu.Lock()
					if bad == "" {
						bad = fmt.Sprintf("MISMATCH %s %s: alone %.80s concurrent %.80s", c.op, strings.Join(c.args, " "), c.res, got)
					}
					mu.Unlock()
				}
			}
		}(w)
	}
	wg.Wait()
	if m := pointsModified(); m != "" && bad == "" {
		bad = m // a shared argument object was written by the library
	}
	res := "OK"
	if bad != "" {
		res = bad
	}
	out.WriteString(fmt.Sprintf("conc\t%s\t%d\t%d\t%s\n", fams, len(cases), g, res))
}

func init() {
	op("conc", func(a []string) string { return "OK" }) // replay of a conc line re-runs nothing; the line itself is the record
}
