package main

import (
	"fmt"
	"math/rand"
	"strings"
	"sync"
)

// runConcurrent: generate the cases of the families sequentially, then execute all of them again on g goroutines at once,
// every goroutine in its own order, on shared argument slices, and compare every result with the sequential one.
// Emits one case line:  conc <families> <cases> <goroutines> <OK | MISMATCH …>
func runConcurrent(fams string, n int, seed int64, g int) {
	saved := out
	var sb strings.Builder
	bw := newBufWriter(&sb)
	out = bw
	for _, f := range strings.Split(fams, ",") {
		gen, ok := families[f]
		if !ok {
			panic("unknown family " + f)
		}
		h := int64(0)
		for _, c := range f {
			h = h*131 + int64(c)
		}
		rng = rand.New(rand.NewSource(seed*1000003 + h))
		gen(n)
	}
	bw.Flush()
	out = saved
	type cs struct {
		op   string
		args []string
		res  string
	}
	var cases []cs
	for _, line := range strings.Split(sb.String(), "\n") {
		if line == "" {
			continue
		}
		f := strings.Split(line, "\t")
		if f[0] == "det" {
			continue
		}
		cases = append(cases, cs{f[0], f[1 : len(f)-1], f[len(f)-1]})
	}
	// warm-up: fill the shared slice cache sequentially
	shareSlices = true
	for _, c := range cases {
		guard(func() string { return ops[c.op](c.args) })
	}
	cacheFrozen = true
	var wg sync.WaitGroup
	var mu sync.Mutex
	bad := ""
	for w := 0; w < g; w++ {
		wg.Add(1)
		go func(w int) {
			defer wg.Done()
			r := rand.New(rand.NewSource(seed*7919 + int64(w)))
			order := r.Perm(len(cases))
			for _, i := range order {
				c := cases[i]
				got := guard(func() string { return ops[c.op](c.args) })
				if got != c.res {
					mu.Lock()
					if bad == "" {
						bad = fmt.Sprintf("MISMATCH %s %s: alone %.80s concurrent %.80s", c.op, strings.Join(c.args, " "), c.res, got)
					}
					mu.Unlock()
				}
			}
		}(w)
	}
	wg.Wait()
	if m := pointsModified(); m != "" && bad == "" {
		bad = m // a shared argument object was written by the library
	}
	res := "OK"
	if bad != "" {
		res = bad
	}
	out.WriteString(fmt.Sprintf("conc\t%s\t%d\t%d\t%s\n", fams, len(cases), g, res))
}

func init() {
	op("conc", func(a []string) string { return "OK" }) // replay of a conc line re-runs nothing; the line itself is the record
}
