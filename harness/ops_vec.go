package main

// C20 (second part): the 3-D vector, point, line, matrix and quaternion helpers of common/spatial.
// Scalars travel as binary64 bit patterns; -0 is written as +0 (the software binary64 of the model has a single zero).

import (
	"math"
	"strings"

	"github.com/trajectoryjp/spatial_id_go/v4/common/spatial"
)

func cz(x float64) float64 {
	if x == 0 {
		return 0
	}
	return x
}

func parseVec(s string) spatial.Vector3 {
	f := strings.Split(s, ":")
	if len(f) != 3 {
		panic("harness: bad vector " + s)
	}
	return spatial.Vector3{X: atof(f[0]), Y: atof(f[1]), Z: atof(f[2])}
}

func parseMat(s string) spatial.Matrix3 {
	f := strings.Split(s, ":")
	if len(f) != 9 {
		panic("harness: bad matrix " + s)
	}
	var m spatial.Matrix3
	for i := 0; i < 9; i++ {
		m[i/3][i%3] = atof(f[i])
	}
	return m
}

func showVec(v spatial.Vector3) string {
	return fbits(cz(v.X)) + ":" + fbits(cz(v.Y)) + ":" + fbits(cz(v.Z))
}

func showMat(m spatial.Matrix3) string {
	var p []string
	for i := 0; i < 9; i++ {
		p = append(p, fbits(cz(m[i/3][i%3])))
	}
	return strings.Join(p, ":")
}

func init() {
	op("vadd", func(a []string) string { return showVec(parseVec(a[0]).Add(parseVec(a[1]))) })
	op("vsub", func(a []string) string { return showVec(parseVec(a[0]).Sub(parseVec(a[1]))) })
	op("vfrom", func(a []string) string {
		return showVec(spatial.NewVectorFromPoints(spatial.Point3(parseVec(a[0])), spatial.Point3(parseVec(a[1]))))
	})
	op("vtrans", func(a []string) string {
		return showVec(spatial.Vector3(spatial.Point3(parseVec(a[0])).Translate(parseVec(a[1]))))
	})
	op("vcross", func(a []string) string { return showVec(parseVec(a[0]).Cross(parseVec(a[1]))) })
	op("vdot", func(a []string) string { return fbits(cz(parseVec(a[0]).Dot(parseVec(a[1])))) })
	op("vscale", func(a []string) string { return showVec(parseVec(a[0]).Scale(atof(a[1]))) })
	op("vl1", func(a []string) string { return fbits(cz(parseVec(a[0]).L1Norm())) })
	op("vline", func(a []string) string {
		l := spatial.NewLineFromPoints(spatial.Point3(parseVec(a[0])), spatial.Point3(parseVec(a[1])))
		return showVec(spatial.Vector3(l.ToPoint(atof(a[2]))))
	})
	op("vlineid", func(a []string) string {
		l := spatial.NewLineFromPoints(spatial.Point3(parseVec(a[0])), spatial.Point3(parseVec(a[1])))
		return strings.Join([]string{showVec(spatial.Vector3(l.ToPoint(0))), showVec(spatial.Vector3(l.ToPoint(1))),
			showVec(spatial.Vector3(l.End())), showVec(spatial.Vector3(l.Start()))}, "|")
	})
	op("vmmul", func(a []string) string { return showMat(parseMat(a[0]).Mul(parseMat(a[1]))) })
	op("vmulvec", func(a []string) string { return showVec(parseMat(a[0]).MulVec(parseVec(a[1]))) })
	op("vmat", func(a []string) string {
		A, B, C, v := parseMat(a[0]), parseMat(a[1]), parseMat(a[2]), parseVec(a[3])
		return strings.Join([]string{showMat(A.Mul(B).Mul(C)), showMat(A.Mul(B.Mul(C))), showVec(A.Mul(B).MulVec(v)),
			showVec(A.MulVec(B.MulVec(v))), showMat(spatial.NewUnitMatrix3().Mul(A))}, "|")
	})
	pts3 := func(s string) []*spatial.Point3 {
		var l []*spatial.Point3
		if s == "[]" {
			return l
		}
		for _, it := range strings.Split(s, "|") {
			p := spatial.Point3(parseVec(it))
			l = append(l, &p)
		}
		return l
	}
	op("vmaxpt", func(a []string) string {
		p, err := spatial.MaxPoint(pts3(a[0]), parseVec(a[1]))
		if err != nil {
			return "ERR"
		}
		return showVec(spatial.Vector3(*p))
	})
	op("vminpt", func(a []string) string {
		p, err := spatial.MinPoint(pts3(a[0]), parseVec(a[1]))
		if err != nil {
			return "ERR"
		}
		return showVec(spatial.Vector3(*p))
	})
	op("vuniq", func(a []string) string {
		add := spatial.Point3(parseVec(a[1]))
		r := spatial.UniqueAppend(pts3(a[0]), &add, atof(a[2]))
		l := make([]string, len(r))
		for i, p := range r {
			l[i] = showVec(spatial.Vector3(*p))
		}
		return strings.Join(l, "|")
	})
	op("visclose", func(a []string) string {
		if spatial.Point3(parseVec(a[0])).IsClose(spatial.Point3(parseVec(a[1])), atof(a[2])) {
			return "true"
		}
		return "false"
	})
	op("vquat", func(a []string) string {
		q := spatial.RotateBetweenVector(parseVec(a[0]), parseVec(a[1]))
		return fbits(cz(q.W)) + ":" + fbits(cz(q.X)) + ":" + fbits(cz(q.Y)) + ":" + fbits(cz(q.Z))
	})
	op("vnum", func(a []string) string {
		u, v := parseVec(a[0]), parseVec(a[1])
		return strings.Join([]string{fbits(cz(u.Norm())), showVec(u.Unit()), fbits(cz(u.Cos(v))),
			fbits(cz(spatial.Point3(u).DistancePoint(spatial.Point3(v))))}, "|")
	})

	// moderate magnitudes: small integers, dyadic fractions, decimal-looking values, a few large and small ones, zeros
	scalar := func() float64 {
		switch rng.Intn(9) {
		case 0:
			return 0
		case 1:
			return float64(rng.Intn(21) - 10)
		case 2:
			return float64(rng.Intn(2001)-1000) / 8
		case 3:
			return math.Round((rng.Float64()*200-100)*1000) / 1000
		case 4:
			return (rng.Float64()*2 - 1) * 1e6
		case 5:
			return (rng.Float64()*2 - 1) * 1e-3
		default:
			return rng.Float64()*20 - 10
		}
	}
	vec := func() spatial.Vector3 { return spatial.Vector3{X: scalar(), Y: scalar(), Z: scalar()} }
	nz := func() spatial.Vector3 {
		for {
			v := vec()
			if v.L1Norm() > 1e-3 {
				return v
			}
		}
	}
	mat := func() spatial.Matrix3 {
		var m spatial.Matrix3
		switch rng.Intn(6) {
		case 0:
			return spatial.NewUnitMatrix3()
		case 1: // a rotation about z
			t := rng.Float64() * 2 * math.Pi
			return spatial.NewMatrix3(math.Cos(t), -math.Sin(t), 0, math.Sin(t), math.Cos(t), 0, 0, 0, 1)
		}
		for i := 0; i < 9; i++ {
			m[i/3][i%3] = scalar()
		}
		return m
	}
	register("vec", func(n int) {
		for i := 0; i < n; i++ {
			a, b := vec(), vec()
			switch rng.Intn(18) {
			case 14, 15: // the point with the largest / smallest projection on a direction (ties: the first one wins)
				k := rng.Intn(5)
				var l []string
				for j := 0; j < k; j++ {
					q := vec()
					if j > 0 && rng.Intn(3) == 0 {
						q = parseVec(l[rng.Intn(len(l))])
						if rng.Intn(2) == 0 { // a near tie: moved along the direction by a few ulps up to 1e-9 (relative), either way
							t := []float64{1e-16, 4e-16, 1e-13, 4e-11, 9e-11, 1e-10, 2e-10, 1e-9}[rng.Intn(8)] * float64(1-2*rng.Intn(2))
							q = spatial.Vector3{X: q.X + t*b.X, Y: q.Y + t*b.Y, Z: q.Z + t*b.Z}
						}
					}
					l = append(l, showVec(q))
				}
				ps := "[]"
				if k > 0 {
					ps = strings.Join(l, "|")
				}
				name := "vmaxpt"
				if rng.Intn(2) == 0 {
					name = "vminpt"
				}
				do(name, ps, showVec(b))
			case 16: // append unless close to a listed point
				k := rng.Intn(4)
				var l []string
				for j := 0; j < k; j++ {
					l = append(l, showVec(vec()))
				}
				ps := "[]"
				add := a
				eps := []float64{0, 1e-9, 0.5, 2}[rng.Intn(4)]
				if k > 0 {
					ps = strings.Join(l, "|")
					if rng.Intn(2) == 0 { // near a listed point: inside, on and outside the tolerance
						q := parseVec(l[rng.Intn(k)])
						d := []float64{0, eps, eps * 0.5, eps * 2, 1e-12}[rng.Intn(5)]
						add = spatial.Vector3{X: q.X + d, Y: q.Y, Z: q.Z - d}
					}
				}
				do("vuniq", ps, showVec(add), fbits(eps))
			case 17:
				eps := []float64{0, 1e-9, 0.5, 2}[rng.Intn(4)]
				q := a
				if rng.Intn(2) == 0 {
					d := []float64{0, eps, eps * 0.5, eps * 2}[rng.Intn(4)]
					q = spatial.Vector3{X: a.X + d, Y: a.Y - d, Z: a.Z}
				}
				do("visclose", showVec(a), showVec(q), fbits(eps))
			case 0:
				do("vadd", showVec(a), showVec(b))
			case 1:
				do("vsub", showVec(a), showVec(b))
			case 2:
				do("vfrom", showVec(a), showVec(b))
			case 3:
				do("vtrans", showVec(a), showVec(b))
			case 4:
				do("vcross", showVec(a), showVec(b))
			case 5:
				do("vdot", showVec(a), showVec(b))
			case 6:
				do("vscale", showVec(a), fbits(cz(scalar())))
			case 7:
				do("vl1", showVec(a))
			case 8:
				t := []float64{0, 1, 0.5, 0.25, rng.Float64(), 2, -1}[rng.Intn(7)]
				do("vline", showVec(a), showVec(b), fbits(t))
			case 9:
				do("vlineid", showVec(a), showVec(b))
			case 10:
				do("vmmul", showMat(mat()), showMat(mat()))
			case 11:
				do("vmulvec", showMat(mat()), showVec(a))
			default:
				do("vmat", showMat(mat()), showMat(mat()), showMat(mat()), showVec(a))
			}
		}
	})
	register("vecnum", func(n int) {
		for i := 0; i < n; i++ {
			a, b := nz(), nz()
			switch rng.Intn(8) {
			case 0: // exactly opposite
				k := []float64{1, 2, 0.5, 3, 10}[rng.Intn(5)]
				b = a.Scale(-k)
			case 1: // opposite and parallel to the z axis (second fallback axis)
				a = spatial.Vector3{X: 0, Y: 0, Z: float64(1 + rng.Intn(5))}
				b = spatial.Vector3{X: 0, Y: 0, Z: -float64(1 + rng.Intn(5))}
			case 2: // parallel
				b = a.Scale([]float64{1, 2, 0.5}[rng.Intn(3)])
			case 4: // nearly parallel: an angle of 1e-7 … 1e-4 rad is a small rotation, not the identity
				k := []float64{1, 2.5, 0.3}[rng.Intn(3)]
				eps := []float64{1e-7, 1e-6, 5e-6, 1e-5, 1e-4}[rng.Intn(5)]
				o := a.Cross(spatial.Vector3{X: 0.3, Y: -0.5, Z: 0.8})
				if n := o.Norm(); n > 0 {
					b = a.Scale(k).Add(o.Scale(k * eps * a.Norm() / n))
				}
			case 3: // axis-aligned
				ax := []spatial.Vector3{{X: 1}, {Y: 1}, {Z: 1}, {X: -1}, {Y: -1}, {Z: -1}}
				a, b = ax[rng.Intn(6)], ax[rng.Intn(6)]
			}
			if rng.Intn(6) == 0 { // very short and very long vectors: only the directions matter
				ka := []float64{1e-11, 1e-20, 1e-6, 1e9, 1e15}[rng.Intn(5)]
				kb := []float64{1e-11, 1e-20, 1e-6, 1e9, 1e15, 1}[rng.Intn(6)]
				if n := a.Norm(); n > 0 {
					a = a.Scale(ka / n)
				}
				if n := b.Norm(); n > 0 {
					b = b.Scale(kb / n)
				}
			}
			if rng.Intn(3) == 0 {
				do("vnum", showVec(a), showVec(b))
			} else {
				do("vquat", showVec(a), showVec(b))
			}
		}
	})
}
