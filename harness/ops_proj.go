package main

import (
	"fmt"
	"math"
	"sort"
	"strings"

	"github.com/trajectoryjp/spatial_id_go/v4/common/consts"
	"github.com/trajectoryjp/spatial_id_go/v4/common/object"
	"github.com/trajectoryjp/spatial_id_go/v4/shape"
	"github.com/wroge/wgs84"
)

// the projection oracle: the same third-party call the library makes
func projOracle(a, b, c float64, crs int, fwd bool) (float64, float64, bool) {
	geo := wgs84.EPSG().Code(consts.GeoCrs)
	pro := wgs84.EPSG().Code(crs)
	from, to := geo, pro
	if !fwd {
		from, to = pro, geo
	}
	x, y, _, err := wgs84.SafeTransform(from, to)(a, b, c)
	return x, y, err == nil
}

func init() {
	// proj: items "lon:lat:alt:ox:oy" (ox:oy = oracle answer or E:E), EPSG code
	op("proj", func(a []string) string {
		var pts []*object.Point
		items := split(a[0])
		for k, it := range items {
			if k > 0 && it == items[k-1] { // the same point OBJECT twice in a row (a caller appending one pointer twice)
				pts = append(pts, pts[k-1])
				continue
			}
			f := strings.Split(it, ":")
			p, err := argPoint(atof(f[0]), atof(f[1]), atof(f[2]))
			if err != nil {
				return "BADARG"
			}
			pts = append(pts, p)
		}
		r, err := shape.ConvertPointListToProjectedPointList(pts, int(atoi(a[1])))
		if err != nil {
			return "ERR"
		}
		l := make([]string, len(r))
		for i, q := range r {
			l[i] = fbits(q.X) + ":" + fbits(q.Y) + ":" + fbits(q.Alt)
		}
		return join(l)
	})
	op("unproj", func(a []string) string {
		var pts []*object.ProjectedPoint
		uitems := split(a[0])
		for k, it := range uitems {
			if k > 0 && it == uitems[k-1] {
				pts = append(pts, pts[k-1])
				continue
			}
			f := strings.Split(it, ":")
			pts = append(pts, &object.ProjectedPoint{X: atof(f[0]), Y: atof(f[1]), Alt: atof(f[2])})
		}
		r, err := shape.ConvertProjectedPointListToPointList(pts, int(atoi(a[1])))
		if err != nil {
			return "ERR"
		}
		l := make([]string, len(r))
		for i, q := range r {
			l[i] = ptStr(q)
		}
		return join(l)
	})
	// projrt: forward to EPSG:3857 and back on the implementation; OK iff lon/lat return within 2e-10 degrees
	op("projrt", func(a []string) string {
		p, err := object.NewPoint(atof(a[0]), atof(a[1]), atof(a[2]))
		if err != nil {
			return "BADARG"
		}
		crs := int(atoi(a[3]))
		f, err := shape.ConvertPointListToProjectedPointList([]*object.Point{p}, crs)
		if err != nil {
			return "ERR"
		}
		b, err := shape.ConvertProjectedPointListToPointList(f, crs)
		if err != nil {
			return "ERR"
		}
		dl, dp := math.Abs(b[0].Lon()-p.Lon()), math.Abs(b[0].Lat()-p.Lat())
		if math.Abs(dl-360) < dl { // longitude 180 and -180 are the same meridian
			dl = math.Abs(dl - 360)
		}
		if math.Float64bits(b[0].Alt()) != math.Float64bits(p.Alt()) && !(b[0].Alt() == 0 && p.Alt() == 0) {
			return "RT altitude changed"
		}
		if dl <= 2e-10 && dp <= 2e-10 {
			return "OK"
		}
		if math.Abs(p.Alt()) > 1e4 {
			return fmt.Sprintf("D15ALT round trip off by %.3g / %.3g degrees at altitude %.6g m", dl, dp, p.Alt())
		}
		return fmt.Sprintf("RT round trip off by %.3g / %.3g degrees", dl, dp)
	})

	codes := []int{3857, 3857, 3857, 4326, 3395, 32654, 6677, 2451, 25832, 27700, 99999, 0,
		32600, 32601, 32660, 32661, 32700, 32701, 32760, 32761, 4325, 4327, 3856, 3858} // also the neighbours of supported code ranges
	allCodes := wgs84.EPSG().Codes() // every code the transform library supports (geocentric 4978, national grids, all UTM zones)
	sort.Ints(allCodes)
	register("proj", func(n int) {
		for i := 0; i < n; i++ {
			crs := codes[rng.Intn(len(codes))]
			if rng.Intn(3) == 0 {
				crs = allCodes[rng.Intn(len(allCodes))]
				if rng.Intn(4) == 0 {
					crs = []int{4978, 900913, 4258, 4269}[rng.Intn(4)]
				}
			}
			k := 1 + rng.Intn(5)
			if rng.Intn(10) == 0 {
				k = 0
			}
			// repeated horizontal positions (vertical segments, closed paths): some elements reuse the position of an
			// earlier element of the same list, with their own altitude
			var prevLon, prevLat, prevX, prevY []float64
			switch rng.Intn(3) {
			case 0, 1: // forward
				var items []string
				for j := 0; j < k; j++ {
					lon, lat := rng.Float64()*360-180, rng.Float64()*170-85
					alt := (rng.Float64()*2 - 1) * 1e4
					switch rng.Intn(8) {
					case 0:
						alt = (rng.Float64()*2 - 1) * 33554432
					case 1:
						alt = 0
					}
					// points on the axes of the projection: the origin, the equator, the prime meridian, the antimeridian
					switch rng.Intn(12) {
					case 0:
						lon, lat = 0, 0
					case 1:
						lon = 0
					case 2:
						lat = 0
					case 3, 4:
						lon = 180 * float64(1-2*rng.Intn(2))
						if rng.Intn(2) == 0 {
							lat = -rng.Float64() * 80
						}
					case 5, 6: // within nanodegrees of the prime meridian and/or the equator: small is not zero
						tiny := []float64{3e-9, -3e-9, 4e-10, -4e-10, 1e-9, -2.5e-10, 7e-9}
						if rng.Intn(2) == 0 {
							lon = tiny[rng.Intn(len(tiny))]
						}
						if rng.Intn(2) == 0 {
							lat = tiny[rng.Intn(len(tiny))]
						}
					}
					if len(prevLon) > 0 && rng.Intn(3) == 0 {
						r := len(prevLon) - 1
						if rng.Intn(3) == 0 {
							r = rng.Intn(len(prevLon))
						}
						lon, lat = prevLon[r], prevLat[r]
					}
					p, _ := object.NewPoint(lon, lat, alt)
					for { // a latitude that NewPoint stores unchanged (SetLat is not idempotent, D17): redraw until stable
						q, _ := object.NewPoint(p.Lon(), p.Lat(), p.Alt())
						if q.Lat() == p.Lat() {
							break
						}
						p, _ = object.NewPoint(lon, rng.Float64()*170-85, alt)
					}
					prevLon, prevLat = append(prevLon, p.Lon()), append(prevLat, p.Lat())
					x, y, ok := projOracle(p.Lon(), p.Lat(), p.Alt(), crs, true)
					o := "E:E"
					if ok {
						o = fbits(x) + ":" + fbits(y)
					}
					items = append(items, fbits(p.Lon())+":"+fbits(p.Lat())+":"+fbits(p.Alt())+":"+o)
					if rng.Intn(8) == 0 { // the same point object again, next to itself
						items = append(items, items[len(items)-1])
					}
				}
				do("proj", join(items), fmt.Sprint(crs))
			default: // inverse, from projected coordinates near a forward image
				var items []string
				for j := 0; j < k; j++ {
					lon, lat := rng.Float64()*360-180, rng.Float64()*170-85
					if rng.Intn(6) == 0 {
						tiny := []float64{3e-9, -3e-9, 4e-10, -4e-10, 1e-9, -2.5e-10, 7e-9}
						if rng.Intn(2) == 0 {
							lon = tiny[rng.Intn(len(tiny))]
						} else {
							lat = tiny[rng.Intn(len(tiny))]
						}
					}
					alt := (rng.Float64()*2 - 1) * 1e3
					x, y, ok := projOracle(lon, lat, alt, crs, true)
					if !ok {
						x, y = rng.Float64()*1e6, rng.Float64()*1e6
					}
					if len(prevX) > 0 && rng.Intn(3) == 0 {
						r := len(prevX) - 1
						if rng.Intn(3) == 0 {
							r = rng.Intn(len(prevX))
						}
						x, y = prevX[r], prevY[r]
					}
					prevX, prevY = append(prevX, x), append(prevY, y)
					lo, la, ok2 := projOracle(x, y, alt, crs, false)
					o := "E:E"
					if ok2 {
						o = fbits(lo) + ":" + fbits(la)
					}
					items = append(items, fbits(x)+":"+fbits(y)+":"+fbits(alt)+":"+o)
					if rng.Intn(8) == 0 {
						items = append(items, items[len(items)-1])
					}
				}
				do("unproj", join(items), fmt.Sprint(crs))
			}
		}
	})
	register("projrt", func(n int) {
		for i := 0; i < n; i++ {
			lon, lat := rng.Float64()*360-180, rng.Float64()*170.1-85.05
			alt := (rng.Float64()*2 - 1) * 1e4
			switch rng.Intn(10) {
			case 0:
				alt = (rng.Float64()*2 - 1) * 1e6
			case 1:
				alt = 0
			case 2:
				lat = 85.0511287798 * float64(1-2*rng.Intn(2))
			case 3:
				lon = 180 * float64(1-2*rng.Intn(2))
			case 4: // nanodegrees from the prime meridian / the equator
				tiny := []float64{3e-9, -3e-9, 4e-10, -4e-10, 1e-9, -2.5e-10, 7e-9}
				if rng.Intn(2) == 0 {
					lon = tiny[rng.Intn(len(tiny))]
				} else {
					lat = tiny[rng.Intn(len(tiny))]
				}
			}
			do("projrt", fbits(lon), fbits(lat), fbits(alt), "3857")
		}
	})
}
