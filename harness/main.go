// Correspondence harness: generates cases from one PRNG state, calls the real spatial_id_go code
// in-process (hooks enabled by -tags verif), and writes one TAB-separated line per case:
//
//	op <TAB> arg1 ... <TAB> argN <TAB> canonical-result-of-the-implementation
//
// The same lines are read by the Lean driver, which recomputes the result with the model.
package main

import (
	"bufio"
	"flag"
	"fmt"
	"math"
	"math/rand"
	"os"
	"sort"
	"strconv"
	"strings"
	"sync"

	"github.com/trajectoryjp/spatial_id_go/v4/common/object"
)

var (
	out *bufio.Writer
	rng *rand.Rand
)

type family struct {
	name string
	gen  func(n int)
}

var families = map[string]func(n int){}

func register(name string, f func(n int)) { families[name] = f }

// ops: every operation is a function from its textual arguments to the canonical textual result of the
// real implementation. Generators only choose arguments; replay re-executes recorded arguments.
var ops = map[string]func(a []string) string{}

func op(name string, f func(a []string) string) { ops[name] = f }

// do executes op on the implementation (panic → "PANIC") and writes the case line.
func do(name string, args ...string) string {
	f, ok := ops[name]
	if !ok {
		fmt.Fprintf(os.Stderr, "unknown op %q\n", name)
		os.Exit(2)
	}
	if !shareSlices {
		madePoints = madePoints[:0]
	}
	res := guard(func() string { return f(args) })
	if !shareSlices {
		if m := pointsModified(); m != "" {
			res = m
		}
	}
	out.WriteString(name)
	for _, a := range args {
		out.WriteByte('\t')
		out.WriteString(esc(a))
	}
	out.WriteByte('\t')
	out.WriteString(esc(res))
	out.WriteByte('\n')
	return res
}

// esc / unesc: the line protocol is TAB- and newline-separated; arguments that contain those characters (malformed IDs with a
// trailing line terminator) travel escaped
func esc(s string) string {
	if !strings.ContainsAny(s, "\\\n\r\t") {
		return s
	}
	return strings.NewReplacer("\\", "\\\\", "\n", "\\n", "\r", "\\r", "\t", "\\t").Replace(s)
}

func unesc(s string) string {
	if !strings.Contains(s, "\\") {
		return s
	}
	var b strings.Builder
	for i := 0; i < len(s); i++ {
		if s[i] == '\\' && i+1 < len(s) {
			i++
			switch s[i] {
			case 'n':
				b.WriteByte('\n')
			case 'r':
				b.WriteByte('\r')
			case 't':
				b.WriteByte('\t')
			default:
				b.WriteByte(s[i])
			}
			continue
		}
		b.WriteByte(s[i])
	}
	return b.String()
}

// split: text → slice handed to the library. While trackSlices is on, every slice is remembered with a copy so that the
// det op can verify that the library left its argument slices unmodified.
var (
	trackSlices bool
	tracked     [][2][]string
)

// shareSlices: split returns one shared slice per distinct text (filled sequentially, read-only afterwards), so that
// concurrent calls of the library really share their argument slices (C19).
var (
	shareSlices bool
	sliceCache  = map[string][]string{}
)

var sliceMu sync.Mutex

func split(s string) []string {
	if shareSlices {
		sliceMu.Lock()
		defer sliceMu.Unlock()
		if r, ok := sliceCache[s]; ok {
			return r
		}
		r := splitFresh(s)
		sliceCache[s] = r
		return r
	}
	return splitFresh(s)
}

// every slice handed to the library is a window [0:n] of a larger backing array whose tail holds sentinels: a library
// function that appends to (or otherwise writes beyond) its argument would overwrite them — the caller's neighbouring data
const spare = 3

func splitFresh(s string) []string {
	var parts []string
	if s != "[]" {
		parts = strings.Split(s, ",")
	}
	full := make([]string, len(parts)+spare)
	copy(full, parts)
	for i := len(parts); i < len(full); i++ {
		full[i] = "\x00sentinel"
	}
	r := full[:len(parts)]
	if trackSlices {
		tracked = append(tracked, [2][]string{full, append([]string(nil), full...)})
	}
	return r
}

// argPoint: a *object.Point handed to the library as an ARGUMENT. Its fields are remembered so that `do` can verify after the
// call that the library left the caller's object unmodified; in -conc mode one object per distinct coordinate triple is
// shared by all goroutines (as shareSlices does for slices), so that a write to an argument object is a data race.
type madePoint struct {
	p             *object.Point
	lon, lat, alt uint64
}

var (
	madePoints []madePoint
	pointCache = map[string]*object.Point{}
	pointMu    sync.Mutex
)

func argPoint(lon, lat, alt float64) (*object.Point, error) {
	if shareSlices {
		key := fmt.Sprint(math.Float64bits(lon), math.Float64bits(lat), math.Float64bits(alt))
		pointMu.Lock()
		defer pointMu.Unlock()
		if p, ok := pointCache[key]; ok {
			return p, nil
		}
		p, err := object.NewPoint(lon, lat, alt)
		if err != nil {
			return nil, err
		}
		pointCache[key] = p
		madePoints = append(madePoints, madePoint{p, math.Float64bits(p.Lon()), math.Float64bits(p.Lat()), math.Float64bits(p.Alt())})
		return p, nil
	}
	p, err := object.NewPoint(lon, lat, alt)
	if err == nil {
		madePoints = append(madePoints, madePoint{p, math.Float64bits(p.Lon()), math.Float64bits(p.Lat()), math.Float64bits(p.Alt())})
	}
	return p, err
}

// pointsModified reports the first argument point whose fields differ from what they were when it was made
func pointsModified() string {
	for _, m := range madePoints {
		if math.Float64bits(m.p.Lon()) != m.lon || math.Float64bits(m.p.Lat()) != m.lat || math.Float64bits(m.p.Alt()) != m.alt {
			return fmt.Sprintf("MODIFIED argument point (%v, %v, %v) is now (%v, %v, %v)", math.Float64frombits(m.lon),
				math.Float64frombits(m.lat), math.Float64frombits(m.alt), m.p.Lon(), m.p.Lat(), m.p.Alt())
		}
	}
	return ""
}

func atoi(s string) int64 {
	v, err := strconv.ParseInt(s, 10, 64)
	if err != nil {
		panic("harness: bad integer argument " + s)
	}
	return v
}

// replay: read lines `op<TAB>args…[<TAB>old result]`, re-execute, write fresh case lines.
func replay(path string, dropLast bool) {
	f, err := os.Open(path)
	if err != nil {
		fmt.Fprintln(os.Stderr, err)
		os.Exit(2)
	}
	defer f.Close()
	sc := bufio.NewScanner(f)
	sc.Buffer(make([]byte, 1<<20), 1<<28)
	for sc.Scan() {
		line := sc.Text()
		if line == "" || strings.HasPrefix(line, "#") {
			continue
		}
		fs := strings.Split(line, "\t")
		for i := range fs {
			fs[i] = unesc(fs[i])
		}
		if dropLast && len(fs) > 1 {
			fs = fs[:len(fs)-1]
		}
		do(fs[0], fs[1:]...)
	}
}

// guard runs f and maps a panic to the canonical result "PANIC".
func guard(f func() string) (res string) {
	defer func() {
		if r := recover(); r != nil {
			res = "PANIC"
		}
	}()
	return f()
}

func sortedJoin(l []string) string {
	c := append([]string(nil), l...)
	sort.Strings(c)
	return join(c)
}

// lists are comma-joined; the empty list is written "[]" so that it differs from the list [""]
func join(l []string) string {
	if len(l) == 0 {
		return "[]"
	}
	return strings.Join(l, ",")
}

func setOrErr(l []string, err error) string {
	if err != nil {
		return "ERR"
	}
	return sortedJoin(l)
}

// setOrErrZ: like setOrErr; in addition, when one of the given zoom ARGUMENTS is outside lo..hi the documentation promises an
// EMPTY list together with the error (C15): a non-empty one is reported
func setOrErrZ(l []string, err error, lo, hi int64, zooms ...int64) string {
	if err != nil && len(l) > 0 {
		for _, z := range zooms {
			if z < lo || z > hi {
				return "ERR-NONEMPTY-ON-ZOOM-ERROR"
			}
		}
	}
	return setOrErr(l, err)
}

func seqOrErr(l []string, err error) string {
	if err != nil {
		return "ERR"
	}
	return join(l)
}

func i64s(l []int64) string {
	s := make([]string, len(l))
	for i, v := range l {
		s[i] = fmt.Sprint(v)
	}
	return join(s)
}

func newBufWriter(sb *strings.Builder) *bufio.Writer { return bufio.NewWriterSize(sb, 1<<20) }

func main() {
	fam := flag.String("fam", "", "comma separated op families")
	n := flag.Int("n", 1000, "cases per family")
	seed := flag.Int64("seed", 1, "PRNG seed")
	list := flag.Bool("list", false, "list families")
	rep := flag.String("replay", "", "re-execute the case lines of this file (last field = old result, dropped)")
	conc := flag.Int("conc", 0, "run the generated cases again on this many goroutines with shared argument slices (C19)")
	flag.Parse()
	if *conc > 0 {
		out = bufio.NewWriterSize(os.Stdout, 1<<20)
		defer out.Flush()
		runConcurrent(*fam, *n, *seed, *conc)
		return
	}
	if *rep != "" {
		out = bufio.NewWriterSize(os.Stdout, 1<<20)
		defer out.Flush()
		replay(*rep, true)
		return
	}
	if *list {
		names := []string{}
		for k := range families {
			names = append(names, k)
		}
		sort.Strings(names)
		fmt.Println(strings.Join(names, "\n"))
		return
	}
	out = bufio.NewWriterSize(os.Stdout, 1<<20)
	defer out.Flush()
	for _, f := range strings.Split(*fam, ",") {
		g, ok := families[f]
		if !ok {
			fmt.Fprintf(os.Stderr, "unknown family %q\n", f)
			os.Exit(2)
		}
		// every family gets its own PRNG stream derived from (seed, name) so that adding a family
		// does not change the cases of another
		h := int64(0)
		for _, c := range f {
			h = h*131 + int64(c)
		}
		rng = rand.New(rand.NewSource(*seed*1000003 + h))
		g(*n)
	}
}
