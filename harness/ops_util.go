package main

import (
	"fmt"
	"sort"
	"strings"

	"github.com/trajectoryjp/spatial_id_go/v4/common"
)

// int slices for the generic helpers: like split(), a window of a larger array with sentinels behind it; shared (one
// slice per distinct text) in the concurrent mode and tracked in the det mode
var (
	trackedInts [][2][]int64
	intCache    = map[string][]int64{}
)

const intSentinel = int64(-0x5e471e15e471e1)

func ints(s string) []int64 {
	if shareSlices {
		sliceMu.Lock()
		defer sliceMu.Unlock()
		if r, ok := intCache[s]; ok {
			return r
		}
	}
	var parts []string
	if s != "[]" {
		parts = strings.Split(s, ",")
	}
	full := make([]int64, len(parts)+spare)
	for i, f := range parts {
		full[i] = atoi(f)
	}
	for i := len(parts); i < len(full); i++ {
		full[i] = intSentinel
	}
	r := full[:len(parts)]
	if trackSlices {
		trackedInts = append(trackedInts, [2][]int64{full, append([]int64(nil), full...)})
	}
	if shareSlices {
		intCache[s] = r
	}
	return r
}

func sortedI64s(l []int64) string {
	c := append([]int64(nil), l...)
	sort.Slice(c, func(i, j int) bool { return c[i] < c[j] })
	return i64s(c)
}

func randInts(maxLen int, span int) []int64 {
	n := rng.Intn(maxLen + 1)
	r := make([]int64, n)
	for i := range r {
		r[i] = int64(rng.Intn(span) - span/2)
	}
	return r
}

func init() {
	op("uni", func(a []string) string { return sortedI64s(common.Union(ints(a[0]), ints(a[1]))) })
	op("inter", func(a []string) string { return i64s(common.Intersect(ints(a[0]), ints(a[1]))) })
	op("diff", func(a []string) string { return i64s(common.Difference(ints(a[0]), ints(a[1]))) })
	op("uniq", func(a []string) string { return sortedI64s(common.Unique(ints(a[0]))) })
	op("incl", func(a []string) string { return fmt.Sprint(common.Include(ints(a[0]), atoi(a[1]))) })
	op("max", func(a []string) string { return intOrErr(common.Max(ints(a[0]))) })
	op("min", func(a []string) string { return intOrErr(common.Min(ints(a[0]))) })
	op("ashift", func(a []string) string { return fmt.Sprint(common.CalculateArithmeticShift(atoi(a[0]), atoi(a[1]))) })
	op("comb", func(a []string) string {
		var out []string
		common.Combinations(atoi(a[0]), atoi(a[1]), func(p []int64) {
			f := make([]string, len(p))
			for i, v := range p {
				f[i] = fmt.Sprint(v)
			}
			out = append(out, strings.Join(f, " "))
		})
		// the number of visits is part of the result: one visit of the empty pattern (k = 0) is not "no visit"
		return fmt.Sprintf("%d|%s", len(out), strings.Join(out, ";"))
	})

	register("sets", func(n int) {
		for i := 0; i < n; i++ {
			l1, l2 := randInts(8, 10), randInts(8, 10)
			if rng.Intn(4) == 0 { // longer lists: 9 … 40 elements (an unrolled or blocked scan has to get every position right)
				l1, l2 = randInts(40, 60), randInts(40, 60)
			}
			switch rng.Intn(7) {
			case 0:
				do("uni", i64s(l1), i64s(l2))
			case 1:
				do("inter", i64s(l1), i64s(l2))
			case 2:
				do("diff", i64s(l1), i64s(l2))
			case 3:
				do("uniq", i64s(l1))
			case 4:
				t := int64(rng.Intn(10) - 5)
				if len(l1) > 0 && rng.Intn(2) == 0 { // an element that occurs exactly once, at a random position
					k := rng.Intn(len(l1))
					t = 1000 + int64(rng.Intn(9))
					l1[k] = t
				}
				do("incl", i64s(l1), s(t))
			case 5:
				big := randInts(6, 1<<40)
				if rng.Intn(3) == 0 { // neighbours far above 2^53 (quadkeys reach 2^62): distinct int64 values, equal as float64
					b := int64(1)<<uint(54+rng.Intn(8)) + int64(rng.Intn(1000))
					big = []int64{b + 1, b + 3, b, b + 2}[:2+rng.Intn(3)]
				}
				do("max", i64s(big))
			default:
				big := randInts(6, 1<<40)
				if rng.Intn(3) == 0 {
					b := int64(1)<<uint(54+rng.Intn(8)) + int64(rng.Intn(1000))
					big = []int64{b + 3, b + 1, b + 2, b + 4}[:2+rng.Intn(3)]
					if rng.Intn(2) == 0 {
						for i := range big {
							big[i] = -big[i]
						}
					}
				}
				do("min", i64s(big))
			}
		}
	})
	register("ashift", func(n int) {
		for i := 0; i < n; i++ {
			sh := int64(rng.Intn(125) - 62)
			var idx int64
			if sh >= 0 { // no overflow: |idx| * 2^sh < 2^62
				lim := int64(1) << uint(62-sh)
				idx = rng.Int63n(lim)
				if rng.Intn(2) == 0 {
					idx = -idx
				}
			} else {
				idx = rng.Int63() - (1 << 62)
				if rng.Intn(3) == 0 {
					idx = int64(rng.Intn(17) - 8)
				}
			}
			do("ashift", s(idx), s(sh))
		}
	})
	register("combLattice", func(n int) { // the whole table 0 <= k <= n <= 12
		for nn := int64(0); nn <= 12; nn++ {
			for k := int64(0); k <= nn; k++ {
				do("comb", s(nn), s(k))
			}
		}
	})
}
