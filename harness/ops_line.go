package main

import (
	"fmt"
	"math"
	"sort"
	"strings"

	"github.com/trajectoryjp/spatial_id_go/v4/common"
	"github.com/trajectoryjp/spatial_id_go/v4/common/object"
	"github.com/trajectoryjp/spatial_id_go/v4/common/spatial"
	"github.com/trajectoryjp/spatial_id_go/v4/operated"
	"github.com/trajectoryjp/spatial_id_go/v4/shape"
)

// rowOracle: the Mercator row of a stored latitude at zoom h, from the library's own (hooked) function
func rowOracle(lat float64, h int64) int64 {
	id := shape.VerifHorizontalTileIdOnPoint(0, lat, h)
	return atoi(strings.Split(id, "/")[2])
}

// lineOracleTable walks the midpoint recursion the way shape.middleSpatialIds does (same library calls, same branches)
// only to learn WHICH latitudes the recursion looks up; it returns "latbits:row;…" for all of them.
func lineOracleTable(start, end *object.Point, h, v int64) string {
	tbl := map[uint64]int64{}
	add := func(lat float64) {
		if lat == 0 {
			lat = 0 // -0 → +0
		}
		b := math.Float64bits(lat)
		if lat == 0 {
			b = 0
		}
		if _, ok := tbl[b]; !ok {
			tbl[b] = rowOracle(lat, h)
		}
	}
	add(start.Lat())
	add(end.Lat())
	lonM, latM, altM := shape.LonMinima, shape.LatMinima, shape.AltMinima
	if h >= 31 {
		lonM, latM = shape.HightZoomLonMinima, shape.HightZoomLatMinima
	}
	if v >= 34 {
		altM = shape.HightZoomAltMinima
	}
	nodes := 0
	var rec func(s, e spatial.Point3, depth int)
	rec = func(s, e spatial.Point3, depth int) {
		nodes++
		if depth > 200 || nodes > 200000 {
			return
		}
		middle := spatial.NewLineFromPoints(s, e).ToPoint(0.5)
		sp, _ := object.NewPoint(s.X, s.Y, s.Z)
		ep, _ := object.NewPoint(e.X, e.Y, e.Z)
		mp, _ := object.NewPoint(middle.X, middle.Y, middle.Z)
		add(sp.Lat())
		add(ep.Lat())
		add(mp.Lat())
		ids, _ := shape.GetExtendedSpatialIdsOnPoints([]*object.Point{sp, ep, mp}, h, v)
		vec := spatial.NewVectorFromPoints(s, e)
		if math.Abs(vec.X) < lonM && math.Abs(vec.Y) < latM && math.Abs(vec.Z) < altM {
			return
		}
		s6 := append(operated.Get6spatialIdsAdjacentToFaces(ids[0]), ids[0])
		e6 := append(operated.Get6spatialIdsAdjacentToFaces(ids[1]), ids[1])
		inS, inE := common.Include(s6, ids[2]), common.Include(e6, ids[2])
		switch {
		case inS && inE:
			return
		case inS:
			rec(spatial.Point3(middle), e, depth+1)
		case inE:
			rec(s, spatial.Point3(middle), depth+1)
		default:
			rec(s, spatial.Point3(middle), depth+1)
			rec(spatial.Point3(middle), e, depth+1)
		}
	}
	ids, err := shape.GetExtendedSpatialIdsOnPoints([]*object.Point{start, end}, h, v)
	if err == nil && ids[0] != ids[1] {
		rec(spatial.Point3{X: start.Lon(), Y: start.Lat(), Z: start.Alt()}, spatial.Point3{X: end.Lon(), Y: end.Lat(), Z: end.Alt()}, 0)
	}
	keys := make([]uint64, 0, len(tbl))
	for k := range tbl {
		keys = append(keys, k)
	}
	sort.Slice(keys, func(i, j int) bool { return keys[i] < keys[j] })
	parts := make([]string, len(keys))
	for i, k := range keys {
		parts[i] = fmt.Sprintf("%d:%d", k, tbl[k])
	}
	return strings.Join(parts, ";")
}

func mkPoint(lon, lat, alt string) (*object.Point, bool) {
	if lon == "nil" {
		return nil, true
	}
	p, err := argPoint(atof(lon), atof(lat), atof(alt))
	if err != nil {
		return nil, false
	}
	return p, true
}

func init() {
	lineOp := func(sp bool) func(a []string) string {
		return func(a []string) string {
			s, ok1 := mkPoint(a[0], a[1], a[2])
			e, ok2 := mkPoint(a[3], a[4], a[5])
			if !ok1 || !ok2 {
				return "ERR"
			}
			if sp {
				return setOrErr(shape.GetSpatialIdsOnLine(s, e, atoi(a[6])))
			}
			return setOrErr(shape.GetExtendedSpatialIdsOnLine(s, e, atoi(a[6]), atoi(a[7])))
		}
	}
	op("line", lineOp(false))  // sLon sLat sAlt eLon eLat eAlt h v table
	op("linesp", lineOp(true)) // sLon sLat sAlt eLon eLat eAlt z table

	// a segment spanning a few voxels per axis at zooms (h, v)
	genSeg := func(h, v int64) (float64, float64, float64, float64, float64, float64) {
		wLon := 360 / math.Pow(2, float64(h))
		wAlt := math.Pow(2, float64(25-v))
		lon := rng.Float64()*358 - 179
		lat := rng.Float64()*160 - 80
		if rng.Intn(8) == 0 {
			lat = 84.9 + rng.Float64()*0.1 // near the latitude limit
		}
		alt := (rng.Float64() - 0.5) * 2000
		if rng.Intn(4) == 0 {
			alt = (rng.Float64() - 0.5) * 4 * wAlt // around f = 0
		}
		span := func() float64 { return float64(rng.Intn(13)) * (rng.Float64()*0.9 + 0.1) * float64(1-2*rng.Intn(2)) }
		dLon, dLat, dAlt := span()*wLon, span()*wLon*0.8, span()*wAlt
		switch rng.Intn(6) {
		case 0:
			dLat, dAlt = 0, 0 // axis-parallel
		case 1:
			dLon, dAlt = 0, 0
		case 2:
			dLon, dLat = 0, 0
		case 3: // exactly through voxel corners: start on a corner, integral voxel steps
			k := math.Floor((lon + 180) / wLon)
			lon = k*wLon - 180
			dLon = float64(rng.Intn(7)-3) * wLon
			kf := math.Floor(alt / wAlt)
			alt = kf * wAlt
			dAlt = float64(rng.Intn(7)-3) * wAlt
		}
		clampf := func(x, lo, hi float64) float64 { return math.Max(lo, math.Min(hi, x)) }
		lon2 := clampf(lon+dLon, -180, 180)
		lat2 := clampf(lat+dLat, -85.05, 85.05)
		alt2 := clampf(alt+dAlt, -33554432, 33554431)
		return lon, lat, alt, lon2, lat2, alt2
	}
	register("line", func(n int) {
		for i := 0; i < n; i++ {
			h, v := randZoom(), randZoom()
			if rng.Intn(2) == 0 { // weight on the zooms where the thresholds switch and on fine zooms
				h = int64(28 + rng.Intn(8))
				v = int64(28 + rng.Intn(8))
			}
			sp := rng.Intn(5) == 0
			if sp {
				v = h
			}
			lon, lat, alt, lon2, lat2, alt2 := genSeg(h, v)
			if rng.Intn(12) == 0 {
				// across the whole grid at a coarse zoom: the end voxels lie in the first and the last column (or row), which the
				// modular neighbour queries regard as adjacent — the segment does not go round the world, it crosses it
				h = int64(1 + rng.Intn(5))
				if sp {
					v = h
				}
				wAlt := math.Pow(2, float64(25-v))
				alt = (rng.Float64() - 0.5) * 2 * wAlt
				alt2 = alt
				if rng.Intn(3) == 0 {
					alt2 = alt + (rng.Float64()-0.5)*2*wAlt
				}
				if rng.Intn(2) == 0 { // west to east (or back)
					lat = rng.Float64()*160 - 80
					lat2 = lat
					lon, lon2 = -180+rng.Float64()*(360/math.Pow(2, float64(h))), 180-rng.Float64()*(360/math.Pow(2, float64(h)))
				} else { // north to south
					lon = rng.Float64()*358 - 179
					lon2 = lon
					lat, lat2 = 84+rng.Float64(), -84-rng.Float64()
				}
				if rng.Intn(2) == 0 {
					lon, lat, alt, lon2, lat2, alt2 = lon2, lat2, alt2, lon, lat, alt
				}
			}
			if rng.Intn(15) == 0 {
				// longitude exactly 180 is the western edge: an end point there and one in the westernmost column are in the
				// SAME voxel (one ID), although their longitudes are 360 degrees apart
				h = int64(1 + rng.Intn(14))
				if sp {
					v = h
				}
				lon = 180
				lon2 = -180 + rng.Float64()*0.9*(360/math.Pow(2, float64(h)))
				lat2, alt2 = lat, alt
				if rng.Intn(2) == 0 {
					lon, lon2 = lon2, lon
				}
			}
			if rng.Intn(10) == 0 {
				// a node whose extent on one or more axes is BIT FOR BIT the stop threshold of that axis (times 1, 2 or 4: the
				// bisection halves exactly) while the other axes are below theirs, the segment crossing a voxel border on each
				// axis off-centre — "stop below the threshold" and "stop at or below it" differ exactly here
				h = int64(3 + rng.Intn(30))
				v = randZoom()
				if sp {
					v = h
				}
				tLon, tLat, tAlt := shape.LonMinima, shape.LatMinima, shape.AltMinima
				if h >= 31 {
					tLon, tLat = shape.HightZoomLonMinima, shape.HightZoomLatMinima
				}
				if v >= 34 {
					tAlt = shape.HightZoomAltMinima
				}
				mask := 1 + rng.Intn(7)
				span := func(T, c float64, exact bool) (float64, float64) {
					if !exact {
						return c - rng.Float64()*T*0.45, c + rng.Float64()*T*0.45
					}
					D := T * float64(int(1)<<uint(rng.Intn(3)))
					for try := 0; try < 20; try++ {
						a := c - D*float64(rng.Intn(9))/8
						if b := a + D; b-a == D {
							return a, b
						}
					}
					return 0, D
				}
				wLon := 360 / math.Pow(2, float64(h))
				cLon := math.Floor(rng.Float64()*math.Pow(2, float64(h)))*wLon - 180
				if mask&1 != 0 || rng.Intn(3) == 0 {
					cLon = 0
				}
				wAlt := math.Pow(2, float64(25-v))
				cAlt := float64(rng.Intn(9)-4) * wAlt
				if mask&4 != 0 && rng.Intn(4) != 0 {
					cAlt = 0
				}
				cLat := 0.0
				if mask&2 == 0 && rng.Intn(2) == 0 {
					cLat = rng.Float64()*160 - 80
				}
				lon, lon2 = span(tLon, cLon, mask&1 != 0)
				lat, lat2 = span(tLat, cLat, mask&2 != 0)
				alt, alt2 = span(tAlt, cAlt, mask&4 != 0)
				if rng.Intn(2) == 0 {
					lon, lat, alt, lon2, lat2, alt2 = lon2, lat2, alt2, lon, lat, alt
				}
			}
			args := []string{fbits(lon), fbits(lat), fbits(alt), fbits(lon2), fbits(lat2), fbits(alt2)}
			switch rng.Intn(60) {
			case 0:
				args[0] = "nil"
			case 1:
				args[3] = "nil"
			case 2:
				h = 36
				if sp {
					v = 36
				}
			case 3:
				v = -1
				if sp {
					h = -1
				}
			case 4:
				args[1] = fbits(86)
			}
			tbl := ""
			s, ok1 := mkPoint(args[0], args[1], args[2])
			e, ok2 := mkPoint(args[3], args[4], args[5])
			if ok1 && ok2 && s != nil && e != nil && h >= 0 && h <= 35 && v >= 0 && v <= 35 {
				tbl = lineOracleTable(s, e, h, v)
			}
			if sp {
				do("linesp", append(args, s64(h), tbl)...)
			} else {
				do("line", append(args, s64(h), s64(v), tbl)...)
			}
		}
	})
}

func s64(v int64) string { return fmt.Sprint(v) }
