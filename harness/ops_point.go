package main

import (
	"fmt"
	"math"
	"strconv"
	"strings"

	"github.com/trajectoryjp/spatial_id_go/v4/common"
	"github.com/trajectoryjp/spatial_id_go/v4/common/enum"
	"github.com/trajectoryjp/spatial_id_go/v4/common/object"
	"github.com/trajectoryjp/spatial_id_go/v4/integrate"
	"github.com/trajectoryjp/spatial_id_go/v4/shape"
)

// oracle u: the transcendental sub-expression of getHorizontalTileIdOnPoint, evaluated by the same Go code
func oracleU(lat float64) float64 {
	latRadian := common.DegreeToRadian(lat)
	return 1 - math.Log(math.Tan(latRadian)+(1/math.Cos(latRadian)))/math.Pi
}

// oracle row latitude: the transcendental sub-expression of getVertexOnVoxelOffset
func oracleRowLat(k float64, hLimit float64) float64 {
	return common.RadianToDegree(math.Atan(math.Sinh(math.Pi * (1 - 2*k/hLimit))))
}

func ptStr(p *object.Point) string { return fbits(p.Lon()) + ":" + fbits(p.Lat()) + ":" + fbits(p.Alt()) }

func randLon(h int64) float64 {
	switch rng.Intn(10) {
	case 0:
		return 180
	case 1:
		return -180
	case 2:
		return math.Nextafter(180, 0)
	case 3, 4, 5: // a tile boundary of zoom h (or a finer/coarser one) ± 0,1,2 ulps
		z := h
		if rng.Intn(3) == 0 {
			z = int64(rng.Intn(36))
		}
		k := rng.Int63n(pow2(z) + 1)
		x := -180 + 360*float64(k)/math.Pow(2, float64(z))
		for j := rng.Intn(5) - 2; j != 0; {
			if j > 0 {
				x = math.Nextafter(x, 200)
				j--
			} else {
				x = math.Nextafter(x, -200)
				j++
			}
		}
		if x > 180 {
			x = 180
		}
		if x < -180 {
			x = -180
		}
		return x
	case 6: // decimal-rounded coordinate
		return math.Round((rng.Float64()*360-180)*1e6) / 1e6
	default:
		return rng.Float64()*360 - 180
	}
}

func randLat() float64 {
	switch rng.Intn(10) {
	case 0:
		return 85.0511287798
	case 1:
		return -85.0511287798
	case 2:
		return 0
	case 3:
		return (rng.Float64()*2 - 1) * 1e-9
	case 4:
		return 85.0511287798 - rng.Float64()*0.01
	case 5:
		return -85.0511287798 + rng.Float64()*0.01
	case 6:
		return math.Round((rng.Float64()*170-85)*1e7) / 1e7
	default:
		return rng.Float64()*170.1022575596 - 85.0511287798
	}
}

func randAlt(v int64) float64 {
	switch rng.Intn(10) {
	case 0:
		return 0
	case 1:
		return math.Float64frombits(uint64(rng.Int63n(1<<52) + 1)) * float64(1-2*rng.Intn(2)) // subnormal, either sign
	case 2:
		return math.Pow(2, float64(rng.Intn(26))) * float64(1-2*rng.Intn(2))
	case 3, 4, 5: // a cell boundary of zoom v ± ulps
		z := v
		if rng.Intn(3) == 0 {
			z = int64(rng.Intn(36))
		}
		k := rng.Int63n(2*pow2(z)+1) - pow2(z)
		x := float64(k) * math.Pow(2, float64(25-z))
		for j := rng.Intn(5) - 2; j != 0; {
			if j > 0 {
				x = math.Nextafter(x, 1e300)
				j--
			} else {
				x = math.Nextafter(x, -1e300)
				j++
			}
		}
		return x
	case 6:
		return float64(rng.Intn(2001)-1000) / 8
	default:
		return (rng.Float64()*2 - 1) * 33554432
	}
}

func boolToInt64(b bool) int64 {
	if b {
		return 1
	}
	return 0
}

func atof(s string) float64 { return fromBits(s) }

func init() {
	op("newpt", func(a []string) string {
		p, err := object.NewPoint(atof(a[0]), atof(a[1]), atof(a[2]))
		if err != nil {
			return "ERR"
		}
		return ptStr(p)
	})
	// pts: points "lon:lat:alt:u" (u = oracle for the stored latitude, supplied by the generator), zooms
	op("pts", func(a []string) string {
		var l []*object.Point
		pitems := split(a[0])
		for k, it := range pitems {
			if k > 0 && it == pitems[k-1] { // the same point OBJECT twice in a row
				l = append(l, l[k-1])
				continue
			}
			f := strings.Split(it, ":")
			if f[0] == "nil" {
				l = append(l, nil)
				continue
			}
			p, err := argPoint(atof(f[0]), atof(f[1]), atof(f[2]))
			if err != nil {
				return "ERR"
			}
			l = append(l, p)
		}
		return seqOrErr(shape.GetExtendedSpatialIdsOnPoints(l, atoi(a[1]), atoi(a[2])))
	})
	op("ptssp", func(a []string) string {
		var l []*object.Point
		pitems := split(a[0])
		for k, it := range pitems {
			if k > 0 && it == pitems[k-1] { // the same point OBJECT twice in a row
				l = append(l, l[k-1])
				continue
			}
			f := strings.Split(it, ":")
			if f[0] == "nil" {
				l = append(l, nil)
				continue
			}
			p, err := argPoint(atof(f[0]), atof(f[1]), atof(f[2]))
			if err != nil {
				return "ERR"
			}
			l = append(l, p)
		}
		return seqOrErr(shape.GetSpatialIdsOnPoints(l, atoi(a[1])))
	})
	// geom: ID → vertices/centre; a[2], a[3] = oracle row latitudes (north, south) supplied by the generator
	geom := func(sp bool) func(a []string) string {
		return func(a []string) string {
			opt := enum.PointOption(atoi(a[1]))
			var ps []*object.Point
			var err error
			if sp {
				ps, err = shape.GetPointOnSpatialId(a[0], opt)
			} else {
				ps, err = shape.GetPointOnExtendedSpatialId(a[0], opt)
			}
			if err != nil {
				return "ERR"
			}
			l := make([]string, len(ps))
			for i, p := range ps {
				l[i] = ptStr(p)
			}
			return join(l)
		}
	}
	op("geom", geom(false))
	op("geomsp", geom(true))
	// ctrrt: centre of the voxel converted back to an ID at the same zooms (round trip on the implementation)
	op("ctrrt", func(a []string) string {
		ps, err := shape.GetPointOnExtendedSpatialId(a[0], enum.Center)
		if err != nil {
			return "ERR"
		}
		e := strings.Split(a[0], "/")
		return seqOrErr(shape.GetExtendedSpatialIdsOnPoints(ps, atoi(e[0]), atoi(e[3])))
	})
	// nest: ID of the point at the coarse zooms ; zoom-out of its ID at the fine zooms (C09)
	op("nest", func(a []string) string {
		p, err := object.NewPoint(atof(a[0]), atof(a[1]), atof(a[2]))
		if err != nil {
			return "ERR"
		}
		fine, err := shape.GetExtendedSpatialIdsOnPoints([]*object.Point{p}, atoi(a[3]), atoi(a[4]))
		if err != nil {
			return "ERR"
		}
		coarse, err := shape.GetExtendedSpatialIdsOnPoints([]*object.Point{p}, atoi(a[5]), atoi(a[6]))
		if err != nil {
			return "ERR"
		}
		out, err := integrate.ChangeExtendedSpatialIdsZoom(fine, atoi(a[5]), atoi(a[6]))
		if err != nil {
			return "ERR"
		}
		return join(coarse) + ";" + sortedJoin(out)
	})

	mkpt := func(h, v int64) string {
		lon, lat, alt := randLon(h), randLat(), randAlt(v)
		switch rng.Intn(40) {
		case 0:
			lon = 180 + rng.Float64()
		case 1:
			lat = 85.0511287798 + 1e-9 + rng.Float64()
		case 2:
			lat = -85.05112877985
		case 3:
			lon = math.Nextafter(-180, -200)
		}
		u := 0.0
		if p, err := object.NewPoint(lon, lat, alt); err == nil {
			u = oracleU(p.Lat())
		}
		return fbits(lon) + ":" + fbits(lat) + ":" + fbits(alt) + ":" + fbits(u)
	}
	join4 := func(a, b, c, d string) string { return a + ":" + b + ":" + c + ":" + d }
	register("newpt", func(n int) {
		for i := 0; i < n; i++ {
			f := strings.Split(mkpt(randZoom(), randZoom()), ":")
			do("newpt", f[0], f[1], f[2])
		}
	})
	// reTruncPoint: a stored point whose latitude would move again if it were stored a second time (SetLat is not idempotent in
	// binary64, known finding D17) AND whose row at zoom h would change with it: a library that copies its argument points
	// through the constructor answers for another point. Found by search around row boundaries of fine zooms.
	reTruncPoint := func(h, v int64) (string, bool) {
		hLimit := math.Pow(2, float64(h))
		for t := 0; t < 400; t++ {
			k := 1 + rng.Int63n(pow2(h)-1)
			bl := oracleRowLat(float64(k), hLimit)
			lat := bl + []float64{4e-11, 7e-11, 1.1e-10, -4e-11, -7e-11, -1.1e-10}[rng.Intn(6)]
			rlon, ralt := randLon(h), randAlt(v)
			p, err := object.NewPoint(rlon, lat, ralt)
			if err != nil {
				continue
			}
			q, _ := object.NewPoint(p.Lon(), p.Lat(), p.Alt())
			if q.Lat() == p.Lat() {
				continue
			}
			a, e1 := shape.GetExtendedSpatialIdsOnPoints([]*object.Point{p}, h, v)
			b, e2 := shape.GetExtendedSpatialIdsOnPoints([]*object.Point{q}, h, v)
			if e1 != nil || e2 != nil || a[0] == b[0] {
				continue
			}
			// (the case line carries the RAW coordinates: the op stores them once, exactly as a caller would)
			return fbits(rlon) + ":" + fbits(lat) + ":" + fbits(ralt) + ":" + fbits(oracleU(p.Lat())), true
		}
		return "", false
	}
	register("points", func(n int) {
		for i := 0; i < n; i++ {
			h, v := randZoom(), randZoom()
			if rng.Intn(20) == 0 {
				hh := int64(27 + rng.Intn(9))
				if it, ok := reTruncPoint(hh, v); ok {
					do("pts", it, s(hh), s(v))
					continue
				}
			}
			k := 1
			if rng.Intn(4) == 0 {
				k = rng.Intn(4)
			}
			l := []string{}
			if rng.Intn(3) == 0 {
				// a path over a small pool of positions and altitudes: repeated positions, runs of equal altitude, the same
				// position at different altitudes, returns to the start (closed rings, out-and-back) — each element of the
				// result must depend on its own point only
				np, na := 1+rng.Intn(3), 1+rng.Intn(2)
				pos := make([][]string, np)
				for j := range pos {
					pos[j] = strings.Split(mkpt(h, v), ":")
				}
				alts := make([]string, na)
				for j := range alts {
					alts[j] = strings.Split(mkpt(h, v), ":")[2]
				}
				if rng.Intn(4) == 0 && h >= 1 {
					// two positions that share the latitude and lie 5e-11 degrees apart on either side of a tile edge: nearly the same
					// place, different tiles (a cache of tile IDs must key on the coordinates exactly)
					kk := 1 + rng.Int63n(pow2(h)-1+boolToInt64(h == 0))
					edge := float64(kk)*360/math.Pow(2, float64(h)) - 180
					base := strings.Split(mkpt(h, v), ":")
					w := append([]string(nil), base...)
					e := append([]string(nil), base...)
					w[0], e[0] = fbits(edge-5e-11), fbits(edge)
					if pw, err := object.NewPoint(edge-5e-11, atof(base[1]), atof(base[2])); err == nil && edge-5e-11 > -180 {
						u := fbits(oracleU(pw.Lat())) // (the base position may have been an invalid one: its oracle value is recomputed)
						w[3], e[3] = u, u
						pos = [][]string{w, e}
						np = 2
					}
				}
				k = 2 + rng.Intn(7)
				for j := 0; j < k; j++ {
					q := pos[rng.Intn(np)]
					if j == k-1 && rng.Intn(2) == 0 {
						q = strings.Split(l[0], ":") // back to the start
						l = append(l, join4(q[0], q[1], q[2], q[3]))
						continue
					}
					l = append(l, join4(q[0], q[1], alts[rng.Intn(na)], q[3]))
					if rng.Intn(8) == 0 { // the same point object again, next to itself
						l = append(l, l[len(l)-1])
					}
				}
				if rng.Intn(10) == 0 { // a nil element somewhere in a long list, also at its very end
					if rng.Intn(2) == 0 {
						l = append(l, "nil:0:0:0")
					} else {
						l[rng.Intn(len(l))] = "nil:0:0:0"
					}
				}
			} else {
				for j := 0; j < k; j++ {
					if rng.Intn(60) == 0 {
						l = append(l, "nil:0:0:0")
					} else {
						l = append(l, mkpt(h, v))
					}
				}
			}
			switch rng.Intn(50) {
			case 0:
				h = 36
			case 1:
				v = -1
			}
			if rng.Intn(4) == 0 {
				do("ptssp", join(l), s(h))
			} else {
				do("pts", join(l), s(h), s(v))
			}
		}
	})
	geomArgs = func(e ext, id string, opt int64) []string {
		hLimit := math.Pow(2, float64(e.h))
		k := float64(e.y)
		if hLimit-1 <= k {
			k = hLimit - 1
		} else if k < 0 {
			k = 0
		}
		return []string{id, s(opt), fbits(oracleRowLat(k, hLimit)), fbits(oracleRowLat(k+1, hLimit))}
	}
	// truncRow: a row boundary k of zoom h whose latitude lies within a few units of rounding of a multiple of 1e-10 degree — where
	// the truncation of SetLat turns a last-bit difference in the evaluation of the edge into a different reported coordinate.
	// (Found by search: about one row in 5000 qualifies; each trial is a handful of float operations.)
	truncRow := func(h int64) (int64, bool) {
		hLimit := math.Pow(2, float64(h))
		for t := 0; t < 40000; t++ {
			k := 1 + rng.Int63n(pow2(h)-1)
			v := oracleRowLat(float64(k), hLimit) * 1e10
			if d := math.Abs(v - math.Round(v)); d < 2e-4 {
				return k, true
			}
		}
		return 0, false
	}
	register("geom", func(n int) {
		for i := 0; i < n; i++ {
			e := randExt()
			if rng.Intn(12) == 0 {
				// the voxel above and the voxel below a truncation-sensitive row boundary: they must report the same latitude for it
				h := int64(12 + rng.Intn(24))
				if k, ok := truncRow(h); ok {
					e = randExtAt(h, randZoom())
					e.y = k - 1
					do("geom", geomArgs(e, e.id(), 0)...)
					e.y = k
					do("geom", geomArgs(e, e.id(), 0)...)
					continue
				}
			}
			if rng.Intn(30) == 0 { // out-of-range indices: wrap and clamp paths
				e.x += pow2(e.h) * int64(rng.Intn(5)-2)
				e.y += int64(rng.Intn(5) - 2)
			}
			opt := int64(rng.Intn(2))
			if rng.Intn(30) == 0 { // unknown options on both sides of the enum
				opt = []int64{2, 3, 4, -1, -2, -100, 1 << 40}[rng.Intn(7)]
			}
			if rng.Intn(4) == 0 {
				e.v = e.h
				e = clampExtF(e)
				id := e.spid()
				if rng.Intn(30) == 0 {
					id = malformed(id)
				}
				do("geomsp", geomArgs(e, id, opt)...)
			} else {
				id := zoomFieldOut([]string{e.id()})[0]
				if rng.Intn(30) == 0 {
					id = malformed(id)
				}
				do("geom", geomArgs(e, id, opt)...)
			}
		}
	})
	register("ctrrt", func(n int) {
		for i := 0; i < n; i++ {
			e := randExt()
			do("ctrrt", e.id())
		}
	})
	register("nest", func(n int) {
		for i := 0; i < n; i++ {
			hf, vf := randZoom(), randZoom()
			hc, vc := int64(rng.Intn(int(hf)+1)), int64(rng.Intn(int(vf)+1))
			f := strings.Split(mkpt(hf, vf), ":")
			do("nest", f[0], f[1], f[2], s(hf), s(vf), s(hc), s(vc), f[3])
		}
	})
	_ = fmt.Sprint
	_ = strconv.Itoa
}

// geomArgs: the ID, the option and the two oracle row latitudes for the voxel e (whose text, possibly corrupted, is id)
var geomArgs func(e ext, id string, opt int64) []string

func clampExtF(e ext) ext {
	m := pow2(e.v)
	if e.f < -m {
		e.f = -m
	}
	if e.f > m-1 {
		e.f = m - 1
	}
	return e
}
