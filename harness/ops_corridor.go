package main

import (
	"fmt"
	"math"
	"sort"
	"strings"
	"time"

	"github.com/go-gl/mathgl/mgl64"
	closest "github.com/trajectoryjp/closest_go"
	geodesy "github.com/trajectoryjp/geodesy_go/coordinates"
	"github.com/trajectoryjp/spatial_id_go/v4/common"
	"github.com/trajectoryjp/spatial_id_go/v4/common/enum"
	"github.com/trajectoryjp/spatial_id_go/v4/common/object"
	"github.com/trajectoryjp/spatial_id_go/v4/operated"
	"github.com/trajectoryjp/spatial_id_go/v4/shape"
	"github.com/trajectoryjp/spatial_id_go/v4/transform"
)

// withTimeout: the clearance fit does not terminate when the clearance exceeds every shifted distance (small grids)
func withTimeout(d time.Duration, f func() string) string {
	ch := make(chan string, 1)
	go func() { ch <- guard(f) }()
	select {
	case r := <-ch:
		return r
	case <-time.After(d):
		return "TIMEOUT"
	}
}

// the distance oracle: the same library calls the implementation makes for one candidate voxel
func corridorDist(start, end *object.Point, id string) (float64, bool) {
	var m closest.Measure
	var cart []geodesy.Geocentric
	for _, p := range []*object.Point{start, end} {
		cart = append(cart, geodesy.GeocentricFromGeodetic(geodesy.Geodetic{p.Lon(), p.Lat(), p.Lat()}))
	}
	m.ConvexHulls[0] = []*mgl64.Vec3{(*mgl64.Vec3)(&cart[0]), (*mgl64.Vec3)(&cart[1])}
	vs, err := shape.GetPointOnExtendedSpatialId(id, enum.Vertex)
	if err != nil {
		return 0, false
	}
	var hull []*mgl64.Vec3
	for _, v := range vs {
		c := geodesy.GeocentricFromGeodetic(geodesy.Geodetic{v.Lon(), v.Lat(), v.Lat()})
		hull = append(hull, (*mgl64.Vec3)(&c))
	}
	m.ConvexHulls[1] = hull
	m.MeasureNonnegativeDistance()
	return m.Distance, true
}

// uniformFit: every voxel of the line of corridor arguments a fits the same (horizontal, vertical) layer counts for the radius
func uniformFit(a []string) bool {
	s, ok1 := mkPoint(a[0], a[1], a[2])
	e, ok2 := mkPoint(a[3], a[4], a[5])
	if !ok1 || !ok2 || s == nil || e == nil {
		return false
	}
	line, err := shape.GetExtendedSpatialIdsOnLine(s, e, atoi(a[7]), atoi(a[8]))
	if err != nil {
		return false
	}
	layers := map[[2]int64]bool{}
	for _, id := range line {
		hl, vl, err := transform.FitClearanceAroundExtendedSpatialID(id, atof(a[6]))
		if err != nil {
			return false
		}
		layers[[2]int64{hl, vl}] = true
	}
	return len(layers) == 1
}

func init() {
	call := func(a []string) ([]string, error) {
		s, ok1 := mkPoint(a[0], a[1], a[2])
		e, ok2 := mkPoint(a[3], a[4], a[5])
		if !ok1 || !ok2 {
			return nil, fmt.Errorf("bad point")
		}
		return transform.GetExtendedSpatialIdsWithinRadiusOfLine(s, e, atof(a[6]), atoi(a[7]), atoi(a[8]), a[9] == "1")
	}
	// fit: the exported clearance fit on its own (error paths: malformed ID, negative clearance); args: id, "1" if clearance < 0
	op("fit", func(a []string) string {
		c := 1.5
		switch a[1] {
		case "1":
			c = -1.5
		case "2":
			c = 0
		case "3": // negative, however small, is negative
			c = -5e-11
		case "4":
			c = -math.SmallestNonzeroFloat64
		}
		return withTimeout(20*time.Second, func() string {
			h, v, err := transform.FitClearanceAroundExtendedSpatialID(a[0], c)
			if err != nil {
				return "ERR"
			}
			return fmt.Sprintf("%d:%d", h, v)
		})
	})
	register("fit", func(n int) {
		for i := 0; i < n; i++ {
			h := int64(10 + rng.Intn(14))
			v := int64(10 + rng.Intn(16))
			e := ext{h, randIdx(h), pow2(h)/4 + rng.Int63n(pow2(h)/2), v, int64(rng.Intn(9) - 4)}
			zeroAnyZoom := rng.Intn(6) == 0 // clearance 0 is answered 0:0 at EVERY zoom 0..35 (also where the grid is one tile)
			if zeroAnyZoom {
				e = randExt()
			}
			id := e.id()
			switch rng.Intn(4) {
			case 0:
				id = malformed(id)
			case 1:
				id = zoomFieldOut([]string{id})[0]
			}
			neg := "0"
			switch rng.Intn(6) {
			case 0:
				neg = "1"
			case 1, 2: // clearance exactly 0: the layer counts are 0, the ID is still checked
				neg = "2"
			}
			if zeroAnyZoom {
				neg = "2"
			}
			if rng.Intn(12) == 0 {
				neg = []string{"3", "4"}[rng.Intn(2)]
			}
			do("fit", id, neg)
		}
	})
	// corridor: sLon sLat sAlt eLon eLat eAlt radius h v skips | oracles: line fit close neg
	op("corridor", func(a []string) string {
		return withTimeout(60*time.Second, func() string { return setOrErr(call(a)) })
	})
	// corridordet: six identical calls must return the same set (C16 for the corridor; known finding D9)
	op("corridordet", func(a []string) string {
		return withTimeout(120*time.Second, func() string {
			first := ""
			distinct := map[string]bool{}
			for i := 0; i < 6; i++ {
				r := setOrErr(call(a))
				if i == 0 {
					first = r
				}
				distinct[r] = true
			}
			if len(distinct) > 1 {
				sizes := []string{}
				for r := range distinct {
					sizes = append(sizes, fmt.Sprint(len(strings.Split(r, ","))))
				}
				sort.Strings(sizes)
				// D9 is the documented cause only: the line's voxels disagree on the fitted layer counts and the call uses those of
				// whichever voxel its map iteration yields first.  Differing results although every line voxel fits the SAME
				// counts are something else.
				if uniformFit(a) {
					return "NONDET-UNIFORM " + fmt.Sprint(len(distinct)) + " different results in 6 identical calls although every line voxel fits the same layer counts, sizes " + strings.Join(sizes, "/")
				}
				return "D9NONDET " + fmt.Sprint(len(distinct)) + " different results in 6 identical calls, sizes " + strings.Join(sizes, "/")
			}
			_ = first
			return "OK"
		})
	})

	genArgs := func() []string {
		h := int64(8 + rng.Intn(16))
		v := int64(8 + rng.Intn(18))
		lat := rng.Float64()*150 - 75
		lon := rng.Float64()*350 - 175
		wLon := 360 / math.Pow(2, float64(h))
		wAlt := math.Pow(2, float64(25-v))
		wMetres := 40075016.0 * math.Cos(lat*math.Pi/180) / math.Pow(2, float64(h))
		span := func() float64 { return float64(rng.Intn(4)) * (rng.Float64()*0.9 + 0.1) * float64(1-2*rng.Intn(2)) }
		alt := (rng.Float64() - 0.5) * 4 * wAlt
		lon2, lat2, alt2 := lon+span()*wLon, lat+span()*wLon*0.7, alt+span()*wAlt
		radius := []float64{0, 0, 0.3, 0.8, 1.4}[rng.Intn(5)] * math.Min(wMetres, wAlt*4)
		anyZoom := false
		if rng.Intn(6) == 0 {
			anyZoom = true
			// radius 0 returns exactly the line's IDs at EVERY zoom pair 0..35 x 0..35 (positive radii stay at moderate zooms:
			// fitting them on a grid of a few tiles is outside what the function documents)
			h, v = int64(rng.Intn(36)), int64(rng.Intn(36))
			if rng.Intn(3) == 0 {
				h = int64(rng.Intn(3)) // grids of 1, 2 and 4 columns
			}
			wLon = 360 / math.Pow(2, float64(h))
			wAlt = math.Pow(2, float64(25-v))
			alt = (rng.Float64() - 0.5) * 4 * wAlt
			if h < 3 {
				lon, lat = rng.Float64()*300-150, rng.Float64()*140-70
				lon2, lat2, alt2 = rng.Float64()*300-150, rng.Float64()*140-70, alt+span()*wAlt
			} else {
				lon2, lat2, alt2 = lon+span()*wLon, lat+span()*wLon*0.7, alt+span()*wAlt
			}
			radius = 0
		}
		if !anyZoom && rng.Intn(8) == 0 {
			// radius 0, a segment placed symmetrically about a voxel corner: its midpoint is the corner itself up to one rounding,
			// and start + 0.5·(end − start) need not round like end + 0.5·(start − end) — the corridor must bisect the segment in
			// the same direction as the line query it is compared with
			k := math.Floor((lon + 180) / wLon)
			b := k*wLon - 180
			d := (rng.Float64()*0.9 + 0.05) * wLon * float64(1+rng.Intn(2))
			lon, lon2 = b-d, b+d
			kf := math.Floor(alt / wAlt)
			c := kf * wAlt
			da := (rng.Float64()*0.9 + 0.05) * wAlt
			alt, alt2 = c-da, c+da
			lat2 = lat
			if rng.Intn(2) == 0 {
				lat2 = lat + span()*wLon*0.3
			}
			radius = 0
			if rng.Intn(2) == 0 {
				lon, lat, alt, lon2, lat2, alt2 = lon2, lat2, alt2, lon, lat, alt
			}
		}
		if !anyZoom && rng.Intn(10) == 0 { // (positive radii only at the moderate zooms the widths above were computed for)
			// both end points inside ONE voxel, a positive radius below one voxel width: the measured result still leaves out the
			// diagonal and far candidates of the search box
			k := math.Floor((lon + 180) / wLon)
			c := (k+0.5)*wLon - 180
			lon, lon2 = c-0.1*wLon, c+0.1*wLon
			lat2 = lat
			kf := math.Floor(alt / wAlt)
			alt = (kf + 0.5) * wAlt
			alt2 = alt
			radius = []float64{0.1, 0.3, 0.6}[rng.Intn(3)] * math.Min(wMetres, wAlt*4)
		}
		corner := false
		if !anyZoom && rng.Intn(8) == 0 {
			// the north-west corner of the grid at a fine zoom: column and row numbers of one and two digits side by side
			// ((1,23) and (12,3) are different columns of the search box), a radius of about one voxel, measurement mostly on
			corner = true
			h = int64(17 + rng.Intn(6))
			v = zoomNear(h, 2, 2)
			n := math.Pow(2, float64(h))
			wLon = 360 / n
			wAlt = math.Pow(2, float64(25-v))
			cell := func(x, y float64) (float64, float64) {
				return -180 + x*wLon, math.Atan(math.Sinh(math.Pi*(1-2*y/n))) * 180 / math.Pi
			}
			x1, y1 := float64(rng.Intn(14))+rng.Float64(), float64(rng.Intn(30))+rng.Float64()
			x2, y2 := x1+float64(rng.Intn(13)-6), y1+float64(rng.Intn(25)-12)
			if rng.Intn(3) == 0 {
				x1, y1, x2, y2 = 1.5, 22.99, 12.5, 4.99
			}
			x2, y2 = math.Max(0.01, x2), math.Max(0.01, y2)
			lon, lat = cell(x1, y1)
			lon2, lat2 = cell(x2, y2)
			alt = (rng.Float64() - 0.5) * 2 * wAlt
			alt2 = alt
			if rng.Intn(3) == 0 {
				alt2 = alt + (rng.Float64()-0.5)*wAlt
			}
			wMetres = 40075016.0 * math.Cos(lat*math.Pi/180) / n
			radius = []float64{0.3, 0.3, 0.8, 1.4}[rng.Intn(4)] * math.Min(wMetres, wAlt*4)
		}
		skips := "0"
		if rng.Intn(3) == 0 && !(corner && rng.Intn(2) == 0) {
			skips = "1"
		}
		args := []string{fbits(lon), fbits(lat), fbits(alt), fbits(lon2), fbits(lat2), fbits(alt2), fbits(radius), s64(h), s64(v), skips}
		switch rng.Intn(40) {
		case 0:
			args[6] = fbits([]float64{-1 - rng.Float64(), -5e-11, -1e-12, -math.SmallestNonzeroFloat64}[rng.Intn(4)])
		case 1:
			args[7] = "36"
		case 2:
			args[0] = "nil"
		case 3:
			args[8] = "-1"
		}
		return args
	}
	oracles := func(a []string) []string {
		s, ok1 := mkPoint(a[0], a[1], a[2])
		e, ok2 := mkPoint(a[3], a[4], a[5])
		radius := atof(a[6])
		neg := "0"
		if radius < 0 {
			neg = "1"
		}
		if !ok1 || !ok2 || s == nil || e == nil {
			return []string{"ERR", "", "", neg}
		}
		h, v := atoi(a[7]), atoi(a[8])
		line, err := shape.GetExtendedSpatialIdsOnLine(s, e, h, v)
		if err != nil {
			return []string{"ERR", "", "", neg}
		}
		sort.Strings(line)
		if radius < 0 {
			return []string{join(line), "", "", neg}
		}
		var fits []string
		layers := map[[2]int64]bool{}
		for _, id := range line {
			hl, vl, err := transform.FitClearanceAroundExtendedSpatialID(id, radius)
			if err != nil {
				return []string{join(line), "", "", neg}
			}
			fits = append(fits, fmt.Sprintf("%s=%d:%d", id, hl, vl))
			layers[[2]int64{hl, vl}] = true
		}
		cands := map[string]bool{}
		for hv := range layers {
			around, _ := operated.GetNspatialIdsAroundVoxcels(line, hv[0], hv[1])
			for _, c := range common.Difference(around, line) {
				cands[c] = true
			}
		}
		var closeT []string
		keys := make([]string, 0, len(cands))
		for c := range cands {
			keys = append(keys, c)
		}
		sort.Strings(keys)
		for _, c := range keys {
			d, ok := corridorDist(s, e, c)
			flag := "0"
			if ok && d < radius {
				flag = "1"
			}
			closeT = append(closeT, c+"="+flag)
		}
		return []string{join(line), strings.Join(fits, ";"), strings.Join(closeT, ";"), neg}
	}
	register("corridor", func(n int) {
		for i := 0; i < n; i++ {
			a := genArgs()
			var o []string
			r := withTimeout(90*time.Second, func() string { o = oracles(a); return "ok" })
			if r != "ok" {
				continue
			}
			do("corridor", append(a, o...)...)
		}
	})
	register("corridordet", func(n int) {
		for i := 0; i < n; i++ {
			do("corridordet", genArgs()...)
		}
	})
	// the measured D9 witness: a long line across latitudes, where the fitted layer count depends on the voxel picked
	register("corridorD9", func(n int) {
		do("corridordet", fbits(139.0), fbits(58.0), fbits(100), fbits(139.5), fbits(66.0), fbits(100), fbits(4500), "12", "12", "1")
	})
}
