package main

import (
	"github.com/trajectoryjp/spatial_id_go/v4/detector"
)

func boolOrErr(b bool, err error) string {
	if err != nil {
		if b { // the documentation promises `false` together with the error
			return "ERR-WITH-TRUE"
		}
		return "ERR"
	}
	if b {
		return "true"
	}
	return "false"
}

// spatial ID (h = v) whose altitude lies within ±2^24 m most of the time
func randSpAlt() ext {
	z := randZoom()
	if z == 0 && rng.Intn(4) != 0 {
		z = 1 + int64(rng.Intn(35))
	}
	e := ext{z, randIdx(z), randIdx(z), z, 0}
	if z == 0 {
		e.f = int64(rng.Intn(2)) - 1
		return e
	}
	half := pow2(z - 1)
	switch rng.Intn(10) {
	case 0:
		e.f = -half
	case 1:
		e.f = half - 1
	case 2:
		e.f = -1
	case 3:
		e.f = 0
	case 4:
		e.f = half // just outside
	case 5:
		e.f = -half - 1 // just outside
	default:
		e.f = rng.Int63n(2*half) - half
	}
	return e
}

// relative of a spatial ID that is again a spatial ID (h = v)
func relativeSp(e ext) ext {
	switch rng.Intn(8) {
	case 0:
		return e
	case 7: // the lowest-corner descendant (all added bits zero) — callers put it next to e, in either order
		d := int64(1 + rng.Intn(3))
		if e.h+d > 35 {
			return e
		}
		return ext{e.h + d, e.x << uint(d), e.y << uint(d), e.h + d, e.f << uint(d)}
	case 6: // numeric twin at a neighbouring zoom: the same x and y NUMBERS and the same offset vertical index f + 2^(z-1)
		// (the key the single-zoom check stores) — a different voxel, which only the zoom tells apart
		z2 := e.h + 1
		if z2 > 35 || rng.Intn(2) == 0 {
			z2 = e.h - 1
		}
		if z2 < 1 || e.h < 1 {
			return e
		}
		r := ext{z2, e.x, e.y, z2, e.f + pow2(e.h-1) - pow2(z2-1)}
		return clampExt(r)
	case 1:
		d := int64(rng.Intn(4))
		if d >= e.h {
			d = e.h - 1
		}
		if d < 0 {
			d = 0
		}
		return ext{e.h - d, e.x >> uint(d), e.y >> uint(d), e.h - d, e.f >> uint(d)}
	case 2:
		d := int64(rng.Intn(3))
		if e.h+d > 35 {
			d = 35 - e.h
		}
		return ext{e.h + d, e.x<<uint(d) + rng.Int63n(pow2(d)), e.y<<uint(d) + rng.Int63n(pow2(d)), e.h + d, e.f<<uint(d) + rng.Int63n(pow2(d))}
	case 3:
		r := e
		switch rng.Intn(3) {
		case 0:
			r.x ^= 1
		case 1:
			r.y ^= 1
		default:
			r.f ^= 1
		}
		return clampExt(r)
	case 4:
		r := e
		r.f += int64(rng.Intn(3) - 1)
		r.x += int64(rng.Intn(3) - 1)
		return clampExt(r)
	default:
		return randSpAlt()
	}
}

// collidingPairs: list 1 = [A, A'] where A' is A with one more decimal digit d at the end of f; list 2 = [B', B] where B is an
// ancestor of A' at a one-digit horizontal zoom H and B' is B at zoom 10d+H: the texts A+B' and A'+B coincide although the
// pairs differ, and normally only (A', B) overlaps.  Sometimes the lists are reversed or padded with unrelated IDs.
func collidingPairs() ([]ext, []ext, bool) {
	d := int64(1 + rng.Intn(3))
	H := int64(1 + rng.Intn(5))
	if 10*d+H > 35 {
		H = 35 - 10*d
	}
	h := H + int64(rng.Intn(8))
	v := int64(5 + rng.Intn(12))
	q := int64(1 + rng.Intn(int(pow2(v)/10-1)))
	if q*10+d >= pow2(v) {
		return nil, nil, false
	}
	if rng.Intn(3) == 0 {
		q = -q
		d = -d
	}
	a2 := ext{h, rng.Int63n(pow2(h)), rng.Int63n(pow2(h)), v, q*10 + d}
	a1 := a2
	a1.f = q
	dv := int64(rng.Intn(3))
	b := ext{H, a2.x >> uint(h-H), a2.y >> uint(h-H), v - dv, a2.f >> uint(dv)}
	b2 := b
	if d < 0 {
		d = -d
	}
	b2.h = 10*d + H
	la, lb := []ext{a1, a2}, []ext{b2, b}
	if rng.Intn(3) == 0 {
		la = append([]ext{randExt()}, la...)
	}
	if rng.Intn(3) == 0 {
		lb = append(lb, randExt())
	}
	if rng.Intn(4) == 0 {
		la[0], la[len(la)-1] = la[len(la)-1], la[0]
	}
	return la, lb, true
}

func init() {
	op("ovE", func(a []string) string { return boolOrErr(detector.CheckExtendedSpatialIdsOverlap(a[0], a[1])) })
	op("ovEA", func(a []string) string {
		return boolOrErr(detector.CheckExtendedSpatialIdsArrayOverlap(split(a[0]), split(a[1])))
	})
	op("ovS", func(a []string) string { return boolOrErr(detector.CheckSpatialIdsOverlap(a[0], a[1])) })
	op("ovSA", func(a []string) string {
		return boolOrErr(detector.CheckSpatialIdsArrayOverlap(split(a[0]), split(a[1])))
	})

	register("ovE", func(n int) {
		for i := 0; i < n; i++ {
			a := randExt()
			b := relative(a)
			if rng.Intn(2) == 0 {
				b = relative(b)
			}
			ia, ib := a.id(), b.id()
			if rng.Intn(30) == 0 {
				ia = malformed(ia)
			}
			if rng.Intn(30) == 0 {
				ib = malformed(ib)
			}
			do("ovE", ia, ib)
			do("ovE", ib, ia) // symmetry: both argument orders
		}
	})
	register("ovEA", func(n int) {
		for i := 0; i < n; i++ {
			var la, lb []ext
			if rng.Intn(8) != 0 {
				la = randExtList(3)
			}
			if rng.Intn(8) != 0 {
				k := rng.Intn(3) + 1
				for j := 0; j < k; j++ {
					if len(la) > 0 && rng.Intn(2) == 0 {
						lb = append(lb, relative(la[rng.Intn(len(la))]))
					} else {
						lb = append(lb, randExt())
					}
				}
			}
			if rng.Intn(8) == 0 { // pair-text collision: A+B' and A'+B are the same digit string, only (A',B) overlaps
				if ca, cb, ok := collidingPairs(); ok {
					la, lb = ca, cb
				}
			}
			sa, sb := maybeCorrupt(ids(la), 0.05), maybeCorrupt(ids(lb), 0.05)
			do("ovEA", join(sa), join(sb))
			do("ovEA", join(sb), join(sa))
		}
	})
	register("ovS", func(n int) {
		for i := 0; i < n; i++ {
			a := randSpAlt()
			b := relativeSp(a)
			if rng.Intn(2) == 0 {
				b = relativeSp(b)
			}
			ia, ib := a.spid(), b.spid()
			if rng.Intn(30) == 0 {
				ia = malformed(ia)
			}
			if rng.Intn(30) == 0 {
				ib = malformed(ib)
			}
			do("ovS", ia, ib)
			do("ovS", ib, ia)
		}
	})
	register("ovSA", func(n int) {
		for i := 0; i < n; i++ {
			var la, lb []ext
			if rng.Intn(8) != 0 {
				k := rng.Intn(4) + 1
				for j := 0; j < k; j++ {
					if len(la) > 0 && rng.Intn(2) == 0 {
						la = append(la, relativeSp(la[rng.Intn(len(la))]))
					} else {
						la = append(la, randSpAlt())
					}
				}
			}
			if rng.Intn(8) != 0 {
				k := rng.Intn(3) + 1
				for j := 0; j < k; j++ {
					if len(la) > 0 && rng.Intn(2) == 0 {
						lb = append(lb, relativeSp(la[rng.Intn(len(la))]))
					} else {
						lb = append(lb, randSpAlt())
					}
				}
			}
			if rng.Intn(2) == 0 { // relatives before the element they were derived from
				for i, j := 0, len(la)-1; i < j; i, j = i+1, j-1 {
					la[i], la[j] = la[j], la[i]
				}
			}
			sa, sb := maybeCorrupt(spids(la), 0.05), maybeCorrupt(spids(lb), 0.05)
			do("ovSA", join(sa), join(sb))
			do("ovSA", join(sb), join(sa))
		}
	})
}
