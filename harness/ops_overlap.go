package main

import (
	"github.com/trajectoryjp/spatial_id_go/v4/detector"
)

func boolOrErr(b bool, err error) string {
	if err != nil {
		if b { // the documentation promises `false` together with the error
			return "ERR-WITH-TRUE"
		}
		return "ERR"
	}
	if b {
		return "true"
	}
	return "false"
}

// spatial ID (h = v) whose altitude lies within ±2^24 m most of the time
func randSpAlt() ext {
	z := randZoom()
	if z == 0 && rng.Intn(4) != 0 {
		z = 1 + int64(rng.Intn(35))
	}
	e := ext{z, randIdx(z), randIdx(z), z, 0}
	if z == 0 {
		e.f = int64(rng.Intn(2)) - 1
		return e
	}
	half := pow2(z - 1)
	switch rng.Intn(10) {
	case 0:
		e.f = -half
	case 1:
		e.f = half - 1
	case 2:
		e.f = -1
	case 3:
		e.f = 0
	case 4:
		e.f = half // just outside
	case 5:
		e.f = -half - 1 // just outside
	default:
		e.f = rng.Int63n(2*half) - half
	}
	return e
}

// relative of a spatial ID that is again a spatial ID (h = v)
func relativeSp(e ext) ext {
	switch rng.Intn(8) {
	case 0:
		return e
	case 7: // the lowest-corner descendant (all added bits zero) — callers put it next to e, in either order
		d := int64(1 + rng.Intn(3))
		if e.h+d > 35 {
			return e
		}
		return ext{e.h + d, e.x << uint(d), e.y << uint(d), e.h + d, e.f << uint(d)}
	case 6: // numeric twin at a neighbouring zoom: the same x and y NUMBERS and the same offset vertical index f + 2^(z-1)
		// (the key the single-zoom check stores) — a different voxel, which only the zoom tells apart
		z2 := e.h + 1
		if z2 > 35 || rng.Intn(2) == 0 {
			z2 = e.h - 1
		}
		if z2 < 1 || e.h < 1 {
			return e
		}
		r := ext{z2, e.x, e.y, z2, e.f + pow2(e.h-1) - pow2(z2-1)}
		return clampExt(r)
	case 1:
		d := int64(rng.Intn(4))
		if d >= e.h {
			d = e.h - 1
		}
		if d < 0 {
			d = 0
		}
		return ext{e.h - d, e.x >> uint(d), e.y >> uint(d), e.h - d, e.f >> uint(d)}
	case 2:
		d := int64(rng.Intn(3))
		if e.h+d > 35 {
			d = 35 - e.h
		}
		return ext{e.h + d, e.x<<uint(d) + rng.Int63n(pow2(d)), e.y<<uint(d) + rng.Int63n(pow2(d)), e.h + d, e.f<<uint(d) + rng.Int63n(pow2(d))}
	case 3:
		r := e
		switch rng.Intn(3) {
		case 0:
			r.x ^= 1
		case 1:
			r.y ^= 1
		default:
			r.f ^= 1
		}
		return clampExt(r)
	case 4:
		r := e
		r.f += int64(rng.Intn(3) - 1)
		r.x += int64(rng.Intn(3) - 1)
		return clampExt(r)
	default:
		return randSpAlt()
	}
}

func init() {
	op("ovE", func(a []string) string { return boolOrErr(detector.CheckExtendedSpatialIdsOverlap(a[0], a[1])) })
	op("ovEA", func(a []string) string {
		return boolOrErr(detector.CheckExtendedSpatialIdsArrayOverlap(split(a[0]), split(a[1])))
	})
	op("ovS", func(a []string) string { return boolOrErr(detector.CheckSpatialIdsOverlap(a[0], a[1])) })
	op("ovSA", func(a []string) string {
		return boolOrErr(detector.CheckSpatialIdsArrayOverlap(split(a[0]), split(a[1])))
	})

	register("ovE", func(n int) {
		for i := 0; i < n; i++ {
			a := randExt()
			b := relative(a)
			if rng.Intn(2) == 0 {
				b = relative(b)
			}
			ia, ib := a.id(), b.id()
			if rng.Intn(30) == 0 {
				ia = malformed(ia)
			}
			if rng.Intn(30) == 0 {
				ib = malformed(ib)
			}
			do("ovE", ia, ib)
			do("ovE", ib, ia) // symmetry: both argument orders
		}
	})
	register("ovEA", func(n int) {
		for i := 0; i < n; i++ {
			var la, lb []ext
			if rng.Intn(8) != 0 {
				la = randExtList(3)
			}
			if rng.Intn(8) != 0 {
				k := rng.Intn(3) + 1
				for j := 0; j < k; j++ {
					if len(la) > 0 && rng.Intn(2) == 0 {
						lb = append(lb, relative(la[rng.Intn(len(la))]))
					} else {
						lb = append(lb, randExt())
					}
				}
			}
			sa, sb := maybeCorrupt(ids(la), 0.05), maybeCorrupt(ids(lb), 0.05)
			do("ovEA", join(sa), join(sb))
			do("ovEA", join(sb), join(sa))
		}
	})
	register("ovS", func(n int) {
		for i := 0; i < n; i++ {
			a := randSpAlt()
			b := relativeSp(a)
			if rng.Intn(2) == 0 {
				b = relativeSp(b)
			}
			ia, ib := a.spid(), b.spid()
			if rng.Intn(30) == 0 {
				ia = malformed(ia)
			}
			if rng.Intn(30) == 0 {
				ib = malformed(ib)
			}
			do("ovS", ia, ib)
			do("ovS", ib, ia)
		}
	})
	register("ovSA", func(n int) {
		for i := 0; i < n; i++ {
			var la, lb []ext
			if rng.Intn(8) != 0 {
				k := rng.Intn(4) + 1
				for j := 0; j < k; j++ {
					if len(la) > 0 && rng.Intn(2) == 0 {
						la = append(la, relativeSp(la[rng.Intn(len(la))]))
					} else {
						la = append(la, randSpAlt())
					}
				}
			}
			if rng.Intn(8) != 0 {
				k := rng.Intn(3) + 1
				for j := 0; j < k; j++ {
					if len(la) > 0 && rng.Intn(2) == 0 {
						lb = append(lb, relativeSp(la[rng.Intn(len(la))]))
					} else {
						lb = append(lb, randSpAlt())
					}
				}
			}
			if rng.Intn(2) == 0 { // relatives before the element they were derived from
				for i, j := 0, len(la)-1; i < j; i, j = i+1, j-1 {
					la[i], la[j] = la[j], la[i]
				}
			}
			sa, sb := maybeCorrupt(spids(la), 0.05), maybeCorrupt(spids(lb), 0.05)
			do("ovSA", join(sa), join(sb))
			do("ovSA", join(sb), join(sa))
		}
	})
}
