package main

import (
	"fmt"
	"math"
	"strconv"
)

// floats travel as the decimal value of their bit pattern; -0 is normalised to +0
func fbits(x float64) string {
	if x == 0 {
		return "0"
	}
	return strconv.FormatUint(math.Float64bits(x), 10)
}

func fromBits(s string) float64 {
	u, err := strconv.ParseUint(s, 10, 64)
	if err != nil {
		panic("harness: bad float bits " + s)
	}
	return math.Float64frombits(u)
}

func finite(x float64) bool { return !math.IsNaN(x) && !math.IsInf(x, 0) }

// random finite double with a structured distribution
func randDouble() float64 {
	switch rng.Intn(10) {
	case 0:
		return float64(rng.Intn(2001) - 1000)
	case 1:
		return float64(rng.Int63n(1<<53)) * math.Pow(2, float64(rng.Intn(80)-60))
	case 2: // subnormal or tiny
		return math.Float64frombits(uint64(rng.Int63n(1 << 54)))
	case 3: // near an integer
		return float64(rng.Intn(1<<20)) + float64(rng.Intn(3)-1)*math.Pow(2, float64(-rng.Intn(50)))
	case 4:
		return -math.Float64frombits(uint64(rng.Int63n(1<<62) + (1 << 61)))
	case 5: // moderate magnitude, random mantissa
		return (rng.Float64()*2 - 1) * math.Pow(2, float64(rng.Intn(60)-30))
	default:
		// exponent within ±300 so that products/quotients stay finite
		e := rng.Intn(600) + 723
		return math.Float64frombits(uint64(rng.Int63n(2))<<63 | uint64(e)<<52 | uint64(rng.Int63n(1<<52)))
	}
}

func init() {
	bin := func(f func(a, b float64) float64) func(a []string) string {
		return func(a []string) string {
			r := f(fromBits(a[0]), fromBits(a[1]))
			if !finite(r) {
				return "NONFINITE"
			}
			return fbits(r)
		}
	}
	op("fadd", bin(func(a, b float64) float64 { return a + b }))
	op("fsub", bin(func(a, b float64) float64 { return a - b }))
	op("fmul", bin(func(a, b float64) float64 { return a * b }))
	op("fdiv", bin(func(a, b float64) float64 { return a / b }))
	op("ffloor", func(a []string) string { return fbits(math.Floor(fromBits(a[0]))) })
	op("fceil", func(a []string) string { return fbits(math.Ceil(fromBits(a[0]))) })
	op("fofint", func(a []string) string { return fbits(float64(atoi(a[0]))) })
	op("flt", func(a []string) string { return fmt.Sprint(fromBits(a[0]) < fromBits(a[1])) })

	register("f64", func(n int) {
		for i := 0; i < n; i++ {
			a, b := randDouble(), randDouble()
			if rng.Intn(5) == 0 { // close operands: cancellation
				b = a * (1 + float64(rng.Intn(9)-4)*math.Pow(2, -float64(rng.Intn(53))))
			}
			name := []string{"fadd", "fsub", "fmul", "fdiv", "ffloor", "fceil", "fofint", "flt"}[rng.Intn(8)]
			switch name {
			case "ffloor", "fceil":
				if math.Abs(a) > 1e300 {
					a = 1e300
				}
				do(name, fbits(a))
			case "fofint":
				v := rng.Int63() - (1 << 62)
				if rng.Intn(2) == 0 {
					v >>= uint(rng.Intn(60))
				}
				do(name, s(v))
			case "fdiv":
				if b == 0 {
					b = 1
				}
				if r := a / b; !finite(r) {
					continue
				}
				do(name, fbits(a), fbits(b))
			default:
				var r float64
				switch name {
				case "fadd":
					r = a + b
				case "fsub":
					r = a - b
				case "fmul":
					r = a * b
				}
				if !finite(r) {
					continue
				}
				do(name, fbits(a), fbits(b))
			}
		}
	})
}
