package main

import (
	"fmt"
	"strconv"
	"strings"
)

var hotZooms = []int64{0, 1, 2, 3, 24, 25, 26, 30, 31, 34, 35}

func randZoom() int64 {
	if rng.Intn(2) == 0 {
		return hotZooms[rng.Intn(len(hotZooms))]
	}
	return int64(rng.Intn(36))
}

// zoom near z (within ±spread), clamped to 0..35
func zoomNear(z int64, down, up int) int64 {
	r := z + int64(rng.Intn(down+up+1)-down)
	if r < 0 {
		r = 0
	}
	if r > 35 {
		r = 35
	}
	return r
}

func pow2(z int64) int64 { return int64(1) << uint(z) }

// horizontal index at zoom z: edges and uniform
func randIdx(z int64) int64 {
	n := pow2(z)
	var v int64
	switch rng.Intn(8) {
	case 0:
		v = 0
	case 1:
		v = 1
	case 2:
		v = n - 1
	case 3:
		v = n - 2
	default:
		v = rng.Int63n(n)
	}
	if v < 0 {
		v = 0
	}
	if v > n-1 {
		v = n - 1
	}
	return v
}

// vertical index at zoom v: both signs, edges, around zero
func randF(z int64) int64 {
	n := pow2(z)
	var v int64
	switch rng.Intn(14) {
	case 0:
		v = -n
	case 1:
		v = -n + 1
	case 2:
		v = -3
	case 3:
		v = -2
	case 4:
		v = -1
	case 5:
		v = 0
	case 6:
		v = 1
	case 7:
		v = 2
	case 8:
		v = n - 1
	case 9:
		v = -(n / 2)
	case 10:
		v = n/2 - 1
	default:
		v = rng.Int63n(2*n) - n
	}
	if v < -n {
		v = -n
	}
	if v > n-1 {
		v = n - 1
	}
	return v
}

type ext struct{ h, x, y, v, f int64 }

func (e ext) id() string   { return fmt.Sprintf("%d/%d/%d/%d/%d", e.h, e.x, e.y, e.v, e.f) }
func (e ext) spid() string { return fmt.Sprintf("%d/%d/%d/%d", e.h, e.f, e.x, e.y) }

func randExt() ext {
	h, v := randZoom(), randZoom()
	return ext{h, randIdx(h), randIdx(h), v, randF(v)}
}

func randExtAt(h, v int64) ext { return ext{h, randIdx(h), randIdx(h), v, randF(v)} }

func randSp() ext {
	z := randZoom()
	return ext{z, randIdx(z), randIdx(z), z, randF(z)}
}

// an ID related to e: ancestor, descendant, sibling, neighbour, or the same
func relative(e ext) ext {
	switch rng.Intn(10) {
	case 0:
		return e
	case 9: // re-split twin: a digit moved across one '/' (4/1/12/… ↔ 4/11/2/…): the same digit string, other numbers
		if r, ok := resplit(e); ok {
			return r
		}
		return e
	case 8: // the same voxel mirrored across the grid: the TOP bit of x or y flipped (same low bits, other quadrant)
		r := e
		if e.h >= 1 {
			if rng.Intn(2) == 0 {
				r.x ^= pow2(e.h - 1)
			} else {
				r.y ^= pow2(e.h - 1)
			}
			if rng.Intn(3) == 0 && e.h >= 2 {
				r.y ^= pow2(e.h - 2)
			}
		}
		return r
	case 7: // the same five NUMBERS except one zoom: a different voxel that shares every index with e
		r := e
		if rng.Intn(2) == 0 {
			r.v = e.v + int64(1-2*rng.Intn(2))
			if r.v < 0 || r.v > 35 {
				r.v = e.v
			}
		} else {
			r.h = e.h + 1
			if r.h > 35 {
				r.h = e.h
			}
		}
		return clampExt(r)
	case 6: // textual relative: same zooms, one component whose decimal text extends or truncates the other's (3 ↔ 31, 12 ↔ 1):
		// an ID is its five numbers, never a prefix of its text
		r := e
		ext10 := func(v int64) int64 {
			if rng.Intn(2) == 0 {
				return v / 10
			}
			return v*10 + int64(rng.Intn(10))
		}
		switch rng.Intn(3) {
		case 0:
			r.x = ext10(r.x)
		case 1:
			r.y = ext10(r.y)
		default:
			if r.f < 0 {
				r.f = -ext10(-r.f)
			} else {
				r.f = ext10(r.f)
			}
		}
		return clampExt(r)
	case 1: // ancestor (per axis independent)
		dh, dv := int64(rng.Intn(4)), int64(rng.Intn(4))
		if dh > e.h {
			dh = e.h
		}
		if dv > e.v {
			dv = e.v
		}
		return ext{e.h - dh, e.x >> uint(dh), e.y >> uint(dh), e.v - dv, e.f >> uint(dv)}
	case 2: // descendant
		dh, dv := int64(rng.Intn(3)), int64(rng.Intn(3))
		if e.h+dh > 35 {
			dh = 35 - e.h
		}
		if e.v+dv > 35 {
			dv = 35 - e.v
		}
		return ext{e.h + dh, e.x<<uint(dh) + rng.Int63n(pow2(dh)), e.y<<uint(dh) + rng.Int63n(pow2(dh)), e.v + dv, e.f<<uint(dv) + rng.Int63n(pow2(dv))}
	case 3: // sibling on one axis
		r := e
		switch rng.Intn(3) {
		case 0:
			r.x ^= 1
		case 1:
			r.y ^= 1
		default:
			r.f ^= 1
		}
		return clampExt(r)
	case 4: // neighbour
		r := e
		r.x += int64(rng.Intn(3) - 1)
		r.y += int64(rng.Intn(3) - 1)
		r.f += int64(rng.Intn(3) - 1)
		return clampExt(r)
	default:
		return randExtAt(zoomNear(e.h, 2, 2), zoomNear(e.v, 2, 2))
	}
}

// resplit moves one decimal digit from the end of a field to the front of the next one or back, keeping the ID valid and
// canonical (no leading zero): the concatenated digits of the two fields are unchanged, the numbers are not.
func resplit(e ext) (ext, bool) {
	f := []int64{e.h, e.x, e.y, e.v, e.f}
	for try := 0; try < 12; try++ {
		i := rng.Intn(4)
		a, b := strconv.FormatInt(f[i], 10), strconv.FormatInt(f[i+1], 10)
		if a[0] == '-' || b[0] == '-' {
			continue
		}
		var na, nb string
		if rng.Intn(2) == 0 { // last digit of a → front of b
			if len(a) < 2 || a[len(a)-1] == '0' {
				continue
			}
			na, nb = a[:len(a)-1], a[len(a)-1:]+b
		} else { // first digit of b → end of a
			if len(b) < 2 || b[1] == '0' || a == "0" {
				continue
			}
			na, nb = a+b[:1], b[1:]
		}
		va, err1 := strconv.ParseInt(na, 10, 64)
		vb, err2 := strconv.ParseInt(nb, 10, 64)
		if err1 != nil || err2 != nil {
			continue
		}
		g := append([]int64{}, f...)
		g[i], g[i+1] = va, vb
		r := ext{g[0], g[1], g[2], g[3], g[4]}
		if r.h < 0 || r.h > 35 || r.v < 0 || r.v > 35 || r != clampExt(r) {
			continue
		}
		return r, true
	}
	return e, false
}

func clampExt(e ext) ext {
	n := pow2(e.h)
	m := pow2(e.v)
	if e.x < 0 {
		e.x = 0
	}
	if e.x > n-1 {
		e.x = n - 1
	}
	if e.y < 0 {
		e.y = 0
	}
	if e.y > n-1 {
		e.y = n - 1
	}
	if e.f < -m {
		e.f = -m
	}
	if e.f > m-1 {
		e.f = m - 1
	}
	return e
}

// a list of 1..maxLen related valid IDs
func randExtList(maxLen int) []ext {
	n := 1 + rng.Intn(maxLen)
	l := []ext{randExt()}
	for len(l) < n {
		l = append(l, relative(l[rng.Intn(len(l))]))
	}
	return l
}

func ids(l []ext) []string {
	r := make([]string, len(l))
	for i, e := range l {
		r[i] = e.id()
	}
	return r
}

func spids(l []ext) []string {
	r := make([]string, len(l))
	for i, e := range l {
		r[i] = e.spid()
	}
	return r
}

// malformed ID strings: wrong arity, empty fields, spaces, signs, non-digits, overflow.
var junkFields = []string{"", " ", "a", "1a", "+", "-", "--1", "++3", "+-2", "-+2", "+ 1", "1+", "1-", "1.0", "1e3", "0x1", " 1", "1 ", "９",
	"9223372036854775808", "-9223372036854775809", "99999999999999999999", "1_000", "١"}

// a non-canonical spelling of the same integer (accepted by strconv.ParseInt): the value, and therefore
// the zoom spread and the size of the result, is unchanged.
func noncanon(v string) string {
	neg := strings.HasPrefix(v, "-")
	abs := strings.TrimPrefix(v, "-")
	switch rng.Intn(3) {
	case 0:
		if !neg {
			return "+" + abs
		}
		return "-0" + abs
	case 1:
		if neg {
			return "-00" + abs
		}
		return "0" + abs
	default:
		if abs == "0" {
			return "-0"
		}
		return v
	}
}

func malformed(valid string) string {
	f := strings.Split(valid, "/")
	switch rng.Intn(7) {
	case 0: // drop a field
		i := rng.Intn(len(f))
		f = append(f[:i:i], f[i+1:]...)
	case 1: // add a field
		i := rng.Intn(len(f) + 1)
		f = append(f[:i:i], append([]string{fmt.Sprint(rng.Intn(5))}, f[i:]...)...)
	case 2, 3: // junk in one field
		if len(f) == 0 {
			return "x"
		}
		f[rng.Intn(len(f))] = junkFields[rng.Intn(len(junkFields))]
	case 4: // NOT malformed: a non-canonical spelling of one field (same value)
		if len(f) == 0 {
			return "x"
		}
		i := rng.Intn(len(f))
		if _, err := strconv.ParseInt(f[i], 10, 64); err == nil {
			f[i] = noncanon(f[i])
		}
	case 5: // trailing or leading slash / empty string / no slash
		switch rng.Intn(8) {
		case 6: // a line terminator after (or before) an otherwise valid ID: the last field is then not an integer
			return valid + []string{"\n", "\r\n", "\r", "\n\n", " ", "\t"}[rng.Intn(6)]
		case 7:
			return []string{"\n", " ", "\r\n"}[rng.Intn(3)] + valid
		case 4: // a doubled delimiter inside: one surplus EMPTY field between two valid ones
			i := 1 + rng.Intn(len(f)-1+boolToInt(len(f) == 1))
			if i >= len(f) {
				return valid + "//"
			}
			return strings.Join(f[:i], "/") + "//" + strings.Join(f[i:], "/")
		case 5:
			return valid + "//"
		case 0:
			return valid + "/"
		case 1:
			return "/" + valid
		case 2:
			return ""
		default:
			return strings.ReplaceAll(valid, "/", " ")
		}
	default: // few fields
		k := rng.Intn(4)
		if k > len(f) {
			k = len(f)
		}
		f = f[:k]
	}
	return strings.Join(f, "/")
}

// zoomFieldOut: with probability 1/40 one extended ID of the list gets a zoom field outside 0..35 (36 or -1). Only used for the
// operations that check the zoom fields of their IDs themselves (vertex/centre query, the two "to quadkey" conversions).
func zoomFieldOut(idl []string) []string {
	if len(idl) == 0 || rng.Intn(40) != 0 {
		return idl
	}
	i := rng.Intn(len(idl))
	f := strings.Split(idl[i], "/")
	if len(f) != 5 {
		return idl
	}
	k := []int{0, 3}[rng.Intn(2)]
	f[k] = []string{"36", "-1", "40"}[rng.Intn(3)]
	out := append([]string(nil), idl...)
	out[i] = strings.Join(f, "/")
	return out
}
