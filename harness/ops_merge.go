package main

import (
	"github.com/trajectoryjp/spatial_id_go/v4/integrate"
)

// children of e at zooms (e.h+dh, e.v+dv)
func childrenOf(e ext, dh, dv int64) []ext {
	var r []ext
	nh, nv := pow2(dh), pow2(dv)
	for x := e.x * nh; x < (e.x+1)*nh; x++ {
		for y := e.y * nh; y < (e.y+1)*nh; y++ {
			for f := e.f * nv; f < (e.f+1)*nv; f++ {
				r = append(r, ext{e.h + dh, x, y, e.v + dv, f})
			}
		}
	}
	return r
}

func init() {
	op("mrgExt", func(a []string) string {
		l, err := integrate.MergeExtendedSpatialIds(split(a[0]), atoi(a[1]), atoi(a[2]))
		return setOrErrZ(l, err, 0, 35, atoi(a[1]), atoi(a[2]))
	})
	op("mrgSp", func(a []string) string {
		l, err := integrate.MergeSpatialIds(split(a[0]), atoi(a[1]))
		return setOrErrZ(l, err, 0, 35, atoi(a[1]))
	})

	// a target voxel g at (H,V) with H,V ≤ 33; inputs: its complete / one-short / partial sets of descendants at mixed
	// zooms (spread ≤ 2), plus strangers (coarser in one axis, other groups, across f = -1/0), duplicates, shuffles.
	gen := func(spatial bool) []string {
		var H, V int64
		if rng.Intn(15) == 0 {
			// a target far coarser than the inputs (21 levels or more): one or two fine voxels can never fill it, and the
			// count it is compared with, 4^dh·2^dv, no longer fits in 64 bits — the inputs come back unchanged
			z := int64(22 + rng.Intn(14))
			H = int64(rng.Intn(int(z-21) + 1))
			V = H
			zv := z
			if !spatial {
				zv = int64(22 + rng.Intn(14))
				V = int64(rng.Intn(int(zv-21) + 1))
			}
			e := randExtAt(z, zv)
			if spatial {
				e = clampExtF(e)
			}
			l := []ext{e}
			if rng.Intn(2) == 0 {
				sib := e
				sib.x ^= 1
				l = append(l, sib)
			}
			if spatial {
				return []string{join(spids(l)), s(H)}
			}
			return []string{join(ids(l)), s(H), s(V)}
		}
		for {
			H, V = randZoom(), randZoom()
			if spatial {
				V = H
			}
			if H <= 33 && V <= 33 {
				break
			}
		}
		g := ext{H, randIdx(H), randIdx(H), V, randF(V)}
		if rng.Intn(3) == 0 { // straddle ground level
			g.f = int64(rng.Intn(2)) - 1
		}
		var l []ext
		ngroups := 1 + rng.Intn(2)
		for gi := 0; gi < ngroups; gi++ {
			gg := g
			if gi > 0 {
				gg = clampExt(ext{H, g.x + int64(rng.Intn(3)-1), g.y, V, g.f + int64(rng.Intn(3)-1)})
			}
			dh, dv := int64(rng.Intn(2)), int64(rng.Intn(3))
			if spatial {
				dv = dh
			}
			kids := childrenOf(gg, dh, dv)
			// refine some kids one more level (mixed zooms in one group)
			var set []ext
			for _, k := range kids {
				if rng.Intn(5) == 0 && k.h < 35 && k.v < 35 {
					if spatial {
						set = append(set, childrenOf(k, 1, 1)...)
					} else if rng.Intn(2) == 0 {
						set = append(set, childrenOf(k, 0, 1)...)
					} else {
						set = append(set, childrenOf(k, 1, 0)...)
					}
				} else {
					set = append(set, k)
				}
			}
			switch rng.Intn(4) {
			case 0: // one short
				if len(set) > 1 {
					i := rng.Intn(len(set))
					set = append(set[:i:i], set[i+1:]...)
				}
			case 1: // partial
				rng.Shuffle(len(set), func(i, j int) { set[i], set[j] = set[j], set[i] })
				set = set[:1+rng.Intn(len(set))]
			}
			l = append(l, set...)
		}
		// strangers
		for k := rng.Intn(3); k > 0; k-- {
			switch rng.Intn(3) {
			case 0: // coarser than the target in one axis: returned unchanged
				e := g
				if e.h > 0 && !spatial && rng.Intn(2) == 0 {
					e = ext{g.h - 1, g.x >> 1, g.y >> 1, g.v, g.f}
				} else if e.v > 0 {
					if spatial {
						if e.h > 0 {
							e = ext{g.h - 1, g.x >> 1, g.y >> 1, g.v - 1, g.f >> 1}
						}
					} else {
						e = ext{g.h, g.x, g.y, g.v - 1, g.f >> 1}
					}
				}
				l = append(l, e)
			case 1: // duplicate of an input
				if len(l) > 0 {
					l = append(l, l[rng.Intn(len(l))])
				}
			default: // the target voxel itself or an ancestor/descendant overlap
				l = append(l, g)
			}
		}
		// special list shapes: nothing fine enough to merge (only inputs coarser than the target, some repeated); the
		// empty list; a single input
		switch rng.Intn(12) {
		case 0:
			var coarse []ext
			for k := 1 + rng.Intn(3); k > 0; k-- {
				e := clampExt(ext{g.h, g.x + int64(rng.Intn(3)-1), g.y, g.v, g.f + int64(rng.Intn(3)-1)})
				if spatial {
					if e.h > 0 {
						e = ext{e.h - 1, e.x >> 1, e.y >> 1, e.v - 1, e.f >> 1}
					}
				} else if e.v > 0 && rng.Intn(2) == 0 {
					e = ext{e.h, e.x, e.y, e.v - 1, e.f >> 1}
				} else if e.h > 0 {
					e = ext{e.h - 1, e.x >> 1, e.y >> 1, e.v, e.f}
				}
				coarse = append(coarse, e)
				if rng.Intn(2) == 0 {
					coarse = append(coarse, e)
				}
			}
			l = coarse
		case 1:
			l = nil
		case 2:
			if len(l) > 0 {
				l = l[:1]
			}
		}
		rng.Shuffle(len(l), func(i, j int) { l[i], l[j] = l[j], l[i] })
		if len(l) > 200 {
			l = l[:200]
		}
		var idl []string
		if spatial {
			idl = spids(l)
		} else {
			idl = ids(l)
		}
		idl = maybeCorrupt(idl, 0.03)
		Hs, Vs := H, V
		switch rng.Intn(40) {
		case 0:
			Hs = 36
		case 1:
			Vs = -1
		}
		if spatial {
			return []string{join(idl), s(Hs)}
		}
		return []string{join(idl), s(Hs), s(Vs)}
	}
	register("mrgExt", func(n int) {
		for i := 0; i < n; i++ {
			do("mrgExt", gen(false)...)
		}
	})
	register("mrgSp", func(n int) {
		for i := 0; i < n; i++ {
			do("mrgSp", gen(true)...)
		}
	})
}
