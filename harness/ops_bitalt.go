package main

import (
	"fmt"
	"math"
	"strings"

	"github.com/trajectoryjp/spatial_id_go/v4/common/object"
	"github.com/trajectoryjp/spatial_id_go/v4/transform"
)

// a height range max > min: symmetric, asymmetric, dyadic and non-dyadic
func randRange() (float64, float64) {
	switch rng.Intn(6) {
	case 0:
		w := math.Pow(2, float64(rng.Intn(20)+1))
		return w, -w
	case 1:
		return math.Pow(2, float64(rng.Intn(20)+1)), 0
	case 2:
		return 1000.5, -333.3
	case 3:
		lo := float64(rng.Intn(2001) - 1000)
		return lo + 1 + rng.Float64()*5000, lo
	case 4:
		return 500, 0
	default:
		lo := (rng.Float64() - 0.5) * 20000
		return lo + rng.Float64()*20000 + 0.001, lo
	}
}

func init() {
	op("calcbit", func(a []string) string {
		return fmt.Sprint(transform.VerifCalcBitIndex(atof(a[0]), atoi(a[1]), atof(a[2]), atof(a[3])))
	})
	op("v2b", func(a []string) string {
		return i64s(transform.VerifConvertVerticallIDToBit(atoi(a[0]), atoi(a[1]), atoi(a[2]), atof(a[3]), atof(a[4])))
	})
	op("b2v", func(a []string) string {
		return join(transform.VerifConvertBitToVerticalID(atoi(a[0]), atoi(a[1]), atoi(a[2]), atof(a[3]), atof(a[4])))
	})
	// a[5], a[6]: the heights printed the way the result header prints them (echo check)
	op("e2qvh", func(a []string) string {
		r, err := transform.ConvertExtendedSpatialIDsToQuadkeysAndVerticalIDs(split(a[0]), atoi(a[1]), atoi(a[2]), atof(a[3]), atof(a[4]))
		if err != nil {
			return "ERR"
		}
		if len(r) == 0 {
			return "[]"
		}
		gs := make([]string, len(r))
		for i, g := range r {
			gs[i] = fmt.Sprintf("%d/%d/%s/%s|%s", g.QuadkeyZoom(), g.VerticalZoom(), fl(g.MaxHeight()), fl(g.MinHeight()), pairsStr(g.InnerIDList()))
		}
		return strings.Join(gs, ";")
	})
	// qv2extm: items qz:q:vz:vi:max:min — every element carries its own height pair, as the Go objects do
	op("qv2extm", func(a []string) string {
		var l []*object.QuadkeyAndVerticalID
		for _, it := range split(a[0]) {
			f := strings.Split(it, ":")
			l = append(l, object.NewQuadkeyAndVerticalID(atoi(f[0]), atoi(f[1]), atoi(f[2]), atoi(f[3]), atof(f[4]), atof(f[5])))
		}
		return setOrErr(transform.ConvertQuadkeysAndVerticalIDsToExtendedSpatialIDs(l, atoi(a[1]), atoi(a[2])))
	})
	op("qv2exth", func(a []string) string {
		var l []*object.QuadkeyAndVerticalID
		for _, it := range split(a[0]) {
			f := strings.Split(it, ":")
			l = append(l, object.NewQuadkeyAndVerticalID(atoi(f[0]), atoi(f[1]), atoi(f[2]), atoi(f[3]), atof(a[3]), atof(a[4])))
		}
		return setOrErr(transform.ConvertQuadkeysAndVerticalIDsToExtendedSpatialIDs(l, atoi(a[1]), atoi(a[2])))
	})

	register("bitalt", func(n int) {
		for i := 0; i < n; i++ {
			mx, mn := randRange()
			if rng.Intn(25) == 0 {
				mx, mn = mn, mx // max < min: error in the exported functions
			}
			switch rng.Intn(8) {
			case 0: // calcBitIndex: altitude inside, on borders, outside (clamped)
				z := int64(rng.Intn(36))
				var alt float64
				switch rng.Intn(5) {
				case 0:
					alt = mn + (mx-mn)*float64(rng.Intn(9))/8
				case 1:
					alt = mn - 1 - rng.Float64()*1000
				case 2:
					alt = mx + rng.Float64()*1000
				default:
					alt = mn + (mx-mn)*rng.Float64()
				}
				do("calcbit", fbits(alt), s(z), fbits(mx), fbits(mn))
			case 1: // voxel → bit IDs: voxel inside / straddling / outside the range; bounded run length
				vz := int64(10 + rng.Intn(20))
				span := math.Abs(mx - mn)
				cell := math.Pow(2, float64(25-vz))
				oz := int64(math.Floor(math.Log2(span/cell))) + int64(rng.Intn(5)) // about 1..16 bit cells per voxel
				if oz < 0 {
					oz = 0
				}
				if oz > 35 {
					oz = 35
				}
				if rng.Intn(4) == 0 { // any coarser output zoom is at least as cheap: include 0, 1, 2
					oz = int64(rng.Intn(int(oz) + 1))
					if rng.Intn(3) == 0 {
						oz = int64(rng.Intn(3))
					}
				}
				vi := int64(math.Floor((mn + (mx-mn)*(rng.Float64()*1.4-0.2)) / cell))
				do("v2b", s(vz), s(vi), s(oz), fbits(mx), fbits(mn))
			case 2: // bit ID → vertical indices
				vz := int64(rng.Intn(16))
				vi := rng.Int63n(pow2(vz))
				span := math.Abs(mx - mn)
				oz := int64(25-math.Floor(math.Log2(span/math.Pow(2, float64(vz))))) + int64(rng.Intn(5)) - 1
				if oz < 0 {
					oz = 0
				}
				if oz > 35 {
					oz = 35
				}
				if rng.Intn(4) == 0 { // any coarser output zoom is at least as cheap: include 0, 1, 2
					oz = int64(rng.Intn(int(oz) + 1))
					if rng.Intn(3) == 0 {
						oz = int64(rng.Intn(3))
					}
				}
				do("b2v", s(vz), s(vi), s(oz), fbits(mx), fbits(mn))
			case 3, 4: // exported: extended IDs → (quadkey, bit ID) groups
				h := int64(1 + rng.Intn(20))
				vz := int64(12 + rng.Intn(16))
				cell := math.Pow(2, float64(25-vz))
				k := 1 + rng.Intn(2)
				if rng.Intn(3) == 0 {
					k = 2 + rng.Intn(3)
				}
				var l []ext
				for j := 0; j < k; j++ {
					// every ID has its own vertical zoom near vz; later entries may repeat the horizontal tile and/or the NUMERIC
					// vertical index of an earlier entry at another zoom (each ID's cells depend on its own (vZoom, f) only)
					z := vz
					if j > 0 && rng.Intn(2) == 0 {
						z = vz + int64(rng.Intn(5)) - 2
					}
					cz := math.Pow(2, float64(25-z))
					vi := int64(math.Floor((mn + (mx-mn)*(rng.Float64()*1.2-0.1)) / cz))
					if mx < mn {
						vi = int64(rng.Intn(100))
					}
					e := ext{h, randIdx(h), randIdx(h), z, vi}
					if j > 0 && rng.Intn(2) == 0 {
						p := l[rng.Intn(len(l))]
						e.x, e.y = p.x, p.y
					}
					if j > 0 && rng.Intn(3) == 0 {
						e.f = l[rng.Intn(len(l))].f
					}
					l = append(l, e)
				}
				if rng.Intn(5) == 0 && mx > mn {
					// a run of vertically adjacent voxels of ONE column, in any order: neighbours share the cell at their common
					// altitude, so the corners of a later voxel may already have been reported by two different earlier ones
					f0 := int64(math.Floor((mn + (mx-mn)*rng.Float64()*0.8) / cell))
					x, y := randIdx(h), randIdx(h)
					l = nil
					for j := int64(0); j < int64(3+rng.Intn(2)); j++ {
						l = append(l, ext{h, x, y, vz, f0 + j})
					}
					rng.Shuffle(len(l), func(i, j int) { l[i], l[j] = l[j], l[i] })
				}
				span := math.Abs(mx - mn)
				oz := int64(math.Floor(math.Log2(span/cell))) + int64(rng.Intn(4))
				if oz < 0 {
					oz = 0
				}
				if oz > 35 {
					oz = 35
				}
				if rng.Intn(4) == 0 { // any coarser output zoom is at least as cheap: include 0, 1, 2
					oz = int64(rng.Intn(int(oz) + 1))
					if rng.Intn(3) == 0 {
						oz = int64(rng.Intn(3))
					}
				}
				idl := maybeCorrupt(ids(l), 0.03)
				do("e2qvh", join(idl), s(zoomNear(h, 1, 1)+int64(boolToInt(h <= 1))), s(oz), fbits(mx), fbits(mn), fl(mx), fl(mn))
			case 5: // vertical indices beyond 32 bits: a tall range, fine output zoom
				vz := int64(24 + rng.Intn(3))
				hi := float64(int64(1) << 25)
				vi := pow2(vz) - 1 - rng.Int63n(pow2(vz)/8)
				if rng.Intn(2) == 0 {
					do("b2v", s(vz), s(vi), "35", fbits(hi), fbits(0))
				} else {
					do("qv2exth", fmt.Sprintf("%d:%d:%d:%d", 3, rng.Int63n(64), vz, vi), "3", "35", fbits(hi), fbits(0))
				}
			default: // exported: (quadkey, bit ID) → extended IDs
				qz := int64(1 + rng.Intn(20))
				vz := int64(rng.Intn(14))
				q := rng.Int63n(int64(1) << uint(2*qz))
				vi := rng.Int63n(pow2(vz))
				if rng.Intn(30) == 0 {
					vi = pow2(vz+1) + 1 // beyond the documented limit: error
				}
				span := math.Abs(mx - mn)
				oz := int64(25-math.Floor(math.Log2(span/math.Pow(2, float64(vz))))) + int64(rng.Intn(4)) - 1
				if oz < 0 {
					oz = 0
				}
				if oz > 35 {
					oz = 35
				}
				if rng.Intn(4) == 0 { // any coarser output zoom is at least as cheap: include 0, 1, 2
					oz = int64(rng.Intn(int(oz) + 1))
					if rng.Intn(3) == 0 {
						oz = int64(rng.Intn(3))
					}
				}
				do("qv2exth", fmt.Sprintf("%d:%d:%d:%d", qz, q, vz, vi), s(zoomNear(qz, 2, 1)), s(oz), fbits(mx), fbits(mn))
				if rng.Intn(3) == 0 && oz-vz <= 6 { // (index-form elements are refined from vz to oz: bounded expansion)
					// a list whose elements differ in their height pairs: the same key in index form (equal heights), in bit form
					// (max > min) and with an inverted pair (an error), in any order and next to each other
					pairs := [][2]float64{{mx, mx}, {mn, mn}, {0, 0}, {mx, mn}, {mx, mn - 1}, {mx, mx - 500}}
					if rng.Intn(4) == 0 {
						pairs = append(pairs, [2]float64{mn, mx}) // inverted when mx > mn
					}
					var items []string
					for j := 2 + rng.Intn(2); j > 0; j-- {
						p := pairs[rng.Intn(len(pairs))]
						items = append(items, fmt.Sprintf("%d:%d:%d:%d:%s:%s", qz, q, vz, vi, fbits(p[0]), fbits(p[1])))
					}
					do("qv2extm", join(items), s(zoomNear(qz, 2, 1)), s(oz))
				}
			}
		}
	})
}

func boolToInt(b bool) int {
	if b {
		return 1
	}
	return 0
}
