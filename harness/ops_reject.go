package main

import (
	"fmt"
	"strings"

	"github.com/trajectoryjp/spatial_id_go/v4/transform"
)

// rejOpt: a point option — mostly the two valid ones, sometimes an unknown one on either side of the enum (with a valid ID)
func rejOpt() int64 {
	if rng.Intn(4) == 0 {
		return []int64{2, 3, -1, -2, -100, 1 << 40}[rng.Intn(6)]
	}
	return int64(rng.Intn(2))
}

func init() {
	op("s2qv", func(a []string) string {
		r, err := transform.ConvertSpatialIDsToQuadkeysAndVerticalIDs(split(a[0]), atoi(a[1]), atoi(a[2]), 0, 0)
		if err != nil {
			return "ERR"
		}
		if len(r) == 0 {
			return "[]"
		}
		gs := make([]string, len(r))
		for i, g := range r {
			gs[i] = fmt.Sprintf("%d/%d/%s/%s|%s", g.QuadkeyZoom(), g.VerticalZoom(), fl(g.MaxHeight()), fl(g.MinHeight()), pairsStr(g.InnerIDList()))
		}
		return strings.Join(gs, ";")
	})

	// reject: every ID-interpreting operation with a high rate of malformed strings, valid ones mixed in
	register("reject", func(n int) {
		corrupt := func(l []string) []string {
			if len(l) == 0 {
				return l
			}
			// each element is corrupted at most once: a corrupted string is never "repaired" into a well-formed ID with
			// other zoom fields (zoom fields inside well-formed IDs stay as generated, see C15's quantifier)
			for i := range l {
				if rng.Intn(10) < 5 {
					l[i] = malformed(l[i])
				}
			}
			return l
		}
		small := func() ext { // small zoom spread so that valid inputs stay cheap
			z := int64(rng.Intn(12))
			e := randExtAt(z, zoomNear(z, 2, 2))
			return e
		}
		for i := 0; i < n; i++ {
			k := 1 + rng.Intn(3)
			var l []ext
			for j := 0; j < k; j++ {
				e := small()
				if j > 0 {
					e = randExtAt(l[0].h, l[0].v)
				}
				l = append(l, e)
			}
			var spl []ext
			for j := 0; j < k; j++ {
				z := int64(1 + rng.Intn(12))
				if j > 0 {
					z = spl[0].h
				}
				spl = append(spl, ext{z, randIdx(z), randIdx(z), z, rng.Int63n(pow2(z)) - pow2(z)/2})
			}
			H, V := l[0].h, l[0].v
			if rng.Intn(12) == 0 {
				// a zoom argument outside its range is an error whatever the list is — also for the EMPTY list (the check of a
				// loop-invariant argument must not sit inside the loop over the IDs); a valid zoom with an empty list is not
				badZ := []int64{-1, 36, 37, -5, 1 << 40}[rng.Intn(5)]
				badQ := []int64{0, 32, -1, 36}[rng.Intn(4)]
				okz := int64(rng.Intn(36))
				okq := int64(1 + rng.Intn(31))
				pick := func(bad, good int64) int64 {
					if rng.Intn(3) == 0 {
						return good
					}
					return bad
				}
				switch rng.Intn(10) {
				case 0:
					do("chgExt", "[]", s(pick(badZ, okz)), s(pick(badZ, okz)))
				case 1:
					do("chgSp", "[]", s(pick(badZ, okz)))
				case 2:
					do("mrgExt", "[]", s(pick(badZ, okz)), s(pick(badZ, okz)))
				case 3:
					do("mrgSp", "[]", s(pick(badZ, okz)))
				case 4:
					do("e2qv", "[]", s(pick(badQ, okq)), s(pick(badZ, okz)))
				case 5:
					do("s2qv", "[]", s(pick(badQ, okq)), s(pick(badZ, okz)))
				case 6:
					do("e2qa", "[]", s(pick(badQ, okq)), s(pick(badZ, okz)), "25", "0")
				case 7:
					do("qv2ext", "[]", s(pick(badZ, okz)), s(pick(badZ, okz)))
				case 8:
					do("qv2sp", "[]", s(pick(badZ, okz)))
				default:
					do("e2qvh", "[]", s(pick(badQ, okq)), s(pick(badZ, okz)), fbits(500), fbits(0), fl(500), fl(0))
				}
				continue
			}
			switch rng.Intn(19) {
			case 0:
				do("chgExt", join(corrupt(ids(l))), s(H), s(V))
			case 1:
				do("chgSp", join(corrupt(spids(spl))), s(spl[0].h))
			case 2:
				do("mrgExt", join(corrupt(ids(l))), s(H), s(V))
			case 3:
				do("mrgSp", join(corrupt(spids(spl))), s(spl[0].h))
			case 4:
				nl := corrupt(ids(l))
				hl, vl := int64(rng.Intn(2)), int64(rng.Intn(2))
				if rng.Intn(6) == 0 { // negative layer counts are an error whatever the list is — also for the empty list
					if rng.Intn(2) == 0 {
						hl = -1 - int64(rng.Intn(2))
					} else {
						vl = -1 - int64(rng.Intn(2))
					}
					if rng.Intn(2) == 0 {
						nl = nil
					}
				}
				do("nN", join(nl), s(hl), s(vl))
			case 5:
				a := corrupt(ids(l[:1]))
				b := corrupt(ids(l[:1]))
				do("ovE", a[0], b[0])
			case 6:
				la, lb := corrupt(ids(l)), corrupt(ids(l))
				switch rng.Intn(8) { // an empty list on either side: the other side must still be validated
				case 0:
					la = []string{}
				case 1:
					lb = []string{}
				}
				if rng.Intn(2) == 0 && len(lb) > 1 { // the overlapping pair not in the first column: list 1 is still validated to its end
					lb[0], lb[len(lb)-1] = lb[len(lb)-1], lb[0]
				}
				do("ovEA", join(la), join(lb))
			case 7:
				a := corrupt(spids(spl[:1]))
				b := corrupt(spids(spl[:1]))
				do("ovS", a[0], b[0])
			case 8:
				la, lb := corrupt(spids(spl)), corrupt(spids(spl))
				switch rng.Intn(8) {
				case 0:
					la = []string{}
				case 1:
					lb = []string{}
				}
				if rng.Intn(2) == 0 && len(lb) > 1 {
					lb[0], lb[len(lb)-1] = lb[len(lb)-1], lb[0]
				}
				do("ovSA", join(la), join(lb))
			case 9:
				do("sp2ext", join(corrupt(spids(spl))))
			case 10:
				do("ext2sp", join(corrupt(ids(l))))
			case 11:
				hq := H
				if hq < 1 {
					hq = 1
				}
				do("e2qv", join(corrupt(ids(l))), s(hq), s(V))
			case 12:
				hq := spl[0].h
				do("s2qv", join(corrupt(spids(spl))), s(hq), s(hq))
			case 13:
				hq := H
				if hq < 1 {
					hq = 1
				}
				for i := range l {
					l[i].f = int64(rng.Intn(5) - 2)
				}
				// key cells at most 8 times thinner than the voxels: bounded ranges
				do("e2qa", join(corrupt(ids(l))), s(hq), s(V+int64(rng.Intn(4))), "25", s(int64(1<<24)))
			case 14:
				a := corrupt(ids(l[:1]))
				do("geom", geomArgs(l[0], a[0], rejOpt())...)
			case 15:
				a := corrupt(spids(spl[:1]))
				do("geomsp", geomArgs(spl[0], a[0], rejOpt())...)
			case 16:
				a := corrupt(ids(l[:1]))
				do("shift", a[0], s(int64(rng.Intn(5)-2)), s(int64(rng.Intn(5)-2)), s(int64(rng.Intn(5)-2)))
			case 17:
				a := corrupt(ids(l[:1]))
				do([]string{"n6", "n8", "n26"}[rng.Intn(3)], a[0])
			default:
				a := corrupt(ids(l[:1]))
				do("parse", a[0])
			}
		}
	})
}
