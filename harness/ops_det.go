package main

import (
	"fmt"
	"hash/fnv"
	"math/rand"
	"sort"
	"strings"
)

// det: metamorphic determinism / order-blindness / duplication / no-duplicates / inputs-unmodified check (C16),
// evaluated on the implementation:  det <op> <args of op...>
//   - the op is called 5 times on the same arguments: the result sets must be equal;
//   - each list argument is shuffled and padded with repeated entries (3 variants): the result set must not change;
//   - a result documented as de-duplicated must not contain an element twice;
//   - the argument slices must be unchanged after every call.
// Result "OK" or a description of the first difference.

type detSpec struct {
	lists  []int // indices of list-valued arguments
	groups bool  // result is a list of groups "hdr|p p p;..." : compare the union of pairs (grouping follows input order)
	nodup  bool  // result must not contain duplicates
}

var detOps = map[string]detSpec{
	"chgExt": {[]int{0}, false, true}, "chgSp": {[]int{0}, false, true},
	"mrgExt": {[]int{0}, false, true}, "mrgSp": {[]int{0}, false, true},
	"nN": {[]int{0}, false, true}, "ovEA": {[]int{0, 1}, false, false}, "ovSA": {[]int{0, 1}, false, false},
	"tile2ext": {[]int{0}, false, true}, "tile2sp": {[]int{0}, false, false}, "qv2ext": {[]int{0}, false, true},
	"e2qv": {[]int{0}, true, true}, "e2qa": {[]int{0}, true, true}, "s2qv": {[]int{0}, true, true},
	"qv2sp": {[]int{0}, false, true},
	"uni": {[]int{0, 1}, false, true}, "uniq": {[]int{0}, false, true},
	"inter": {nil, false, false}, "diff": {nil, false, false}, "incl": {nil, false, false}, "max": {nil, false, false}, "min": {nil, false, false},
}

func canonSet(spec detSpec, res string) (string, bool) {
	var items []string
	if res == "ERR" || res == "PANIC" || res == "true" || res == "false" {
		return res, false
	}
	if spec.groups {
		if res != "[]" {
			for _, g := range strings.Split(res, ";") {
				i := strings.Index(g, "|")
				items = append(items, strings.Split(g[i+1:], " ")...)
			}
		}
	} else {
		items = split(res)
	}
	sort.Strings(items)
	dup := false
	for i := 1; i < len(items); i++ {
		if items[i] == items[i-1] {
			dup = true
		}
	}
	// compare as sets
	u := items[:0]
	for i, it := range items {
		if i == 0 || it != items[i-1] {
			u = append(u, it)
		}
	}
	return strings.Join(u, ","), dup
}

func callTracked(f func([]string) string, args []string) (string, string) {
	tracked = tracked[:0]
	trackedInts = trackedInts[:0]
	trackSlices = true
	res := guard(func() string { return f(args) })
	trackSlices = false
	for _, t := range tracked {
		for i := range t[0] {
			if t[0][i] != t[1][i] {
				return res, fmt.Sprintf("argument slice (or the memory behind it) modified at index %d: %q -> %q", i, t[1][i], t[0][i])
			}
		}
	}
	for _, t := range trackedInts {
		for i := range t[0] {
			if t[0][i] != t[1][i] {
				return res, fmt.Sprintf("argument slice (or the memory behind it) modified at index %d: %d -> %d", i, t[1][i], t[0][i])
			}
		}
	}
	return res, ""
}

func init() {
	op("det", func(a []string) string {
		name, args := a[0], a[1:]
		spec, ok := detOps[name]
		if !ok {
			spec = detSpec{} // repeat-only for everything else
		}
		f := ops[name]
		base, bad := callTracked(f, args)
		if bad != "" {
			return "MODIFIED " + bad
		}
		bset, dup := canonSet(spec, base)
		if dup && spec.nodup {
			return "DUPLICATE in result"
		}
		for i := 0; i < 4; i++ {
			r, bad := callTracked(f, args)
			if bad != "" {
				return "MODIFIED " + bad
			}
			if rs, _ := canonSet(spec, r); rs != bset {
				return "NONDETERMINISTIC " + r[:min(60, len(r))] + " vs " + base[:min(60, len(base))]
			}
		}
		// variants: deterministic PRNG from the arguments so that replay repeats them
		h := fnv.New64a()
		h.Write([]byte(strings.Join(a, "\t")))
		lr := rand.New(rand.NewSource(int64(h.Sum64())))
		for v := 0; v < 3 && len(spec.lists) > 0; v++ {
			va := append([]string(nil), args...)
			for _, li := range spec.lists {
				l := append([]string(nil), split(args[li])...)
				for k := lr.Intn(3); k > 0 && len(l) > 0; k-- { // repeat entries
					l = append(l, l[lr.Intn(len(l))])
				}
				lr.Shuffle(len(l), func(i, j int) { l[i], l[j] = l[j], l[i] })
				va[li] = join(l)
			}
			r, bad := callTracked(f, va)
			if bad != "" {
				return "MODIFIED " + bad
			}
			rs, dup := canonSet(spec, r)
			if dup && spec.nodup {
				return "DUPLICATE in result of a permuted/duplicated input"
			}
			if rs != bset {
				return "ORDER-DEPENDENT " + strings.Join(va, " ")[:min(100, len(strings.Join(va, " ")))]
			}
		}
		return "OK"
	})
}

// detWrap turns an existing family generator into one that emits det lines: the family's cases are generated as usual
// into a scratch buffer, and every case line "op args… result" is re-issued as "det op args…".
func detFamily(fam string) func(n int) {
	return func(n int) {
		saved := out
		var sb strings.Builder
		bw := newBufWriter(&sb)
		out = bw
		families[fam](n)
		bw.Flush()
		out = saved
		for _, line := range strings.Split(sb.String(), "\n") {
			if line == "" {
				continue
			}
			f := strings.Split(line, "\t")
			for i := range f {
				f[i] = unesc(f[i])
			}
			do("det", f[:len(f)-1]...)
		}
	}
}

func init() {
	for _, fam := range []string{"chgExt", "chgSp", "mrgExt", "mrgSp", "nN", "ovEA", "ovSA", "tiles", "qv", "sets"} {
		register("det_"+fam, detFamily(fam))
	}
}
