#!/usr/bin/env python3
"""Development tool: apply a behaviour-preserving rewrite (seeded/harmless/<name>.diff) to /repo, check that the existing suite
passes, run the given quick checks, restore /repo, and record which checks stayed quiet (they all should; a check that reports
`no-failing-input-found` on such a rewrite is within the rules but counts against the robustness of the tie)."""
import json, os, subprocess, sys
V = os.path.dirname(os.path.dirname(os.path.abspath(__file__)))
ENV = dict(os.environ, GOFLAGS="-mod=mod", GOPROXY="off", GOSUMDB="off", GOTOOLCHAIN="local")
name, props = sys.argv[1], sys.argv[2:]
if props == ["ALL"]:
    props = ["C%02d" % i for i in range(1, 21)]
diff = os.path.join(V, "seeded", "harmless", name + ".diff")
assert not subprocess.run(["git", "-C", "/repo", "status", "--short"], stdout=subprocess.PIPE, text=True).stdout.strip(), "/repo not clean"
subprocess.check_call(["git", "-C", "/repo", "apply", diff])
res = {}
try:
    t = subprocess.run("go build ./... && go test -vet=off -count=1 ./...", shell=True, cwd="/repo", env=ENV, stdout=subprocess.PIPE, stderr=subprocess.STDOUT, text=True)
    res["suite_passes"] = t.returncode == 0
    for p in props:
        r = subprocess.run([os.path.join(V, "check"), p, "quick"], cwd=V, stdout=subprocess.PIPE, stderr=subprocess.STDOUT, text=True)
        v = [l for l in r.stdout.splitlines() if l.startswith("VIOLATION")]
        res[p] = {"exit": r.returncode, "line": v[0] if v else ""}
        print(name, p, "exit", r.returncode, v[0][:150] if v else "quiet")
finally:
    subprocess.check_call(["git", "-C", "/repo", "checkout", "--", "."])
    subprocess.run("git checkout -- evidence 2>/dev/null; git clean -fdq evidence/replays", shell=True, cwd=V)
out = os.path.join(V, "seeded", "harmless", "results.json")
allr = json.load(open(out)) if os.path.exists(out) else {}
allr[name] = res
json.dump(allr, open(out, "w"), indent=1)
print(name, "suite passes:", res["suite_passes"])
