#!/usr/bin/env python3
"""Regenerate /verif/MANIFEST.json from checks_config.py (single source of truth for the claimed checks)."""
import json, os, sys, subprocess
V = os.path.dirname(os.path.dirname(os.path.abspath(__file__)))
sys.path.insert(0, V)
from checks_config import PROPS, NOT_APPLICABLE  # noqa
props = [json.loads(l) for l in open(os.path.join(V, "properties.jsonl"))]
ids = [p["id"] for p in props]
baseline = json.load(open("/root/.vp/BASELINE.json"))["cmd"]
hooks_commits = subprocess.run(["git", "-C", "/repo", "log", "--format=%H %s"], capture_output=True, text=True).stdout.splitlines()
hook_shas = [l.split()[0] for l in hooks_commits if " verif hooks" in l]
man = {
    "version": 1,
    "setup_cmd": "./setup.sh",
    "hooks": {
        "guard": "verif",
        "enable": "go build -tags verif (the harness module /verif/harness replaces the library by /repo and is built with -tags verif)",
        "baseline_off_cmd": baseline,
        "source_commits": hook_shas,
        "add_only": True,
    },
    "engines": [
        {"name": "lean-model+proofs", "path": "lean/", "serves_properties": [i for i in ids if i in PROPS],
         "kind_free_text": "Lean 4 model of the library (core-only, executable), property theorems in lean/SpatialId/Props, axiom audit"},
        {"name": "correspondence-harness", "path": "harness/", "serves_properties": [i for i in ids if i in PROPS],
         "kind_free_text": "Go program calling the real code in-process on generated cases; results compared line by line with the compiled Lean driver"},
        {"name": "translator", "path": "extract/", "serves_properties": [i for i in ids if i in PROPS and PROPS[i].get("gen")],
         "kind_free_text": "go/ast translator regenerating lean/SpatialId/Gen/*.lean from /repo on every run; Props/Tie*.lean prove Gen = Model"},
    ],
    "checks": [],
    "not_applicable": [],
    "notes": "All checks: ./check <id> quick|thorough. See DESIGN.md.",
}
for i in ids:
    if i in PROPS:
        c = PROPS[i]
        man["checks"].append({
            "property_id": i,
            "quick_cmd": f"./check {i} quick",
            "thorough_cmd": f"./check {i} thorough",
            "evidence_file": f"/verif/evidence/{i}.json",
            "replay_cmd_template": "./check replay {path}",
            "engine": "lean-model+proofs",
            "level_claimed": {"category": "proof", "text": c["claim"], "design_ref": c.get("design_ref", "DESIGN.md §3 " + i)},
            "level_note": c["note"],
            "technique": c["technique"],
        })
    else:
        man["not_applicable"].append({"property_id": i, "reason": NOT_APPLICABLE.get(i, "check not built yet in this round; planned (DESIGN.md §3)")})
json.dump(man, open(os.path.join(V, "MANIFEST.json"), "w"), indent=1, ensure_ascii=False)
print("checks:", [c["property_id"] for c in man["checks"]], "n/a:", [n["property_id"] for n in man["not_applicable"]])
