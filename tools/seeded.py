#!/usr/bin/env python3
"""
Seeded-change bookkeeping (development tool, not a registered check).

  seeded.py confirm <name> <worktree> <property>   confirm a sub-agent's change in its scratch worktree (build, existing
                                                   tests pass with it, demo fails with it and passes without it) and store it
                                                   as /verif/seeded/<name>/{patch.diff, demo file, MUTANT.md, meta.json}
  seeded.py run <name> <Cxx> [<Cxx> ...] | ALL     apply the stored patch to /repo, run the quick checks, undo, record verdicts
"""
import json, os, shutil, subprocess, sys, time

V = os.path.dirname(os.path.dirname(os.path.abspath(__file__)))
ENV = dict(os.environ, GOFLAGS="-mod=mod", GOPROXY="off", GOSUMDB="off", GOTOOLCHAIN="local")


def sh(cmd, cwd=None, timeout=1800):
    p = subprocess.run(cmd, cwd=cwd, env=ENV, shell=isinstance(cmd, str), stdout=subprocess.PIPE, stderr=subprocess.STDOUT,
                       text=True, timeout=timeout)
    return p.returncode, p.stdout


def confirm(name, wt, prop):
    out = os.path.join(V, "seeded", name)
    os.makedirs(out, exist_ok=True)
    rc, diff = sh("git diff -- . ':(exclude)*_test.go'", cwd=wt)
    if not diff.strip():
        print("no source change in", wt)
        return 1
    changed = [l[6:] for l in diff.splitlines() if l.startswith("+++ b/")]
    rc, status = sh("git status --short", cwd=wt)
    demos = [l[3:] for l in status.splitlines() if l.startswith("??") and l.strip().endswith("_test.go")]
    log = {"property": prop, "worktree": wt, "changed_files": changed, "demo_files": demos, "steps": []}

    def step(what, cmd, expect_ok):
        rc, o = sh(cmd, cwd=wt)
        ok = (rc == 0) == expect_ok
        log["steps"].append({"what": what, "cmd": cmd, "exit": rc, "as_expected": ok, "tail": o.strip()[-400:]})
        print(("ok   " if ok else "FAIL ") + what)
        return ok

    allok = True
    # demo files aside for the existing suite
    for d in demos:
        shutil.move(os.path.join(wt, d), os.path.join(wt, d + ".aside"))
    allok &= step("build with the change", "timeout 600 go build ./...", True)
    allok &= step("existing test suite passes with the change", "timeout 1500 go test -vet=off -count=1 ./...", True)
    for d in demos:
        shutil.move(os.path.join(wt, d + ".aside"), os.path.join(wt, d))
    pkgs = sorted({"./" + os.path.dirname(d) for d in demos})
    run_demo = "timeout 900 go test -vet=off -count=1 -run 'TestMutantDemo' " + " ".join(pkgs)
    allok &= step("demonstration fails with the change", run_demo, False)
    # (git stash is shared by all worktrees of a repository: undo and redo the change with the patch itself)
    pf = os.path.join(out, "patch.diff")
    open(pf, "w").write(diff)
    sh(["git", "apply", "-R", pf], cwd=wt)
    allok &= step("demonstration passes without the change", run_demo, True)
    sh(["git", "apply", pf], cwd=wt)
    open(os.path.join(out, "patch.diff"), "w").write(diff)
    for d in demos:
        shutil.copyfile(os.path.join(wt, d), os.path.join(out, os.path.basename(d)))
    if os.path.exists(os.path.join(wt, "MUTANT.md")):
        shutil.copyfile(os.path.join(wt, "MUTANT.md"), os.path.join(out, "MUTANT.md"))
    log["confirmed"] = bool(allok)
    meta = {"breaks_property": prop, "confirmed_by_me": bool(allok), "confirmation": log, "checks": {}}
    json.dump(meta, open(os.path.join(out, "meta.json"), "w"), indent=1, ensure_ascii=False)
    return 0 if allok else 1


def run(name, props):
    out = os.path.join(V, "seeded", name)
    meta = json.load(open(os.path.join(out, "meta.json")))
    rc, o = sh(["git", "-C", "/repo", "status", "--short"])
    if o.strip():
        print("/repo is not clean:", o)
        return 2
    rc, o = sh(["git", "-C", "/repo", "apply", os.path.join(out, "patch.diff")])
    if rc != 0:
        print("patch does not apply:", o)
        return 2
    try:
        for p in props:
            t0 = time.time()
            rc, o = sh([os.path.join(V, "check"), p, "quick"], cwd=V, timeout=3600)
            viol = [l for l in o.splitlines() if l.startswith("VIOLATION")]
            replay = ""
            if viol and "replay=" in viol[0]:
                path = viol[0].split("replay=")[1].split()[0]
                try:
                    replay = "".join(open(path).readlines()[:6])[:900]
                except OSError:
                    pass
            meta["checks"][p] = {"exit": rc, "violation_line": viol[0] if viol else "", "summary": o.strip().splitlines()[-1][:300] if o.strip() else "",
                                 "replay_head": replay, "wall_s": round(time.time() - t0, 1)}
            print(p, "exit", rc, (viol[0][:160] if viol else "no violation reported"))
    finally:
        sh(["git", "-C", "/repo", "checkout", "--", "."])
        # evidence and replay files written while the change was applied are not evidence of the unchanged tree
        sh("git checkout -- evidence 2>/dev/null; git clean -fdq evidence/replays", cwd=V)
    meta["caught_by"] = sorted(p for p, r in meta["checks"].items() if r["exit"] == 1 and r["violation_line"])
    json.dump(meta, open(os.path.join(out, "meta.json"), "w"), indent=1, ensure_ascii=False)
    return 0


if __name__ == "__main__":
    a = sys.argv[1:]
    if len(a) == 4 and a[0] == "confirm":
        sys.exit(confirm(a[1], a[2], a[3]))
    if len(a) >= 3 and a[0] == "run":
        props = ["C%02d" % i for i in range(1, 21)] if a[2:] == ["ALL"] else a[2:]
        sys.exit(run(a[1], props))
    print(__doc__)
    sys.exit(2)
