#!/usr/bin/env python3
"""Rebuild /verif/corpus/<Cxx>.txt (development tool): the cases that exposed a repaired defect or a seeded change.
Each line is `op<TAB>args…<TAB>old-result`; ./check re-executes them FIRST on every run (old result dropped)."""
import glob, json, os
V = os.path.dirname(os.path.dirname(os.path.abspath(__file__)))
T = "\t"
# witnesses of the repaired defects (known_findings.json "fixed") and of findings still open
HAND = {
    "C03": ["vz\t5\t-1\t4\t-", "vz\t3\t-8\t0\t-", "chgExt\t5/1/1/5/-1\t4\t4\t-", "chgSp\t5/-1/1/1\t4\t-"],
    "C04": ["mrgExt\t5/1/1/5/-1,5/1/1/5/0\t5\t4\t-", "mrgSp\t1/-2/1/1,0/-1/0/0\t0\t-", "mrgExt\t[]\t0\t0\t-"],
    "C05": ["ovSA\t[]\t5/0/1/1\t-", "ovS\t26/1/1/1\t26/0/1/1\t-", "ovS\t26/-1/1/1\t26/-1/1/1\t-", "ovEA\t[]\t\t-", "ovSA\t[]\t\t-",
            "ovEA\t1/0/0/1/0,x\t1/0/0/1/0\t-", "ovSA\t1/0/0/0,x\t1/0/0/0\t-", "ovE\t0/0/0/1/1\t0/0/0/0/0\t-"],
    "C09": ["mrgkids\t1/1/1/1/-1\t1\t2\t-", "ovkids\t2/1/2/1/-1\t2\t3\t-"],
    "C12": ["z2k\t1\t1\t1\t25\t0\t-", "z2k\t0\t0\t0\t25\t0\t-", "k2z\t0\t9\t1\t35\t0\t-", "z2k\t-1\t25\t25\t25\t8\t-"],
    "C15": ["ovSA\t[]\t5/0/1/1\t-", "nN\t\t1\t1\t-", "nN\tx\t1\t1\t-"],
    "C20": ["comb\t4\t3\t-", "comb\t6\t4\t-", "comb\t5\t0\t-", "comb\t3\t3\t-"],
}


def main():
    per = {}
    for k, v in HAND.items():
        per.setdefault(k, []).extend(v)
    for f in sorted(glob.glob(os.path.join(V, "tools", "corpus_hand", "*.txt"))):      # long witness lines kept as files
        per.setdefault(os.path.basename(f)[:-4], []).extend(l.rstrip("\n") for l in open(f) if l.strip() and not l.startswith("#"))
    for f in sorted(glob.glob(os.path.join(V, "seeded", "*", "meta.json"))):
        m = json.load(open(f))
        for prop, r in m.get("checks", {}).items():
            head = r.get("replay_head", "")
            lines = head.split("\n")[:-1]          # the last piece may be cut
            keep = [l for l in lines if l and not l.startswith("#") and len(l) < 600 and T in l and l.split(T)[0].isalnum()][:3]
            per.setdefault(prop, []).extend(keep)
    os.makedirs(os.path.join(V, "corpus"), exist_ok=True)
    # a candidate taken from a run on a CHANGED tree may carry oracle fields (Mercator u, row tables, wgs84 answers) computed by
    # the changed code: keep only lines that the unchanged tree passes (verdict A or B, or a tagged known finding)
    import subprocess, tempfile
    st = subprocess.run(["git", "-C", "/repo", "status", "--short"], stdout=subprocess.PIPE, text=True).stdout.strip()
    if st:
        raise SystemExit("/repo is not clean: corpus candidates cannot be validated")
    known = ("FUNDER", "XROUND", "LATULP", "D12DISC", "LNROUND")
    harness, driver = os.path.join(V, ".build", "harness"), os.path.join(V, "lean", ".lake", "build", "bin", "driver")
    for prop in list(per):
        keep = []
        for l in per[prop]:
            with tempfile.NamedTemporaryFile("w", suffix=".txt", delete=False) as fh:
                fh.write(l + "\n")
            try:
                h = subprocess.run([harness, "-replay", fh.name], stdout=subprocess.PIPE, stderr=subprocess.DEVNULL, timeout=120)
                d = subprocess.run([driver], input=h.stdout, stdout=subprocess.PIPE, stderr=subprocess.DEVNULL, timeout=120)
                v = d.stdout.decode(errors="replace").strip().split("\n")
                ok = h.returncode == 0 and len(v) == 1 and (v[0] in ("A", "B") or (v[0].startswith("P\t") and v[0][2:].startswith(known))
                                                           or (v[0].startswith("D\t") and "D9NONDET" in h.stdout.decode(errors="replace")))
            except Exception:
                ok = False
            os.unlink(fh.name)
            if ok:
                keep.append(l)
            else:
                print("dropped from", prop, ":", l[:100])
        per[prop] = keep
    for prop, ls in sorted(per.items()):
        seen, out = set(), []
        for l in ls:
            key = l.rsplit(T, 1)[0]
            if key not in seen:
                seen.add(key)
                out.append(l)
        if not out:
            continue
        with open(os.path.join(V, "corpus", prop + ".txt"), "w") as fh:
            fh.write("# corpus of " + prop + ": cases that exposed a repaired defect or a seeded change; re-executed first on every run\n")
            fh.write("\n".join(out) + "\n")
        print(prop, len(out))


main()
