package main

// translate.go — literal translation of the straight-line int64 functions of the library into Lean (Gen/Int64Fns.lean).
//
// Supported Go: parameters and locals of type int64/bool; `:=`, `=`, `+=`, `-=`, `var x T [= e]`; if / else if / else;
// return; integer and boolean operators; calls among the translated functions; the idioms
//   int64(math.Pow(2, float64(e)))  and  int64(math.Pow(2, math.Abs(float64(e))))   (exact powers of two)
//   v, err := f(…); if err != nil { return …, err }                                  (error propagation)
//   err, ok := validateIndexExists(…); if !ok { return …, err }                      (ditto, through the bool)
//   for init; cond; post { int64 statements }      → an auxiliary structurally recursive definition <fn>_loop<k> with FUEL
//                                                     (state = the variables assigned in the loop; the function gets a first
//                                                     parameter `fuel : Nat`; the tie theorem is about every sufficient fuel)
//   idx := strings.Split(id, "/"); v, _ := strconv.ParseInt(idx[k], 10, 64)     → the parameter id_k (the parsed field)
//   str := strconv.FormatInt(int64(e), 4); for i, s := range strings.Split(str, "") { …; if c { break } }
//                                                   → recursion over the list `fmtBase4 e` of digit values ('-' is −1);
//                                                     `s == "2"` becomes `s = 2`, `break` returns the state
//   obj, err := object.NewExtendedSpatialID(id); if err != nil { return "" }; obj.X() …   → the parsed components id_HZoom, id_X,
//                                                     id_Y, id_VZoom, id_Z of a WELL-FORMED id (the malformed branch is the caller's)
//   int64(math.Pow(2, float64(e)) - 1), int64(math.Mod(float64(a), math.Pow(2, float64(e))))   → pow2 e − 1, Int.tmod a (pow2 e)
//                                                     (exact for |a| < 2^53, 0 ≤ e ≤ 62: the float assumption of the models)
//   l := []string{strconv.FormatInt(a, 10), …}; return strings.Join(l, "/")          → the tuple (a, …) of the printed integers
// Result types: int64 → Int; bool → Bool; (int64, error) → Outcome Int; (int64, int64, error) → Outcome (Int × Int);
// (error, bool) → Bool (the error value carries no information beyond the bool); tuples of int64 → products.
// Anything else makes the translator REFUSE the function: it then emits `def Gen.<name>_untranslatable : String := "<why>"`
// and no definition, so that the tie theorem in Props/Tie.lean no longer compiles (a broken obligation, not a silent gap).

import (
	"fmt"
	"go/ast"
	"go/token"
	"os"
	"path/filepath"
	"strings"
)

type target struct{ pkg, name string }

// skipFns: target functions whose generated definition the caller found not to compile (-skip a,b): emitted as untranslatable
var skipFns = map[string]bool{}

var targets = []target{
	{"common", "CalculateArithmeticShift"},
	{"shape", "CheckZoom"},
	{"transform", "quadkeyCheckZoom"},
	{"transform", "extendedSpatialIDCheckZoom"},
	{"transform", "validateIndexExists"},
	{"transform", "convertZToMinAltitudekey"},
	{"transform", "convertZToMaxAltitudekey"},
	{"transform", "ConvertZToMinMaxAltitudekey"},
	{"transform", "ConvertAltitudekeyToMinMaxZ"},
	{"integrate", "HorizontalZoomMinMax"},
	{"detector", "offsetFIndex"},
	{"transform", "convertHorizontalIDToQuadkey"},
	{"transform", "convertQuadkeyToHorizontalID"},
	{"operated", "GetShiftingSpatialID"},
}

type retKind int

const (
	retInt retKind = iota
	retBool
	retOutInt   // (int64, error)
	retOutPair  // (int64, int64, error)
	retErrBool  // (error, bool) → Bool
	retTuple    // (int64, …, int64)
	retErrOnly  // error → Bool ("an error is returned")
	retIDString // string built as strings.Join([]string{FormatInt(a,10), …}, "/") → the tuple of the printed integers
)

type fnInfo struct {
	kind  retKind
	arity int // number of int64 components for retTuple / retOutPair
}

type translator struct {
	consts  map[string]string // qualified or bare constant name → Lean integer expression
	fns     map[string]fnInfo // translated function name → result kind
	cur     fnInfo
	named   []string // named results of the current function
	bools   map[string]bool
	recv    string            // receiver name of the method being translated ("" for functions): recv.f becomes the parameter recv_f
	errVars map[string]string // err variable → "call" (bound by let-else, so `if err != nil` is dead) or "ok:<var>"
	fail    string
	// loops and string-ID parameters (functions translated with fuel)
	fnName    string            // name of the function being translated
	scope     []string          // Int variables in scope, in declaration order (parameters first)
	aux       strings.Builder   // auxiliary definitions (one per loop) emitted before the function
	loops     int               // loops translated so far in the current function
	strParams map[string]int    // string parameter → number of '/'-separated fields read from it
	splitVars map[string]string // slice variable → the string parameter it is the strings.Split(·, "/") of
	fmtVars   map[string]string // string variable → Lean list of its characters' digit values (strconv.FormatInt(e, 4))
	digitVars map[string]bool   // range value variables holding one character of such a string
	breakRet  string            // inside a range loop: what `break` returns (the state tuple); "" elsewhere
	usesFuel  bool              // the current function contains a counted loop (translated with fuel)
	fuelFns   map[string]bool   // translated functions that take a leading fuel argument
	objVars   map[string]string // variable bound to object.NewExtendedSpatialID(p) → the string parameter p
	objFields map[string]bool   // accessor names used on such an object (X, Y, Z, HZoom, VZoom)
	idLits    map[string][]string // []string{strconv.FormatInt(a, 10), …} variable → the Lean integer expressions
}

func (t *translator) failf(format string, a ...interface{}) {
	if t.fail == "" {
		t.fail = fmt.Sprintf(format, a...)
	}
}

func typeStr(e ast.Expr) string { return exprStr(e) }

func (t *translator) resultKind(fn *ast.FuncDecl) (fnInfo, bool) {
	if fn.Type.Results == nil {
		return fnInfo{}, false
	}
	var types []string
	for _, f := range fn.Type.Results.List {
		n := len(f.Names)
		if n == 0 {
			n = 1
		}
		for i := 0; i < n; i++ {
			types = append(types, typeStr(f.Type))
		}
	}
	allInt := func(ts []string) bool {
		for _, s := range ts {
			if s != "int64" {
				return false
			}
		}
		return true
	}
	switch {
	case len(types) == 1 && types[0] == "int64":
		return fnInfo{retInt, 1}, true
	case len(types) == 1 && types[0] == "bool":
		return fnInfo{retBool, 1}, true
	case len(types) == 1 && types[0] == "error":
		return fnInfo{retErrOnly, 1}, true
	case len(types) == 1 && types[0] == "string":
		return fnInfo{retIDString, 5}, true
	case len(types) == 2 && types[0] == "int64" && types[1] == "error":
		return fnInfo{retOutInt, 1}, true
	case len(types) == 3 && types[0] == "int64" && types[1] == "int64" && types[2] == "error":
		return fnInfo{retOutPair, 2}, true
	case len(types) == 2 && types[0] == "error" && types[1] == "bool":
		return fnInfo{retErrBool, 1}, true
	case len(types) >= 2 && allInt(types):
		return fnInfo{retTuple, len(types)}, true
	}
	return fnInfo{}, false
}

func leanRet(k fnInfo) string {
	switch k.kind {
	case retInt:
		return "Int"
	case retBool, retErrBool, retErrOnly:
		return "Bool"
	case retOutInt:
		return "Outcome Int"
	case retOutPair:
		return "Outcome (Int × Int)"
	case retIDString:
		return "Int × Int × Int × Int × Int"
	default:
		return strings.TrimSuffix(strings.Repeat("Int × ", k.arity), " × ")
	}
}

// ---- expressions -------------------------------------------------------------------------------------------------

// isPow2Idiom recognises int64(math.Pow(2, float64(e))) and int64(math.Pow(2, math.Abs(float64(e))))
func (t *translator) pow2Idiom(c *ast.CallExpr) (string, bool) {
	if id, ok := c.Fun.(*ast.Ident); !ok || id.Name != "int64" || len(c.Args) != 1 {
		return "", false
	}
	inner, ok := c.Args[0].(*ast.CallExpr)
	if !ok || exprStr(inner.Fun) != "math.Pow" || len(inner.Args) != 2 {
		return "", false
	}
	if base := exprStr(inner.Args[0]); base != "2" && base != "2.0" && t.consts[base] != "(2)" {
		return "", false // the base is neither the literal 2 nor a named constant equal to 2
	}
	arg := inner.Args[1]
	abs := false
	if ac, ok := arg.(*ast.CallExpr); ok && exprStr(ac.Fun) == "math.Abs" && len(ac.Args) == 1 {
		abs = true
		arg = ac.Args[0]
	}
	fc, ok := arg.(*ast.CallExpr)
	if !ok || exprStr(fc.Fun) != "float64" || len(fc.Args) != 1 {
		return "", false
	}
	e := t.intExpr(fc.Args[0])
	if abs {
		return "(pow2 ((" + e + ").natAbs : Int))", true
	}
	return "(pow2 (" + e + "))", true
}

func (t *translator) intExpr(e ast.Expr) string {
	switch v := e.(type) {
	case *ast.BasicLit:
		if v.Kind == token.INT {
			return v.Value
		}
	case *ast.Ident:
		if c, ok := t.consts[v.Name]; ok {
			return c
		}
		return v.Name
	case *ast.ParenExpr:
		return "(" + t.intExpr(v.X) + ")"
	case *ast.SelectorExpr:
		if c, ok := t.consts[exprStr(v)]; ok {
			return c
		}
		if id, ok := v.X.(*ast.Ident); ok && t.recv != "" && id.Name == t.recv {
			return "recv_" + v.Sel.Name
		}
	case *ast.UnaryExpr:
		if v.Op == token.SUB {
			return "(-" + t.intExpr(v.X) + ")"
		}
	case *ast.BinaryExpr:
		a, b := t.intExpr(v.X), t.intExpr(v.Y)
		switch v.Op {
		case token.ADD:
			return "(" + a + " + " + b + ")"
		case token.SUB:
			return "(" + a + " - " + b + ")"
		case token.MUL:
			return "(" + a + " * " + b + ")"
		case token.QUO:
			return "(Int.tdiv " + a + " " + b + ")"
		case token.REM:
			return "(Int.tmod " + a + " " + b + ")"
		case token.SHL:
			return "(" + a + " * 2 ^ ((" + b + " : Int)).toNat)"
		case token.SHR:
			return "(" + a + " >>> ((" + b + " : Int)).toNat)"
		}
	case *ast.CallExpr:
		if s, ok := t.pow2Idiom(v); ok {
			return s
		}
		// builtin max / min of two int64 expressions
		if id, ok := v.Fun.(*ast.Ident); ok && (id.Name == "max" || id.Name == "min") && len(v.Args) == 2 {
			return "(" + id.Name + " " + t.intExpr(v.Args[0]) + " " + t.intExpr(v.Args[1]) + ")"
		}
		// obj.X() on a parsed ID
		if sel, ok := v.Fun.(*ast.SelectorExpr); ok && len(v.Args) == 0 {
			if id, ok := sel.X.(*ast.Ident); ok {
				if prm, ok := t.objVars[id.Name]; ok {
					switch sel.Sel.Name {
					case "X", "Y", "Z", "HZoom", "VZoom":
						t.objFields[sel.Sel.Name] = true
						return prm + "_" + sel.Sel.Name
					}
					t.failf("unsupported accessor %s", sel.Sel.Name)
					return "0"
				}
			}
		}
		if id, ok := v.Fun.(*ast.Ident); ok && id.Name == "int64" && len(v.Args) == 1 {
			// int64(math.Pow(2, float64(e)) - k)
			if be, ok := v.Args[0].(*ast.BinaryExpr); ok && (be.Op == token.SUB || be.Op == token.ADD) {
				if lit, ok := be.Y.(*ast.BasicLit); ok && lit.Kind == token.INT {
					if inner, ok := be.X.(*ast.CallExpr); ok {
						if p, ok := t.pow2Idiom(&ast.CallExpr{Fun: ast.NewIdent("int64"), Args: []ast.Expr{inner}}); ok {
							op := " - "
							if be.Op == token.ADD {
								op = " + "
							}
							return "(" + p + op + lit.Value + ")"
						}
					}
				}
			}
			// int64(math.Mod(float64(a), math.Pow(2, float64(e))))
			if mc, ok := v.Args[0].(*ast.CallExpr); ok && exprStr(mc.Fun) == "math.Mod" && len(mc.Args) == 2 {
				if fa, ok := mc.Args[0].(*ast.CallExpr); ok && exprStr(fa.Fun) == "float64" && len(fa.Args) == 1 {
					if pc, ok := mc.Args[1].(*ast.CallExpr); ok {
						if p, ok := t.pow2Idiom(&ast.CallExpr{Fun: ast.NewIdent("int64"), Args: []ast.Expr{pc}}); ok {
							return "(Int.tmod " + t.intExpr(fa.Args[0]) + " " + p + ")"
						}
					}
				}
			}
		}
		if id, ok := v.Fun.(*ast.Ident); ok && (id.Name == "int64" || id.Name == "int") && len(v.Args) == 1 {
			return t.intExpr(v.Args[0])
		}
		name := exprStr(v.Fun)
		if i := strings.LastIndex(name, "."); i >= 0 {
			name = name[i+1:]
		}
		if k, ok := t.fns[name]; ok && k.kind == retInt {
			args := make([]string, len(v.Args))
			for i, a := range v.Args {
				args[i] = t.intExpr(a)
			}
			if t.fuelFns[name] { // the callee contains a counted loop: the caller's fuel is handed on
				t.usesFuel = true
				return "(Gen." + name + " fuel " + strings.Join(args, " ") + ")"
			}
			return "(Gen." + name + " " + strings.Join(args, " ") + ")"
		}
	}
	t.failf("unsupported integer expression %s", exprStr(e))
	return "0"
}

// propExpr: a Go boolean expression as a decidable Lean proposition
func (t *translator) propExpr(e ast.Expr) string {
	switch v := e.(type) {
	case *ast.ParenExpr:
		return "(" + t.propExpr(v.X) + ")"
	case *ast.Ident:
		if v.Name == "true" {
			return "True"
		}
		if v.Name == "false" {
			return "False"
		}
		if t.bools[v.Name] {
			return "(" + v.Name + " = true)"
		}
	case *ast.UnaryExpr:
		if v.Op == token.NOT {
			return "(¬ " + t.propExpr(v.X) + ")"
		}
	case *ast.BinaryExpr:
		switch v.Op {
		case token.LAND:
			return "(" + t.propExpr(v.X) + " ∧ " + t.propExpr(v.Y) + ")"
		case token.LOR:
			return "(" + t.propExpr(v.X) + " ∨ " + t.propExpr(v.Y) + ")"
		case token.LSS, token.LEQ, token.GTR, token.GEQ, token.EQL, token.NEQ:
			if v.Op == token.EQL || v.Op == token.NEQ {
				// a character of a formatted number compared with a one-digit string
				dv, lit := v.X, v.Y
				if _, isLit := dv.(*ast.BasicLit); isLit {
					dv, lit = lit, dv
				}
				if id, ok := dv.(*ast.Ident); ok && t.digitVars[id.Name] {
					if bl, ok := lit.(*ast.BasicLit); ok && bl.Kind == token.STRING && len(bl.Value) == 3 && bl.Value[1] >= '0' && bl.Value[1] <= '9' {
						eq := "="
						if v.Op == token.NEQ {
							eq = "≠"
						}
						return "(" + id.Name + " " + eq + " " + string(bl.Value[1]) + ")"
					}
					t.failf("a digit character is compared with %s", exprStr(lit))
					return "True"
				}
			}
			op := map[token.Token]string{token.LSS: "<", token.LEQ: "≤", token.GTR: ">", token.GEQ: "≥", token.EQL: "=", token.NEQ: "≠"}[v.Op]
			return "(" + t.intExpr(v.X) + " " + op + " " + t.intExpr(v.Y) + ")"
		}
	case *ast.CallExpr:
		name := exprStr(v.Fun)
		if i := strings.LastIndex(name, "."); i >= 0 {
			name = name[i+1:]
		}
		if k, ok := t.fns[name]; ok && (k.kind == retBool) {
			args := make([]string, len(v.Args))
			for i, a := range v.Args {
				args[i] = t.intExpr(a)
			}
			return "(Gen." + name + " " + strings.Join(args, " ") + " = true)"
		}
	}
	t.failf("unsupported boolean expression %s", exprStr(e))
	return "True"
}

// ---- statements --------------------------------------------------------------------------------------------------

func isErrNilCheck(s ast.Stmt, errName string) bool {
	ifs, ok := s.(*ast.IfStmt)
	if !ok || ifs.Init != nil || ifs.Else != nil {
		return false
	}
	if exprStr(ifs.Cond) != errName+" != nil" || len(ifs.Body.List) != 1 {
		return false
	}
	r, ok := ifs.Body.List[0].(*ast.ReturnStmt)
	if !ok || len(r.Results) == 0 {
		return false
	}
	return exprStr(r.Results[len(r.Results)-1]) == errName
}

func isNotOkReturn(s ast.Stmt, okName string) bool {
	ifs, ok := s.(*ast.IfStmt)
	if !ok || ifs.Init != nil || ifs.Else != nil || exprStr(ifs.Cond) != "!"+okName || len(ifs.Body.List) != 1 {
		return false
	}
	_, isRet := ifs.Body.List[0].(*ast.ReturnStmt)
	return isRet
}

func (t *translator) returnStmt(r *ast.ReturnStmt, ind string) string {
	res := r.Results
	if len(res) == 0 { // bare return with named results
		switch t.cur.kind {
		case retOutPair:
			return ind + "return .ok (" + t.named[0] + ", " + t.named[1] + ")\n"
		}
		t.failf("bare return in a function without named results")
		return ""
	}
	// `return f(…)` forwarding all results of a translated function of the same result kind
	if len(res) == 1 {
		if call, ok := res[0].(*ast.CallExpr); ok {
			name := exprStr(call.Fun)
			if k := strings.LastIndex(name, "."); k >= 0 {
				name = name[k+1:]
			}
			if info, known := t.fns[name]; known && info.kind == t.cur.kind && info.arity == t.cur.arity &&
				(t.cur.kind == retOutInt || t.cur.kind == retOutPair || t.cur.kind == retTuple || t.cur.kind == retErrBool) {
				args := make([]string, len(call.Args))
				for k, a := range call.Args {
					if id, isId := a.(*ast.Ident); isId && (id.Name == "true" || id.Name == "false") {
						args[k] = id.Name
					} else {
						args[k] = t.intExpr(a)
					}
				}
				fuel := ""
				if t.fuelFns[name] {
					t.usesFuel = true
					fuel = "fuel "
				}
				return ind + "return (Gen." + name + " " + fuel + strings.Join(args, " ") + ")\n"
			}
		}
	}
	want := map[retKind]int{retInt: 1, retBool: 1, retErrBool: 2, retErrOnly: 1, retOutInt: 2, retOutPair: 3, retIDString: 1}[t.cur.kind]
	if t.cur.kind == retTuple {
		want = t.cur.arity
	}
	if len(res) != want {
		t.failf("return with %d values in a function with %d results", len(res), want)
		return ""
	}
	switch t.cur.kind {
	case retInt:
		return ind + "return " + t.intExpr(res[0]) + "\n"
	case retBool:
		return ind + "return decide " + t.propExpr(res[0]) + "\n"
	case retErrBool:
		return ind + "return decide " + t.propExpr(res[1]) + "\n"
	case retErrOnly:
		if exprStr(res[0]) == "nil" {
			return ind + "return false\n"
		}
		return ind + "return true\n"
	case retOutInt:
		if exprStr(res[1]) == "nil" {
			return ind + "return .ok " + t.intExpr(res[0]) + "\n"
		}
		return ind + "return .err\n"
	case retOutPair:
		if exprStr(res[2]) == "nil" {
			return ind + "return .ok (" + t.intExpr(res[0]) + ", " + t.intExpr(res[1]) + ")\n"
		}
		return ind + "return .err\n"
	case retIDString:
		if c, ok := res[0].(*ast.CallExpr); ok && exprStr(c.Fun) == "strings.Join" && len(c.Args) == 2 {
			sep := exprStr(c.Args[1])
			if parts, ok := t.idLits[exprStr(c.Args[0])]; ok && (sep == `"/"` || strings.HasSuffix(sep, "SpatialIDDelimiter")) {
				if len(parts) != 5 {
					t.failf("the returned ID has %d fields", len(parts))
				}
				return ind + "return (" + strings.Join(parts, ", ") + ")\n"
			}
		}
		t.failf("the returned string is not strings.Join([]string{strconv.FormatInt(…, 10), …}, \"/\")")
		return ""
	default:
		parts := make([]string, len(res))
		for i, e := range res {
			parts[i] = t.intExpr(e)
		}
		return ind + "return (" + strings.Join(parts, ", ") + ")\n"
	}
}

// errBody: the body of `if err != nil { … }`; inside it, returning `err` is returning an error
func (t *translator) errBody(stmts []ast.Stmt, errName string, ind string, declared map[string]bool) string {
	return t.block(stmts, ind, declared)
}

func (t *translator) block(stmts []ast.Stmt, ind string, declared map[string]bool) string {
	var sb strings.Builder
	for i := 0; i < len(stmts); i++ {
		s := stmts[i]
		switch v := s.(type) {
		case *ast.ReturnStmt:
			sb.WriteString(t.returnStmt(v, ind))
		case *ast.DeclStmt:
			gd, ok := v.Decl.(*ast.GenDecl)
			if !ok || gd.Tok != token.VAR {
				t.failf("unsupported declaration")
				continue
			}
			for _, sp := range gd.Specs {
				vs := sp.(*ast.ValueSpec)
				for j, n := range vs.Names {
					if vs.Type != nil && typeStr(vs.Type) == "bool" {
						t.bools[n.Name] = true
						val := "false"
						if len(vs.Values) > j {
							val = "decide " + t.propExpr(vs.Values[j])
						}
						sb.WriteString(ind + "let mut " + n.Name + " : Bool := " + val + "\n")
					} else if vs.Type == nil || typeStr(vs.Type) == "int64" {
						val := "0"
						if len(vs.Values) > j {
							val = t.intExpr(vs.Values[j])
						}
						sb.WriteString(ind + "let mut " + n.Name + " : Int := " + val + "\n")
						t.scope = append(t.scope, n.Name)
					} else if typeStr(vs.Type) == "error" {
						// an error variable: carries no information in the model
					} else {
						t.failf("unsupported variable type %s", typeStr(vs.Type))
					}
					declared[n.Name] = true
				}
			}
		case *ast.ForStmt:
			sb.WriteString(t.forLoop(v, ind, declared))
		case *ast.RangeStmt:
			sb.WriteString(t.rangeLoop(v, ind, declared))
		case *ast.BranchStmt:
			if v.Tok == token.BREAK && v.Label == nil && t.breakRet != "" {
				sb.WriteString(ind + "return " + t.breakRet + "\n")
			} else {
				t.failf("unsupported branch statement at line %d", fset.Position(s.Pos()).Line)
			}
		case *ast.AssignStmt:
			// obj, err := object.NewExtendedSpatialID(p) on a string parameter, followed by `if err != nil { return "" }`
			if len(v.Lhs) == 2 && len(v.Rhs) == 1 {
				if call, ok := v.Rhs[0].(*ast.CallExpr); ok && strings.HasSuffix(exprStr(call.Fun), "NewExtendedSpatialID") && len(call.Args) == 1 {
					if _, isParam := t.strParams[exprStr(call.Args[0])]; isParam && t.cur.kind == retIDString {
						errName := exprStr(v.Lhs[1])
						if i+1 < len(stmts) {
							if ifs, ok := stmts[i+1].(*ast.IfStmt); ok && ifs.Init == nil && ifs.Else == nil && exprStr(ifs.Cond) == errName+" != nil" && len(ifs.Body.List) == 1 {
								if r, ok := ifs.Body.List[0].(*ast.ReturnStmt); ok && len(r.Results) == 1 && exprStr(r.Results[0]) == `""` {
									t.objVars[exprStr(v.Lhs[0])] = exprStr(call.Args[0])
									t.strParams[exprStr(call.Args[0])] = -1 // read through the parsed object
									i++
									continue
								}
							}
						}
						t.failf("NewExtendedSpatialID is not followed by `if err != nil { return \"\" }`")
						continue
					}
				}
			}
			// l := []string{strconv.FormatInt(a, 10), …}: remembered, nothing emitted
			if len(v.Lhs) == 1 && len(v.Rhs) == 1 {
				if lit, ok := v.Rhs[0].(*ast.CompositeLit); ok && exprStr(lit.Type) == "[]string" {
					var parts []string
					okAll := true
					for _, el := range lit.Elts {
						c, ok := el.(*ast.CallExpr)
						if !ok || exprStr(c.Fun) != "strconv.FormatInt" || len(c.Args) != 2 || exprStr(c.Args[1]) != "10" {
							okAll = false
							break
						}
						parts = append(parts, t.intExpr(c.Args[0]))
					}
					if okAll && len(parts) > 0 {
						t.idLits[exprStr(v.Lhs[0])] = parts
						continue
					}
				}
			}
			// str := strconv.FormatInt(int64(e), 4): remembered as the list of its digit values, nothing emitted
			if len(v.Lhs) == 1 && len(v.Rhs) == 1 {
				if l, ok := t.fmtBase4(v.Rhs[0]); ok {
					t.fmtVars[exprStr(v.Lhs[0])] = l
					continue
				}
			}
			// idx := strings.Split(id, "/") on a string parameter: remembered, nothing emitted
			if len(v.Lhs) == 1 && len(v.Rhs) == 1 {
				if call, ok := v.Rhs[0].(*ast.CallExpr); ok && exprStr(call.Fun) == "strings.Split" && len(call.Args) == 2 && exprStr(call.Args[1]) == `"/"` {
					if _, isParam := t.strParams[exprStr(call.Args[0])]; isParam {
						t.splitVars[exprStr(v.Lhs[0])] = exprStr(call.Args[0])
						continue
					}
				}
			}
			// v, _ := strconv.ParseInt(idx[k], 10, 64): the k-th field of the ID, as parsed (the error is dropped by the Go code)
			if len(v.Lhs) == 2 && len(v.Rhs) == 1 && exprStr(v.Lhs[1]) == "_" {
				if call, ok := v.Rhs[0].(*ast.CallExpr); ok && exprStr(call.Fun) == "strconv.ParseInt" && len(call.Args) == 3 &&
					exprStr(call.Args[1]) == "10" && exprStr(call.Args[2]) == "64" {
					if ix, ok := call.Args[0].(*ast.IndexExpr); ok {
						if prm, ok := t.splitVars[exprStr(ix.X)]; ok {
							if lit, ok := ix.Index.(*ast.BasicLit); ok && lit.Kind == token.INT {
								k := 0
								fmt.Sscanf(lit.Value, "%d", &k)
								if k+1 > t.strParams[prm] {
									t.strParams[prm] = k + 1
								}
								name := exprStr(v.Lhs[0])
								if v.Tok == token.DEFINE && !declared[name] {
									sb.WriteString(fmt.Sprintf("%slet mut %s : Int := %s_%d\n", ind, name, prm, k))
									declared[name] = true
									t.scope = append(t.scope, name)
								} else {
									sb.WriteString(fmt.Sprintf("%s%s := %s_%d\n", ind, name, prm, k))
								}
								continue
							}
						}
					}
				}
			}
			// multi-value call: v, err := f(…)   /   err, ok := validateIndexExists(…)   /   _, ok = …
			if len(v.Rhs) == 1 {
				if call, ok := v.Rhs[0].(*ast.CallExpr); ok && len(v.Lhs) >= 2 {
					name := exprStr(call.Fun)
					if k := strings.LastIndex(name, "."); k >= 0 {
						name = name[k+1:]
					}
					info, known := t.fns[name]
					args := make([]string, len(call.Args))
					for k, a := range call.Args {
						if id, isId := a.(*ast.Ident); isId && (id.Name == "true" || id.Name == "false") {
							args[k] = id.Name
						} else {
							args[k] = t.intExpr(a)
						}
					}
					callStr := "Gen." + name + " " + strings.Join(args, " ")
					if known && info.kind == retOutInt && len(v.Lhs) == 2 {
						val, errName := exprStr(v.Lhs[0]), exprStr(v.Lhs[1])
						if i+1 < len(stmts) && isErrNilCheck(stmts[i+1], errName) {
							sb.WriteString(ind + "let .ok " + val + " := " + callStr + " | return .err\n")
							declared[val] = true
							t.scope = append(t.scope, val)
							i++ // the `if err != nil { return …, err }` is now dead
							continue
						}
						t.failf("call of %s not followed by `if %s != nil { return …, %s }`", name, errName, errName)
						continue
					}
					if known && info.kind == retErrBool && len(v.Lhs) == 2 {
						okName := exprStr(v.Lhs[1])
						if i+1 < len(stmts) && isNotOkReturn(stmts[i+1], okName) {
							sb.WriteString(ind + "if ¬ (" + callStr + " = true) then\n")
							sb.WriteString(t.block(stmts[i+1].(*ast.IfStmt).Body.List, ind+"  ", declared))
							i++
							continue
						}
						t.failf("call of %s not followed by `if !%s { return … }`", name, okName)
						continue
					}
					if known && info.kind == retTuple && len(v.Lhs) == info.arity {
						// a, b := f(…) where f returns a tuple of int64
						tmp := fmt.Sprintf("tup%d", fset.Position(v.Pos()).Line)
						if t.fuelFns[name] {
							t.usesFuel = true
							callStr = "Gen." + name + " fuel " + strings.Join(args, " ")
						}
						sb.WriteString(ind + "let " + tmp + " := " + callStr + "\n")
						for k, l := range v.Lhs {
							nm := exprStr(l)
							if nm == "_" {
								continue
							}
							proj := tmp + strings.Repeat(".2", k)
							if k < len(v.Lhs)-1 {
								proj += ".1"
							}
							if v.Tok == token.DEFINE && !declared[nm] {
								sb.WriteString(ind + "let mut " + nm + " : Int := " + proj + "\n")
								declared[nm] = true
								t.scope = append(t.scope, nm)
							} else {
								sb.WriteString(ind + nm + " := " + proj + "\n")
							}
						}
						continue
					}
					t.failf("unsupported multi-value assignment from %s", name)
					continue
				}
			}
			// parallel assignment of plain integer expressions: a, b := x, y  (all right-hand sides are evaluated first)
			if len(v.Lhs) == len(v.Rhs) && len(v.Lhs) > 1 && (v.Tok == token.DEFINE || v.Tok == token.ASSIGN) {
				okAll := true
				for k := range v.Lhs {
					if _, isId := v.Lhs[k].(*ast.Ident); !isId || t.bools[exprStr(v.Lhs[k])] {
						okAll = false
					}
				}
				if okAll {
					tmps := make([]string, len(v.Rhs))
					for k := range v.Rhs {
						tmps[k] = fmt.Sprintf("par%d_%d", fset.Position(v.Pos()).Line, k)
						sb.WriteString(ind + "let " + tmps[k] + " : Int := " + t.intExpr(v.Rhs[k]) + "\n")
					}
					for k := range v.Lhs {
						name := exprStr(v.Lhs[k])
						if name == "_" {
							continue
						}
						if v.Tok == token.DEFINE && !declared[name] {
							sb.WriteString(ind + "let mut " + name + " : Int := " + tmps[k] + "\n")
							declared[name] = true
							t.scope = append(t.scope, name)
						} else {
							sb.WriteString(ind + name + " := " + tmps[k] + "\n")
						}
					}
					continue
				}
			}
			if len(v.Lhs) != 1 || len(v.Rhs) != 1 {
				t.failf("unsupported assignment %s", exprStr(v.Lhs[0]))
				continue
			}
			name := exprStr(v.Lhs[0])
			isBool := t.bools[name]
			rhs := ""
			if isBool {
				rhs = "decide " + t.propExpr(v.Rhs[0])
			} else {
				rhs = t.intExpr(v.Rhs[0])
			}
			switch v.Tok {
			case token.DEFINE:
				sb.WriteString(ind + "let mut " + name + " : Int := " + rhs + "\n")
				declared[name] = true
				if !isBool {
					t.scope = append(t.scope, name)
				}
			case token.ASSIGN:
				sb.WriteString(ind + name + " := " + rhs + "\n")
			case token.ADD_ASSIGN:
				sb.WriteString(ind + name + " := " + name + " + " + rhs + "\n")
			case token.SUB_ASSIGN:
				sb.WriteString(ind + name + " := " + name + " - " + rhs + "\n")
			case token.MUL_ASSIGN:
				sb.WriteString(ind + name + " := " + name + " * " + rhs + "\n")
			case token.QUO_ASSIGN:
				sb.WriteString(ind + name + " := (Int.tdiv " + name + " " + rhs + ")\n")
			case token.REM_ASSIGN:
				sb.WriteString(ind + name + " := (Int.tmod " + name + " " + rhs + ")\n")
			case token.SHL_ASSIGN:
				sb.WriteString(ind + name + " := (" + name + " * 2 ^ ((" + rhs + " : Int)).toNat)\n")
			case token.SHR_ASSIGN:
				sb.WriteString(ind + name + " := (" + name + " >>> ((" + rhs + " : Int)).toNat)\n")
			default:
				t.failf("unsupported assignment operator")
			}
		case *ast.IfStmt:
			if v.Init != nil {
				// `if _, ok := f(…); !ok { return … }`
				as, ok := v.Init.(*ast.AssignStmt)
				if ok && len(as.Lhs) == 2 && len(as.Rhs) == 1 {
					if call, isCall := as.Rhs[0].(*ast.CallExpr); isCall {
						name := exprStr(call.Fun)
						if k := strings.LastIndex(name, "."); k >= 0 {
							name = name[k+1:]
						}
						if info, known := t.fns[name]; known && info.kind == retErrBool && exprStr(v.Cond) == "!"+exprStr(as.Lhs[1]) && v.Else == nil {
							args := make([]string, len(call.Args))
							for k, a := range call.Args {
								if id, isId := a.(*ast.Ident); isId && (id.Name == "true" || id.Name == "false") {
									args[k] = id.Name
								} else {
									args[k] = t.intExpr(a)
								}
							}
							sb.WriteString(ind + "if ¬ (Gen." + name + " " + strings.Join(args, " ") + " = true) then\n")
							sb.WriteString(t.block(v.Body.List, ind+"  ", declared))
							continue
						}
					}
				}
				// `if err := f(…); err != nil { … }` where f returns only an error (translated to "an error is returned")
				if ok && len(as.Lhs) == 1 && len(as.Rhs) == 1 {
					if call, isCall := as.Rhs[0].(*ast.CallExpr); isCall {
						name := exprStr(call.Fun)
						if k := strings.LastIndex(name, "."); k >= 0 {
							name = name[k+1:]
						}
						if info, known := t.fns[name]; known && info.kind == retErrOnly && exprStr(v.Cond) == exprStr(as.Lhs[0])+" != nil" && v.Else == nil {
							args := make([]string, len(call.Args))
							for k, a := range call.Args {
								if id, isId := a.(*ast.Ident); isId && (id.Name == "true" || id.Name == "false") {
									args[k] = id.Name
								} else {
									args[k] = t.intExpr(a)
								}
							}
							sb.WriteString(ind + "if (Gen." + name + " " + strings.Join(args, " ") + " = true) then\n")
							sb.WriteString(t.errBody(v.Body.List, exprStr(as.Lhs[0]), ind+"  ", declared))
							continue
						}
					}
				}
				t.failf("unsupported if-initialiser")
				continue
			}
			sb.WriteString(ind + "if " + t.propExpr(v.Cond) + " then\n")
			sb.WriteString(t.block(v.Body.List, ind+"  ", declared))
			switch el := v.Else.(type) {
			case nil:
			case *ast.BlockStmt:
				sb.WriteString(ind + "else\n")
				sb.WriteString(t.block(el.List, ind+"  ", declared))
			case *ast.IfStmt:
				sb.WriteString(ind + "else\n")
				sb.WriteString(t.block([]ast.Stmt{el}, ind+"  ", declared))
			}
		case *ast.SwitchStmt:
			// switch tag { case a, b: … default: … } without fallthrough → an if-chain on tag == a ∨ tag == b
			if v.Init != nil {
				t.failf("unsupported switch at line %d", fset.Position(s.Pos()).Line)
				continue
			}
			var clauses []*ast.CaseClause
			var deflt *ast.CaseClause
			okSw := true
			for _, c := range v.Body.List {
				cc := c.(*ast.CaseClause)
				for _, st := range cc.Body {
					if b, isB := st.(*ast.BranchStmt); isB && b.Tok == token.FALLTHROUGH {
						okSw = false
					}
				}
				if cc.List == nil {
					deflt = cc
				} else {
					clauses = append(clauses, cc)
				}
			}
			if !okSw {
				t.failf("switch with fallthrough at line %d", fset.Position(s.Pos()).Line)
				continue
			}
			cur := ind
			for _, cc := range clauses {
				var alts []string
				for _, e := range cc.List {
					if v.Tag == nil { // switch { case cond: … }
						alts = append(alts, t.propExpr(e))
					} else {
						alts = append(alts, t.propExpr(&ast.BinaryExpr{X: v.Tag, Op: token.EQL, Y: e}))
					}
				}
				sb.WriteString(cur + "if " + strings.Join(alts, " ∨ ") + " then\n")
				sb.WriteString(t.block(cc.Body, cur+"  ", declared))
				sb.WriteString(cur + "else\n")
				cur += "  "
			}
			if deflt != nil {
				sb.WriteString(t.block(deflt.Body, cur, declared))
			} else {
				sb.WriteString(cur + "pure ()\n")
			}
		case *ast.IncDecStmt:
			name := exprStr(v.X)
			if _, isId := v.X.(*ast.Ident); !isId {
				t.failf("unsupported increment target %s", name)
				continue
			}
			if v.Tok == token.INC {
				sb.WriteString(ind + name + " := " + name + " + 1\n")
			} else {
				sb.WriteString(ind + name + " := " + name + " - 1\n")
			}
		default:
			t.failf("unsupported statement at line %d", fset.Position(s.Pos()).Line)
		}
	}
	if sb.Len() == 0 {
		sb.WriteString(ind + "pure ()\n")
	}
	return sb.String()
}

func (t *translator) function(fn *ast.FuncDecl, info fnInfo) string {
	t.cur = info
	t.bools = map[string]bool{}
	t.named = nil
	t.fail = ""
	t.fnName = fn.Name.Name
	t.scope = nil
	t.aux.Reset()
	t.loops = 0
	t.strParams = map[string]int{}
	t.splitVars = map[string]string{}
	t.fmtVars = map[string]string{}
	t.digitVars = map[string]bool{}
	t.breakRet = ""
	t.usesFuel = false
	t.objVars = map[string]string{}
	t.objFields = map[string]bool{}
	t.idLits = map[string][]string{}
	for _, f := range fn.Type.Params.List {
		ty := typeStr(f.Type)
		for _, n := range f.Names {
			switch ty {
			case "int64":
				t.scope = append(t.scope, n.Name)
			case "bool":
				t.bools[n.Name] = true
			case "string":
				t.strParams[n.Name] = 0 // an ID: its '/'-separated fields become parameters <name>_<k> as they are read
			default:
				t.failf("unsupported parameter type %s", ty)
			}
		}
	}
	var pre strings.Builder
	// Go parameters are assignable: every int64 parameter that the body assigns is shadowed by a mutable local
	assignedParams := map[string]bool{}
	if fn.Body != nil {
		ast.Inspect(fn.Body, func(n ast.Node) bool {
			switch v := n.(type) {
			case *ast.AssignStmt:
				if v.Tok != token.DEFINE {
					for _, l := range v.Lhs {
						if id, ok := l.(*ast.Ident); ok {
							assignedParams[id.Name] = true
						}
					}
				}
			case *ast.IncDecStmt:
				if id, ok := v.X.(*ast.Ident); ok {
					assignedParams[id.Name] = true
				}
			}
			return true
		})
	}
	for _, f := range fn.Type.Params.List {
		if typeStr(f.Type) == "int64" {
			for _, n := range f.Names {
				if assignedParams[n.Name] {
					pre.WriteString("  let mut " + n.Name + " : Int := " + n.Name + "\n")
				}
			}
		}
	}
	if fn.Type.Results != nil {
		for _, f := range fn.Type.Results.List {
			for _, n := range f.Names {
				if typeStr(f.Type) == "int64" {
					t.named = append(t.named, n.Name)
					pre.WriteString("  let mut " + n.Name + " : Int := 0\n")
				}
			}
		}
	}
	body := t.block(fn.Body.List, "  ", map[string]bool{})
	name := fn.Name.Name
	var params []string
	if t.usesFuel {
		params = append(params, "(fuel : Nat)")
	}
	for _, f := range fn.Type.Params.List {
		ty := typeStr(f.Type)
		for _, n := range f.Names {
			switch ty {
			case "int64":
				params = append(params, "("+n.Name+" : Int)")
			case "bool":
				params = append(params, "("+n.Name+" : Bool)")
			case "string":
				if t.strParams[n.Name] == 0 {
					t.failf("string parameter %s is not read through strings.Split(%s, \"/\") and strconv.ParseInt", n.Name, n.Name)
				}
				if t.strParams[n.Name] < 0 { // parsed by object.NewExtendedSpatialID: the five components, in the order of the ID
					for _, fld := range []string{"HZoom", "X", "Y", "VZoom", "Z"} {
						params = append(params, fmt.Sprintf("(%s_%s : Int)", n.Name, fld))
					}
				}
				for k := 0; k < t.strParams[n.Name]; k++ {
					params = append(params, fmt.Sprintf("(%s_%d : Int)", n.Name, k))
				}
			}
		}
	}
	if t.fail != "" {
		return fmt.Sprintf("/-- NOT TRANSLATED: %s -/\ndef %s_untranslatable : String := %s\n\n", t.fail, name, leanStr(t.fail))
	}
	// silence "unused mutable" by a final reference is unnecessary: Lean only warns
	return t.aux.String() + fmt.Sprintf("/-- literal translation of `%s` (%s) -/\ndef %s %s : %s := Id.run do\n%s%s\n",
		name, filepath.Base(fset.Position(fn.Pos()).Filename), name, strings.Join(params, " "), leanRet(info), pre.String(), body)
}

// fmtBase4: strconv.FormatInt(int64(e), 4) (or of a variable bound to it) as the Lean list of digit values
func (t *translator) fmtBase4(e ast.Expr) (string, bool) {
	if id, ok := e.(*ast.Ident); ok {
		l, ok := t.fmtVars[id.Name]
		return l, ok
	}
	c, ok := e.(*ast.CallExpr)
	if !ok || exprStr(c.Fun) != "strconv.FormatInt" || len(c.Args) != 2 || exprStr(c.Args[1]) != "4" {
		return "", false
	}
	return "(fmtBase4 " + t.intExpr(c.Args[0]) + ")", true
}

// rangeLoop: `for i, s := range strings.Split(<FormatInt(e, 4)>, "") { body }` — a walk over the characters of a base-4 number.
// The loop becomes a structurally recursive auxiliary definition over the LIST of digit values; `break` returns the state.
func (t *translator) rangeLoop(f *ast.RangeStmt, ind string, declared map[string]bool) string {
	line := fset.Position(f.Pos()).Line
	call, ok := f.X.(*ast.CallExpr)
	if !ok || exprStr(call.Fun) != "strings.Split" || len(call.Args) != 2 || exprStr(call.Args[1]) != `""` {
		t.failf("range at line %d is not over strings.Split(·, \"\")", line)
		return ""
	}
	list, ok := t.fmtBase4(call.Args[0])
	if !ok {
		t.failf("range at line %d is not over the characters of strconv.FormatInt(·, 4)", line)
		return ""
	}
	if f.Tok != token.DEFINE {
		t.failf("range at line %d does not declare its variables", line)
		return ""
	}
	bad := false
	ast.Inspect(f.Body, func(n ast.Node) bool {
		switch v := n.(type) {
		case *ast.ReturnStmt, *ast.ForStmt, *ast.RangeStmt:
			bad = true
		case *ast.BranchStmt:
			if v.Tok != token.BREAK || v.Label != nil {
				bad = true
			}
		}
		return true
	})
	if bad {
		t.failf("range loop at line %d contains return/continue/goto or a nested loop", line)
		return ""
	}
	idx, val := "idx_"+fmt.Sprint(line), "chr_"+fmt.Sprint(line)
	if f.Key != nil && exprStr(f.Key) != "_" {
		idx = exprStr(f.Key)
	}
	if f.Value != nil && exprStr(f.Value) != "_" {
		val = exprStr(f.Value)
	}
	// state: variables of the enclosing scope assigned in the body, in declaration order
	assigned := map[string]bool{}
	local := map[string]bool{idx: true, val: true}
	ast.Inspect(f.Body, func(n ast.Node) bool {
		switch v := n.(type) {
		case *ast.AssignStmt:
			for _, l := range v.Lhs {
				if id, ok := l.(*ast.Ident); ok && id.Name != "_" {
					if v.Tok == token.DEFINE && !assigned[id.Name] {
						local[id.Name] = true
					} else if !local[id.Name] {
						assigned[id.Name] = true
					}
				}
			}
		case *ast.IncDecStmt:
			if id, ok := v.X.(*ast.Ident); ok && !local[id.Name] {
				assigned[id.Name] = true
			}
		case *ast.DeclStmt:
			if gd, ok := v.Decl.(*ast.GenDecl); ok {
				for _, sp := range gd.Specs {
					if vs, ok := sp.(*ast.ValueSpec); ok {
						for _, nm := range vs.Names {
							local[nm.Name] = true
						}
					}
				}
			}
		}
		return true
	})
	var state []string
	stSeen := map[string]bool{}
	for _, n := range t.scope {
		if assigned[n] && !stSeen[n] && !t.bools[n] {
			stSeen[n] = true
			state = append(state, n)
		}
	}
	for n := range assigned {
		if !stSeen[n] {
			t.failf("range loop at line %d assigns %s, which is not an int64 variable in scope", line, n)
			return ""
		}
	}
	if len(state) == 0 {
		t.failf("range loop at line %d assigns nothing", line)
		return ""
	}
	used := map[string]bool{}
	ast.Inspect(f.Body, func(n ast.Node) bool {
		if id, ok := n.(*ast.Ident); ok {
			used[id.Name] = true
		}
		return true
	})
	var ro []string
	roSeen := map[string]bool{}
	for _, n := range t.scope {
		if used[n] && !stSeen[n] && !roSeen[n] && !t.bools[n] && n != idx && n != val {
			roSeen[n] = true
			ro = append(ro, n)
		}
	}
	t.loops++
	lname := fmt.Sprintf("%s_loop%d", t.fnName, t.loops)
	tuple := func(xs []string) string {
		if len(xs) == 1 {
			return xs[0]
		}
		return "(" + strings.Join(xs, ", ") + ")"
	}
	savedScope := append([]string(nil), t.scope...)
	savedBreak := t.breakRet
	t.scope = append(t.scope, idx)
	t.digitVars[val] = true
	t.breakRet = tuple(state)
	inner := map[string]bool{}
	for k := range declared {
		inner[k] = true
	}
	body := t.block(f.Body.List, "    ", inner)
	t.scope = savedScope
	t.breakRet = savedBreak
	delete(t.digitVars, val)
	var a strings.Builder
	a.WriteString(fmt.Sprintf("/-- the loop at line %d of `%s`: a walk over the characters of a base-4 number (digit values; `-` is −1), index `%s`, state %s; `break` returns the state -/\n", line, t.fnName, idx, tuple(state)))
	a.WriteString("def " + lname)
	for _, n := range ro {
		a.WriteString(" (" + n + " : Int)")
	}
	a.WriteString(" : List Int → Int")
	for range state {
		a.WriteString(" → Int")
	}
	a.WriteString(" → " + strings.TrimSuffix(strings.Repeat("Int × ", len(state)), " × ") + "\n")
	a.WriteString("  | [], _, " + strings.Join(state, ", ") + " => " + tuple(state) + "\n")
	a.WriteString("  | " + val + " :: rest_chars, " + idx + ", " + strings.Join(state, ", ") + " => Id.run do\n")
	for _, n := range state {
		a.WriteString("    let mut " + n + " : Int := " + n + "\n")
	}
	if strings.TrimSpace(body) != "pure ()" {
		a.WriteString(body)
	}
	a.WriteString("    return " + lname + " " + strings.Join(append(append([]string{}, ro...), "rest_chars", "("+idx+" + 1)"), " ") + " " + strings.Join(state, " ") + "\n\n")
	t.aux.WriteString(a.String())
	var sb strings.Builder
	res := fmt.Sprintf("loop%d_res", t.loops)
	sb.WriteString(ind + "let " + res + " := " + lname + " " + strings.Join(append(append([]string{}, ro...), list, "0"), " ") + " " + strings.Join(state, " ") + "\n")
	for k, n := range state {
		proj := res
		if len(state) > 1 {
			proj += strings.Repeat(".2", k)
			if k < len(state)-1 {
				proj += ".1"
			}
		}
		sb.WriteString(ind + n + " := " + proj + "\n")
	}
	return sb.String()
}

// forLoop: `for init; cond; post { body }` whose body consists of supported int64 statements without return/break/continue.
// The loop becomes a structurally recursive auxiliary definition over FUEL: its state is the variables assigned in the body,
// the post statement and the initialiser; every other Int variable in scope that the loop reads is passed unchanged.
func (t *translator) forLoop(f *ast.ForStmt, ind string, declared map[string]bool) string {
	line := fset.Position(f.Pos()).Line
	if f.Cond == nil {
		t.failf("loop at line %d has no condition", line)
		return ""
	}
	bad := false
	ast.Inspect(f.Body, func(n ast.Node) bool {
		switch n.(type) {
		case *ast.ReturnStmt, *ast.BranchStmt, *ast.ForStmt, *ast.RangeStmt:
			bad = true
		}
		return true
	})
	if bad {
		t.failf("loop at line %d contains return/break/continue or a nested loop", line)
		return ""
	}
	var sb strings.Builder
	// initialiser, in the enclosing block
	if f.Init != nil {
		sb.WriteString(t.block([]ast.Stmt{f.Init}, ind, declared))
	}
	// state variables: assigned in body or post (and not declared inside the body), in order of first assignment
	local := map[string]bool{}
	var state []string
	seen := map[string]bool{}
	addState := func(name string) {
		if name != "_" && !local[name] && !seen[name] {
			seen[name] = true
			state = append(state, name)
		}
	}
	collect := func(n ast.Node) {
		ast.Inspect(n, func(n ast.Node) bool {
			switch v := n.(type) {
			case *ast.AssignStmt:
				for _, l := range v.Lhs {
					if id, ok := l.(*ast.Ident); ok {
						if v.Tok == token.DEFINE && !seen[id.Name] {
							local[id.Name] = true
						} else {
							addState(id.Name)
						}
					}
				}
			case *ast.IncDecStmt:
				if id, ok := v.X.(*ast.Ident); ok {
					addState(id.Name)
				}
			case *ast.DeclStmt:
				if gd, ok := v.Decl.(*ast.GenDecl); ok {
					for _, sp := range gd.Specs {
						if vs, ok := sp.(*ast.ValueSpec); ok {
							for _, nm := range vs.Names {
								local[nm.Name] = true
							}
						}
					}
				}
			}
			return true
		})
	}
	if as, ok := f.Init.(*ast.AssignStmt); ok {
		for _, l := range as.Lhs {
			addState(exprStr(l))
		}
	}
	collect(f.Body)
	if f.Post != nil {
		collect(f.Post)
	}
	inScope := map[string]bool{}
	for _, n := range t.scope {
		inScope[n] = true
	}
	{ // canonical order of the state: the order of declaration in the function (not the order of assignment inside the loop)
		var ordered []string
		for _, n := range t.scope {
			if seen[n] {
				dup := false
				for _, o := range ordered {
					dup = dup || o == n
				}
				if !dup {
					ordered = append(ordered, n)
				}
			}
		}
		for _, n := range state {
			if !inScope[n] {
				ordered = append(ordered, n) // reported just below
			}
		}
		state = ordered
	}
	for _, n := range state {
		if !inScope[n] || t.bools[n] {
			t.failf("loop at line %d assigns %s, which is not an int64 variable in scope", line, n)
			return ""
		}
	}
	// read-only variables: in scope, not state, mentioned in the loop
	used := map[string]bool{}
	for _, n := range []ast.Node{f.Cond, f.Body, f.Post} {
		if n == nil || n == ast.Node((*ast.BlockStmt)(nil)) {
			continue
		}
		ast.Inspect(n, func(n ast.Node) bool {
			if id, ok := n.(*ast.Ident); ok {
				used[id.Name] = true
			}
			return true
		})
	}
	var ro []string
	roSeen := map[string]bool{}
	for _, n := range t.scope {
		if used[n] && !seen[n] && !roSeen[n] && !t.bools[n] {
			roSeen[n] = true
			ro = append(ro, n)
		}
	}
	t.loops++
	t.usesFuel = true
	lname := fmt.Sprintf("%s_loop%d", t.fnName, t.loops)
	tuple := func(xs []string) string {
		if len(xs) == 1 {
			return xs[0]
		}
		return "(" + strings.Join(xs, ", ") + ")"
	}
	// the auxiliary definition
	savedScope := append([]string(nil), t.scope...)
	inner := map[string]bool{}
	for k := range declared {
		inner[k] = true
	}
	body := t.block(f.Body.List, "      ", inner)
	post := ""
	if f.Post != nil {
		post = t.block([]ast.Stmt{f.Post}, "      ", inner)
	}
	t.scope = savedScope
	var a strings.Builder
	a.WriteString(fmt.Sprintf("/-- the loop at line %d of `%s`: `for …; %s; … { … }`, state %s, at most `fuel` iterations -/\n", line, t.fnName, exprStr(f.Cond), tuple(state)))
	a.WriteString("def " + lname)
	for _, n := range ro {
		a.WriteString(" (" + n + " : Int)")
	}
	a.WriteString(" : Nat")
	for range state {
		a.WriteString(" → Int")
	}
	a.WriteString(" → " + strings.TrimSuffix(strings.Repeat("Int × ", len(state)), " × ") + "\n")
	a.WriteString("  | 0, " + strings.Join(state, ", ") + " => " + tuple(state) + "\n")
	a.WriteString("  | fuel + 1, " + strings.Join(state, ", ") + " =>\n")
	a.WriteString("    if " + t.propExpr(f.Cond) + " then Id.run do\n")
	for _, n := range state {
		a.WriteString("      let mut " + n + " : Int := " + n + "\n")
	}
	if strings.TrimSpace(body) != "pure ()" {
		a.WriteString(body)
	}
	if strings.TrimSpace(post) != "pure ()" {
		a.WriteString(post)
	}
	a.WriteString("      return " + lname + " " + strings.Join(append(append([]string{}, ro...), "fuel"), " ") + " " + strings.Join(state, " ") + "\n")
	a.WriteString("    else " + tuple(state) + "\n\n")
	t.aux.WriteString(a.String())
	// the call, in the enclosing block
	res := fmt.Sprintf("loop%d_res", t.loops)
	sb.WriteString(ind + "let " + res + " := " + lname + " " + strings.Join(append(append([]string{}, ro...), "fuel"), " ") + " " + strings.Join(state, " ") + "\n")
	for k, n := range state {
		proj := res
		if len(state) > 1 {
			proj += strings.Repeat(".2", k)
			if k < len(state)-1 {
				proj += ".1"
			}
		}
		sb.WriteString(ind + n + " := " + proj + "\n")
	}
	return sb.String()
}

// structMethod: a method on a struct of int64 fields that returns a pointer to a new struct of the same type built by a keyed
// composite literal (ExtendedSpatialID.Higher). The receiver's fields become parameters recv_<field> in the order `fields`;
// the result is the tuple of the literal's values in the same field order.
func (t *translator) structMethod(fn *ast.FuncDecl, fields []string) string {
	t.cur = fnInfo{retTuple, len(fields)}
	t.bools = map[string]bool{}
	t.named = nil
	t.fail = ""
	t.recv = ""
	name := fn.Name.Name
	if fn.Recv != nil && len(fn.Recv.List) == 1 && len(fn.Recv.List[0].Names) == 1 {
		t.recv = fn.Recv.List[0].Names[0].Name
	}
	defer func() { t.recv = "" }()
	var params []string
	for _, f := range fields {
		params = append(params, "(recv_"+f+" : Int)")
	}
	for _, f := range fn.Type.Params.List {
		for _, n := range f.Names {
			if typeStr(f.Type) != "int64" {
				t.failf("unsupported parameter type %s", typeStr(f.Type))
			}
			params = append(params, "("+n.Name+" : Int)")
		}
	}
	stmts := fn.Body.List
	var ret *ast.ReturnStmt
	if len(stmts) > 0 {
		ret, _ = stmts[len(stmts)-1].(*ast.ReturnStmt)
	}
	if ret == nil || len(ret.Results) != 1 {
		t.failf("the method does not end in a single-value return")
		return fmt.Sprintf("/-- NOT TRANSLATED: %s -/\ndef %s_untranslatable : String := %s\n\n", t.fail, name, leanStr(t.fail))
	}
	body := t.block(stmts[:len(stmts)-1], "  ", map[string]bool{})
	e := ret.Results[0]
	if u, ok := e.(*ast.UnaryExpr); ok && u.Op == token.AND {
		e = u.X
	}
	vals := map[string]string{}
	if lit, ok := e.(*ast.CompositeLit); ok {
		for _, el := range lit.Elts {
			if kv, ok := el.(*ast.KeyValueExpr); ok {
				vals[exprStr(kv.Key)] = t.intExpr(kv.Value)
			} else {
				t.failf("unkeyed composite literal")
			}
		}
	} else {
		t.failf("the returned value is not a composite literal")
	}
	var out []string
	for _, f := range fields {
		v, ok := vals[f]
		if !ok {
			t.failf("field %s is not set in the returned literal", f)
		}
		out = append(out, v)
	}
	if t.fail != "" {
		return fmt.Sprintf("/-- NOT TRANSLATED: %s -/\ndef %s_untranslatable : String := %s\n\n", t.fail, name, leanStr(t.fail))
	}
	return fmt.Sprintf("/-- literal translation of the method `%s` (%s): receiver fields %s as parameters, result fields in the same order -/\ndef %s %s : %s := Id.run do\n%s  return (%s)\n\n",
		name, filepath.Base(fset.Position(fn.Pos()).Filename), strings.Join(fields, ", "), name, strings.Join(params, " "),
		strings.TrimSuffix(strings.Repeat("Int × ", len(fields)), " × "), body, strings.Join(out, ", "))
}

// boundsOfLoop: for a function of the shape  <int64 statements> ; for v := A; v <= B; v++ { … } ; return …
// translate the statements before the first loop and return (A, B): the index range the loop runs over. The loop body (string
// formatting of the indices) is not translated. Robust to renamed locals: the results are read off the loop header.
func (t *translator) boundsOfLoop(fn *ast.FuncDecl) string {
	t.cur = fnInfo{retTuple, 2}
	t.bools = map[string]bool{}
	t.named = nil
	t.fail = ""
	name := fn.Name.Name + "_bounds"
	var params []string
	for _, f := range fn.Type.Params.List {
		for _, n := range f.Names {
			if typeStr(f.Type) != "int64" {
				t.failf("unsupported parameter type %s", typeStr(f.Type))
			}
			params = append(params, "("+n.Name+" : Int)")
		}
	}
	var pre []ast.Stmt
	var loop *ast.ForStmt
	for _, st := range fn.Body.List {
		if f, ok := st.(*ast.ForStmt); ok {
			loop = f
			break
		}
		if as, ok := st.(*ast.AssignStmt); ok && len(as.Rhs) == 1 {
			if _, isLit := as.Rhs[0].(*ast.CompositeLit); isLit {
				continue // the result slice
			}
			if c, isCall := as.Rhs[0].(*ast.CallExpr); isCall && exprStr(c.Fun) == "make" {
				continue
			}
		}
		if ds, ok := st.(*ast.DeclStmt); ok {
			if gd, ok := ds.Decl.(*ast.GenDecl); ok && len(gd.Specs) == 1 {
				if vs := gd.Specs[0].(*ast.ValueSpec); vs.Type != nil && strings.HasPrefix(typeStr(vs.Type), "[]") {
					continue
				}
			}
		}
		pre = append(pre, st)
	}
	if loop == nil {
		t.failf("no loop found")
	}
	body := t.block(pre, "  ", map[string]bool{})
	lo, hi := "0", "0"
	if loop != nil {
		init, ok1 := loop.Init.(*ast.AssignStmt)
		cond, ok2 := loop.Cond.(*ast.BinaryExpr)
		post, ok3 := loop.Post.(*ast.IncDecStmt)
		if !ok1 || !ok2 || !ok3 || len(init.Lhs) != 1 || len(init.Rhs) != 1 || cond.Op != token.LEQ || post.Tok != token.INC ||
			exprStr(cond.X) != exprStr(init.Lhs[0]) || exprStr(post.X) != exprStr(init.Lhs[0]) {
			t.failf("loop is not of the form `for v := A; v <= B; v++`")
		} else {
			lo, hi = t.intExpr(init.Rhs[0]), t.intExpr(cond.Y)
		}
	}
	if t.fail != "" {
		return fmt.Sprintf("/-- NOT TRANSLATED: %s -/\ndef %s_untranslatable : String := %s\n\n", t.fail, name, leanStr(t.fail))
	}
	if strings.TrimSpace(body) == "pure ()" {
		body = ""
	}
	return fmt.Sprintf("/-- index range `(A, B)` of the loop `for v := A; v <= B; v++` of `%s` (%s), with the statements before it -/\ndef %s %s : Int × Int := Id.run do\n%s  return (%s, %s)\n\n",
		fn.Name.Name, filepath.Base(fset.Position(fn.Pos()).Filename), name, strings.Join(params, " "), body, lo, hi)
}

// constant table: every package-level integer constant whose value is an integer literal or a shift/arithmetic of others
func collectConsts(pkgs []*pkgInfo) (map[string]string, []string) {
	vals := map[string]string{}
	var lines []string
	tr := &translator{consts: vals, fns: map[string]fnInfo{}, bools: map[string]bool{}}
	for _, p := range pkgs {
		short := filepath.Base(p.name)
		for _, f := range p.files {
			for _, d := range f.Decls {
				gd, ok := d.(*ast.GenDecl)
				if !ok || gd.Tok != token.CONST {
					continue
				}
				for _, sp := range gd.Specs {
					vs := sp.(*ast.ValueSpec)
					for i, n := range vs.Names {
						if i >= len(vs.Values) {
							continue
						}
						tr.fail = ""
						switch vs.Values[i].(type) {
						case *ast.BasicLit:
							if vs.Values[i].(*ast.BasicLit).Kind != token.INT {
								continue
							}
						}
						e := tr.intExpr(vs.Values[i])
						if tr.fail != "" || strings.Contains(e, "iota") {
							continue
						}
						vals[n.Name] = "(" + e + ")"
						vals[short+"."+n.Name] = "(" + e + ")"
						lines = append(lines, fmt.Sprintf("/-- `%s.%s` -/\ndef const_%s_%s : Int := %s", short, n.Name, short, n.Name, e))
					}
				}
			}
		}
	}
	return vals, lines
}

// helpers: unexported functions of the same package that a target calls and that are not targets themselves (an extracted
// helper) are translated too, tagged `gen_helper` so that the tie proofs unfold them
func (t *translator) helpers(fn *ast.FuncDecl, pkg string, decls map[string]*ast.FuncDecl, sb *strings.Builder, depth int) {
	if depth > 3 || fn.Body == nil {
		return
	}
	ast.Inspect(fn.Body, func(n ast.Node) bool {
		c, ok := n.(*ast.CallExpr)
		if !ok {
			return true
		}
		id, ok := c.Fun.(*ast.Ident)
		if !ok || ast.IsExported(id.Name) {
			return true
		}
		if _, known := t.fns[id.Name]; known {
			return true
		}
		if skipFns[id.Name] {
			return true
		}
		d, ok := decls[pkg+"."+id.Name]
		if !ok || d.Recv != nil || d.Body == nil {
			return true
		}
		info, ok := t.resultKind(d)
		if !ok {
			return true
		}
		t.helpers(d, pkg, decls, sb, depth+1)
		text := t.function(d, info)
		if strings.Contains(text, "_untranslatable") {
			return true
		}
		t.fns[id.Name] = info
		t.fuelFns[id.Name] = t.usesFuel
		sb.WriteString(strings.Replace(text, "/-- literal translation of", "/-- (helper) literal translation of", 1))
		sb.WriteString("attribute [gen_helper] " + id.Name + "\n\n")
		return true
	})
}

func genFns(pkgs []*pkgInfo, out string) {
	consts, constLines := collectConsts(pkgs)
	t := &translator{consts: consts, fns: map[string]fnInfo{}, bools: map[string]bool{}, fuelFns: map[string]bool{}}
	// locate the targets, in order (callees first)
	decls := map[string]*ast.FuncDecl{}
	for _, p := range pkgs {
		for _, f := range p.files {
			for _, d := range f.Decls {
				if fn, ok := d.(*ast.FuncDecl); ok && fn.Recv == nil {
					decls[filepath.Base(p.name)+"."+fn.Name.Name] = fn
				}
			}
		}
	}
	var sb strings.Builder
	sb.WriteString("/- GENERATED by /verif/extract from the Go source of the repository — do not edit. -/\nimport SpatialId.Basic\nimport SpatialId.GenAttr\nnamespace SpatialId.Gen\nopen SpatialId\n\n")
	sb.WriteString(strings.Join(constLines, "\n") + "\n\n")
	for _, tg := range targets {
		fn, ok := decls[tg.pkg+"."+tg.name]
		if !ok {
			sb.WriteString(fmt.Sprintf("/-- NOT FOUND in the source -/\ndef %s_untranslatable : String := \"function %s.%s no longer exists\"\n\n", tg.name, tg.pkg, tg.name))
			continue
		}
		info, ok := t.resultKind(fn)
		if !ok {
			sb.WriteString(fmt.Sprintf("/-- NOT TRANSLATED: unsupported result type -/\ndef %s_untranslatable : String := \"unsupported result type\"\n\n", tg.name))
			continue
		}
		if skipFns[tg.name] {
			sb.WriteString(fmt.Sprintf("/-- NOT TRANSLATED: the generated definition did not compile -/\ndef %s_untranslatable : String := \"the generated definition did not compile\"\n\n", tg.name))
			continue
		}
		t.helpers(fn, tg.pkg, decls, &sb, 0)
		t.fns[tg.name] = info
		text := t.function(fn, info)
		t.fuelFns[tg.name] = t.usesFuel
		sb.WriteString(text)
	}
	for _, tg := range []target{{"integrate", "VerticalZoom"}} {
		if fn, ok := decls[tg.pkg+"."+tg.name]; ok {
			t.helpers(fn, tg.pkg, decls, &sb, 0)
			sb.WriteString(t.boundsOfLoop(fn))
		} else {
			sb.WriteString(fmt.Sprintf("def %s_bounds_untranslatable : String := \"function no longer exists\"\n\n", tg.name))
		}
	}
	// ExtendedSpatialID.Higher (the parent voxel used by merge): fields in the order of the model's Ext (h, x, y, v, f)
	found := false
	for _, p := range pkgs {
		if filepath.Base(p.name) != "object" {
			continue
		}
		for _, f := range p.files {
			for _, d := range f.Decls {
				if fn, ok := d.(*ast.FuncDecl); ok && fn.Recv != nil && fn.Name.Name == "Higher" && strings.Contains(recvName(fn), "ExtendedSpatialID") {
					sb.WriteString(t.structMethod(fn, []string{"hZoom", "x", "y", "vZoom", "z"}))
					found = true
				}
			}
		}
	}
	if !found {
		sb.WriteString("def Higher_untranslatable : String := \"method no longer exists\"\n\n")
	}
	sb.WriteString("end SpatialId.Gen\n")
	os.WriteFile(filepath.Join(out, "Int64Fns.lean"), []byte(sb.String()), 0o644)
}
