package main

// Facts.lean: what the hand-written float models rely on but the int64 translator cannot carry.
//   floatConsts   every package-level constant whose value is a floating-point literal, as the binary64 bit pattern Go assigns it
//   funcFacts     for a fixed list of functions: the sorted SET of their numeric literals ("i:<int>", "f:<bits>") (operators are NOT recorded: early return vs nested if,
//                 De Morgan, switch vs if-chain change them freely without changing behaviour) — insensitive to renaming and to reordering of statements,
//                 sensitive to a changed constant, a flipped comparison or a dropped/added test

import (
	"fmt"
	"go/ast"
	"go/token"
	"math"
	"os"
	"path/filepath"
	"sort"
	"strconv"
	"strings"
)

var factTargets = []string{
	"object.(*Point).SetLon", "object.(*Point).SetLat",
	"shape.GetExtendedSpatialIdsOnLine", "shape.middleSpatialIds",
	"shape.getHorizontalTileIdOnPoint", "shape.getVerticalTileIdOnAltitude", "shape.getVertexOnVoxelOffset",
	"transform.calcBitIndex", "transform.convertVerticallIDToBit", "transform.convertBitToVerticalID",
	"transform.convertHorizontalIDToQuadkey", "transform.convertQuadkeyToHorizontalID",
	"operated.GetShiftingSpatialID", "integrate.VerticalZoom", "object.(ExtendedSpatialID).Higher",
	"spatial.RotateBetweenVector", "spatial.QuatFromAxisAngle",
}

// constFacts: package-level numeric constants ("pkg.Name" → literal fact): a function that names a constant relies on its value
// exactly as if it had written the literal, so introducing a named constant for a magic number (or inlining one) keeps the set
var constFacts = map[string]string{}

func recvName(fn *ast.FuncDecl) string {
	if fn.Recv == nil || len(fn.Recv.List) == 0 {
		return ""
	}
	switch t := fn.Recv.List[0].Type.(type) {
	case *ast.StarExpr:
		return "(*" + exprStr(t.X) + ")."
	default:
		return "(" + exprStr(t) + ")."
	}
}

func litFact(l *ast.BasicLit) (string, bool) {
	switch l.Kind {
	case token.INT:
		v, err := strconv.ParseInt(l.Value, 0, 64)
		if err != nil {
			return "i:?" + l.Value, true
		}
		if v == 0 || v == 1 { // 0 and 1 come and go with behaviour-preserving rewrites (`> 0` ↔ Trunc, `+ 1` ↔ `<=`, `i == 0` first-element tests)
			return "", false
		}
		return fmt.Sprintf("i:%d", v), true
	case token.FLOAT:
		v, err := strconv.ParseFloat(l.Value, 64)
		if err != nil {
			return "f:?" + l.Value, true
		}
		if v == 0 || v == 1 {
			return "", false
		}
		if v == math.Trunc(v) && math.Abs(v) < 1e15 { // 10.0 and 10 are the same number to Go's constant arithmetic
			return fmt.Sprintf("i:%d", int64(v)), true
		}
		return fmt.Sprintf("f:%d", math.Float64bits(v)), true
	}
	return "", false
}

// factsOf: literal/operator facts of one function body, followed through calls of unexported functions of the same package
// that are not themselves targets (so that extracting a helper out of a listed function does not change its facts)
func factsOf(fn *ast.FuncDecl, short string, decls map[string]*ast.FuncDecl, want map[string]bool, seen map[string]bool) []string {
	var fs []string
	skip := map[*ast.BasicLit]bool{} // base / bit-size arguments of strconv calls are formatting, not arithmetic
	skipIdent := map[*ast.Ident]bool{}
	var callees []string
	// literals that size or index containers are layout, not arithmetic: array lengths, make() sizes, constant indices and
	// slice bounds (a table of 8 rows of 3, a pre-sized result, `parts[1]`) come and go with behaviour-preserving rewrites
	markAll := func(e ast.Node) {
		if e == nil {
			return
		}
		ast.Inspect(e, func(m ast.Node) bool {
			if l, ok := m.(*ast.BasicLit); ok {
				skip[l] = true
			}
			if id, ok := m.(*ast.Ident); ok {
				skipIdent[id] = true
			}
			return true
		})
	}
	ast.Inspect(fn.Body, func(n ast.Node) bool {
		switch v := n.(type) {
		case *ast.ArrayType:
			if v.Len != nil {
				markAll(v.Len)
			}
		case *ast.IndexExpr:
			markAll(v.Index)
		case *ast.SliceExpr:
			for _, b := range []ast.Expr{v.Low, v.High, v.Max} {
				if b != nil {
					markAll(b)
				}
			}
		case *ast.CallExpr:
			if id, ok := v.Fun.(*ast.Ident); ok && id.Name == "make" {
				for _, a := range v.Args[1:] {
					markAll(a)
				}
			}
		}
		return true
	})
	ast.Inspect(fn.Body, func(n ast.Node) bool {
		if c, ok := n.(*ast.CallExpr); ok {
			switch f := c.Fun.(type) {
			case *ast.SelectorExpr:
				if id, ok := f.X.(*ast.Ident); ok && id.Name == "strconv" {
					for _, a := range c.Args {
						if l, ok := a.(*ast.BasicLit); ok {
							skip[l] = true
						}
					}
				}
			case *ast.Ident:
				if !ast.IsExported(f.Name) {
					callees = append(callees, short+"."+f.Name)
				}
			}
		}
		return true
	})
	ast.Inspect(fn.Body, func(n ast.Node) bool {
		switch n := n.(type) {
		case *ast.BasicLit:
			if skip[n] {
				return true
			}
			if s, ok := litFact(n); ok {
				fs = append(fs, s)
			}
		case *ast.SelectorExpr:
			if id, ok := n.X.(*ast.Ident); ok {
				if s, ok := constFacts[id.Name+"."+n.Sel.Name]; ok {
					fs = append(fs, s)
				}
			}
			return false
		case *ast.Ident:
			if skipIdent[n] {
				return true
			}
			if n.Obj == nil || n.Obj.Kind == ast.Con {
				if s, ok := constFacts[short+"."+n.Name]; ok {
					fs = append(fs, s)
				}
			}
		}
		return true
	})
	for _, c := range callees {
		if d, ok := decls[c]; ok && !want[c] && !seen[c] && d.Body != nil {
			seen[c] = true
			fs = append(fs, factsOf(d, short, decls, want, seen)...)
		}
	}
	return fs
}

func genFacts(pkgs []*pkgInfo, out string) {
	var consts []string
	facts := map[string][]string{}
	want := map[string]bool{}
	for _, t := range factTargets {
		want[t] = true
	}
	decls := map[string]*ast.FuncDecl{}
	for _, p := range pkgs {
		short := filepath.Base(p.name)
		for _, f := range p.files {
			for _, d := range f.Decls {
				if fd, ok := d.(*ast.FuncDecl); ok {
					decls[short+"."+recvName(fd)+fd.Name.Name] = fd
				}
			}
		}
	}
	for _, p := range pkgs {
		short := filepath.Base(p.name)
		for _, f := range p.files {
			for _, d := range f.Decls {
				gd, ok := d.(*ast.GenDecl)
				if !ok || gd.Tok != token.CONST {
					continue
				}
				for _, sp := range gd.Specs {
					vs := sp.(*ast.ValueSpec)
					for i, n := range vs.Names {
						if i >= len(vs.Values) {
							continue
						}
						if l, ok := vs.Values[i].(*ast.BasicLit); ok {
							if s, ok := litFact(l); ok {
								constFacts[short+"."+n.Name] = s
							}
						}
					}
				}
			}
		}
	}
	for _, p := range pkgs {
		short := filepath.Base(p.name)
		for _, f := range p.files {
			for _, d := range f.Decls {
				switch d := d.(type) {
				case *ast.GenDecl:
					if d.Tok != token.CONST {
						continue
					}
					for _, sp := range d.Specs {
						vs := sp.(*ast.ValueSpec)
						for i, n := range vs.Names {
							if i >= len(vs.Values) {
								continue
							}
							if l, ok := vs.Values[i].(*ast.BasicLit); ok && l.Kind == token.FLOAT {
								v, err := strconv.ParseFloat(l.Value, 64)
								if err == nil {
									consts = append(consts, fmt.Sprintf("(%s, %d)", leanStr(short+"."+n.Name), math.Float64bits(v)))
								}
							}
						}
					}
				case *ast.FuncDecl:
					name := short + "." + recvName(d) + d.Name.Name
					if !want[name] || d.Body == nil {
						continue
					}
					fs := factsOf(d, short, decls, want, map[string]bool{name: true})
					sort.Strings(fs)
					// literals as a set (hoisting a repeated sub-expression must not matter), operators as a multiset
					var ded []string
					for i, f := range fs {
						if i > 0 && f == fs[i-1] && !strings.HasPrefix(f, "op:") {
							continue
						}
						ded = append(ded, f)
					}
					facts[name] = ded
				}
			}
		}
	}
	sort.Strings(consts)
	var sb strings.Builder
	sb.WriteString("/- GENERATED by /verif/extract from the Go source of the repository — do not edit. -/\nnamespace SpatialId.Gen\n\n")
	sb.WriteString("/-- package-level floating-point constants as binary64 bit patterns -/\ndef floatConsts : List (String × Nat) := [\n  " + strings.Join(consts, ",\n  ") + "]\n\n")
	var rows []string
	for _, t := range factTargets {
		fs, ok := facts[t]
		if !ok {
			rows = append(rows, fmt.Sprintf("(%s, [\"MISSING\"])", leanStr(t)))
			continue
		}
		q := make([]string, len(fs))
		for i, s := range fs {
			q[i] = leanStr(s)
		}
		rows = append(rows, fmt.Sprintf("(%s, [%s])", leanStr(t), strings.Join(q, ", ")))
	}
	sb.WriteString("/-- per function: the sorted set of numeric literals -/\ndef funcFacts : List (String × List String) := [\n  " + strings.Join(rows, ",\n  ") + "]\n\nend SpatialId.Gen\n")
	os.WriteFile(filepath.Join(out, "Facts.lean"), []byte(sb.String()), 0o644)
}
