module verifextract

go 1.22
