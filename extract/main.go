// extract: regenerates lean/SpatialId/Gen/*.lean from the Go source of /repo on every run (Tie 2, DESIGN §2.5).
//
//	Globals.lean  every package-level var and every non-read use of one (assignment, inc/dec, &v, method call on it)
//	Api.lean      every exported function / method with its signature
//	Consts.lean   every package-level integer constant
//	Int64Fns.lean literal translation of the straight-line int64 functions (translate.go)
//
// Only the standard library is used (go/parser, go/ast).
package main

import (
	"flag"
	"fmt"
	"go/ast"
	"go/parser"
	"go/printer"
	"go/token"
	"os"
	"path/filepath"
	"sort"
	"strings"
)

type pkgInfo struct {
	name  string // directory relative to the repo root, e.g. "transform"
	files []*ast.File
}

var fset = token.NewFileSet()

func loadRepo(root string) []*pkgInfo {
	var pkgs []*pkgInfo
	filepath.Walk(root, func(path string, info os.FileInfo, err error) error {
		if err != nil {
			return nil
		}
		if info.IsDir() {
			base := filepath.Base(path)
			if strings.HasPrefix(base, ".") || base == "examples" || base == "documentation" || base == "vendor" {
				return filepath.SkipDir
			}
			ents, _ := os.ReadDir(path)
			var files []*ast.File
			for _, e := range ents {
				n := e.Name()
				if e.IsDir() || !strings.HasSuffix(n, ".go") || strings.HasSuffix(n, "_test.go") || n == "verif_hooks.go" {
					continue
				}
				f, err := parser.ParseFile(fset, filepath.Join(path, n), nil, parser.SkipObjectResolution)
				if err != nil {
					fmt.Fprintln(os.Stderr, "parse error:", err)
					os.Exit(1)
				}
				files = append(files, f)
			}
			if len(files) > 0 {
				rel, _ := filepath.Rel(root, path)
				pkgs = append(pkgs, &pkgInfo{rel, files})
			}
		}
		return nil
	})
	sort.Slice(pkgs, func(i, j int) bool { return pkgs[i].name < pkgs[j].name })
	return pkgs
}

func leanStr(s string) string {
	s = strings.ReplaceAll(s, "\\", "\\\\")
	s = strings.ReplaceAll(s, "\"", "\\\"")
	s = strings.ReplaceAll(s, "\n", " ")
	return "\"" + s + "\""
}

func exprStr(e ast.Expr) string {
	var sb strings.Builder
	printer.Fprint(&sb, fset, e)
	return strings.Join(strings.Fields(sb.String()), " ")
}

// rootIdent: the identifier at the root of x, x.f, x[i], *x, (x)
func rootIdent(e ast.Expr) *ast.Ident {
	for {
		switch v := e.(type) {
		case *ast.Ident:
			return v
		case *ast.SelectorExpr:
			e = v.X
		case *ast.IndexExpr:
			e = v.X
		case *ast.StarExpr:
			e = v.X
		case *ast.ParenExpr:
			e = v.X
		default:
			return nil
		}
	}
}


// globalKind classifies a package-level variable by what can be changed about it WITHOUT a syntactic write to its name:
//   "value"  – a scalar, string, an array of those, or an error made by errors.New / fmt.Errorf: a copy is taken whenever
//              it is used, so only the non-read uses listed in globalWrites can change it;
//   "table"  – a slice or map of scalars/strings: read-only as long as it is only indexed, ranged over or measured
//              (every other use is listed in globalWrites as an "escape");
//   "ref"    – anything else (pointers, structs, interfaces, channels, funcs, sync types, nested containers, unknown).
func scalarType(e ast.Expr) bool {
	switch v := e.(type) {
	case *ast.Ident:
		switch v.Name {
		case "int", "int8", "int16", "int32", "int64", "uint", "uint8", "uint16", "uint32", "uint64", "uintptr",
			"float32", "float64", "complex64", "complex128", "string", "bool", "byte", "rune":
			return true
		}
	case *ast.ParenExpr:
		return scalarType(v.X)
	case *ast.ArrayType:
		return v.Len != nil && scalarType(v.Elt)
	}
	return false
}

func kindOfType(e ast.Expr) string {
	if scalarType(e) {
		return "value"
	}
	switch v := e.(type) {
	case *ast.ArrayType:
		if v.Len == nil && scalarType(v.Elt) {
			return "table"
		}
	case *ast.MapType:
		if scalarType(v.Key) && scalarType(v.Value) {
			return "table"
		}
	}
	return "ref"
}

func kindOfValue(e ast.Expr, consts map[string]bool) string {
	switch v := e.(type) {
	case *ast.BasicLit:
		return "value"
	case *ast.ParenExpr:
		return kindOfValue(v.X, consts)
	case *ast.UnaryExpr:
		if v.Op == token.AND || v.Op == token.ARROW {
			return "ref"
		}
		return kindOfValue(v.X, consts)
	case *ast.BinaryExpr:
		if kindOfValue(v.X, consts) == "value" && kindOfValue(v.Y, consts) == "value" {
			return "value"
		}
		return "ref"
	case *ast.Ident:
		if v.Name == "true" || v.Name == "false" || consts[v.Name] {
			return "value"
		}
		return "ref"
	case *ast.SelectorExpr:
		// a constant of another package of the library or of math (math.Pi, consts.X)
		if x, ok := v.X.(*ast.Ident); ok && (x.Name == "math" || x.Name == "consts") {
			return "value"
		}
		return "ref"
	case *ast.CompositeLit:
		if v.Type != nil {
			return kindOfType(v.Type)
		}
		return "ref"
	case *ast.CallExpr:
		switch f := v.Fun.(type) {
		case *ast.Ident:
			if scalarType(f) && len(v.Args) == 1 { // conversion int64(…), float64(…)
				return kindOfValue(v.Args[0], consts)
			}
		case *ast.SelectorExpr:
			if x, ok := f.X.(*ast.Ident); ok {
				if x.Name == "math" { // math.Pow, math.Sqrt … return float64
					return "value"
				}
				if (x.Name == "errors" && f.Sel.Name == "New") || (x.Name == "fmt" && f.Sel.Name == "Errorf") {
					return "value"
				}
				// the library's own error constructors (common/errors.New…), when every one of their return statements
				// is a plain struct literal (a value, not an address): see valueErrorCtors
				if x.Name == "errors" && valueErrorCtors[f.Sel.Name] {
					return "value"
				}
			}
		}
		return "ref"
	}
	return "ref"
}

// localNames: names declared inside a function (params, results, receivers, :=, var, range) — a global with the same name
// is shadowed there and uses of the name are not counted.
func localNames(fn *ast.FuncDecl) map[string]bool {
	m := map[string]bool{}
	add := func(fl *ast.FieldList) {
		if fl == nil {
			return
		}
		for _, f := range fl.List {
			for _, n := range f.Names {
				m[n.Name] = true
			}
		}
	}
	add(fn.Recv)
	add(fn.Type.Params)
	add(fn.Type.Results)
	if fn.Body != nil {
		ast.Inspect(fn.Body, func(n ast.Node) bool {
			switch v := n.(type) {
			case *ast.AssignStmt:
				if v.Tok == token.DEFINE {
					for _, l := range v.Lhs {
						if id, ok := l.(*ast.Ident); ok {
							m[id.Name] = true
						}
					}
				}
			case *ast.ValueSpec:
				for _, n := range v.Names {
					m[n.Name] = true
				}
			case *ast.RangeStmt:
				if v.Tok == token.DEFINE {
					for _, e := range []ast.Expr{v.Key, v.Value} {
						if id, ok := e.(*ast.Ident); ok {
							m[id.Name] = true
						}
					}
				}
			case *ast.FuncLit:
				if v.Type.Params != nil {
					for _, f := range v.Type.Params.List {
						for _, n := range f.Names {
							m[n.Name] = true
						}
					}
				}
			}
			return true
		})
	}
	return m
}

// valueErrorCtors: functions New… of the library's package `errors` all of whose return statements return a composite
// literal of a struct type (`T{…}`, not `&T{…}`): the error they return is an immutable value.
var valueErrorCtors = map[string]bool{}

func findValueErrorCtors(pkgs []*pkgInfo) {
	for _, p := range pkgs {
		if filepath.Base(p.name) != "errors" {
			continue
		}
		for _, f := range p.files {
			for _, d := range f.Decls {
				fn, ok := d.(*ast.FuncDecl)
				if !ok || fn.Body == nil || fn.Recv != nil || !strings.HasPrefix(fn.Name.Name, "New") {
					continue
				}
				good, n := true, 0
				ast.Inspect(fn.Body, func(nd ast.Node) bool {
					if r, ok := nd.(*ast.ReturnStmt); ok {
						for _, e := range r.Results {
							n++
							if _, ok := e.(*ast.CompositeLit); !ok {
								good = false
							}
						}
					}
					return true
				})
				if good && n > 0 {
					valueErrorCtors[fn.Name.Name] = true
				}
			}
		}
	}
}

func genGlobals(pkgs []*pkgInfo, out string) {
	var vars, writes []string
	findValueErrorCtors(pkgs)
	// exported package-level variables of every package of the library, for writes from another package (pkg.Var = …)
	exported := map[string]map[string]bool{}
	type gl struct{ kind string }
	perPkg := map[string]map[string]gl{}
	for _, p := range pkgs {
		consts := map[string]bool{}
		for _, f := range p.files {
			for _, d := range f.Decls {
				if gd, ok := d.(*ast.GenDecl); ok && gd.Tok == token.CONST {
					for _, sp := range gd.Specs {
						for _, n := range sp.(*ast.ValueSpec).Names {
							consts[n.Name] = true
						}
					}
				}
			}
		}
		globals := map[string]gl{}
		for _, f := range p.files {
			for _, d := range f.Decls {
				gd, ok := d.(*ast.GenDecl)
				if !ok || gd.Tok != token.VAR {
					continue
				}
				for _, sp := range gd.Specs {
					vs := sp.(*ast.ValueSpec)
					for i, n := range vs.Names {
						if n.Name == "_" {
							continue
						}
						typ, kind := "", "ref"
						if vs.Type != nil {
							typ = exprStr(vs.Type)
							kind = kindOfType(vs.Type)
						} else if len(vs.Values) == len(vs.Names) {
							typ = "= " + exprStr(vs.Values[i])
							kind = kindOfValue(vs.Values[i], consts)
						} else if len(vs.Values) > 0 {
							typ = "= " + exprStr(vs.Values[0])
						}
						globals[n.Name] = gl{kind}
						if ast.IsExported(n.Name) {
							base := filepath.Base(p.name)
							if exported[base] == nil {
								exported[base] = map[string]bool{}
							}
							exported[base][n.Name] = true
						}
						vars = append(vars, fmt.Sprintf("(%s, %s, %s, %s)", leanStr(p.name), leanStr(n.Name), leanStr(kind), leanStr(typ)))
					}
				}
			}
		}
		perPkg[p.name] = globals
	}
	for _, p := range pkgs {
		globals := perPkg[p.name]
		// a package-level initialiser that mentions a table aliases it
		for _, f := range p.files {
			for _, d := range f.Decls {
				gd, ok := d.(*ast.GenDecl)
				if !ok || gd.Tok != token.VAR {
					continue
				}
				for _, sp := range gd.Specs {
					for _, val := range sp.(*ast.ValueSpec).Values {
						ast.Inspect(val, func(n ast.Node) bool {
							if id, ok := n.(*ast.Ident); ok && globals[id.Name].kind == "table" {
								pos := fset.Position(id.Pos())
								writes = append(writes, fmt.Sprintf("(%s, %s, %s)", leanStr(p.name), leanStr(id.Name),
									leanStr(fmt.Sprintf("escape %s:%d in a package-level initialiser", filepath.Base(pos.Filename), pos.Line))))
							}
							return true
						})
					}
				}
			}
		}
		for _, f := range p.files {
			// import names of library packages in this file, for pkg.Var writes
			imports := map[string]string{}
			for _, im := range f.Imports {
				path := strings.Trim(im.Path.Value, "\"")
				base := path[strings.LastIndex(path, "/")+1:]
				name := base
				if im.Name != nil {
					name = im.Name.Name
				}
				if exported[base] != nil {
					imports[name] = base
				}
			}
			for _, d := range f.Decls {
				fn, ok := d.(*ast.FuncDecl)
				if !ok || fn.Body == nil {
					continue
				}
				locals := localNames(fn)
				isGlobal := func(e ast.Expr) (string, bool) {
					id := rootIdent(e)
					if id == nil || locals[id.Name] {
						return "", false
					}
					if _, ok := globals[id.Name]; ok {
						return id.Name, true
					}
					// pkg.Var of another package of the library
					if pkg, ok := imports[id.Name]; ok {
						x := e
						for {
							switch v := x.(type) {
							case *ast.SelectorExpr:
								if xi, ok := v.X.(*ast.Ident); ok && xi == id {
									if exported[pkg][v.Sel.Name] {
										return pkg + "." + v.Sel.Name, true
									}
									return "", false
								}
								x = v.X
								continue
							case *ast.IndexExpr:
								x = v.X
								continue
							case *ast.StarExpr:
								x = v.X
								continue
							case *ast.ParenExpr:
								x = v.X
								continue
							}
							break
						}
					}
					return "", false
				}
				site := func(n ast.Node, what string) string {
					pos := fset.Position(n.Pos())
					return fmt.Sprintf("%s %s:%d in %s", what, filepath.Base(pos.Filename), pos.Line, fn.Name.Name)
				}
				// uses of a table that keep it read-only: g[i] (read or, if written, reported below), len(g), cap(g), range g
				allowed := map[*ast.Ident]bool{}
				ast.Inspect(fn.Body, func(n ast.Node) bool {
					switch v := n.(type) {
					case *ast.IndexExpr:
						if id, ok := v.X.(*ast.Ident); ok {
							allowed[id] = true
						}
					case *ast.CallExpr:
						if f, ok := v.Fun.(*ast.Ident); ok && (f.Name == "len" || f.Name == "cap") && len(v.Args) == 1 {
							if id, ok := v.Args[0].(*ast.Ident); ok {
								allowed[id] = true
							}
						}
					case *ast.RangeStmt:
						if id, ok := v.X.(*ast.Ident); ok {
							allowed[id] = true
						}
					}
					return true
				})
				ast.Inspect(fn.Body, func(n ast.Node) bool {
					switch v := n.(type) {
					case *ast.Ident:
						if globals[v.Name].kind == "table" && !locals[v.Name] && !allowed[v] {
							writes = append(writes, fmt.Sprintf("(%s, %s, %s)", leanStr(p.name), leanStr(v.Name), leanStr(site(v, "escape"))))
						}
					case *ast.AssignStmt:
						if v.Tok != token.DEFINE {
							for _, l := range v.Lhs {
								if g, ok := isGlobal(l); ok {
									writes = append(writes, fmt.Sprintf("(%s, %s, %s)", leanStr(p.name), leanStr(g), leanStr(site(v, "assignment"))))
								}
							}
						}
					case *ast.IncDecStmt:
						if g, ok := isGlobal(v.X); ok {
							writes = append(writes, fmt.Sprintf("(%s, %s, %s)", leanStr(p.name), leanStr(g), leanStr(site(v, "inc/dec"))))
						}
					case *ast.UnaryExpr:
						if v.Op == token.AND {
							if g, ok := isGlobal(v.X); ok {
								writes = append(writes, fmt.Sprintf("(%s, %s, %s)", leanStr(p.name), leanStr(g), leanStr(site(v, "address taken"))))
							}
						}
					case *ast.CallExpr:
						if sel, ok := v.Fun.(*ast.SelectorExpr); ok {
							if id, ok := sel.X.(*ast.Ident); !ok || imports[id.Name] == "" || locals[id.Name] {
								// a `value` has no method that changes it (only `Error()` of an errors.New value exists)
								if g, ok := isGlobal(sel.X); ok && globals[g].kind != "value" {
									writes = append(writes, fmt.Sprintf("(%s, %s, %s)", leanStr(p.name), leanStr(g), leanStr(site(v, "method call "+sel.Sel.Name))))
								}
							}
						}
						if f, ok := v.Fun.(*ast.Ident); ok && (f.Name == "delete" || f.Name == "clear" || f.Name == "copy") && len(v.Args) > 0 {
							if g, ok := isGlobal(v.Args[0]); ok {
								writes = append(writes, fmt.Sprintf("(%s, %s, %s)", leanStr(p.name), leanStr(g), leanStr(site(v, f.Name))))
							}
						}
					case *ast.RangeStmt:
						if v.Tok == token.ASSIGN {
							for _, e := range []ast.Expr{v.Key, v.Value} {
								if e != nil {
									if g, ok := isGlobal(e); ok {
										writes = append(writes, fmt.Sprintf("(%s, %s, %s)", leanStr(p.name), leanStr(g), leanStr(site(v, "range assignment"))))
									}
								}
							}
						}
					}
					return true
				})
			}
		}
	}
	var sb strings.Builder
	sb.WriteString("/- GENERATED by /verif/extract from the Go source of the repository — do not edit. -/\nnamespace SpatialId.Gen\n\n")
	sb.WriteString("/-- every package-level `var` of the library: (package, name, kind, type or initialiser).  Kind `value`: a scalar,\nstring, array of those or an `errors.New` value — changed only by a non-read use of its name; `table`: a slice or map of\nscalars — read-only while it is only indexed, ranged over or measured (any other use is an `escape` in `globalWrites`);\n`ref`: anything else (pointer, struct, interface, channel, func, sync type, nested container, unknown) -/\n")
	sb.WriteString("def globals : List (String × String × String × String) := [\n  " + strings.Join(vars, ",\n  ") + "]\n\n")
	sb.WriteString("/-- every non-read use of a package-level `var` inside a function: assignment (also through a field, index or\npointer, also `pkg.Var` from another package), increment or decrement, address taken, method call on it, `delete`/`clear`/`copy`\ninto it, and every use of a `table` other than indexing, `len`, `cap`, `range` — (package, variable, site) -/\n")
	sb.WriteString("def globalWrites : List (String × String × String) := [\n  " + strings.Join(writes, ",\n  ") + "]\n\nend SpatialId.Gen\n")
	os.WriteFile(filepath.Join(out, "Globals.lean"), []byte(sb.String()), 0o644)
}

func sigStr(fn *ast.FuncDecl) string {
	var sb strings.Builder
	printer.Fprint(&sb, fset, fn.Type)
	s := strings.Join(strings.Fields(sb.String()), " ")
	return strings.TrimPrefix(s, "func")
}

func genApi(pkgs []*pkgInfo, out string) {
	var rows []string
	for _, p := range pkgs {
		for _, f := range p.files {
			for _, d := range f.Decls {
				fn, ok := d.(*ast.FuncDecl)
				if !ok || !fn.Name.IsExported() {
					continue
				}
				recv := ""
				if fn.Recv != nil && len(fn.Recv.List) > 0 {
					recv = exprStr(fn.Recv.List[0].Type)
					rid := rootIdent(fn.Recv.List[0].Type)
					if rid != nil && !ast.IsExported(rid.Name) {
						continue
					}
				}
				hasErr := false
				if fn.Type.Results != nil {
					for _, r := range fn.Type.Results.List {
						if exprStr(r.Type) == "error" {
							hasErr = true
						}
					}
				}
				rows = append(rows, fmt.Sprintf("(%s, %s, %s, %v)", leanStr(p.name), leanStr(strings.TrimSpace(recv+" "+fn.Name.Name)), leanStr(sigStr(fn)), hasErr))
			}
		}
	}
	sort.Strings(rows)
	var sb strings.Builder
	sb.WriteString("/- GENERATED by /verif/extract from the Go source of the repository — do not edit. -/\nnamespace SpatialId.Gen\n\n")
	sb.WriteString("/-- every exported function and method: (package, [receiver] name, signature, returns an error) -/\n")
	sb.WriteString("def api : List (String × String × String × Bool) := [\n  " + strings.Join(rows, ",\n  ") + "]\n\nend SpatialId.Gen\n")
	os.WriteFile(filepath.Join(out, "Api.lean"), []byte(sb.String()), 0o644)
}

func main() {
	repo := flag.String("repo", "/repo", "repository root")
	out := flag.String("out", "", "output directory for the generated Lean files")
	skip := flag.String("skip", "", "comma-separated target functions to emit as untranslatable (their generated definition did not compile)")
	flag.Parse()
	for _, n := range strings.Split(*skip, ",") {
		if n != "" {
			skipFns[n] = true
		}
	}
	if *out == "" {
		fmt.Fprintln(os.Stderr, "usage: extract -repo DIR -out DIR")
		os.Exit(2)
	}
	pkgs := loadRepo(*repo)
	genGlobals(pkgs, *out)
	genApi(pkgs, *out)
	genFns(pkgs, *out)
	genFacts(pkgs, *out)
	fmt.Printf("extract: %d packages\n", len(pkgs))
}
