// extract: regenerates lean/SpatialId/Gen/*.lean from the Go source of /repo on every run (Tie 2, DESIGN §2.5).
//
//	Globals.lean  every package-level var and every non-read use of one (assignment, inc/dec, &v, method call on it)
//	Api.lean      every exported function / method with its signature
//	Consts.lean   every package-level integer constant
//	Int64Fns.lean literal translation of the straight-line int64 functions (translate.go)
//
// Only the standard library is used (go/parser, go/ast).
package main

import (
	"flag"
	"fmt"
	"go/ast"
	"go/parser"
	"go/printer"
	"go/token"
	"os"
	"path/filepath"
	"sort"
	"strings"
)

type pkgInfo struct {
	name  string // directory relative to the repo root, e.g. "transform"
	files []*ast.File
}

var fset = token.NewFileSet()

func loadRepo(root string) []*pkgInfo {
	var pkgs []*pkgInfo
	filepath.Walk(root, func(path string, info os.FileInfo, err error) error {
		if err != nil {
			return nil
		}
		if info.IsDir() {
			base := filepath.Base(path)
			if strings.HasPrefix(base, ".") || base == "examples" || base == "documentation" || base == "vendor" {
				return filepath.SkipDir
			}
			ents, _ := os.ReadDir(path)
			var files []*ast.File
			for _, e := range ents {
				n := e.Name()
				if e.IsDir() || !strings.HasSuffix(n, ".go") || strings.HasSuffix(n, "_test.go") || n == "verif_hooks.go" {
					continue
				}
				f, err := parser.ParseFile(fset, filepath.Join(path, n), nil, parser.SkipObjectResolution)
				if err != nil {
					fmt.Fprintln(os.Stderr, "parse error:", err)
					os.Exit(1)
				}
				files = append(files, f)
			}
			if len(files) > 0 {
				rel, _ := filepath.Rel(root, path)
				pkgs = append(pkgs, &pkgInfo{rel, files})
			}
		}
		return nil
	})
	sort.Slice(pkgs, func(i, j int) bool { return pkgs[i].name < pkgs[j].name })
	return pkgs
}

func leanStr(s string) string {
	s = strings.ReplaceAll(s, "\\", "\\\\")
	s = strings.ReplaceAll(s, "\"", "\\\"")
	s = strings.ReplaceAll(s, "\n", " ")
	return "\"" + s + "\""
}

func exprStr(e ast.Expr) string {
	var sb strings.Builder
	printer.Fprint(&sb, fset, e)
	return strings.Join(strings.Fields(sb.String()), " ")
}

// rootIdent: the identifier at the root of x, x.f, x[i], *x, (x)
func rootIdent(e ast.Expr) *ast.Ident {
	for {
		switch v := e.(type) {
		case *ast.Ident:
			return v
		case *ast.SelectorExpr:
			e = v.X
		case *ast.IndexExpr:
			e = v.X
		case *ast.StarExpr:
			e = v.X
		case *ast.ParenExpr:
			e = v.X
		default:
			return nil
		}
	}
}

// localNames: names declared inside a function (params, results, receivers, :=, var, range) — a global with the same name
// is shadowed there and uses of the name are not counted.
func localNames(fn *ast.FuncDecl) map[string]bool {
	m := map[string]bool{}
	add := func(fl *ast.FieldList) {
		if fl == nil {
			return
		}
		for _, f := range fl.List {
			for _, n := range f.Names {
				m[n.Name] = true
			}
		}
	}
	add(fn.Recv)
	add(fn.Type.Params)
	add(fn.Type.Results)
	if fn.Body != nil {
		ast.Inspect(fn.Body, func(n ast.Node) bool {
			switch v := n.(type) {
			case *ast.AssignStmt:
				if v.Tok == token.DEFINE {
					for _, l := range v.Lhs {
						if id, ok := l.(*ast.Ident); ok {
							m[id.Name] = true
						}
					}
				}
			case *ast.ValueSpec:
				for _, n := range v.Names {
					m[n.Name] = true
				}
			case *ast.RangeStmt:
				if v.Tok == token.DEFINE {
					for _, e := range []ast.Expr{v.Key, v.Value} {
						if id, ok := e.(*ast.Ident); ok {
							m[id.Name] = true
						}
					}
				}
			case *ast.FuncLit:
				if v.Type.Params != nil {
					for _, f := range v.Type.Params.List {
						for _, n := range f.Names {
							m[n.Name] = true
						}
					}
				}
			}
			return true
		})
	}
	return m
}

func genGlobals(pkgs []*pkgInfo, out string) {
	var vars, writes []string
	for _, p := range pkgs {
		globals := map[string]bool{}
		for _, f := range p.files {
			for _, d := range f.Decls {
				gd, ok := d.(*ast.GenDecl)
				if !ok || gd.Tok != token.VAR {
					continue
				}
				for _, sp := range gd.Specs {
					vs := sp.(*ast.ValueSpec)
					for _, n := range vs.Names {
						if n.Name == "_" {
							continue
						}
						globals[n.Name] = true
						typ := ""
						if vs.Type != nil {
							typ = exprStr(vs.Type)
						} else if len(vs.Values) > 0 {
							typ = "= " + exprStr(vs.Values[0])
						}
						vars = append(vars, fmt.Sprintf("(%s, %s, %s)", leanStr(p.name), leanStr(n.Name), leanStr(typ)))
					}
				}
			}
		}
		if len(globals) == 0 {
			continue
		}
		for _, f := range p.files {
			for _, d := range f.Decls {
				fn, ok := d.(*ast.FuncDecl)
				if !ok || fn.Body == nil {
					continue
				}
				locals := localNames(fn)
				isGlobal := func(e ast.Expr) (string, bool) {
					id := rootIdent(e)
					if id == nil || !globals[id.Name] || locals[id.Name] {
						return "", false
					}
					return id.Name, true
				}
				site := func(n ast.Node, what string) string {
					pos := fset.Position(n.Pos())
					return fmt.Sprintf("%s %s:%d in %s", what, filepath.Base(pos.Filename), pos.Line, fn.Name.Name)
				}
				ast.Inspect(fn.Body, func(n ast.Node) bool {
					switch v := n.(type) {
					case *ast.AssignStmt:
						if v.Tok != token.DEFINE {
							for _, l := range v.Lhs {
								if g, ok := isGlobal(l); ok {
									writes = append(writes, fmt.Sprintf("(%s, %s, %s)", leanStr(p.name), leanStr(g), leanStr(site(v, "assignment"))))
								}
							}
						}
					case *ast.IncDecStmt:
						if g, ok := isGlobal(v.X); ok {
							writes = append(writes, fmt.Sprintf("(%s, %s, %s)", leanStr(p.name), leanStr(g), leanStr(site(v, "inc/dec"))))
						}
					case *ast.UnaryExpr:
						if v.Op == token.AND {
							if g, ok := isGlobal(v.X); ok {
								writes = append(writes, fmt.Sprintf("(%s, %s, %s)", leanStr(p.name), leanStr(g), leanStr(site(v, "address taken"))))
							}
						}
					case *ast.CallExpr:
						if sel, ok := v.Fun.(*ast.SelectorExpr); ok {
							if g, ok := isGlobal(sel.X); ok {
								writes = append(writes, fmt.Sprintf("(%s, %s, %s)", leanStr(p.name), leanStr(g), leanStr(site(v, "method call "+sel.Sel.Name))))
							}
						}
					case *ast.RangeStmt:
						if v.Tok == token.ASSIGN {
							for _, e := range []ast.Expr{v.Key, v.Value} {
								if e != nil {
									if g, ok := isGlobal(e); ok {
										writes = append(writes, fmt.Sprintf("(%s, %s, %s)", leanStr(p.name), leanStr(g), leanStr(site(v, "range assignment"))))
									}
								}
							}
						}
					}
					return true
				})
			}
		}
	}
	var sb strings.Builder
	sb.WriteString("/- GENERATED by /verif/extract from the Go source of the repository — do not edit. -/\nnamespace SpatialId.Gen\n\n")
	sb.WriteString("/-- every package-level `var` of the library: (package, name, type or initialiser) -/\n")
	sb.WriteString("def globals : List (String × String × String) := [\n  " + strings.Join(vars, ",\n  ") + "]\n\n")
	sb.WriteString("/-- every non-read use of a package-level `var` inside a function: assignment (also through a field, index or\npointer), increment or decrement, address taken, method call on it — (package, variable, site) -/\n")
	sb.WriteString("def globalWrites : List (String × String × String) := [\n  " + strings.Join(writes, ",\n  ") + "]\n\nend SpatialId.Gen\n")
	os.WriteFile(filepath.Join(out, "Globals.lean"), []byte(sb.String()), 0o644)
}

func sigStr(fn *ast.FuncDecl) string {
	var sb strings.Builder
	printer.Fprint(&sb, fset, fn.Type)
	s := strings.Join(strings.Fields(sb.String()), " ")
	return strings.TrimPrefix(s, "func")
}

func genApi(pkgs []*pkgInfo, out string) {
	var rows []string
	for _, p := range pkgs {
		for _, f := range p.files {
			for _, d := range f.Decls {
				fn, ok := d.(*ast.FuncDecl)
				if !ok || !fn.Name.IsExported() {
					continue
				}
				recv := ""
				if fn.Recv != nil && len(fn.Recv.List) > 0 {
					recv = exprStr(fn.Recv.List[0].Type)
					rid := rootIdent(fn.Recv.List[0].Type)
					if rid != nil && !ast.IsExported(rid.Name) {
						continue
					}
				}
				hasErr := false
				if fn.Type.Results != nil {
					for _, r := range fn.Type.Results.List {
						if exprStr(r.Type) == "error" {
							hasErr = true
						}
					}
				}
				rows = append(rows, fmt.Sprintf("(%s, %s, %s, %v)", leanStr(p.name), leanStr(strings.TrimSpace(recv+" "+fn.Name.Name)), leanStr(sigStr(fn)), hasErr))
			}
		}
	}
	sort.Strings(rows)
	var sb strings.Builder
	sb.WriteString("/- GENERATED by /verif/extract from the Go source of the repository — do not edit. -/\nnamespace SpatialId.Gen\n\n")
	sb.WriteString("/-- every exported function and method: (package, [receiver] name, signature, returns an error) -/\n")
	sb.WriteString("def api : List (String × String × String × Bool) := [\n  " + strings.Join(rows, ",\n  ") + "]\n\nend SpatialId.Gen\n")
	os.WriteFile(filepath.Join(out, "Api.lean"), []byte(sb.String()), 0o644)
}

func main() {
	repo := flag.String("repo", "/repo", "repository root")
	out := flag.String("out", "", "output directory for the generated Lean files")
	skip := flag.String("skip", "", "comma-separated target functions to emit as untranslatable (their generated definition did not compile)")
	flag.Parse()
	for _, n := range strings.Split(*skip, ",") {
		if n != "" {
			skipFns[n] = true
		}
	}
	if *out == "" {
		fmt.Fprintln(os.Stderr, "usage: extract -repo DIR -out DIR")
		os.Exit(2)
	}
	pkgs := loadRepo(*repo)
	genGlobals(pkgs, *out)
	genApi(pkgs, *out)
	genFns(pkgs, *out)
	genFacts(pkgs, *out)
	fmt.Printf("extract: %d packages\n", len(pkgs))
}
