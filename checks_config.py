"""Per-property configuration of /verif/check: Lean modules holding the property theorems, op families of the
correspondence harness with (quick, thorough) case counts, trusted base and assumptions for the evidence."""

COMMON_TB = [
    "hand-written Lean model of the Go functions named in the property's anchors; int64 modelled as unbounded Int "
    "(valid zooms 0..35 keep every intermediate below 2^62)",
    "Go strconv/strings/sort/map semantics and third-party modules are modelled or treated as oracles, not verified",
]

PROPS = {
    "C07": dict(
        modules=["SpatialId.Props.C07"],
        families=[("shift", 20000, 150000), ("shift2", 8000, 60000)],
        trusted_base=COMMON_TB,
        assumptions=["float64 math.Pow/math.Mod on integers below 2^53 are exact (|x+dx| < 2^53)"],
        claim="Theorems (Props/C07.lean): for every ID with h >= 0 and all integer offsets the model's shift is "
              "(h, (x+dx) mod 2^h, (y+dy) mod 2^h, v, f+dv); in-range, zero, composition and inverse laws follow. "
              "The model is tied to operated.GetShiftingSpatialID by exact comparison on generated cases "
              "(all zooms, grid edges, offsets up to 4 world widths, malformed IDs) and the composition law is "
              "also evaluated on the implementation itself.",
        note="Lean kernel + propext/Classical.choice/Quot.sound; hand-written model tied by sampling, not by proof; "
             "int64 overflow not modelled (|x+dx| < 2^53 as in the property).",
        technique="Lean 4 theorems over an executable model + differential correspondence with the Go code",
    ),
}

NOT_APPLICABLE = {}

# predicates of known_findings.json entries: (fields of the case line, detail from the driver, params) -> bool
KNOWN_PREDICATES = {
}
