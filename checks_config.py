"""Per-property configuration of /verif/check: Lean modules holding the property theorems, op families of the
correspondence harness with (quick, thorough) case counts, trusted base and assumptions for the evidence."""

COMMON_TB = [
    "hand-written Lean model of the Go functions named in the property's anchors; int64 modelled as unbounded Int "
    "(valid zooms 0..35 keep every intermediate below 2^62)",
    "Go strconv/strings/sort/map semantics and third-party modules are modelled or treated as oracles, not verified",
]

PROPS = {
    "C07": dict(
        modules=["SpatialId.Props.C07"],
        families=[("shift", 20000, 150000), ("shift2", 8000, 60000)],
        trusted_base=COMMON_TB,
        assumptions=["float64 math.Pow/math.Mod on integers below 2^53 are exact (|x+dx| < 2^53)"],
        claim="Theorems (Props/C07.lean): for every ID with h >= 0 and all integer offsets the model's shift is "
              "(h, (x+dx) mod 2^h, (y+dy) mod 2^h, v, f+dv); in-range, zero, composition and inverse laws follow. "
              "The model is tied to operated.GetShiftingSpatialID by exact comparison on generated cases "
              "(all zooms, grid edges, offsets up to 4 world widths, malformed IDs) and the composition law is "
              "also evaluated on the implementation itself.",
        note="Lean kernel + propext/Classical.choice/Quot.sound; hand-written model tied by sampling, not by proof; "
             "int64 overflow not modelled (|x+dx| < 2^53 as in the property).",
        technique="Lean 4 theorems over an executable model + differential correspondence with the Go code",
    ),
    "C03": dict(
        modules=["SpatialId.Props.C03"],
        families=[("chgExt", 12000, 60000), ("chgSp", 6000, 40000), ("axis", 12000, 100000), ("axisLattice", 1, 1)],
        trusted_base=COMMON_TB,
        assumptions=["int64(math.Pow(2, n)) is exact for 0 <= n <= 62"],
        claim="Theorems (Props/C03.lean over Spec/Region.lean, voxels as subsets of R^3): the zoom-change result is "
              "duplicate-free, at the requested zooms, and contains a voxel iff that voxel's region meets an input's "
              "region (change_exact); raising zooms partitions each input into 4^dh*2^dv descendants whose union is "
              "the input; lowering returns the single containing ancestor; floor semantics below ground (neg_floor). "
              "The model is tied to the Go functions by exact comparison on generated lists (mixed zooms, negative f, "
              "malformed IDs) and on the full 36x36 zoom-pair lattice of the per-axis helpers.",
        note="Lean kernel + propext/Classical.choice/Quot.sound (Mathlib reals); model tied by sampling; "
             "the genuine defect D1 (truncating division for negative f) was repaired by a fix: commit.",
        technique="Lean 4 theorems over an executable model + differential correspondence with the Go code",
    ),
    "C08": dict(
        modules=["SpatialId.Props.C08"],
        families=[("nbr", 12000, 80000), ("nN", 3000, 20000)],
        trusted_base=COMMON_TB,
        assumptions=["float64 math.Pow/math.Mod on integers below 2^53 are exact"],
        claim="Theorems (Props/C08.lean): the 6/8/26 queries equal the shifts by explicit stencils (in the Go order), the "
              "stencils are exactly the unit steps / horizontal ring / 3x3x3 shell (decide); the N-layer result is "
              "duplicate-free and contains o iff o is a shift of a listed voxel by a non-zero offset of the box; "
              "negative layers are an error; where 3 <= 2^h there are 6, 8, 26 distinct neighbours, never the voxel "
              "itself (2H+1 <= 2^h), and the relation is symmetric. Tied to the Go functions by exact comparison.",
        note="Lean kernel + propext/Classical.choice/Quot.sound; model tied by sampling; the model parses the ID once "
             "where Go re-parses printed IDs (strconv round trip trusted). D13 repaired by a fix: commit.",
        technique="Lean 4 theorems over an executable model + differential correspondence with the Go code",
    ),
    "C10": dict(
        modules=["SpatialId.Props.C10"],
        families=[("notation", 30000, 200000)],
        trusted_base=COMMON_TB + ["strings.Split/strings.Join are inverse on '/'-free fields (Go library semantics)"],
        assumptions=[],
        claim="Theorems (Props/C10.lean): both notation conversions are the stated permutations of the field list, inverse "
              "to each other on every 4-field ID (and on 5-field IDs with equal zoom fields), reject every other arity, "
              "preserve list length and order; parsing reads the five numbers in their positions; the expansion of an "
              "extended ID is duplicate-free, at zoom max(h,v) on both axes, has 4^d resp. 2^d elements and its union "
              "is exactly the original voxel (over R^3). Tied to the Go functions by exact comparison.",
        note="Lean kernel + propext/Classical.choice/Quot.sound; model tied by sampling; string split/join and "
             "integer print/parse are Go library semantics, compared on every case, not proved.",
        technique="Lean 4 theorems over an executable model + differential correspondence with the Go code",
    ),
}

NOT_APPLICABLE = {}

# predicates of known_findings.json entries: (fields of the case line, detail from the driver, params) -> bool
KNOWN_PREDICATES = {
}
