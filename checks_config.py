"""Per-property configuration of /verif/check: Lean modules holding the property theorems, op families of the
correspondence harness with (quick, thorough) case counts, trusted base and assumptions for the evidence."""

COMMON_TB = [
    "hand-written Lean model of the Go functions named in the property's anchors; int64 modelled as unbounded Int "
    "(valid zooms 0..35 keep every intermediate below 2^62)",
    "Go strconv/strings/sort/map semantics and third-party modules are modelled or treated as oracles, not verified",
]

F64_TB = [
    "software binary64 (lean/SpatialId/F64.lean: round-to-nearest-even on dyadic rationals, subnormals, no NaN/Inf/-0) is "
    "what amd64 hardware and the Go compiler do for + - * / floor ceil (no FMA fusion on amd64); validated by the f64 op family",
    "transcendental sub-expressions (math.Log/Tan/Cos/Atan/Sinh) are oracle values: the harness evaluates the same Go "
    "expression and hands the value to the model; their accuracy is compared with glibc (Lean Float) inside a band, not proved",
]

# Loop ties: proofs that the translation of a Go function WITH ITS LOOPS equals the model. They are obligations about the function
# as a loop of a given shape (which generated definitions exist, with which parameter types; variable names do not matter). While
# the function has that shape the proof is a binding obligation like every other; when the shape changes (a loop more or less,
# another loop state, the loop moved into a helper, another parameter list) the obligation no longer applies: the check prints a
# TIE-LAPSED line, records it in the evidence, and runs the property's correspondence families at four times their size instead.
SHAPE_QKENC = dict(module="SpatialId.Props.Tie.QkEnc", function="convertHorizontalIDToQuadkey",
                   shape=['_loop1 Int : Nat → Int → Int → Int → Int × Int × Int', '_loop2 Int : Nat → Int → Int → Int → Int × Int × Int',
                          ' Nat Int Int Int : Int'])
SHAPE_QKDEC = dict(module="SpatialId.Props.Tie.QkDec", function="convertQuadkeyToHorizontalID",
                   shape=['_loop1 Int : List Int → Int → Int → Int → Int × Int', ' Int Int : Int × Int'])
SHAPE_SHIFT = dict(module="SpatialId.Props.Tie.ShiftFn", function="GetShiftingSpatialID",
                   shape=['_loop1 Int : Nat → Int → Int', '_loop2 Int : Nat → Int → Int',
                          ' Nat Int Int Int Int Int Int Int Int : Int × Int × Int × Int × Int'])

PROPS = {
    "C01": dict(
        modules=["SpatialId.Props.C01", "SpatialId.Props.C01X", "SpatialId.Lemmas.F64Err", "SpatialId.Props.C02Centre", "SpatialId.Props.Facts.Point"],
        families=[("newpt", 10000, 80000), ("points", 30000, 250000), ("f64", 20000, 200000)],
        trusted_base=COMMON_TB + F64_TB,
        assumptions=["multiplication/division by 2^k is modelled as exponent adjustment (IEEE 754 exactness)"],
        claim="Theorems (Props/C01.lean) about the bit-exact binary64 model: f = floor of the exact dyadic alt*2^v/2^25 for every "
              "altitude that does not underflow, at every zoom and both signs (f_exact, f_neg: floor not truncation); "
              "0 <= x < 2^h for every accepted longitude (x_range), and the computed product 2^h((lon+180)/360) is within 2^-15 of the "
              "exact rational one at every zoom 0..35, so x is the exact floor away from tile boundaries (C01X.x_close, x_exact); y = floor(u*2^h/2) and 0 <= y < 2^h for every oracle value u "
              "in [0,2) (y_formula, y_range); the indices of the formulas name the unique voxel of R^3 containing the point "
              "(names_containing_voxel); list length/order, nil and zoom errors; kernel-evaluated tables for lon = 180, "
              "nextafter(180,0) and tile boundaries at all 36 zooms. The model equals the Go code bit for bit on generated "
              "points (domain edges, tile/cell boundaries +-2 ulp, subnormals). The exact-rational x and f and an independent "
              "libm for y are checked on every case.",
        note="partial: x is proved in range, within one tile of the exact floor, and EQUAL to it unless the exact product lies within "
             "2^-15 tile of a tile boundary (Props/C01X.lean: x_close, x_exact, x_within_one, from the rounding-error bounds of "
             "Lemmas/F64Err.lean) -- the residual is known finding D16; y depends "
             "on libm (oracle, band 2^-44 on u against glibc); f underflow is known finding D11; D10 repaired by a fix: commit.",
        technique="Lean 4 theorems over a bit-exact software-binary64 model + differential correspondence + exact-rational checker",
    ),
    "C02": dict(
        modules=["SpatialId.Props.C02", "SpatialId.Props.C02Centre", "SpatialId.Props.Facts.Point"],
        families=[("geom", 20000, 150000), ("ctrrt", 10000, 100000), ("f64", 10000, 100000)],
        trusted_base=COMMON_TB + F64_TB,
        assumptions=["row latitudes RadianToDegree(atan(sinh(pi(1-2k/2^h)))) are oracle values evaluated by the same Go expression"],
        claim="Theorems (Props/C02.lean) about the bit-exact binary64 model: altitude edges are exactly f*2^(25-v) and "
              "longitude edges exactly 360x/2^h-180 (no rounding); the top of f is identical to the bottom of f+1, the east edge "
              "of x identical to the west edge of x+1, the south latitude of row y identical to the north latitude of row y+1 "
              "for every oracle; corner order NW,NE,SE,SW bottom then top; every point of R^3 lies in exactly one voxel per "
              "zoom pair (tiling); option/format errors, result sizes, no panic. The model equals the Go code bit for bit "
              "(all 8 vertices and the centre, both ID forms, wrap/clamp of out-of-range indices). Props/C02Centre.lean: "
              "the centre of column x has longitude exactly 180(2x+1)/2^h - 180 and its column is x for every valid column at "
              "every zoom 0..35 (centre_roundtrip_x); the vertical index of the centre of cell f is f for every |f| < 2^52 at "
              "every zoom pair whenever the three latitudes involved are accepted (centre_roundtrip_f). The centre round trip "
              "is also evaluated on the implementation on every generated ID (all three axes).",
        note="partial: latitudes come from libm (oracle), so the row (y) part of the centre round trip is checked on the "
             "implementation, not proved; the column and vertical parts are theorems (C02Centre).",
        technique="Lean 4 theorems over a bit-exact software-binary64 model + differential correspondence with the Go code",
    ),

    "C06": dict(
        modules=["SpatialId.Props.C06", "SpatialId.Props.C06Mid", "SpatialId.Props.Facts.Line"],
        families=[("line", 4000, 30000), ("f64", 5000, 50000)],
        trusted_base=COMMON_TB + F64_TB + ["the row of every latitude the recursion looks up is an oracle table produced by the "
                                            "harness with the library's own (hooked) function"],
        assumptions=["theorem line_connected assumes (and the driver evaluates on every case) that the recursion's end voxels are those "
                     "of the stored end points and that every threshold stop leaves touching voxels (thrTight)"],
        claim="Theorems (Props/C06.lean) about the bit-exact binary64 model of the midpoint recursion, for every voxel function: the "
              "voxels emitted for a sub-segment together with its end voxels contain a chain of touching (26-adjacent or equal) "
              "voxels from the start voxel to the end voxel (middle_connected, by induction over the four branches); the exported "
              "result is duplicate-free, contains both end voxels, is a single ID when both ends share a voxel (line_spec) and "
              "is connected under the stated side conditions (line_connected); zoom errors; every emitted voxel is the voxel "
              "of a dyadic point of the segment, and in exact arithmetic such points lie on the segment (middle_dyadic, "
              "mid_on_segment). The model equals the Go code exactly (set comparison) on generated segments: axis-parallel, "
              "diagonal, through corners, across f = 0, near the latitude limit, zooms 28-35 weighted. An independent checker "
              "on the implementation's output verifies end voxels, duplicates, 26-connectivity and that every voxel is touched "
              "by the segment (slab test with stated tolerances).",
        note="partial: 'touched by the straight segment' is proved only for exact arithmetic / checked numerically for binary64; "
             "row indices depend on libm (oracle). Known finding D12 (non-idempotent SetLat -> rare disconnected chain).",
        technique="Lean 4 theorems over a bit-exact software-binary64 model + differential correspondence + independent geometric checker",
    ),
    "C07": dict(
        modules=["SpatialId.Props.C07", "SpatialId.Props.Tie.Shift", "SpatialId.Props.Tie.ShiftFn"],
        shape_ties=[SHAPE_SHIFT],
        families=[("shift", 20000, 150000), ("shift2", 8000, 60000)],
        trusted_base=COMMON_TB,
        assumptions=["float64 math.Pow/math.Mod on integers below 2^53 are exact (|x+dx| < 2^53)"],
        claim="Theorems (Props/C07.lean): for every ID with h >= 0 and all integer offsets the model's shift is "
              "(h, (x+dx) mod 2^h, (y+dy) mod 2^h, v, f+dv); in-range, zero, composition and inverse laws follow. "
              "The model is tied to operated.GetShiftingSpatialID by exact comparison on generated cases "
              "(all zooms, grid edges, offsets up to 4 world widths, malformed IDs) and the composition law is "
              "also evaluated on the implementation itself. Props/Tie/ShiftFn.lean: the Go function, translated from the "
              "source on every run (its two wrap loops as recursions over fuel, the float idioms read as exact integer "
              "operations), equals the model's shiftE on the parsed components for every fuel that lets the loops finish.",
        note="Lean kernel + propext/Classical.choice/Quot.sound; model tied by the regenerated translation (proof) and by sampling; "
             "int64 overflow not modelled and math.Pow/math.Mod read as exact (|x+dx| < 2^53 as in the property).",
        technique="Lean 4 theorems over an executable model + differential correspondence with the Go code",
    ),
    "C03": dict(
        modules=["SpatialId.Props.C03", "SpatialId.Props.Tie.Shift", "SpatialId.Props.Tie.HZoom", "SpatialId.Props.Facts.Zoom", "SpatialId.Props.Tie.VZoom"],
        families=[("chgbig", 4, 40), ("chgExt", 12000, 60000), ("chgSp", 6000, 40000), ("axis", 12000, 100000), ("axisLattice", 1, 1)],
        trusted_base=COMMON_TB,
        assumptions=["int64(math.Pow(2, n)) is exact for 0 <= n <= 62"],
        claim="Theorems (Props/C03.lean over Spec/Region.lean, voxels as subsets of R^3): the zoom-change result is "
              "duplicate-free, at the requested zooms, and contains a voxel iff that voxel's region meets an input's "
              "region (change_exact); raising zooms partitions each input into 4^dh*2^dv descendants whose union is "
              "the input; lowering returns the single containing ancestor; floor semantics below ground (neg_floor). "
              "The model is tied to the Go functions by exact comparison on generated lists (mixed zooms, negative f, "
              "malformed IDs) and on the full 36x36 zoom-pair lattice of the per-axis helpers.",
        note="Lean kernel + propext/Classical.choice/Quot.sound (Mathlib reals); model tied by sampling; "
             "the genuine defect D1 (truncating division for negative f) was repaired by a fix: commit.",
        technique="Lean 4 theorems over an executable model + differential correspondence with the Go code",
    ),
    "C04": dict(
        modules=["SpatialId.Props.C04", "SpatialId.Props.C04Reflect", "SpatialId.Props.Facts.Zoom", "SpatialId.Props.Tie.Higher"],
        families=[("mrgExt", 4000, 20000), ("mrgSp", 3000, 15000)],
        trusted_base=COMMON_TB + ["Go map-based grouping read as a declarative group-by (same groups, same member order)"],
        assumptions=["int64(math.Pow(2, n)) is exact for 0 <= n <= 62"],
        claim="Theorems (Props/C04.lean over Spec/Region.lean): mem_merge characterises the result completely (ineligible "
              "inputs verbatim; the target voxel of every group whose members cover it; members of every other group "
              "verbatim), with 'dense' proved equivalent to 'the members' regions cover the target voxel' by a pigeonhole "
              "argument on the unit voxels; hence merge_region (same region of R^3), merge_nodup, merge_dense, "
              "merge_unchanged and merge_idem; merge_reflect (Props/C04Reflect.lean): merging commutes with the reflection "
              "f -> -1-f of the vertical axis, i.e. the rule is the same above and below ground level. No bound on sizes or zoom spread. Tied to MergeExtendedSpatialIds / "
              "MergeSpatialIds by exact set comparison on generated groups (complete, one-short, partial, mixed zooms, "
              "straddling ground level, duplicates, ineligible inputs, malformed IDs).",
        note="Lean kernel + propext/Classical.choice/Quot.sound; model tied by sampling; defect D2 (Higher truncated "
             "negative f) repaired by a fix: commit.",
        technique="Lean 4 theorems over an executable model + differential correspondence with the Go code",
    ),
    "C05": dict(
        modules=["SpatialId.Props.C05", "SpatialId.Props.C10Parse", "SpatialId.Props.Tie.Shift", "SpatialId.Props.Tie.Offset", "SpatialId.Props.Tie.VZoom"],
        families=[("ovE", 10000, 60000), ("ovEA", 5000, 30000), ("ovS", 10000, 60000), ("ovSA", 5000, 30000)],
        trusted_base=COMMON_TB + [
            "multidimensional-radix-tree (third party) is an oracle: IsOverlap(q) holds iff a stored key is a prefix of q or "
            "q a prefix of it; it panics only on an empty tree (guarded since the D3 fix)"],
        assumptions=["Go compares printed IDs where the model compares voxels: printing is injective on int64 components (theorem C10Parse.id_injective)"],
        claim="Theorems (Props/C05.lean): for well-formed IDs the extended check answers true exactly when the two regions of "
              "R^3 share a point (ext_iff_meet), equivalently ancestor-or-equal on both axes; symmetric; reflexive; array form "
              "= disjunction of the pairwise form, false on an empty list; the spatial-ID check, relative to the abstract "
              "tree, answers the same relation for every valid ID with |alt| <= 2^24 m at zooms 1..35, including zoom > 25 "
              "(sp_iff_meet, sp_eq_ext); neither model panics. Tied to the four Go functions by exact comparison on related "
              "pairs (ancestor/descendant/sibling/neighbour, negative f, zooms 26-35, empty lists, malformed IDs), both "
              "argument orders.",
        note="Lean kernel + propext/Classical.choice/Quot.sound; model tied by sampling; radix tree abstracted. Genuine defects "
             "D1, D3, D4, D7, D14 were repaired by fix: commits.",
        technique="Lean 4 theorems over an executable model + differential correspondence with the Go code",
    ),
    "C08": dict(
        modules=["SpatialId.Props.C08", "SpatialId.Props.C08Count", "SpatialId.Props.C10Parse", "SpatialId.Props.Tie.Shift", "SpatialId.Props.Tie.ShiftFn"],
        shape_ties=[SHAPE_SHIFT],
        families=[("nbr", 12000, 80000), ("nN", 3000, 20000)],
        trusted_base=COMMON_TB,
        assumptions=["float64 math.Pow/math.Mod on integers below 2^53 are exact"],
        claim="Theorems (Props/C08.lean): the 6/8/26 queries equal the shifts by explicit stencils (in the Go order), the "
              "stencils are exactly the unit steps / horizontal ring / 3x3x3 shell (decide); the N-layer result is "
              "duplicate-free and contains o iff o is a shift of a listed voxel by a non-zero offset of the box; "
              "negative layers are an error; where 3 <= 2^h there are 6, 8, 26 distinct neighbours, never the voxel "
              "itself (2H+1 <= 2^h), and the relation is symmetric. Tied to the Go functions by exact comparison.",
        note="Lean kernel + propext/Classical.choice/Quot.sound; model tied by sampling; the model parses the ID once "
             "where Go re-parses printed IDs: print-then-parse is the identity on int64 components (C10Parse.id_roundtrip_int64). "
             "D13 repaired by a fix: commit.",
        technique="Lean 4 theorems over an executable model + differential correspondence with the Go code",
    ),
    "C09": dict(
        modules=["SpatialId.Props.C09", "SpatialId.Props.Facts.Point", "SpatialId.Props.Facts.Zoom", "SpatialId.Props.Tie.VZoom", "SpatialId.Props.Tie.Higher"],
        families=[("nest", 20000, 150000), ("zio", 3000, 20000), ("mrgkids", 3000, 20000), ("ovkids", 3000, 20000)],
        trusted_base=COMMON_TB + F64_TB,
        assumptions=["the binary64 quotient (lon+180)/360 has at most 53 significant bits (true of every hardware double)"],
        claim="Theorems (Props/C09.lean): on the bit-exact binary64 point model the f, y and x index (clamp included) at a coarser "
              "zoom equal the floor zoom-out of the index at any finer zoom (pt_nested_f/y/x), which is what VerticalZoom "
              "returns; nested voxels are reported as overlapping; zooming an ID in and back out returns exactly that ID; "
              "merging the complete set of descendants returns exactly that ID (zoomIn_out_id, merge_children, from C03/C04). "
              "The same composites are evaluated on the real code (nest, zio, mrgkids, ovkids) and compared exactly.",
        note="corollaries of C01/C03/C04/C05; y relative to the libm oracle; defects D1, D2 repaired by fix: commits.",
        technique="Lean 4 theorems (corollaries over the executable models) + composite differential checks on the Go code",
    ),
    "C10": dict(
        modules=["SpatialId.Props.C10", "SpatialId.Props.C10Parse", "SpatialId.Props.Facts.Zoom", "SpatialId.Props.Tie.VZoom"],
        families=[("notation", 30000, 200000)],
        trusted_base=COMMON_TB + ["the model's split (String.split on the character '/'), join, decimal print and parse are the Go "
                                  "strings.Split/Join and strconv.FormatInt/ParseInt (compared on every case of every family)"],
        assumptions=[],
        claim="Theorems (Props/C10.lean): both notation conversions are the stated permutations of the field list, inverse "
              "to each other on every 4-field ID (and on 5-field IDs with equal zoom fields), reject every other arity, "
              "preserve list length and order; parsing reads the five numbers in their positions; the expansion of an "
              "extended ID is duplicate-free, at zoom max(h,v) on both axes, has 4^d resp. 2^d elements and its union "
              "is exactly the original voxel (over R^3). Props/C10Parse.lean: the textual form is lossless -- print-then-parse is the "
              "identity on every ID with int64 components (id_roundtrip, via parseInt64_fmtInt and splitSlash_joinSlash), "
              "printing is injective, and the two notation conversions applied to a printed ID give the printed ID of the "
              "same voxel in the other notation (sp2ext1_print, ext2sp1_print, sp_ext_sp). Tied to the Go functions by exact comparison.",
        note="Lean kernel + propext/Classical.choice/Quot.sound; model tied by sampling; the model's string functions "
             "(split, join, decimal print/parse) are proved inverse to each other and compared with Go's on every case.",
        technique="Lean 4 theorems over an executable model + differential correspondence with the Go code",
    ),
    "C11": dict(
        modules=["SpatialId.Props.C11", "SpatialId.Props.C11List", "SpatialId.Props.Tie.Shift", "SpatialId.Props.Tie.QkEnc", "SpatialId.Props.Tie.QkDec"],
        shape_ties=[SHAPE_QKENC, SHAPE_QKDEC],
        families=[("quadkey", 30000, 200000), ("quadkeyExh", 1, 1), ("qv", 4000, 20000), ("qvrt", 2000, 10000)],
        trusted_base=COMMON_TB + ["strconv.FormatInt(n, 4) = base-4 digits, most significant first, no leading zeros"],
        assumptions=["quadkey zoom 1..31 (keys below 2^62)"],
        claim="Theorems (Props/C11.lean): the encoder's two bit loops compute sum (bit_i x + 2 bit_i y) 4^i (qkEnc_eq), so base-4 "
              "digit i interleaves bit i of y and x (enc_bits) and 0 <= key < 4^zoom (enc_lt); the decoder's digit walk over "
              "FormatInt(key,4) is the arithmetic inverse also when leading zero digits are dropped (qkDec_eq); "
              "dec(enc(x,y)) = (x,y) and enc(dec(k)) = k on the whole domain (one-to-one); zoom errors and no panics for the "
              "exported conversions. The round trip through the exported conversions (same zooms: identity; different zooms: "
              "the C03 zoom change per axis), cross-group de-duplication and echo of the request parameters are tied by "
              "exact comparison on the implementation (qv, qvrt), exhaustively for zooms 1..5 (quadkeyExh). Props/C11List.lean: "
              "the list-level round trip equals the C03 zoom change (roundtrip_eq_changeZoom, roundtrip_same_zoom) and no pair is "
              "reported twice (groupPairs_spec). Props/Tie/QkEnc.lean, Props/Tie/QkDec.lean: the encoder and the decoder, translated "
              "from the Go source on every run with their loops, equal the model's qkEnc (for every fuel >= zoom) and qkDec.",
        note="Lean kernel + propext/Classical.choice/Quot.sound; encoder/decoder tied by the regenerated translation (proof) "
             "and by sampling, the exported list functions by sampling.",
        technique="Lean 4 theorems over an executable model + differential correspondence with the Go code",
    ),
    "C12": dict(
        modules=["SpatialId.Props.C12", "SpatialId.Props.Tie.Shift", "SpatialId.Props.Tie.Z2K", "SpatialId.Props.Tie.K2Z"],
        families=[("altkey", 40000, 300000), ("altkeyLattice", 1, 1)],
        trusted_base=COMMON_TB,
        assumptions=["zooms and base exponent within 0..35 (all cell boundaries are then multiples of 2^-35 m)"],
        claim="Theorems (Props/C12.lean over Spec/Altitude.lean, altitude intervals in 2^-35 m fixed point): both conversions "
              "are given in closed form (z2k_eq, k2z_eq: result, and error exactly when ...); the Z->key range contains "
              "every key whose cell meets the voxel's altitude interval and nothing beyond the metre-widened interval; "
              "key->Z returns exactly the cover of the metre-widened key cell; both are exact for cells >= 1 m; min <= max; "
              "error for a non-existent source index and whenever the exact cover leaves the target range, never when the "
              "widened cover fits; the two directions are mutually consistent in the exact regime. Tied to the Go "
              "functions by exact comparison on random tuples and an exhaustive 9x9x8x11x15 lattice, both directions.",
        note="Lean kernel + propext/Classical.choice/Quot.sound; model tied by sampling (+ translator tie when enabled); "
             "defect D5 (lost top cell, rejected top index) repaired by a fix: commit.",
        technique="Lean 4 theorems over an executable model + differential correspondence with the Go code",
    ),
    "C13": dict(
        modules=["SpatialId.Props.C13", "SpatialId.Props.Tie.Shift", "SpatialId.Props.Tie.K2Z"],
        families=[("tiles", 3000, 15000)],
        trusted_base=COMMON_TB,
        assumptions=["zooms and base exponent within 0..35"],
        claim="Theorems (Props/C13.lean): a voxel is in the result iff it is some tile's footprint (hZoom, x, y unchanged) at "
              "the requested vertical zoom with a vertical index in that tile's C12 range (mem_tilesToExt); duplicate-free; "
              "any failing tile fails the whole call; every vertical cell meeting a tile's key cell is present (tile_covers); "
              "the spatial-ID variant is the C10 expansion and covers the same region; NewTileXYZ accepts exactly zooms "
              "0..35. Tied to the Go functions by exact set comparison on generated tile lists (overlapping ranges, "
              "bad tiles anywhere in the list).",
        note="Lean kernel + propext/Classical.choice/Quot.sound; model tied by sampling; defect D8 repaired by a fix: commit.",
        technique="Lean 4 theorems over an executable model + differential correspondence with the Go code",
    ),
    "C14": dict(
        modules=["SpatialId.Props.C14", "SpatialId.Props.C06", "SpatialId.Props.Facts.Line"],
        families=[("corridor", 400, 3000), ("corridordet", 150, 1000), ("corridorD9", 1, 1), ("fit", 300, 2500)],
        trusted_base=COMMON_TB + ["closest_go (convex-hull distance), geodesy_go and the clearance fit built on them are oracles: the "
                                  "harness evaluates them with the same library calls for every line voxel and candidate voxel"],
        assumptions=["hZoom >= 8 in the generator (the layer fit does not terminate on grids with few columns); radii up to 1.4 voxel widths"],
        claim="Theorems (Props/C14.lean) for every value of the three oracles: the result contains every ID of the line, is "
              "duplicate-free and at the line's zooms; with zero layers (radius 0) it is exactly the line; every additional ID is "
              "a non-zero shift of a line voxel within the fitted layer counts; the measured result is a subset of the unmeasured "
              "one and every added voxel passed the distance test; line errors and a negative radius are errors; and a witness "
              "that two line voxels with different fitted layers give different results (corr_order_dependent_witness). "
              "The implementation's result must equal the model's result for the layer counts of SOME line voxel (the harness "
              "supplies line, fit and distance tables from the same library calls). Six identical calls are compared "
              "(corridordet).",
        note="partial: geometry (distances, clearance fit) is validated through oracles, not proved. Known finding D9: the result is "
             "not deterministic when line voxels disagree on the fitted layer counts.",
        technique="Lean 4 theorems over an oracle-parametric model + differential correspondence with oracle tables",
    ),
    "C15": dict(
        modules=["SpatialId.Props.C15", "SpatialId.Props.Tie.Shift", "SpatialId.Props.Tie.Api", "SpatialId.Props.C01", "SpatialId.Props.C02", "SpatialId.Props.C03", "SpatialId.Props.C04",
                 "SpatialId.Props.C05", "SpatialId.Props.C08", "SpatialId.Props.C10", "SpatialId.Props.C11", "SpatialId.Props.C13", "SpatialId.Props.Facts.Point"],
        families=[("objset", 4000, 40000), ("reject", 40000, 300000), ("newpt", 15000, 100000), ("points", 5000, 40000), ("tiles", 1000, 5000),
                  ("qv", 1500, 8000), ("fit", 300, 2500)],
        trusted_base=COMMON_TB + F64_TB + ["Go strconv.ParseInt/Atoi and strings.Split semantics are modelled by parseInt64/splitSlash "
                                            "and compared on every malformed case, not proved"],
        assumptions=["zoom fields inside otherwise well-formed IDs stay within 0..35 (the property's own restriction)"],
        claim="Theorems (Props/C15.lean and the rejection theorems of C01-C13): wrong arity or a non-int64 field makes an ID "
              "malformed; every list operation fails as a whole on a malformed element, an out-of-range zoom, a nil point, an "
              "unknown option or negative layer counts; the shift helpers return empty IDs; accepted points satisfy |lon| <= 180 "
              "and |stored lat| <= 85.0511287798 and keep lon/alt unchanged; no model function can produce a panic "
              "(never_panic, overlapExt_no_panic). The op family reject drives 19 API operations with about 50% malformed "
              "strings; the driver checks on the implementation's own answer that a malformed ID never yields a non-error "
              "result and that the latitude is cut toward zero by less than 1e-10 degrees.",
        note="'no string panics' is a theorem about the model; for the Go code it is as strong as the malformed generator "
             "(recover maps panics to PANIC, which no model produces). Defects D3, D6, D7, D8, D13, D14 repaired by fix: commits; "
             "D17 (SetLat rounding) is a known finding. Line/corridor error paths are "
             "covered under C06/C14.",
        technique="Lean 4 theorems over executable models + malformed-input differential stream + checker on implementation answers",
    ),
    "C16": dict(
        modules=["SpatialId.Props.C16"],
        families=[("chgbig", 3, 30), ("det_chgExt", 1500, 8000), ("det_chgSp", 800, 5000), ("det_mrgExt", 800, 5000), ("det_mrgSp", 500, 3000),
                  ("det_nN", 600, 4000), ("det_ovEA", 1500, 8000), ("det_ovSA", 1500, 8000), ("det_tiles", 500, 3000),
                  ("det_qv", 800, 4000), ("points", 3000, 30000), ("det_sets", 3000, 20000), ("corridordet", 60, 400)],
        trusted_base=COMMON_TB + ["Go map iteration order only permutes de-duplicated results (the models fix one order; "
                                  "comparison is on sorted results)"],
        assumptions=["valid argument lists"],
        claim="Theorems (Props/C16.lean): membership in the result of zoom change, merge, N-layer neighbourhood, array overlap, "
              "tile conversion, Unique and Union depends only on the set of inputs (SameSet ... -> SameSet ...), hence is "
              "invariant under permutation and repetition of the input list, and the de-duplicated results are Nodup; the "
              "models are pure functions. On the implementation the det_* families call each operation 5 times (map order "
              "changes between calls), on 3 shuffled/duplicated variants, scan for duplicates and compare the caller's "
              "argument slices before and after every call.",
        note="order-independence is proved for the models as sets; slice aliasing and run-to-run determinism of the Go code "
             "are observed, not proved. The corridor (C14) is covered there.",
        technique="Lean 4 theorems over executable models + metamorphic differential checks on the Go code",
    ),
    "C17": dict(
        modules=["SpatialId.Props.C17", "SpatialId.Props.C17Q", "SpatialId.Props.Tie.Shift", "SpatialId.Props.Facts.BitAlt"],
        families=[("bitalt", 30000, 200000), ("f64", 10000, 100000)],
        trusted_base=COMMON_TB + F64_TB,
        assumptions=["|vIndex| + 1 < 2^53 and vertical zoom within 0..35 (the index to altitude conversion is then exact)"],
        claim="Theorems (Props/C17.lean) about the bit-exact binary64 model: calcBitIndex always returns a value in 0..2^zoom-1 "
              "(clamping, for any arithmetic) and is monotone in the altitude (the binary64 comparison is proved to be the "
              "order of the rational values); the IDs produced for a voxel are exactly the contiguous run from the cell "
              "of its bottom altitude to the cell of its top altitude, inside the range (v2b_spec); the reverse direction is "
              "a contiguous run between the cell's bottom and top altitude (b2v_spec); max < min is an error in both "
              "exported conversions; equal heights select the index form. Over exact rationals the same loop returns "
              "clamp(floor((alt-lo)*2^z/(hi-lo)), 0, 2^z-1) for hi > lo (calcQ_spec). Props/C17Q.lean: the binary64 loop "
              "returns that same exact index whenever the altitude keeps a margin zoom*eta(B) from every border the bisection "
              "visits, eta(B) the accumulated rounding bound for heights of magnitude <= B (calcBit_float_spec, from the "
              "midpoint error bound of C06Mid). The model equals the Go code bit "
              "for bit (hooks calcBitIndex, convertVerticallIDToBit, convertBitToVerticalID and both exported functions).",
        note="the exact-arithmetic specification (calcQ_spec) is proved for the rational instance of the loop and for the "
             "binary64 instance away from cell borders (calcBit_float_spec, margin zoom*eta(B)); within that margin of a "
             "border the binary64 result may be the neighbouring cell.",
        technique="Lean 4 theorems over a bit-exact software-binary64 model + differential correspondence with the Go code",
    ),
    "C18": dict(
        modules=["SpatialId.Props.C18"],
        families=[("proj", 8000, 60000), ("projrt", 8000, 80000)],
        trusted_base=COMMON_TB + F64_TB + ["github.com/wroge/wgs84 (third party) is an oracle: the harness obtains its answers "
                                            "from the same call the library makes"],
        assumptions=["numeric claims are checked for EPSG:3857 and |alt| <= 1e4 m (larger altitudes: known finding D15)"],
        claim="Theorems (Props/C18.lean): for every oracle the i-th output is the oracle's image of the i-th input, list length and "
              "order are preserved, the altitude is carried over unchanged, and a rejected transform (unknown EPSG code) is a "
              "conversion error for the whole call (proj_shape, unproj_shape, proj_err, unproj_err); over the reals the spherical "
              "Mercator latitude map and its inverse compose to the identity on (-pi/2, pi/2) (merc_inv_fwd). The model "
              "equals the Go code bit for bit given the oracle's answers (12 EPSG codes incl. unknown ones, empty lists). On "
              "the implementation's answers: EPSG:3857 forward within 1e-5 m of R*lambda, R*ln tan(pi/4+phi/2) computed "
              "with an independent libm; forward-then-back within 2e-10 degrees (lon modulo 360).",
        note="partial: the accuracy of wgs84 and libm is validated numerically, not proved. Known finding D15 (altitude leaks into "
             "the horizontal transform for |alt| > 1e4 m).",
        technique="Lean 4 theorems over an oracle-parametric model + differential correspondence + numeric checker on implementation answers",
    ),
    "C19": dict(
        modules=["SpatialId.Props.C19"],
        families=[("chgExt,mrgExt,nN,ovEA,ovSA,tiles,qv,points,geom,shift,notation,altkey,sets,chgSp,mrgSp,nbr,line,bitalt,quadkey,vec,vecnum,proj,ovE,ovS,reject,combLattice", 120, 1000, "conc")],
        gen=True,
        trusted_base=["/verif/extract (go/ast): table of package-level vars and of their syntactic non-read uses, regenerated from "
                      "/repo on every run", "Go memory model; pinned third-party modules are not analysed",
                      "Go race detector (happens-before) on the schedules that actually occur"],
        assumptions=["argument slices and objects shared between goroutines are only read by the callers"],
        claim="Theorems (Props/C19.lean): for any machine whose operations leave the global store unchanged, every schedule returns "
              "for each call what the call returns alone (readonly_interleaving); every package-level variable in the regenerated table is a "
              "value (scalar, string, array of those, errors.New value) or a table (slice/map of scalars that is only indexed, "
              "ranged over or measured), none a pointer, struct, interface, channel or sync type, and the regenerated table of "
              "non-read uses of package-level variables (assignment also through index/field/pointer or from another package, "
              "inc/dec, address taken, method call, delete/clear/copy, any other use of a table) is empty "
              "(globals_immutable, repo_readonly: decide on generated data, so a cache, pool, scratch buffer or a new write "
              "site breaks the proof; a new read-only constant does not). "
              "Search: every generated case of 25 op families (all operations except the corridor, which is not deterministic: D9) is executed again on 16 goroutines, each in its own order, on "
              "shared argument slices, under the Go race detector, and compared with its sequential result.",
        note="proof over a syntactic fact model of /repo (regenerated, not sampled); the race detector explores schedules, it does "
             "not prove their absence; dependencies are out of scope.",
        technique="Lean 4 theorem over a regenerated global-state table + race-detector differential run",
    ),
    "C20": dict(
        modules=["SpatialId.Props.C20", "SpatialId.Props.C20Vec", "SpatialId.Props.C20Err", "SpatialId.Lemmas.F64Congr", "SpatialId.Props.Facts.Quat"],
        families=[("objset", 3000, 30000), ("sets", 30000, 200000), ("ashift", 20000, 200000), ("combLattice", 1, 1), ("vec", 30000, 300000),
                  ("vecnum", 20000, 200000)],
        trusted_base=COMMON_TB + F64_TB,
        assumptions=["|index * 2^shift| < 2^62 (no int64 overflow), |shift| < 63"],
        claim="Theorems (Props/C20.lean): union/intersection/difference/unique/include are the set operations on the elements "
              "(membership iff, Nodup where documented, order of the filtered slice kept); Max/Min return an element bounding "
              "all others and reject the empty slice; CalculateArithmeticShift i s = floor(i * 2^s) over Q for either sign of "
              "both arguments; Combinations visits exactly the k-sublists of 0..n-1 once each in lexicographic order for the "
              "whole table 0 <= k <= n <= 12 (decide +kernel; chooseK proved sound and complete for sublists in general). "
              "Props/C20Vec.lean, about the scalar-generic model of common/spatial: over every commutative ring a line's parameter "
              "0/1 gives its start/end point (also Start/End), the matrix product is associative, agrees with matrix-vector "
              "application and has the unit matrix as neutral element, dot/cross satisfy commutativity, perpendicularity, "
              "Lagrange and the triple-product identity; over R the quaternion RotateBetweenVector builds from two non-zero, "
              "non-opposite vectors is a unit quaternion whose rotation q v q* carries the first direction onto the second "
              "(rotateBetween_real), and in the opposite branch the half-turn about the normalised s x k is a unit quaternion "
              "carrying s onto -s, an axis always being found (rotateOpposite_real, fallback_axis). The binary64 instance of "
              "the same definitions equals the Go code bit for bit (Add, Sub, Scale, Dot, Cross, L1Norm, Translate, "
              "NewVectorFromPoints, ToPoint, Start, End, Mul, MulVec); the identities are checked on the implementation's "
              "own answers up to stated rounding bounds (vlineid, vmat), and Norm/Unit/Cos/DistancePoint/RotateBetweenVector "
              "numerically (vnum, vquat: |q|^2 = 1 and q s q* = e within 1e-12 + 4e-15/(1+cos)). MaxPoint and MinPoint return a listed point whose binary64 projection bounds all others and reject exactly the empty list (maxPoint_spec, minPoint_spec); UniqueAppend, IsClose/AlmostEqual are tied by exact comparison (vminpt, vuniq, visclose).",
        note="Lean kernel + propext/Classical.choice/Quot.sound; model tied by exact comparison. The ring/real identities are "
             "theorems; in binary64 they hold only up to rounding, which is validated numerically, not proved. Vectors whose "
             "cosine is within 1e-10 of -1 are treated by the library as opposite: the result then carries s onto -s, up to "
             "1.5e-5 away from e (reported as in-band). sqrt/hypot (Norm, Unit, Cos, quaternion) are libm: no bit-exact model.",
        technique="Lean 4 theorems over an executable model + differential correspondence with the Go code",
    ),
}

NOT_APPLICABLE = {}

# predicates of known_findings.json entries: (fields of the case line, detail from the driver, params) -> bool
KNOWN_PREDICATES = {
    # the driver's property checker tags the failure; the finding matches only its own tag
    "detail_prefix": lambda fields, detail, params: detail.startswith(params["prefix"]),
    # D15: tagged either by the driver's checker (proj) or by the harness's round trip (projrt), only for |alt| > 1e4 m
    "impl_prefix": lambda fields, detail, params: fields[-1].startswith(params["prefix"]),
    "d15": lambda fields, detail, params: detail.startswith("D15ALT") or fields[-1].startswith("D15ALT"),
}
