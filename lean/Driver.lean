/-
Line-protocol driver: one case per line, TAB-separated `op, arg₁ … argₙ, implementation-result`.
For every line prints `A` when the model's canonical result equals the implementation's, else
`D<TAB>model-result`.  Unknown op: `U`.
-/
import SpatialId
open SpatialId

def sortStrs (l : List String) : List String := (l.toArray.qsort (fun a b => a < b)).toList
/-- lists are comma-joined; the empty list is written `[]` so that it differs from the list `[""]` -/
def commaJoin (l : List String) : String := if l.isEmpty then "[]" else ",".intercalate l
def commaSplit (s : String) : List String := if s == "[]" then [] else s.splitOn ","
def int! (s : String) : Int := s.toInt!

def showOut (o : Outcome String) : String :=
  match o with
  | .ok s => s
  | .err => "ERR"
  | .panic => "PANIC"
def showSet (o : Outcome (List String)) : String := showOut (o.map fun l => commaJoin (sortStrs l))
def showSeq (o : Outcome (List String)) : String := showOut (o.map commaJoin)
def showInts (l : List Int) : String := commaJoin (l.map toString)

def showBool (o : Outcome Bool) : String := showOut (o.map fun b => if b then "true" else "false")

def showPair (o : Outcome (Int × Int)) : String := showOut (o.map fun p => s!"{p.1},{p.2}")
def showOptInt (o : Option Int) : String := match o with | some v => toString v | none => "ERR"

def parseTile (s : String) : Option Tile :=
  match (s.splitOn "/").map String.toInt? with
  | [some h, some x, some y, some v, some z] => newTile h x y v z
  | _ => none

def sortPairs (l : List (Int × Int)) : List (Int × Int) :=
  (l.toArray.qsort (fun a b => a.1 < b.1 || (a.1 == b.1 && a.2 < b.2))).toList
def showGroups (hdr : String) (o : Outcome (List (List (Int × Int)))) : String :=
  showOut (o.map fun gs =>
    if gs.isEmpty then "[]" else
    ";".intercalate (gs.map fun g => hdr ++ "|" ++ " ".intercalate ((sortPairs g).map fun p => s!"{p.1}:{p.2}")))
def parseQV (s : String) : Option QV :=
  match (s.splitOn ":").map String.toInt? with
  | [some a, some b, some c, some d] => some ⟨a, b, c, d⟩
  | _ => none

def intsOf (s : String) : List Int := (commaSplit s).map int!
def sortInts (l : List Int) : List Int := (l.toArray.qsort (fun a b => a < b)).toList

def dispatch (op : String) (a : List String) : Option String :=
  match op, a with
  | "shift", [id, dx, dy, dv] => some (shift id (int! dx) (int! dy) (int! dv))
  | "shift2", [id, ax, ay, av, bx, by', bv] =>
    -- law checked on the implementation: two shifts = the model's single shift by the sum
    some (match parseExt id with
      | some _ => shift id (int! ax + int! bx) (int! ay + int! by') (int! av + int! bv)
      | none => "")
  | "parse", [id] =>
    some (match parseExt id with
      | some e => showInts [e.h, e.x, e.y, e.v, e.f] ++ ";" ++ e.id
      | none => "ERR")
  | "mrgExt", [ids, h, v] => some (showSet (mergeExt (commaSplit ids) (int! h) (int! v)))
  | "mrgSp", [ids, z] => some (showSet (mergeSp (commaSplit ids) (int! z)))
  | "z2k", [f, zi, zo, e, o] => some (showPair (z2k (int! f) (int! zi) (int! zo) (int! e) (int! o)))
  | "k2z", [k, zk, zo, e, o] => some (showPair (k2z (int! k) (int! zk) (int! zo) (int! e) (int! o)))
  | "z2kmin", [f, zi, zo, e, o] => some (showOptInt (zToMinKey (int! f) (int! zi) (int! zo) (int! e) (int! o)))
  | "z2kmax", [f, zi, zo, e, o] => some (showOptInt (zToMaxKey (int! f) (int! zi) (int! zo) (int! e) (int! o)))
  | "validx", [i, z, neg] => some (if validateIndex (int! i) (int! z) (neg == "true") then "true" else "false")
  | "tile2ext", [ts, e, o, v] =>
    some (match (commaSplit ts).mapM parseTile with
      | none => "ERR"
      | some tl => showSet ((tilesToExt tl (int! e) (int! o) (int! v)).map fun l => l.map Ext.id))
  | "tile2sp", [ts, e, o, v] =>
    some (match (commaSplit ts).mapM parseTile with
      | none => "ERR"
      | some tl => showSet ((tilesToSp tl (int! e) (int! o) (int! v)).map fun l => l.map Ext.spId))
  | "qenc", [z, x, y] => some (toString (qkEnc (int! z) (int! x) (int! y)))
  | "qdec", [k, z] => let p := qkDec (int! k) (int! z); some s!"{p.1},{p.2}"
  | "qv2ext", [l, h, v] =>
    some (match (commaSplit l).mapM parseQV with
      | none => "BADARG"
      | some qs => showSet ((qvToExt qs (int! h) (int! v)).map fun r => r.map Ext.id))
  | "e2qv", [ids, h, v] => some (showGroups s!"{h}/{v}/0/0" (extToQV (commaSplit ids) (int! h) (int! v)))
  | "e2qa", [ids, q, a, e, o] =>
    some (showGroups s!"{q}/{a}/{e}/{o}" (extToQA (commaSplit ids) (int! q) (int! a) (int! e) (int! o)))
  | "qvrt", [ids, h, v, bh, bv] =>
    some (showSet (match changeExt (commaSplit ids) (int! h) (int! v) with
      | .ok mid => if qkCheckZoom (int! h) (int! v) then changeExt mid (int! bh) (int! bv) else .err
      | o => o))
  | "uni", [a, b] => some (showInts (sortInts (unionL (intsOf a) (intsOf b))))
  | "inter", [a, b] => some (showInts (intersectL (intsOf a) (intsOf b)))
  | "diff", [a, b] => some (showInts (differenceL (intsOf a) (intsOf b)))
  | "uniq", [a] => some (showInts (sortInts (uniqueL (intsOf a))))
  | "incl", [a, t] => some (if includeL (intsOf a) (int! t) then "true" else "false")
  | "max", [a] => some (showOptInt (maxL (intsOf a)))
  | "min", [a] => some (showOptInt (minL (intsOf a)))
  | "ashift", [i, sh] => some (toString (arithShift (int! i) (int! sh)))
  | "comb", [n, k] =>
    some (";".intercalate ((combinations (int! n) (int! k) 10000).map fun p => " ".intercalate (p.map toString)))
  | "ovE", [a, b] => some (showBool (overlapExt a b))
  | "ovEA", [a, b] => some (showBool (overlapExtArr (commaSplit a) (commaSplit b)))
  | "ovS", [a, b] => some (showBool (overlapSp a b))
  | "ovSA", [a, b] => some (showBool (overlapSpArr (commaSplit a) (commaSplit b)))
  | "n6", [id] => some (commaJoin (n6 id))
  | "n8", [id] => some (commaJoin (n8 id))
  | "n26", [id] => some (commaJoin (n26 id))
  | "nN", [ids, h, v] => some (showSet (nN (commaSplit ids) (int! h) (int! v)))
  | "chgExt", [ids, h, v] => some (showSet (changeExt (commaSplit ids) (int! h) (int! v)))
  | "chgSp", [ids, z] => some (showSet (changeSp (commaSplit ids) (int! z)))
  | "hz", [zi, x, y, zo] => some (commaJoin (hZoom (int! zi) (int! x) (int! y) (int! zo)))
  | "vz", [zi, f, zo] => some (commaJoin (vZoom (int! zi) (int! f) (int! zo)))
  | "hzmm", [zi, x, y, zo] =>
    let (a, b, c, d) := hZoomMinMax (int! zi) (int! x) (int! y) (int! zo)
    some (showInts [a, b, c, d])
  | "sp2ext", [ids] => some (showSeq (sp2ext (commaSplit ids)))
  | "ext2sp", [ids] => some (showSeq (ext2sp (commaSplit ids)))
  | "expand", [id] =>
    some (match parseExt id with
      | some e => commaJoin ((expandExt e).map Ext.spId)
      | none => "BADARG")
  | "voxid", [id] => some (showOut ((voxelId id).map showInts))
  | _, _ => none

partial def loop (h : IO.FS.Stream) (out : IO.FS.Stream) : IO Unit := do
  let line ← h.getLine
  if line.isEmpty then return ()
  let line := (line.dropEndWhile (fun c => c == '\n')).toString
  match line.splitOn "\t" with
  | [] => out.putStrLn "U"
  | op :: rest =>
    if rest.isEmpty then out.putStrLn "U" else
    let args := rest.dropLast
    let impl := rest.getLast!
    match dispatch op args with
    | none => out.putStrLn "U"
    | some m => if m == impl then out.putStrLn "A" else out.putStrLn ("D\t" ++ m)
  loop h out

def main : IO Unit := do
  let stdin ← IO.getStdin
  let stdout ← IO.getStdout
  loop stdin stdout
