/-
Line-protocol driver: one case per line, TAB-separated `op, arg₁ … argₙ, implementation-result`.
For every line prints `A` when the model's canonical result equals the implementation's, else
`D<TAB>model-result`.  Unknown op: `U`.
-/
import SpatialId
import SpatialId.F64
open SpatialId

def sortStrs (l : List String) : List String := (l.toArray.qsort (fun a b => a < b)).toList
/-- lists are comma-joined; the empty list is written `[]` so that it differs from the list `[""]` -/
def commaJoin (l : List String) : String := if l.isEmpty then "[]" else ",".intercalate l
def commaSplit (s : String) : List String := if s == "[]" then [] else s.splitOn ","
def int! (s : String) : Int := s.toInt!

def showOut (o : Outcome String) : String :=
  match o with
  | .ok s => s
  | .err => "ERR"
  | .panic => "PANIC"
def showSet (o : Outcome (List String)) : String := showOut (o.map fun l => commaJoin (sortStrs l))
def showSeq (o : Outcome (List String)) : String := showOut (o.map commaJoin)
def showInts (l : List Int) : String := commaJoin (l.map toString)

def showBool (o : Outcome Bool) : String := showOut (o.map fun b => if b then "true" else "false")

def showPair (o : Outcome (Int × Int)) : String := showOut (o.map fun p => s!"{p.1},{p.2}")
def showOptInt (o : Option Int) : String := match o with | some v => toString v | none => "ERR"

def parseTile (s : String) : Option Tile :=
  match (s.splitOn "/").map String.toInt? with
  | [some h, some x, some y, some v, some z] => newTile h x y v z
  | _ => none

def sortPairs (l : List (Int × Int)) : List (Int × Int) :=
  (l.toArray.qsort (fun a b => a.1 < b.1 || (a.1 == b.1 && a.2 < b.2))).toList
def showGroups (hdr : String) (o : Outcome (List (List (Int × Int)))) : String :=
  showOut (o.map fun gs =>
    if gs.isEmpty then "[]" else
    ";".intercalate (gs.map fun g => hdr ++ "|" ++ " ".intercalate ((sortPairs g).map fun p => s!"{p.1}:{p.2}")))
def parseQV (s : String) : Option QV :=
  match (s.splitOn ":").map String.toInt? with
  | [some a, some b, some c, some d] => some ⟨a, b, c, d⟩
  | _ => none

def intsOf (s : String) : List Int := (commaSplit s).map int!
def sortInts (l : List Int) : List Int := (l.toArray.qsort (fun a b => a < b)).toList

/-- floats travel as the decimal value of their bit pattern -/
def fb (s : String) : Option F64.Dy := s.toNat?.bind F64.ofBits
def showF (x : F64.Dy) : String := toString (F64.toBits x)
def f2 (a b : String) (f : F64.Dy → F64.Dy → F64.Dy) : String :=
  match fb a, fb b with
  | some x, some y => showF (f x y)
  | _, _ => "NONFINITE"

/-! ### points (binary64) -/
structure PtArg where
  isNil : Bool
  lon : F64.Dy
  lat : F64.Dy
  alt : F64.Dy
  u : F64.Dy
  latBits : Nat

def parsePtArg (s : String) : Option PtArg :=
  match s.splitOn ":" with
  | ["nil", _, _, _] => some ⟨true, F64.zero, F64.zero, F64.zero, F64.zero, 0⟩
  | [a, b, c, d] =>
    match fb a, fb b, fb c, fb d with
    | some lon, some lat, some alt, some u => some ⟨false, lon, lat, alt, u, b.toNat!⟩
    | _, _, _, _ => none
  | _ => none

def showGeo (p : GeoPt) : String := showF p.lon ++ ":" ++ showF p.lat ++ ":" ++ showF p.alt

/-- model of the `pts`/`ptssp` ops: construct the points (harness: any NewPoint error ⇒ ERR), then the library call -/
def ptsModel (items : List String) (h v : Int) (sp : Bool) : String :=
  match items.mapM parsePtArg with
  | none => "BADARG"
  | some args =>
    match args.mapM (fun a => if a.isNil then some none else (newPoint a.lon a.lat a.alt).map fun p => some (p, a.u)) with
    | none => "ERR"
    | some pts =>
      showOut ((pointsToExt pts h v).map fun l => commaJoin (l.map fun e => if sp then e.spId else e.id))

/-- geometry ops: extended or spatial ID string, option, oracle row latitudes -/
def geomModel (id : String) (opt : Int) (north south : F64.Dy) (sp : Bool) : String :=
  showOut (((if sp then pointOnSp else pointOnExt) id opt north south).map fun l => commaJoin (l.map showGeo))

/-- independent evaluation of the Mercator fraction with the C library (Lean `Float`): used only to compare the
implementation's libm with a second libm inside a stated band, never inside a definition a theorem mentions -/
def mercUFloat (latBits : Nat) : Float :=
  let lat := Float.ofBits (UInt64.ofNat latBits)
  let r := lat * (3.141592653589793 / 180.0)
  1.0 - Float.log (Float.tan r + 1.0 / Float.cos r) / 3.141592653589793

/-- `none` = the independent libm gives the same row; `some true` = differs but within the band 2^-44 on u;
`some false` = differs outside the band -/
def yBand (latBits : Nat) (h y : Int) : Option Bool :=
  let t := Float.scaleB (mercUFloat latBits) (h - 1)
  if (Float.floor t).toInt64.toInt == y then none
  else
    let d := Float.abs (t - Float.round t)
    some (d <= Float.scaleB 1.0 (h - 1 - 44))

/-! ### lines -/
def parseRowTable (s : String) : RowTable :=
  if s.isEmpty then [] else
  (s.splitOn ";").filterMap fun it =>
    match it.splitOn ":" with
    | [b, y] => some (b.toNat!, int! y)
    | _ => none

/-- model of the line ops: nil / NewPoint errors are decided by the harness wrapper exactly as here -/
def lineModel (a : List String) (h v : Int) (tbl : String) (sp : Bool) : String :=
  match a with
  | [sl, sa, sz, el, ea, ez] =>
    let mk (lon lat alt : String) : Option (Option GeoPt) :=
      if lon == "nil" then some none else
      match fb lon, fb lat, fb alt with
      | some x, some y, some z => (newPoint x y z).map some
      | _, _, _ => none
    match mk sl sa sz, mk el ea ez with
    | some (some s), some (some e) =>
      showSet ((lineExt (parseRowTable tbl) s e h v 300).map fun l => l.map fun x => if sp then x.spId else x.id)
    | some _, some _ => "ERR"        -- a nil point: the library returns an error
    | _, _ => "ERR"                  -- NewPoint rejected a coordinate (harness-level)
  | _ => "BADARG"

/-! ### independent checker of a line result (C06) on the implementation's own output, in Lean `Float` with tolerances -/
def dyToFloat (x : F64.Dy) : Float := Float.ofBits (UInt64.ofNat (F64.toBits x))

/-- parameter interval of `a + t(b-a) ∈ [lo - w, hi + w]`, clamped to [0,1] and widened by 1e-9 in `t`; `none` if empty.
`tol` is the slack for a constant coordinate; `w` widens the interval itself (0 for the strict test) -/
def slab (a b lo hi tol w : Float) : Option (Float × Float) :=
  if a == b then (if lo - tol <= a && a <= hi + tol then some (0.0, 1.0) else none)
  else
    let t0 := (lo - w - a) / (b - a)
    let t1 := (hi + w - a) / (b - a)
    let (t0, t1) := if t0 <= t1 then (t0, t1) else (t1, t0)
    let t0 := (if t0 < 0.0 then 0.0 else t0) - 1e-9
    let t1 := (if t1 > 1.0 then 1.0 else t1) + 1e-9
    if t0 <= t1 then some (t0, t1) else none

def rowFloat (lat : Float) (h : Int) : Int :=
  let r := lat * (3.141592653589793 / 180.0)
  let u := 1.0 - Float.log (Float.tan r + 1.0 / Float.cos r) / 3.141592653589793
  (Float.floor (Float.scaleB u (h - 1))).toInt64.toInt

/-- does the straight segment s→e (linear in lon, lat, alt) pass through (or touch) voxel `o`?
(`shift` = 0 or 360: longitude 180 is the same meridian as -180, so a voxel also occupies its copy shifted by 360 degrees) -/
def segTouchesAt (s e : GeoPt) (o : Ext) (shift : Float) (loose : Bool) : Bool :=
  let sl := dyToFloat s.lon; let el := dyToFloat e.lon
  let sa := dyToFloat s.alt; let ea := dyToFloat e.alt
  let sy := dyToFloat s.lat; let ey := dyToFloat e.lat
  let n := Float.scaleB 1.0 o.h
  let west := Float.ofInt o.x * 360.0 / n - 180.0 + shift
  let east := Float.ofInt (o.x + 1) * 360.0 / n - 180.0 + shift
  let res := Float.scaleB 1.0 (25 - o.v)
  let bot := Float.ofInt o.f * res
  let top := Float.ofInt (o.f + 1) * res
  -- loose: every recursion point is a binary64 midpoint of binary64 points (≤ 64 levels, half an ulp each) and its column is
  -- computed from the rounded sum lon+180 (ulp(360) = 5.7e-14): 1e-6 of a voxel plus 64 ulps of the largest magnitude involved
  let absf (x : Float) : Float := if x < 0.0 then 0.0 - x else x
  let maxf (x y : Float) : Float := if x < y then y else x
  let wLon := if loose then 360.0 / n * 1e-6 + 360.0 * 1.5e-14 else 0.0
  let wAlt := if loose then res * 1e-6 + (maxf (maxf (absf sa) (absf ea)) (absf top)) * 1.5e-14 else 0.0
  match slab sl el west east (360.0 / n * 1e-6 + 1e-12) wLon, slab sa ea bot top (res * 1e-6 + 1e-12) wAlt with
  | some (a0, a1), some (b0, b1) =>
    let t0 := if a0 > b0 then a0 else b0
    let t1 := if a1 < b1 then a1 else b1
    if t0 > t1 then false else
    let la := sy + t0 * (ey - sy)
    let lb := sy + t1 * (ey - sy)
    let (lo, hi) := if la <= lb then (la, lb) else (lb, la)
    -- rows decrease with latitude; 3e-10 degrees of slack for the latitude truncation of every recursion point
    let yTop := rowFloat (hi + 3e-10) o.h
    let yBot := rowFloat (lo - 3e-10) o.h
    decide (yTop - 1 ≤ o.y ∧ o.y ≤ yBot + 1)
  | _, _ => false

def segTouches (s e : GeoPt) (o : Ext) (loose : Bool := false) : Bool :=
  segTouchesAt s e o 0.0 loose || segTouchesAt s e o 360.0 loose

def adj26 (a b : Ext) : Bool :=
  let n : Int := 2 ^ a.h.toNat
  let dx := (a.x - b.x) % n
  let dxOk := dx == 0 || dx == 1 || dx == n - 1
  a.h == b.h && a.v == b.v && dxOk && decide ((a.y - b.y).natAbs ≤ 1) && decide ((a.f - b.f).natAbs ≤ 1)

/-- is `b` reachable from `a` inside `set` by 26-adjacent steps? -/
partial def reachable (set : List Ext) (front seen : List Ext) (goal : Ext) : Bool :=
  if front.isEmpty then false
  else if front.contains goal then true
  else
    let next := set.filter fun x => !seen.contains x && front.any fun y => adj26 x y
    reachable set next (seen ++ next) goal

def lineCheck (a : List String) (h v : Int) (tbl impl : String) : Option (Bool × String) :=
  match a with
  | [sl, sa, sz, el, ea, ez] =>
    match fb sl, fb sa, fb sz, fb el, fb ea, fb ez with
    | some x1, some y1, some z1, some x2, some y2, some z2 =>
      (match newPoint x1 y1 z1, newPoint x2 y2 z2 with
       | some s, some e =>
         if impl == "ERR" || impl == "PANIC" then none else
         let ids := commaSplit impl
         let exts := ids.filterMap fun i => (if (splitSlash i).length == 4 then (sp2ext1 i).bind parseExt else parseExt i)
         let t := parseRowTable tbl
         let va := voxStored t h v s
         let vb := voxStored t h v e
         if exts.length != ids.length then some (false, "LINE malformed ID in the result")
         else if (dedup exts).length != exts.length then some (false, "LINE duplicate in the result")
         else if !(exts.contains va && exts.contains vb) then some (false, "LINE end-point voxel missing")
         else if va == vb && exts.length != 1 then some (false, "LINE both ends in one voxel but several IDs returned")
         else if !(reachable exts [va] [va] vb) then
           -- known finding D12: NewPoint truncates an already truncated latitude again
           let reS := (setLat s.lat).map fun t => F64.toBits t != F64.toBits s.lat
           let reE := (setLat e.lat).map fun t => F64.toBits t != F64.toBits e.lat
           if reS == some true || reE == some true then some (false, "D12DISC disconnected line; an end-point latitude changes when truncated again")
           else some (false, "LINE not a connected chain from the start voxel to the end voxel")
         else
           match exts.find? (fun o => !segTouches s e o) with
           | some o =>
             -- known finding D19: a voxel next to the segment, reached only through binary64 rounding of a midpoint
             if segTouches s e o true then
               some (false, s!"LNROUND voxel {o.id} is not touched by the exact segment, only within binary64 rounding of it")
             else some (false, s!"LINE voxel {o.id} is not touched by the segment")
           | none =>
             -- the side condition of theorem C06.line_connected, evaluated on this run of the model
             let lonM := if h ≥ 31 then hiLonMinima else lonMinima
             let latM := if h ≥ 31 then hiLatMinima else latMinima
             let altM := if v ≥ 34 then hiAltMinima else altMinima
             if va != vb && !(thrTight (voxP3 t h v) (belowThr lonM latM altM) 300 ⟨s.lon, s.lat, s.alt⟩ ⟨e.lon, e.lat, e.alt⟩)
             then some (false, "THRLOOSE a threshold stop left non-touching voxels") else none
       | _, _ => none)
    | _, _, _, _, _, _ => none
  | _ => none

/-! ### projection (C18): items "a:b:alt:o1:o2" with the oracle's answer o1:o2 ("E:E" = the oracle reported an error) -/
def parseProjItem (s : String) : Option ((F64.Dy × F64.Dy × F64.Dy) × Option (F64.Dy × F64.Dy)) :=
  match s.splitOn ":" with
  | [a, b, c, o1, o2] =>
    match fb a, fb b, fb c with
    | some x, some y, some z =>
      if o1 == "E" then some ((x, y, z), none)
      else (match fb o1, fb o2 with | some p, some q => some ((x, y, z), some (p, q)) | _, _ => none)
    | _, _, _ => none
  | _ => none

def projModel (items : List String) (fwd : Bool) : String :=
  match items.mapM parseProjItem with
  | none => "BADARG"
  | some its =>
    -- the oracle as a function: look the point up among the items (same point ⇒ same answer)
    if fwd then
      let pts : List GeoPt := its.map fun i => ⟨i.1.1, i.1.2.1, i.1.2.2⟩
      let orc (p : GeoPt) : Option (F64.Dy × F64.Dy) :=
        (its.find? fun i => F64.toBits i.1.1 == F64.toBits p.lon && F64.toBits i.1.2.1 == F64.toBits p.lat &&
          F64.toBits i.1.2.2 == F64.toBits p.alt).bind (·.2)
      showOut ((projList orc pts).map fun l => commaJoin (l.map fun q => showF q.x ++ ":" ++ showF q.y ++ ":" ++ showF q.alt))
    else
      let pts : List PPt := its.map fun i => ⟨i.1.1, i.1.2.1, i.1.2.2⟩
      let orc (p : PPt) : Option (F64.Dy × F64.Dy) :=
        (its.find? fun i => F64.toBits i.1.1 == F64.toBits p.x && F64.toBits i.1.2.1 == F64.toBits p.y &&
          F64.toBits i.1.2.2 == F64.toBits p.alt).bind (·.2)
      showOut ((unprojList orc pts).map fun l => commaJoin (l.map showGeo))

/-- EPSG:3857 closed form in Lean `Float` (independent libm): x = R·λ, y = R·ln(tan(π/4 + φ/2)) on R = 6378137 -/
def merc3857 (lonBits latBits : Nat) : Float × Float :=
  let lon := Float.ofBits (UInt64.ofNat lonBits)
  let lat := Float.ofBits (UInt64.ofNat latBits)
  let d := 3.141592653589793 / 180.0
  (6378137.0 * lon * d, 6378137.0 * Float.log (Float.tan (3.141592653589793 / 4.0 + lat * d / 2.0)))

/-- numeric claims of C18 on the implementation's answer, EPSG:3857 only: forward within 1e-5 m of the closed form;
`D15ALT` tags points whose altitude exceeds 1e4 m in magnitude (the altitude leaks into the horizontal transform) -/
def projCheck (items : List String) (crs : String) (impl : String) : Option (Bool × String) :=
  if crs != "3857" || impl == "ERR" then none else
  let res := commaSplit impl
  (items.zip res).foldl (fun acc (it, r) =>
    match acc with
    | some (false, _) => acc
    | _ =>
      match it.splitOn ":", r.splitOn ":" with
      | [a, b, c, _, _], [x, y, z] =>
        match a.toNat?, b.toNat?, c.toNat?, x.toNat?, y.toNat?, z.toNat? with
        | some lo, some la, some al, some xb, some yb, some zb =>
          let (ex, ey) := merc3857 lo la
          let gx := Float.ofBits (UInt64.ofNat xb)
          let gy := Float.ofBits (UInt64.ofNat yb)
          let alt := Float.abs (Float.ofBits (UInt64.ofNat al))
          if zb != al then some (false, "PROJ altitude not carried over bit for bit")
          else if Float.abs (gx - ex) > 1e-5 || Float.abs (gy - ey) > 1e-5 then
            some (false, if alt > 10000.0 then "D15ALT forward result off the spherical Mercator closed form (|alt| > 1e4 m)"
                         else s!"PROJ forward result off the closed form by {Float.abs (gx - ex)} / {Float.abs (gy - ey)} m")
          else acc
        | _, _, _, _, _, _ => acc
      | _, _ => acc) none

/-! ### corridor (C14): oracles arrive as tables -/
def parseIdTable (s : String) : List (String × String) :=
  if s.isEmpty then [] else (s.splitOn ";").filterMap fun it => match it.splitOn "=" with | [k, v] => some (k, v) | _ => none

/-- all candidate results, one per distinct layer pair reported for a line voxel -/
def corridorModels (lineS fitS closeS : String) (skips : Bool) : List String :=
  let line := (commaSplit lineS).filterMap parseExt
  let fits := (parseIdTable fitS).filterMap fun (_, v) => match v.splitOn ":" with | [a, b] => some (int! a, int! b) | _ => none
  let closeTbl := parseIdTable closeS
  let close (o : Ext) : Bool := (closeTbl.lookup o.id) == some "1"
  (dedup fits).map fun (hv : Int × Int) => commaJoin (sortStrs ((corridorE line hv.1 hv.2 close skips).map Ext.id))

/-! ### vector / line / matrix / quaternion helpers (C20): binary64 instance of `Model/Vec.lean`, and numeric identity checks
on the implementation's own answers -/
section vec
open SpatialId.Vec SpatialId.Vec.Dy

def parseV3 (s : String) : Option (V3 F64.Dy) :=
  match s.splitOn ":" with
  | [a, b, c] => (fb a).bind fun x => (fb b).bind fun y => (fb c).map fun z => ⟨x, y, z⟩
  | _ => none
def showV3 (v : V3 F64.Dy) : String := showF v.x ++ ":" ++ showF v.y ++ ":" ++ showF v.z
def parseM3 (s : String) : Option (M3 F64.Dy) :=
  match (s.splitOn ":").mapM fb with
  | some [a, b, c, d, e, f, g, h, i] => some ⟨a, b, c, d, e, f, g, h, i⟩
  | _ => none
def showM3 (m : M3 F64.Dy) : String :=
  ":".intercalate ([m.m00, m.m01, m.m02, m.m10, m.m11, m.m12, m.m20, m.m21, m.m22].map showF)

def vecModel (op : String) (a : List String) : Option String :=
  match op, a with
  | "vadd", [x, y] => some (match parseV3 x, parseV3 y with | some u, some v => showV3 (u.add v) | _, _ => "BADARG")
  | "vsub", [x, y] => some (match parseV3 x, parseV3 y with | some u, some v => showV3 (u.sub v) | _, _ => "BADARG")
  | "vfrom", [x, y] => some (match parseV3 x, parseV3 y with | some u, some v => showV3 (vecFromPoints u v) | _, _ => "BADARG")
  | "vtrans", [x, y] => some (match parseV3 x, parseV3 y with | some u, some v => showV3 (translate u v) | _, _ => "BADARG")
  | "vcross", [x, y] => some (match parseV3 x, parseV3 y with | some u, some v => showV3 (u.cross v) | _, _ => "BADARG")
  | "vdot", [x, y] => some (match parseV3 x, parseV3 y with | some u, some v => showF (u.dot v) | _, _ => "BADARG")
  | "vscale", [x, f] => some (match parseV3 x, fb f with | some u, some k => showV3 (u.scale k) | _, _ => "BADARG")
  | "vl1", [x] => some (match parseV3 x with | some u => showF (l1NormDy u) | _ => "BADARG")
  | "vline", [x, y, t] =>
    some (match parseV3 x, parseV3 y, fb t with
      | some u, some v, some k => showV3 ((lineFromPoints u v).toPoint k)
      | _, _, _ => "BADARG")
  | "vlineid", [x, y] =>
    some (match parseV3 x, parseV3 y with
      | some u, some v =>
        let l := lineFromPoints u v
        "|".intercalate [showV3 (l.toPoint ⟨0, 0⟩), showV3 (l.toPoint ⟨1, 0⟩), showV3 l.end_, showV3 l.start]
      | _, _ => "BADARG")
  | "vmaxpt", [ps, v] =>
    some (match (ps.splitOn "|").mapM parseV3, parseV3 v with
      | some l, some w => (match maxPoint (if ps == "[]" then [] else l) w with | some p => showV3 p | none => "ERR")
      | _, _ => if ps == "[]" then "ERR" else "BADARG")
  | "vminpt", [ps, v] =>
    some (match (ps.splitOn "|").mapM parseV3, parseV3 v with
      | some l, some w => (match minPoint (if ps == "[]" then [] else l) w with | some p => showV3 p | none => "ERR")
      | _, _ => if ps == "[]" then "ERR" else "BADARG")
  | "vuniq", [ps, a, e] =>
    some (match (if ps == "[]" then some [] else (ps.splitOn "|").mapM parseV3), parseV3 a, fb e with
      | some l, some q, some eps => "|".intercalate ((uniqueAppend l q eps).map showV3)
      | _, _, _ => "BADARG")
  | "visclose", [x, y, e] =>
    some (match parseV3 x, parseV3 y, fb e with
      | some p, some q, some eps => toString (isClose p q eps)
      | _, _, _ => "BADARG")
  | "vmmul", [x, y] => some (match parseM3 x, parseM3 y with | some u, some v => showM3 (u.mul v) | _, _ => "BADARG")
  | "vmulvec", [x, y] => some (match parseM3 x, parseV3 y with | some u, some v => showV3 (u.mulVec v) | _, _ => "BADARG")
  | "vmat", [x, y, z, w] =>
    some (match parseM3 x, parseM3 y, parseM3 z, parseV3 w with
      | some a, some b, some c, some v =>
        "|".intercalate [showM3 ((a.mul b).mul c), showM3 (a.mul (b.mul c)), showV3 ((a.mul b).mulVec v),
          showV3 (a.mulVec (b.mulVec v)), showM3 (M3.mul ⟨⟨1, 0⟩, ⟨0, 0⟩, ⟨0, 0⟩, ⟨0, 0⟩, ⟨1, 0⟩, ⟨0, 0⟩, ⟨0, 0⟩, ⟨0, 0⟩, ⟨1, 0⟩⟩ a)]
      | _, _, _, _ => "BADARG")
  | _, _ => none

def fabs (x : Float) : Float := if x < 0.0 then 0.0 - x else x
def v3f (v : V3 F64.Dy) : V3 Float := ⟨dyToFloat v.x, dyToFloat v.y, dyToFloat v.z⟩
def m3f (m : M3 F64.Dy) : List Float := [m.m00, m.m01, m.m02, m.m10, m.m11, m.m12, m.m20, m.m21, m.m22].map dyToFloat
def v3list (v : V3 Float) : List Float := [v.x, v.y, v.z]
def closeL (a b : List Float) (tol : Float) : Bool :=
  a.length == b.length && (a.zip b).all fun (x, y) => fabs (x - y) <= tol
def sumAbs (l : List Float) : Float := l.foldl (fun s x => s + fabs x) 0.0

/-- numeric identity checks on the implementation's answer `impl` (which already equals the bit-exact model for `vlineid`,
`vmat`); `vquat` and `vnum` have no bit-exact model (sqrt / hypot are libm) and are judged here only -/
def vecCheck (op : String) (a : List String) (impl : String) : Option (Bool × String) :=
  match op, a with
  | "vlineid", [x, y] =>
    (match parseV3 x, parseV3 y, (impl.splitOn "|").mapM parseV3 with
     | some s, some e, some [p0, p1, en, st] =>
       let sf := v3list (v3f s); let ef := v3list (v3f e)
       -- s + 1·(e − s): two roundings, each at most half an ulp of a quantity bounded by |s| + |e|
       let tol := 4.0 * 1.1102230246251565e-16 * (sumAbs sf + sumAbs ef)
       if !(closeL (v3list (v3f p0)) sf 0.0) then some (false, "VECID ToPoint(0) is not the start point")
       else if !(closeL (v3list (v3f st)) sf 0.0) then some (false, "VECID Start() is not the start point")
       else if !(closeL (v3list (v3f p1)) ef tol) then some (false, "VECID ToPoint(1) is not the end point (beyond rounding)")
       else if !(closeL (v3list (v3f en)) ef tol) then some (false, "VECID End() is not the end point (beyond rounding)")
       else none
     | _, _, _ => none)
  | "vmat", [x, y, z, w] =>
    (match parseM3 x, parseM3 y, parseM3 z, parseV3 w, impl.splitOn "|" with
     | some a, some b, some c, some v, [l, r, lv, rv, ia] =>
       (match parseM3 l, parseM3 r, parseV3 lv, parseV3 rv, parseM3 ia with
        | some l, some r, some lv, some rv, some ia =>
          let na := sumAbs (m3f a); let nb := sumAbs (m3f b); let nc := sumAbs (m3f c)
          let nv := sumAbs (v3list (v3f v))
          if !(closeL (m3f l) (m3f r) (1e-14 * na * nb * nc)) then some (false, "VECID (A·B)·C differs from A·(B·C) beyond rounding")
          else if !(closeL (v3list (v3f lv)) (v3list (v3f rv)) (1e-14 * na * nb * nv)) then
            some (false, "VECID (A·B)v differs from A(Bv) beyond rounding")
          else if !(closeL (m3f ia) (m3f a) 0.0) then some (false, "VECID unit matrix times A is not A")
          else none
        | _, _, _, _, _ => some (false, "VECID unparsable result"))
     | _, _, _, _, _ => none)
  | "vaxis", [ax, ay, az, ang] =>
    -- QuatFromAxisAngle(axis, angle) = (cos(angle/2), sin(angle/2)·axis/|axis|) for EVERY angle (either sign, any number of turns)
    (match fb ax, fb ay, fb az, fb ang, (impl.splitOn ":").mapM fb with
     | some ax, some ay, some az, some ang, some [qw, qx, qy, qz] =>
       let x := dyToFloat ax; let y := dyToFloat ay; let z := dyToFloat az; let t := dyToFloat ang
       let n := Float.sqrt (x * x + y * y + z * z)
       if n == 0.0 then none else
       let sn := Float.sin (t * 0.5); let cs := Float.cos (t * 0.5)
       let want := [cs, x / n * sn, y / n * sn, z / n * sn]
       let got := [dyToFloat qw, dyToFloat qx, dyToFloat qy, dyToFloat qz]
       if closeL got want 1e-12 then none
       else some (false, s!"VECID QuatFromAxisAngle is not (cos(a/2), sin(a/2)·axis/|axis|): got {got}, want {want}")
     | _, _, _, _, _ => some (false, "VECID unparsable result"))
  | "vquat", [x, y] =>
    (match parseV3 x, parseV3 y, (impl.splitOn ":").mapM fb with
     | some s, some e, some [qw, qx, qy, qz] =>
       let s := v3f s; let e := v3f e
       let ns := Float.sqrt (s.x * s.x + s.y * s.y + s.z * s.z)
       let ne := Float.sqrt (e.x * e.x + e.y * e.y + e.z * e.z)
       if ns == 0.0 || ne == 0.0 then none else
       let su : V3 Float := ⟨s.x / ns, s.y / ns, s.z / ns⟩
       let eu : V3 Float := ⟨e.x / ne, e.y / ne, e.z / ne⟩
       let c := su.x * eu.x + su.y * eu.y + su.z * eu.z
       let q : Quat Float := ⟨dyToFloat qw, dyToFloat qx, dyToFloat qy, dyToFloat qz⟩
       let n2 := q.w * q.w + q.x * q.x + q.y * q.y + q.z * q.z
       let r := q.rotate 0.0 su
       -- main branch: divides by √(2(1+cos)); the error of cos (a few ulps) is amplified like 1/(1+cos) near opposite vectors.
       -- opposite branch (cos + 1 < consts.Minima = 1e-10): the half-turn carries s onto −s, which differs from e by
       -- |s + e| = √(2(1+cos)) < 1.5e-5 — the library's own tolerance; such cases are reported as in-band (`B`), not as agreement
       let opp := 1.0 + c < 1e-10
       let tol := if opp then 1e-9 else 1e-12 + 4e-15 / (1.0 + c)
       -- (|s + e| is computed from the unit vectors themselves: 1 + cos cancels to 0 below 1e-8 rad)
       let gap := if opp then fabs (su.x + eu.x) + fabs (su.y + eu.y) + fabs (su.z + eu.z) + 1e-9 else tol
       if fabs (n2 - 1.0) > tol then some (false, s!"VECID quaternion is not a unit quaternion: |q|^2 - 1 = {n2 - 1.0}")
       else if !(closeL (v3list r) (v3list eu) gap) then
         some (false, s!"VECID quaternion does not carry the first direction onto the second (residual {fabs (r.x - eu.x) + fabs (r.y - eu.y) + fabs (r.z - eu.z)})")
       else if opp && !(closeL (v3list r) (v3list eu) 1e-9) then
         some (true, "nearly opposite vectors are treated as opposite (cos + 1 < 1e-10)")
       else none
     | _, _, _ => some (false, "VECID unparsable result"))
  | "vnum", [x, y] =>
    (match parseV3 x, parseV3 y, impl.splitOn "|" with
     | some a, some b, [n, u, c, d] =>
       (match fb n, parseV3 u, fb c, fb d with
        | some n, some u, some c, some d =>
          let a := v3f a; let b := v3f b
          let na := Float.sqrt (a.x * a.x + a.y * a.y + a.z * a.z)
          let nb := Float.sqrt (b.x * b.x + b.y * b.y + b.z * b.z)
          let dd := Float.sqrt ((a.x - b.x) * (a.x - b.x) + (a.y - b.y) * (a.y - b.y) + (a.z - b.z) * (a.z - b.z))
          if fabs (dyToFloat n - na) > 1e-14 * na then some (false, "VECID Norm differs from sqrt(x²+y²+z²)")
          else if na != 0.0 && !(closeL (v3list (v3f u)) [a.x / na, a.y / na, a.z / na] 1e-14) then
            some (false, "VECID Unit is not the vector divided by its norm")
          else if na != 0.0 && nb != 0.0 && fabs (dyToFloat c - (a.x * b.x + a.y * b.y + a.z * b.z) / (na * nb)) > 1e-13 then
            some (false, "VECID Cos differs from dot/(norm·norm)")
          else if fabs (dyToFloat d - dd) > 1e-14 * (na + nb) then some (false, "VECID DistancePoint differs from the norm of the difference")
          else none
        | _, _, _, _ => some (false, "VECID unparsable result"))
     | _, _, _ => none)
  | _, _ => none
end vec

def dispatch (op : String) (a : List String) : Option String :=
  match op, a with
  | "shift", [id, dx, dy, dv] => some (shift id (int! dx) (int! dy) (int! dv))
  | "shift2", [id, ax, ay, av, bx, by', bv] =>
    -- law checked on the implementation: two shifts = the model's single shift by the sum
    some (match parseExt id with
      | some _ => shift id (int! ax + int! bx) (int! ay + int! by') (int! av + int! bv)
      | none => "")
  | "parse", [id] =>
    some (match parseExt id with
      | some e => showInts [e.h, e.x, e.y, e.v, e.f] ++ ";" ++ e.id
      | none => "ERR")
  | "mrgExt", [ids, h, v] => some (showSet (mergeExt (commaSplit ids) (int! h) (int! v)))
  | "mrgSp", [ids, z] => some (showSet (mergeSp (commaSplit ids) (int! z)))
  | "z2k", [f, zi, zo, e, o] => some (showPair (z2k (int! f) (int! zi) (int! zo) (int! e) (int! o)))
  | "k2z", [k, zk, zo, e, o] => some (showPair (k2z (int! k) (int! zk) (int! zo) (int! e) (int! o)))
  | "z2kmin", [f, zi, zo, e, o] => some (showOptInt (zToMinKey (int! f) (int! zi) (int! zo) (int! e) (int! o)))
  | "z2kmax", [f, zi, zo, e, o] => some (showOptInt (zToMaxKey (int! f) (int! zi) (int! zo) (int! e) (int! o)))
  | "validx", [i, z, neg] => some (if validateIndex (int! i) (int! z) (neg == "true") then "true" else "false")
  | "tile2ext", [ts, e, o, v] =>
    some (match (commaSplit ts).mapM parseTile with
      | none => "ERR"
      | some tl => showSet ((tilesToExt tl (int! e) (int! o) (int! v)).map fun l => l.map Ext.id))
  | "tile2sp", [ts, e, o, v] =>
    some (match (commaSplit ts).mapM parseTile with
      | none => "ERR"
      | some tl => showSet ((tilesToSp tl (int! e) (int! o) (int! v)).map fun l => l.map Ext.spId))
  | "qenc", [z, x, y] => some (toString (qkEnc (int! z) (int! x) (int! y)))
  | "qdec", [k, z] => let p := qkDec (int! k) (int! z); some s!"{p.1},{p.2}"
  | "qv2ext", [l, h, v] =>
    some (match (commaSplit l).mapM parseQV with
      | none => "BADARG"
      | some qs => showSet ((qvToExt qs (int! h) (int! v)).map fun r => r.map Ext.id))
  | "qv2sp", [l, z] =>
    some (match (commaSplit l).mapM parseQV with
      | none => "BADARG"
      | some qs => showSet ((qvToExt qs (int! z) (int! z)).map fun r => r.map Ext.spId))
  | "qv2exte", [l, h, v, _] =>
    some (match (commaSplit l).mapM parseQV with
      | none => "BADARG"
      | some qs => showSet ((qvToExt qs (int! h) (int! v)).map fun r => r.map Ext.id))
  | "e2qve", [ids, h, v, _] => some (showGroups s!"{h}/{v}/H" (extToQV (commaSplit ids) (int! h) (int! v)))
  | "e2qv", [ids, h, v] => some (showGroups s!"{h}/{v}/0/0" (extToQV (commaSplit ids) (int! h) (int! v)))
  | "s2qv", [ids, h, v] =>
    some (showGroups s!"{h}/{v}/0/0" (match sp2ext (commaSplit ids) with
      | .ok ext => extToQV ext (int! h) (int! v)
      | _ => .err))
  | "e2qa", [ids, q, a, e, o] =>
    some (showGroups s!"{q}/{a}/{e}/{o}" (extToQA (commaSplit ids) (int! q) (int! a) (int! e) (int! o)))
  | "qvrt", [ids, h, v, bh, bv] =>
    some (showSet (match changeExt (commaSplit ids) (int! h) (int! v) with
      | .ok mid => if qkCheckZoom (int! h) (int! v) then changeExt mid (int! bh) (int! bv) else .err
      | o => o))
  | "uni", [a, b] => some (showInts (sortInts (unionL (intsOf a) (intsOf b))))
  | "inter", [a, b] => some (showInts (intersectL (intsOf a) (intsOf b)))
  | "diff", [a, b] => some (showInts (differenceL (intsOf a) (intsOf b)))
  | "uniq", [a] => some (showInts (sortInts (uniqueL (intsOf a))))
  | "incl", [a, t] => some (if includeL (intsOf a) (int! t) then "true" else "false")
  | "max", [a] => some (showOptInt (maxL (intsOf a)))
  | "min", [a] => some (showOptInt (minL (intsOf a)))
  | "ashift", [i, sh] => some (toString (arithShift (int! i) (int! sh)))
  | "comb", [n, k] =>
    let l := combinations (int! n) (int! k) 10000
    some (s!"{l.length}|" ++ ";".intercalate (l.map fun p => " ".intercalate (p.map toString)))
  | "fadd", [a, b] => some (f2 a b F64.add)
  | "fsub", [a, b] => some (f2 a b F64.sub)
  | "fmul", [a, b] => some (f2 a b F64.mul)
  | "fdiv", [a, b] => some (f2 a b F64.div)
  | "ffloor", [a] => some (match fb a with | some x => showF (F64.floor x) | none => "NONFINITE")
  | "fceil", [a] => some (match fb a with | some x => showF (F64.ceil x) | none => "NONFINITE")
  | "fofint", [i] => some (showF (F64.ofInt (int! i)))
  | "flt", [a, b] => some (match fb a, fb b with | some x, some y => (if F64.lt x y then "true" else "false") | _, _ => "NONFINITE")
  | "newpt", [a, b, c] =>
    some (match fb a, fb b, fb c with
      | some lon, some lat, some alt => (match newPoint lon lat alt with | some p => showGeo p | none => "ERR")
      | _, _, _ => "NONFINITE")
  | "tileset", [h, x, y, v, z, w, val] =>
    -- SetHZoom / SetVZoom on an existing tile: accepted iff 0 ≤ val ≤ 35; a refused call leaves the tile as it was
    let ok := decide (0 ≤ int! val ∧ int! val ≤ 35)
    some (if ok then s!"OK:{if w == "0" then val else h}/{x}/{y}/{if w == "1" then val else v}/{z}"
          else s!"ERR:{h}/{x}/{y}/{v}/{z}")
  | "ptset", [a, b, c, w, val] =>
    -- SetLon / SetLat on an existing point: the domain checks of NewPoint; a refused call leaves the point as it was
    some (match fb a, fb b, fb c, fb val with
      | some lon, some lat, some alt, some x =>
        (match newPoint lon lat alt with
         | none => "BADARG"
         | some p =>
           if w == "0" then
             (if F64.lt c180 (F64.abs x) then "ERR:" ++ showGeo p else "OK:" ++ showGeo { p with lon := x })
           else
             (match setLat x with
              | none => "ERR:" ++ showGeo p
              | some t => "OK:" ++ showGeo { p with lat := t }))
      | _, _, _, _ => "NONFINITE")
  | "extreset", [id1, id2] =>
    -- ResetExtendedSpatialID on an existing object: a malformed string is refused and the object keeps its value
    some (match parseExt id1 with
      | none => "BADARG"
      | some e1 => (match parseExt id2 with | some e2 => "OK:" ++ e2.id | none => "ERR:" ++ e1.id))
  | "vaxis", [_, _, _, _] => some "CHECKED"
  | "pts", [items, h, v] => some (ptsModel (commaSplit items) (int! h) (int! v) false)
  | "ptssp", [items, z] => some (ptsModel (commaSplit items) (int! z) (int! z) true)
  | "geom", [id, opt, n, sth] =>
    some (match fb n, fb sth with | some a, some b => geomModel id (int! opt) a b false | _, _ => "NONFINITE")
  | "geomsp", [id, opt, n, sth] =>
    some (match fb n, fb sth with | some a, some b => geomModel id (int! opt) a b true | _, _ => "NONFINITE")
  | "ctrrt", [id] => some (match parseExt id with | some e => e.id | none => "ERR")
  | "nest", [lon, lat, alt, hf, vf, hc, vc, u] =>
    some (match fb lon, fb lat, fb alt, fb u with
      | some lon, some lat, some alt, some u =>
        (match newPoint lon lat alt with
         | none => "ERR"
         | some p =>
           let fine := pointToExt p u (int! hf) (int! vf)
           let coarse := pointToExt p u (int! hc) (int! vc)
           if !(checkZoom (int! hf) && checkZoom (int! vf) && checkZoom (int! hc) && checkZoom (int! vc)) then "ERR"
           else coarse.id ++ ";" ++ commaJoin (sortStrs ((changeExtE [fine] (int! hc) (int! vc)).map Ext.id)))
      | _, _, _, _ => "NONFINITE")
  | "zio", [id, _, _] => some (match parseExt id with | some e => e.id | none => "ERR")
  | "mrgkids", [id, _, _] => some (match parseExt id with | some e => e.id | none => "ERR")
  | "ovkids", [_, _, _] => some "true"
  | "det", _ :: _ => some "OK"
  | "conc", [_, _, _] => some "OK"
  | "calcbit", [alt, z, mx, mn] =>
    some (match fb alt, fb mx, fb mn with
      | some a, some x, some n => toString (calcBit a (int! z) x n)
      | _, _, _ => "NONFINITE")
  | "v2b", [vz, vi, oz, mx, mn] =>
    some (match fb mx, fb mn with | some x, some n => showInts (v2b (int! vz) (int! vi) (int! oz) x n) | _, _ => "NONFINITE")
  | "b2v", [vz, vi, oz, mx, mn] =>
    some (match fb mx, fb mn with
      | some x, some n => commaJoin ((b2v (int! vz) (int! vi) (int! oz) x n).map fun f => s!"{oz}/{f}")
      | _, _ => "NONFINITE")
  | "e2qvh", [ids, h, v, mx, mn, mxs, mns] =>
    some (match fb mx, fb mn with
      | some x, some n => showGroups s!"{h}/{v}/{mxs}/{mns}" (extToQVH (commaSplit ids) (int! h) (int! v) x n)
      | _, _ => "NONFINITE")
  | "qv2exth", [l, h, v, mx, mn] =>
    some (match (commaSplit l).mapM parseQV, fb mx, fb mn with
      | some qs, some x, some n => showSet ((qvToExtH qs (int! h) (int! v) x n).map fun r => r.map Ext.id)
      | _, _, _ => "BADARG")
  | "chgbig", [a, b, h, v] =>
    -- two related valid IDs refined to (h, v), both at least as fine as the inputs: the result is the set of descendants of
    -- both — |desc a| + |desc b| when they are disjoint, the larger one when one contains the other — without duplicates
    some (match parseExt a, parseExt b with
      | some ea, some eb =>
        let H := int! h; let V := int! v
        let cnt (e : Ext) : Nat := 4 ^ (H - e.h).toNat * 2 ^ (V - e.v).toNat
        let inside (p c : Ext) : Bool :=
          decide (p.h ≤ c.h ∧ p.v ≤ c.v ∧ c.x / 2 ^ (c.h - p.h).toNat = p.x ∧ c.y / 2 ^ (c.h - p.h).toNat = p.y ∧
            c.f / 2 ^ (c.v - p.v).toNat = p.f)
        let n : Nat :=
          if inside ea eb || inside eb ea then max (cnt ea) (cnt eb) else cnt ea + cnt eb
        s!"{n}:{n}"
      | _, _ => "BADARG")
  | "qv2extm", [l, h, v] =>
    -- items qz:q:vz:vi:max:min — every element with its own height pair
    let parse (it : String) : Option (QV × F64.Dy × F64.Dy) :=
      match it.splitOn ":" with
      | [a, b, c, d, mx, mn] =>
        (match parseQV s!"{a}:{b}:{c}:{d}", fb mx, fb mn with
         | some q, some x, some n => some (q, x, n)
         | _, _, _ => none)
      | _ => none
    some (match (commaSplit l).mapM parse with
      | some qs => showSet ((qvToExtM qs (int! h) (int! v)).map fun r => r.map Ext.id)
      | none => "BADARG")
  | "line", [sl, sa, sz, el, ea, ez, h, v, tbl] => some (lineModel [sl, sa, sz, el, ea, ez] (int! h) (int! v) tbl false)
  | "linesp", [sl, sa, sz, el, ea, ez, z, tbl] => some (lineModel [sl, sa, sz, el, ea, ez] (int! z) (int! z) tbl true)
  | "proj", [items, _] => some (projModel (commaSplit items) true)
  | "unproj", [items, _] => some (projModel (commaSplit items) false)
  | "projrt", [_, _, _, _] => some "OK"
  | "corridor", [_, _, _, _, _, _, _, _, _, skips, lineS, fitS, closeS, neg] =>
    -- the implementation picks an arbitrary line voxel for the clearance fit: the model offers one result per candidate
    some (if lineS == "ERR" || neg == "1" then "ERR" else
      let ms := corridorModels lineS fitS closeS (skips == "1")
      ms.headD "NOFIT")
  | "corridordet", _ => some "OK"
  | "ovE", [a, b] => some (showBool (overlapExt a b))
  | "ovEA", [a, b] => some (showBool (overlapExtArr (commaSplit a) (commaSplit b)))
  | "ovS", [a, b] => some (showBool (overlapSp a b))
  | "ovSA", [a, b] => some (showBool (overlapSpArr (commaSplit a) (commaSplit b)))
  | "n6", [id] => some (commaJoin (n6 id))
  | "n8", [id] => some (commaJoin (n8 id))
  | "n26", [id] => some (commaJoin (n26 id))
  | "nN", [ids, h, v] => some (showSet (nN (commaSplit ids) (int! h) (int! v)))
  | "chgExt", [ids, h, v] => some (showSet (changeExt (commaSplit ids) (int! h) (int! v)))
  | "chgSp", [ids, z] => some (showSet (changeSp (commaSplit ids) (int! z)))
  | "hz", [zi, x, y, zo] => some (commaJoin (hZoom (int! zi) (int! x) (int! y) (int! zo)))
  | "vz", [zi, f, zo] => some (commaJoin (vZoom (int! zi) (int! f) (int! zo)))
  | "hzmm", [zi, x, y, zo] =>
    let (a, b, c, d) := hZoomMinMax (int! zi) (int! x) (int! y) (int! zo)
    some (showInts [a, b, c, d])
  | "sp2ext", [ids] => some (showSeq (sp2ext (commaSplit ids)))
  | "ext2sp", [ids] => some (showSeq (ext2sp (commaSplit ids)))
  | "expand", [id] =>
    some (match parseExt id with
      | some e => commaJoin ((expandExt e).map Ext.spId)
      | none => "BADARG")
  | "voxid", [id] => some (showOut ((voxelId id).map showInts))
  | "vquat", [_, _] | "vnum", [_, _] | "fit", [_, _] => some "CHECKED"
  | op, a => vecModel op a

/-- exact (rational) indices of C01 for a stored point: x = ⌊2^h (lon+180)/360⌋ with 180 read as -180, f = ⌊alt·2^v/2^25⌋ -/
def exactX (lon : F64.Dy) (h : Int) : Int :=
  let lon := if F64.eq lon c180 then F64.neg lon else lon
  -- (m·2^e + 180)·2^h / 360 ; scale numerator and denominator to integers
  let s : Nat := (-(min lon.e 0)).toNat
  let num : Int := (lon.m * 2 ^ (lon.e + s).toNat + 180 * 2 ^ s) * 2 ^ h.toNat
  num / (360 * 2 ^ s)
def exactF (alt : F64.Dy) (v : Int) : Int := F64.floorInt ⟨alt.m, alt.e + v - 25⟩

/-- classify an x mismatch: `XROUND` when the computed index is the exact one plus 1 and the point lies within
2^-51 of the world width below that tile's west edge (binary64 rounding of `lon+180` or of the quotient) -/
def classifyX (lon : F64.Dy) (h : Int) : String :=
  let ex := exactX lon h
  let cx := xIndex lon h
  let lon' := if F64.eq lon c180 then F64.neg lon else lon
  let s : Nat := (-(min lon'.e 0)).toNat
  let num : Int := (lon'.m * 2 ^ (lon'.e + s).toNat + 180 * 2 ^ s) * 2 ^ h.toNat
  let den : Int := 360 * 2 ^ s
  -- gap = (ex+1) - X = ((ex+1)·den - num)/den ≤ 2^(h-51)  ⇔  ((ex+1)·den - num)·2^51 ≤ den·2^h
  if cx == ex + 1 && ((ex + 1) * den - num) * 2 ^ 51 ≤ den * 2 ^ h.toNat then
    s!"XROUND x: exact floor {ex} vs computed {cx} (point within 2^-51 of the world width below the tile edge)"
  else s!"XWRONG x: exact floor {ex} vs computed {cx}"

/-- classify an f mismatch: `FUNDER` when a negative altitude underflows to -0 in `alt / 2^(25-v)` -/
def classifyF (alt : F64.Dy) (v : Int) : String :=
  let ef := exactF alt v
  let cf := fIndex alt v
  if ef == -1 && cf == 0 && alt.m < 0 && decide (alt.m.natAbs * 2 ^ (alt.e + v - 25 + 1075).toNat < 1 ∨ alt.e + v - 25 + 1075 < 0 ∨
      (alt.m.natAbs : Int) * 2 ^ (alt.e + v - 25 + 1075).toNat ≤ 1) then
    s!"FUNDER f: exact floor -1 vs computed 0 (negative altitude underflows to -0)"
  else s!"FWRONG f: exact floor {ef} vs computed {cf}"

/-- property checkers run on cases where model and implementation agree: `none` = fine, `some (true, _)` = inside a
stated numeric band (`B`), `some (false, reason)` = property failure (`P`) -/
def propCheck (op : String) (a : List String) : Option (Bool × String) :=
  match op, a with
  | "pts", [items, h, _] | "ptssp", [items, h] =>
    if !checkZoom (int! h) then none else
    match (commaSplit items).mapM parsePtArg with
    | none => none
    | some args =>
      args.foldl (fun acc p =>
        match acc with
        | some (false, _) => acc
        | _ =>
          if p.isNil then acc else
          match newPoint p.lon p.lat p.alt with
          | none => acc
          | some q =>
            if exactF q.alt (int! (a.getD 2 (a.getD 1 "0"))) != fIndex q.alt (int! (a.getD 2 (a.getD 1 "0"))) then
              some (false, classifyF q.alt (int! (a.getD 2 (a.getD 1 "0"))))
            else if exactX q.lon (int! h) != xIndex q.lon (int! h) then
              some (false, classifyX q.lon (int! h))
            else
            -- the stored latitude's bits
            match yBand (F64.toBits q.lat) (int! h) (yIndex p.u (int! h)) with
            | none => acc
            | some true => some (true, "libm band")
            | some false => some (false, s!"row {yIndex p.u (int! h)} disagrees with an independent libm outside the 2^-44 band")) none
  | "newpt", [a, b, c] =>
    match fb a, fb b, fb c with
    | some lon, some lat, some alt =>
      (match newPoint lon lat alt with
       | none => none
       | some p =>
         -- exact rationals: 0 ≤ |lat| - |stored| < 1e-10  ⇔  0 ≤ d ∧ d·10^10 < 1 with d = |lat| - |stored|
         let e := min lat.e p.lat.e
         let d : Int := (lat.m.natAbs : Int) * 2 ^ (lat.e - e).toNat - (p.lat.m.natAbs : Int) * 2 ^ (p.lat.e - e).toNat
         -- d is in units of 2^e
         let lt1 : Bool := if e ≥ 0 then decide (d * 2 ^ e.toNat * 10000000000 < 1) else decide (d * 10000000000 < 2 ^ (-e).toNat)
         if !(F64.eq p.lon lon && F64.eq p.alt alt) then some (false, "NEWPT lon/alt not stored unchanged")
         else if d < 0 then
           -- stored magnitude exceeds the input: only by binary64 rounding of lat*1e10 (below 2^-40 degrees)
           let tiny : Bool := if e ≥ 0 then false else decide ((-d) * 2 ^ 40 < 2 ^ (-e).toNat)
           some (false, if tiny then "LATULP stored latitude exceeds the input by rounding (< 2^-40 deg)" else "LATWRONG stored latitude exceeds the input")
         else if !lt1 then
           -- binary64 rounding of lat*1e10 just below an integer: the cut is 1e-10·(1+ε) with ε < 2^-20
           let near : Bool := if e ≥ 0 then false else decide (d * 10000000000 * 2 ^ 20 < 2 ^ (-e).toNat * (2 ^ 20 + 1))
           some (false, if near then "LATULP latitude cut by 1e-10 degrees plus a rounding error (lat*1e10 rounds below an integer)"
                        else "LATWRONG latitude cut by more than 1e-10 degrees")
         else none)
    | _, _, _ => none
  | _, _ => none

/-- C15 on the implementation's own answer: an operation that interprets ID strings must answer ERR (the shift helpers:
empty IDs) when one of them is malformed (this includes the array overlap checks, whose early return D14 was repaired). -/
def rejectCheck (op : String) (a : List String) (impl : String) : Option (Bool × String) :=
  match op, a with
  | "proj", [items, crs] => projCheck (commaSplit items) crs impl
  | "line", [sl, sa, sz, el, ea, ez, h, v, tbl] => lineCheck [sl, sa, sz, el, ea, ez] (int! h) (int! v) tbl impl
  | "linesp", [sl, sa, sz, el, ea, ez, z, tbl] => lineCheck [sl, sa, sz, el, ea, ez] (int! z) (int! z) tbl impl
  | _, _ =>
  let extOk (s : String) : Bool := (parseExt s).isSome
  let spOk (s : String) : Bool := ((sp2ext1 s).bind parseExt).isSome
  let ar5 (s : String) : Bool := (splitSlash s).length == 5
  let ar4 (s : String) : Bool := (splitSlash s).length == 4
  let bad (ok : String → Bool) (args : List String) : Bool := args.any fun l => (commaSplit l).any fun s => !ok s
  let need (b : Bool) (tag : String) : Option (Bool × String) :=
    if b && impl != "ERR" then some (false, tag ++ " malformed ID accepted: result " ++ impl.take 60) else none
  match op, a with
  | "chgExt", ids :: _ | "mrgExt", ids :: _ | "nN", ids :: _ | "e2qv", ids :: _ | "e2qve", ids :: _ | "e2qa", ids :: _
  | "parse", ids :: _ =>
    need (bad extOk [ids]) "ACCEPT"
  | "geom", id :: _ => need (!extOk id) "ACCEPT"
  | "fit", [id, neg] =>
    -- FitClearanceAroundExtendedSpatialID: a malformed ID or a negative clearance is an error; otherwise two layer counts ≥ 0
    if !extOk id || neg == "1" || neg == "3" || neg == "4" then need true "ACCEPT"
    else if neg == "2" && impl != "ERR" && impl != "0:0" then some (false, "FIT clearance 0 must give 0 layers")
    else if neg == "2" && impl != "0:0" && (match parseExt id with | some e => decide e.valid | none => false) then
      some (false, "FIT clearance 0 on a valid ID must give 0:0 at every zoom")
    else if impl == "ERR" || impl == "TIMEOUT" then none
    else (match (impl.splitOn ":").map String.toInt? with
      | [some hl, some vl] => if hl < 0 || vl < 0 then some (false, "FIT negative layer count") else none
      | _ => some (false, "FIT unparsable result"))
  | "geomsp", id :: _ => need (!spOk id) "ACCEPT"
  | "chgSp", ids :: _ | "mrgSp", ids :: _ | "s2qv", ids :: _ => need (bad spOk [ids]) "ACCEPT"
  | "sp2ext", [ids] => need (bad ar4 [ids]) "ACCEPT"
  | "ext2sp", [ids] => need (bad ar5 [ids]) "ACCEPT"
  | "ovE", [x, y] => need (!extOk x || !extOk y) "ACCEPT"
  | "ovS", [x, y] => need (!spOk x || !spOk y) "ACCEPT"
  | "ovEA", [x, y] => need (bad extOk [x, y]) "ACCEPT"
  | "ovSA", [x, y] => need (bad spOk [x, y]) "ACCEPT"
  | "shift", id :: _ => if !extOk id && impl != "" then some (false, "ACCEPT shift of a malformed ID is not empty") else none
  | "n6", [id] | "n8", [id] | "n26", [id] =>
    if !extOk id && (commaSplit impl).any (fun s => s != "") then some (false, "ACCEPT neighbours of a malformed ID") else none
  | _, _ => none

/-- fields of a case line travel escaped (`\\n`, `\\r`, `\\t`, `\\\\`): malformed IDs may contain those characters -/
def unescField (s : String) : String :=
  if !s.contains '\\' then s else
  let rec go : List Char → List Char → List Char
    | [], acc => acc.reverse
    | '\\' :: 'n' :: r, acc => go r ('\n' :: acc)
    | '\\' :: 'r' :: r, acc => go r ('\r' :: acc)
    | '\\' :: 't' :: r, acc => go r ('\t' :: acc)
    | '\\' :: c :: r, acc => go r (c :: acc)
    | c :: r, acc => go r (c :: acc)
  String.ofList (go s.toList [])

partial def loop (h : IO.FS.Stream) (out : IO.FS.Stream) : IO Unit := do
  let line ← h.getLine
  if line.isEmpty then return ()
  let line := (line.dropEndWhile (fun c => c == '\n')).toString
  match (line.splitOn "\t").map unescField with
  | [] => out.putStrLn "U"
  | op :: rest =>
    if rest.isEmpty then out.putStrLn "U" else
    let args := rest.dropLast
    let impl := rest.getLast!
    match dispatch op args with
    | none => out.putStrLn "U"
    | some m =>
      let m := if op == "corridor" then
          (match args with
           | [_, _, _, _, _, _, _, _, _, skips, lineS, fitS, closeS, neg] =>
             if lineS == "ERR" || neg == "1" then m
             else if (corridorModels lineS fitS closeS (skips == "1")).contains impl then impl else m
           | _ => m)
        else m
      let m := if m == "CHECKED" then impl else m    -- ops judged by a checker only
      if m == impl then
        match ((propCheck op args).orElse (fun _ => rejectCheck op args impl)).orElse (fun _ => vecCheck op args impl) with
        | none => out.putStrLn "A"
        | some (true, _) => out.putStrLn "B"
        | some (false, r) => out.putStrLn ("P\t" ++ r)
      else out.putStrLn ("D\t" ++ m)
  loop h out

def main : IO Unit := do
  let stdin ← IO.getStdin
  let stdout ← IO.getStdout
  loop stdin stdout
