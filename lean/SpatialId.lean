import SpatialId.Basic
import SpatialId.Model.Notation
import SpatialId.Model.Zoom
import SpatialId.Model.Shift
import SpatialId.Model.Overlap
import SpatialId.Model.Merge
import SpatialId.Model.AltKey
