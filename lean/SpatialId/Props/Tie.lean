/-
Tie 2 — the translated Go functions (lean/SpatialId/Gen/Int64Fns.lean, REGENERATED from /repo on every run by
/verif/extract) are equal to the hand-written model functions the property theorems are about.
An edit of one of these Go functions changes the generated definition; the equality below then either still checks
(a harmless rewrite) or fails (a broken obligation: the check searches for a failing input and reports).
-/
import SpatialId.Gen.Int64Fns
import SpatialId.Gen.Api
import SpatialId.Model.AltKey
import SpatialId.Model.Overlap
import SpatialId.Lemmas.Core
namespace SpatialId.Tie
open SpatialId

theorem id_pure {α} (a : α) : (pure a : Id α) = a := rfl

theorem CalculateArithmeticShift_eq (i s : Int) : Gen.CalculateArithmeticShift i s = arithShift i s := by
  unfold Gen.CalculateArithmeticShift arithShift
  simp only [Id.run, id_pure]

theorem CheckZoom_eq (z : Int) : Gen.CheckZoom z = checkZoom z := by
  unfold Gen.CheckZoom checkZoom
  simp [Id.run, id_pure, Bool.decide_and]

theorem quadkeyCheckZoom_eq (h v : Int) : Gen.quadkeyCheckZoom h v = qkCheckZoom h v := by
  unfold Gen.quadkeyCheckZoom qkCheckZoom
  simp [Id.run, id_pure, Bool.decide_and]

theorem extendedSpatialIDCheckZoom_eq (h v : Int) : Gen.extendedSpatialIDCheckZoom h v = extCheckZoom h v := by
  unfold Gen.extendedSpatialIDCheckZoom extCheckZoom
  simp [Id.run, id_pure, Bool.decide_and]

theorem validateIndexExists_eq (i z : Int) (neg : Bool) : Gen.validateIndexExists i z neg = validateIndex i z neg := by
  unfold Gen.validateIndexExists validateIndex
  simp only [Id.run, id_pure, CalculateArithmeticShift_eq]
  cases neg
  · by_cases h : i > arithShift 1 z - 1 ∨ i < 0 <;> simp [h, id_pure] <;> omega
  · by_cases h : i > arithShift 1 z - 1 ∨ i < -arithShift 1 z <;> simp [h, id_pure] <;> omega

theorem convertZToMinAltitudekey_eq (f zi zo E O : Int) :
    Gen.convertZToMinAltitudekey f zi zo E O = Outcome.ofOption (zToMinKey f zi zo E O) := by
  unfold Gen.convertZToMinAltitudekey zToMinKey
  simp only [Id.run, id_pure, CalculateArithmeticShift_eq, validateIndexExists_eq]
  by_cases h1 : validateIndex f zi true = true
  · by_cases h2 : validateIndex (arithShift (arithShift f (-(zi - 25)) + O) (zo - E)) zo false = true
    · simp [h1, h2, Outcome.ofOption, id_pure]
    · simp [h1, h2, Outcome.ofOption, id_pure]
  · simp [h1, Outcome.ofOption, id_pure]

theorem convertZToMaxAltitudekey_eq (f zi zo E O : Int) :
    Gen.convertZToMaxAltitudekey f zi zo E O = Outcome.ofOption (zToMaxKey f zi zo E O) := by
  unfold Gen.convertZToMaxAltitudekey zToMaxKey
  simp only [Id.run, id_pure, CalculateArithmeticShift_eq, validateIndexExists_eq]
  by_cases h1 : validateIndex f zi true = true
  · by_cases hd : 25 - zi < 0
    · by_cases hs : zo - E - -(25 - zi) < 0
      · simp only [h1, hd, hs, if_true, if_false, not_true, not_false_eq_true, id_pure]
        split <;> simp_all [Outcome.ofOption, id_pure]
      · simp only [h1, hd, hs, if_true, if_false, not_true, not_false_eq_true, id_pure]
        split <;> simp_all [Outcome.ofOption, id_pure]
    · by_cases hs : zo - E - 0 < 0
      · simp only [h1, hd, hs, if_true, if_false, not_true, not_false_eq_true, id_pure]
        split <;> simp_all [Outcome.ofOption, id_pure]
      · simp only [h1, hd, hs, if_true, if_false, not_true, not_false_eq_true, id_pure]
        split <;> simp_all [Outcome.ofOption, id_pure]
  · simp [h1, Outcome.ofOption, id_pure]

theorem ConvertZToMinMaxAltitudekey_eq (f zi zo E O : Int) :
    Gen.ConvertZToMinMaxAltitudekey f zi zo E O = z2k f zi zo E O := by
  unfold Gen.ConvertZToMinMaxAltitudekey z2k
  simp only [Id.run, id_pure, convertZToMinAltitudekey_eq, convertZToMaxAltitudekey_eq]
  cases zToMinKey f zi zo E O with
  | none => simp [Outcome.ofOption, id_pure]
  | some lo =>
    cases zToMaxKey f zi zo E O with
    | none => simp [Outcome.ofOption, id_pure]
    | some hi => by_cases h : lo > hi <;> simp [Outcome.ofOption, h, id_pure]

theorem ConvertAltitudekeyToMinMaxZ_eq (k zk zo E O : Int) :
    Gen.ConvertAltitudekeyToMinMaxZ k zk zo E O = k2z k zk zo E O := by
  unfold Gen.ConvertAltitudekeyToMinMaxZ k2z
  simp only [Id.run, id_pure, CalculateArithmeticShift_eq]
  by_cases h1 : k > arithShift 1 zk - 1 ∨ k < 0
  · simp [h1, id_pure]
  · by_cases h2 : E - zk > 0 <;> by_cases h3 : zo - 25 > 0 <;> simp only [h1, h2, h3, if_true, if_false, id_pure] <;>
      (split <;> simp_all [id_pure])

theorem HorizontalZoomMinMax_eq (zi x y zo : Int) : Gen.HorizontalZoomMinMax zi x y zo = hZoomMinMax zi x y zo := by
  unfold Gen.HorizontalZoomMinMax hZoomMinMax
  simp only [Id.run, id_pure]

theorem offsetFIndex_eq (f z : Int) : Gen.offsetFIndex f z = Outcome.ofOption (offsetF f z) := by
  unfold Gen.offsetFIndex offsetF
  have e : ((1 : Int) * 2 ^ (((25 : Int) - 1)).toNat) = 2 ^ 24 := by decide
  simp only [Id.run, id_pure, CalculateArithmeticShift_eq, or_assoc, e]
  split <;> simp [Outcome.ofOption, id_pure]

/-- the generated constants the models rely on -/
theorem consts_eq : Gen.const_consts_ZOriginValue = 25 ∧ Gen.const_consts_ZBaseOffsetForNegativeFIndex = 2 ^ 24 ∧
    Gen.const_consts_MaxTileXYZZoom = 35 := by decide

/-- **API coverage**: the error-returning exported functions of the library are exactly those the models and op families
cover — a new one appears here as a failed obligation -/
theorem api_error_returning :
    (Gen.api.filter (·.2.2.2)).map (fun r => (r.1, r.2.1)) =
    [("common", "Max"), ("common", "Min"), ("common/errors", "NewSpatialIdError"),
     ("common/object", "*ExtendedSpatialID ResetExtendedSpatialID"), ("common/object", "*Point SetLat"),
     ("common/object", "*Point SetLon"), ("common/object", "*TileXYZ SetHZoom"), ("common/object", "*TileXYZ SetVZoom"),
     ("common/object", "NewExtendedSpatialID"), ("common/object", "NewPoint"), ("common/object", "NewTileXYZ"),
     ("common/spatial", "MaxPoint"), ("common/spatial", "MinPoint"),
     ("detector", "CheckExtendedSpatialIdsArrayOverlap"), ("detector", "CheckExtendedSpatialIdsOverlap"),
     ("detector", "CheckSpatialIdsArrayOverlap"), ("detector", "CheckSpatialIdsOverlap"),
     ("integrate", "ChangeExtendedSpatialIdsZoom"), ("integrate", "ChangeSpatialIdsZoom"),
     ("integrate", "MergeExtendedSpatialIds"), ("integrate", "MergeSpatialIds"),
     ("operated", "GetNspatialIdsAroundVoxcels"),
     ("shape", "ConvertExtendedSpatialIdsToSpatialIds"), ("shape", "ConvertPointListToProjectedPointList"),
     ("shape", "ConvertProjectedPointListToPointList"), ("shape", "ConvertSpatialIdsToExtendedSpatialIds"),
     ("shape", "GetExtendedSpatialIdsOnLine"), ("shape", "GetExtendedSpatialIdsOnPoints"),
     ("shape", "GetPointOnExtendedSpatialId"), ("shape", "GetPointOnSpatialId"), ("shape", "GetSpatialIdsOnLine"),
     ("shape", "GetSpatialIdsOnPoints"),
     ("transform", "ConvertAltitudekeyToMinMaxZ"), ("transform", "ConvertExtendedSpatialIDsToQuadkeysAndAltitudekeys"),
     ("transform", "ConvertExtendedSpatialIDsToQuadkeysAndVerticalIDs"),
     ("transform", "ConvertQuadkeysAndVerticalIDsToExtendedSpatialIDs"),
     ("transform", "ConvertQuadkeysAndVerticalIDsToSpatialIDs"), ("transform", "ConvertSpatialIDsToQuadkeysAndVerticalIDs"),
     ("transform", "ConvertTileXYZsToExtendedSpatialIDs"), ("transform", "ConvertTileXYZsToSpatialIDs"),
     ("transform", "ConvertZToMinMaxAltitudekey"), ("transform", "FitClearanceAroundExtendedSpatialID"),
     ("transform", "GetExtendedSpatialIdsWithinRadiusOfLine")] := by decide

end SpatialId.Tie
