/-
C08 — neighbourhood queries return exactly the surrounding voxels.
Model: SpatialId/Model/Shift.lean (`n6E`, `n8E`, `n26E`, `nNE`, `nN`), tied to the four functions of
operated/shifting_spatial_id.go by the op families nbr and nN.
-/
import SpatialId.Props.C07
namespace SpatialId.C08
open SpatialId

/-- the stencils are what the property says they are: unit steps along one axis; the horizontal ring;
the full 3×3×3 shell; each offset once -/
theorem stencil6_spec : ∀ dx ∈ [-1, 0, 1], ∀ dy ∈ [-1, 0, 1], ∀ dv ∈ [-1, 0, (1:Int)],
    ((dx, dy, dv) ∈ stencil6 ↔ dx.natAbs + dy.natAbs + dv.natAbs = 1) := by decide
theorem stencil8_spec : ∀ dx ∈ [-1, 0, 1], ∀ dy ∈ [-1, 0, 1], ∀ dv ∈ [-1, 0, (1:Int)],
    ((dx, dy, dv) ∈ stencil8 ↔ dv = 0 ∧ (dx ≠ 0 ∨ dy ≠ 0)) := by decide
theorem stencil26_spec : ∀ dx ∈ [-1, 0, 1], ∀ dy ∈ [-1, 0, 1], ∀ dv ∈ [-1, 0, (1:Int)],
    ((dx, dy, dv) ∈ stencil26 ↔ (dx, dy, dv) ≠ (0, 0, 0)) := by decide
theorem stencil_nodup : stencil6.Nodup ∧ stencil8.Nodup ∧ stencil26.Nodup := by decide
theorem stencil_len : stencil6.length = 6 ∧ stencil8.length = 8 ∧ stencil26.length = 26 := by decide
theorem stencil26_inside : ∀ o ∈ stencil26, o.1 ∈ [-1, 0, 1] ∧ o.2.1 ∈ [-1, 0, 1] ∧ o.2.2 ∈ [-1, 0, (1:Int)] := by decide

/-- **n6_eq / n8_eq**: the 6- and 8-neighbour queries are the shifts by the stencil, in order -/
theorem n6_eq (e : Ext) : n6E e = stencil6.map (sh e) := by
  simp [n6E, stencil6, sh]

theorem n8_eq (e : Ext) : n8E e = stencil8.map (sh e) := by
  simp [n8E, stencil8, sh]

/-- **n26_eq**: the 26-neighbour query is the shifts by the full shell (uses the composition law of C07) -/
theorem n26_eq (e : Ext) (hh : 0 ≤ e.h) : n26E e = stencil26.map (sh e) := by
  have key : ∀ s a b : Int, shiftE (shiftE e 0 0 s) a b 0 = shiftE e a b s := by
    intro s a b
    rw [C07.shift_add e 0 0 s a b 0 hh]
    simp
  simp only [n26E, n8E, stencil26, stencil8, key]
  simp [sh]

/-- membership in the N-layer result: exactly the shifts of a listed voxel by a non-zero offset of the box -/
theorem mem_nOffsets (H V : Int) (o : Off) :
    o ∈ nOffsets H V ↔ (-H ≤ o.1 ∧ o.1 ≤ H) ∧ (-H ≤ o.2.1 ∧ o.2.1 ≤ H) ∧ (-V ≤ o.2.2 ∧ o.2.2 ≤ V) ∧ o ≠ (0, 0, 0) := by
  obtain ⟨dx, dy, dv⟩ := o
  simp only [nOffsets, List.mem_flatMap, List.mem_filterMap, mem_irange]
  constructor
  · rintro ⟨a, ha, b, hb, c, hc, h⟩
    split at h
    · simp at h
    · rename_i hne
      simp only [Option.some.injEq, Prod.mk.injEq] at h
      obtain ⟨rfl, rfl, rfl⟩ := h
      refine ⟨ha, hb, hc, ?_⟩
      intro heq; simp only [Prod.mk.injEq] at heq; exact hne heq
  · rintro ⟨ha, hb, hc, hne⟩
    refine ⟨dx, ha, dy, hb, dv, hc, ?_⟩
    have : ¬ (dx = 0 ∧ dy = 0 ∧ dv = 0) := by
      rintro ⟨rfl, rfl, rfl⟩; exact hne rfl
    simp [this]

theorem nLayer_set (es : List Ext) (H V : Int) (o : Ext) :
    o ∈ nNE es H V ↔ ∃ e ∈ es, ∃ d : Off, (-H ≤ d.1 ∧ d.1 ≤ H) ∧ (-H ≤ d.2.1 ∧ d.2.1 ≤ H) ∧
      (-V ≤ d.2.2 ∧ d.2.2 ≤ V) ∧ d ≠ (0, 0, 0) ∧ o = sh e d := by
  simp only [nNE, mem_dedup, List.mem_flatMap, List.mem_map, mem_nOffsets, sh]
  constructor
  · rintro ⟨d, ⟨h1, h2, h3, h4⟩, e, he, rfl⟩; exact ⟨e, he, d, h1, h2, h3, h4, rfl⟩
  · rintro ⟨e, he, d, h1, h2, h3, h4, rfl⟩; exact ⟨d, ⟨h1, h2, h3, h4⟩, e, he, rfl⟩

theorem nLayer_nodup (es : List Ext) (H V : Int) : (nNE es H V).Nodup := nodup_dedup _

theorem nLayer_neg_err (ids : List String) (H V : Int) (h : H < 0 ∨ V < 0) : nN ids H V = .err := by
  simp [nN, h]

theorem nLayer_malformed_err (ids : List String) (H V : Int) (h : parseAll ids = none) : nN ids H V = .err := by
  unfold nN; split <;> simp [h]

theorem nLayer_no_panic (ids : List String) (H V : Int) : nN ids H V ≠ .panic := by
  unfold nN; split
  · simp
  · split <;> simp

/-! ### distinctness where the stencil is narrower than the grid -/

/-- two offsets that differ by less than the grid width land on different columns -/
theorem emod_inj_of_close (x a b : Int) (n : Int) (_hn : 0 < n) (hab : (a - b).natAbs < n.natAbs)
    (h : (x + a) % n = (x + b) % n) : a = b := by
  have h1 : ((x + a) - (x + b)) % n = 0 := Int.emod_eq_zero_of_dvd (Int.dvd_of_emod_eq_zero (by
    rw [Int.sub_emod, h, Int.sub_self, Int.zero_emod]))
  have h2 : n ∣ (a - b) := by
    have : (x + a) - (x + b) = a - b := by omega
    rw [this] at h1; exact Int.dvd_of_emod_eq_zero h1
  have h3 := Int.eq_zero_of_dvd_of_natAbs_lt_natAbs h2 hab
  omega

/-- shifting one voxel by two different offsets of a box narrower than the grid gives different voxels -/
theorem sh_inj (e : Ext) (hh : 0 ≤ e.h) (d d' : Off) (w : Int) (hw : 2 * w + 1 ≤ 2 ^ e.h.toNat)
    (h1 : -w ≤ d.1 ∧ d.1 ≤ w) (h2 : -w ≤ d.2.1 ∧ d.2.1 ≤ w)
    (h1' : -w ≤ d'.1 ∧ d'.1 ≤ w) (h2' : -w ≤ d'.2.1 ∧ d'.2.1 ≤ w)
    (h : sh e d = sh e d') : d = d' := by
  obtain ⟨dx, dy, dv⟩ := d
  obtain ⟨dx', dy', dv'⟩ := d'
  simp only [sh, C07.shift_spec _ _ _ _ hh, Ext.mk.injEq, true_and] at h
  obtain ⟨hx, hy, hv⟩ := h
  have hp := two_pow_pos e.h.toNat
  simp only at h1 h2 h1' h2'
  have ex : dx = dx' := emod_inj_of_close e.x dx dx' _ hp (by omega) hx
  have ey : dy = dy' := emod_inj_of_close e.y dy dy' _ hp (by omega) hy
  have ev : dv = dv' := by omega
  rw [ex, ey, ev]

theorem nodup_map_sh (e : Ext) (hh : 0 ≤ e.h) (l : List Off) (w : Int) (hw : 2 * w + 1 ≤ 2 ^ e.h.toNat)
    (hl : l.Nodup) (hin : ∀ d ∈ l, (-w ≤ d.1 ∧ d.1 ≤ w) ∧ (-w ≤ d.2.1 ∧ d.2.1 ≤ w)) : (l.map (sh e)).Nodup := by
  induction l with
  | nil => simp
  | cons a l ih =>
    rw [List.map_cons, List.nodup_cons]
    obtain ⟨ha, hl'⟩ := List.nodup_cons.mp hl
    refine ⟨?_, ih hl' (fun d hd => hin d (List.mem_cons_of_mem _ hd))⟩
    intro hmem
    obtain ⟨b, hb, hbe⟩ := List.mem_map.mp hmem
    have := sh_inj e hh b a w hw (hin b (List.mem_cons_of_mem _ hb)).1 (hin b (List.mem_cons_of_mem _ hb)).2
      (hin a List.mem_cons_self).1 (hin a List.mem_cons_self).2 hbe
    exact ha (this ▸ hb)

theorem stencil_in_unit_box : (∀ d ∈ stencil6, (-1 ≤ d.1 ∧ d.1 ≤ 1) ∧ (-1 ≤ d.2.1 ∧ d.2.1 ≤ 1)) ∧
    (∀ d ∈ stencil8, (-1 ≤ d.1 ∧ d.1 ≤ 1) ∧ (-1 ≤ d.2.1 ∧ d.2.1 ≤ 1)) ∧
    (∀ d ∈ stencil26, (-1 ≤ d.1 ∧ d.1 ≤ 1) ∧ (-1 ≤ d.2.1 ∧ d.2.1 ≤ 1)) := by decide

/-- **count_narrow (6/8/26)**: where `3 ≤ 2^h` a voxel has 6, 8 and 26 distinct neighbours -/
theorem count_narrow (e : Ext) (hh : 0 ≤ e.h) (hw : 3 ≤ (2 : Int) ^ e.h.toNat) :
    ((n6E e).Nodup ∧ (n6E e).length = 6) ∧ ((n8E e).Nodup ∧ (n8E e).length = 8) ∧
    ((n26E e).Nodup ∧ (n26E e).length = 26) := by
  rw [n6_eq, n8_eq, n26_eq e hh]
  simp only [List.length_map, stencil_len]
  exact ⟨⟨nodup_map_sh e hh _ 1 (by omega) stencil_nodup.1 stencil_in_unit_box.1, trivial⟩,
         ⟨nodup_map_sh e hh _ 1 (by omega) stencil_nodup.2.1 stencil_in_unit_box.2.1, trivial⟩,
         ⟨nodup_map_sh e hh _ 1 (by omega) stencil_nodup.2.2 stencil_in_unit_box.2.2, trivial⟩⟩

/-- **not_self**: under the same guard the N-layer neighbourhood of a single voxel never contains the voxel -/
theorem not_self (e : Ext) (hh : 0 ≤ e.h) (hx : 0 ≤ e.x ∧ e.x < 2 ^ e.h.toNat) (hy : 0 ≤ e.y ∧ e.y < 2 ^ e.h.toNat)
    (H V : Int) (hH : 0 ≤ H) (hw : 2 * H + 1 ≤ 2 ^ e.h.toNat) : e ∉ nNE [e] H V := by
  rw [nLayer_set]
  rintro ⟨e', he', d, h1, h2, _, hne, heq⟩
  rw [List.mem_singleton] at he'; subst he'
  have h0 : sh e' (0, 0, 0) = e' := C07.shift_zero e' hh hx hy
  have := sh_inj e' hh (0, 0, 0) d H hw (by simp; omega) (by simp; omega) h1 h2 (h0.trans heq)
  exact hne this.symm

/-- **nbr_symm**: the neighbour relation is symmetric (for voxels inside the grid) -/
theorem nbr_symm (e o : Ext) (hh : 0 ≤ e.h) (hx : 0 ≤ e.x ∧ e.x < 2 ^ e.h.toNat) (hy : 0 ≤ e.y ∧ e.y < 2 ^ e.h.toNat)
    (H V : Int) (ho : o ∈ nNE [e] H V) : e ∈ nNE [o] H V := by
  rw [nLayer_set] at *
  obtain ⟨e', he', d, h1, h2, h3, hne, rfl⟩ := ho
  rw [List.mem_singleton] at he'; subst he'
  refine ⟨_, List.mem_singleton.mpr rfl, (-d.1, -d.2.1, -d.2.2), by simp; omega, by simp; omega, by simp; omega, ?_, ?_⟩
  · intro h; apply hne
    obtain ⟨a, b, c⟩ := d
    simp only [Prod.mk.injEq] at h ⊢; omega
  · exact (C07.shift_neg e' d.1 d.2.1 d.2.2 hh hx hy).symm

/-- string level -/
theorem n6_malformed (id : String) (h : parseExt id = none) : n6 id = List.replicate 6 "" := by simp [n6, h]
theorem n26_wellformed (id : String) (e : Ext) (h : parseExt id = some e) : n26 id = (n26E e).map Ext.id := by
  simp [n26, h]

example : (n26E ⟨2, 3, 0, 5, -1⟩).Nodup ∧ (n26E ⟨2, 3, 0, 5, -1⟩).length = 26 := by decide
example : ¬ (n8E ⟨1, 0, 0, 5, 0⟩).Nodup := by decide   -- zoom 1: wrapped neighbours coincide

end SpatialId.C08
