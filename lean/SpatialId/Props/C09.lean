/-
C09 — point lookup, zoom change, merge and overlap agree with each other.
Corollaries of C01 (binary64 point model), C03 (zoom change), C04 (merge) and C05 (overlap); tied to the implementation
by the composite op family nest (point at coarse zoom vs zoom-out of the point's fine ID, evaluated on the real code)
and by the families of C03/C04/C05.
-/
import SpatialId.Props.C01
import SpatialId.Props.C04
namespace SpatialId.C09
open SpatialId F64

/-! ### a point's voxels at all zooms are nested, axis by axis -/

/-- **pt_nested_f**: the vertical index at a coarser zoom is the floor zoom-out of the index at any finer zoom -/
theorem pt_nested_f (alt : Dy) (vc : Int) (d : Nat) (hr : Rep alt) (hu : -1074 ≤ alt.e + vc - 25) :
    fIndex alt vc = fIndex alt (vc + d) / 2 ^ d := by
  rw [C01.f_exact alt vc hr hu, C01.f_exact alt (vc + d) hr (by omega), floorInt_zoomOut]
  congr 2; omega

/-- … and that is exactly what `VerticalZoom` returns for it -/
theorem pt_nested_f_zoom (alt : Dy) (vc : Int) (d : Nat) (hr : Rep alt) (hu : -1074 ≤ alt.e + vc - 25) :
    vZoomIdx (vc + d) (fIndex alt (vc + d)) vc = [fIndex alt vc] := by
  rw [C05.vZoomIdx_out_eq _ _ _ (by omega), pt_nested_f alt vc d hr hu]
  congr 3; omega

/-- **pt_nested_y**: the same for the row index, for every oracle value `u` -/
theorem pt_nested_y (u : Dy) (hc : Int) (d : Nat) (hr : Rep u) (hh : 0 ≤ hc) (hu : -1074 ≤ u.e + hc - 1) :
    yIndex u hc = yIndex u (hc + d) / 2 ^ d := by
  rw [C01.y_formula u hc hr hh hu, C01.y_formula u (hc + d) hr (by omega) (by omega), floorInt_zoomOut]
  congr 2; omega

/-- the column index before the clamp, as a function of the zoom-independent quotient `t = (lon+180)/360` -/
theorem x_of_quotient (t : Dy) (h : Int) (hr : Rep t) (hu : -1074 ≤ t.e + h) :
    floorInt (scale t h) = floorInt ⟨t.m, t.e + h⟩ := floorInt_rnd_of_fits _ _ hr.1 hu

/-- **pt_nested_x**: the column index (clamp included) at a coarser zoom is the floor zoom-out of the index at any finer
zoom; `t` is the binary64 quotient `(lon+180)/360`, which does not depend on the zoom -/
theorem pt_nested_x (lon : Dy) (hc : Int) (d : Nat) (hh : 0 ≤ hc)
    (hr : Rep (div (add (if F64.eq lon c180 then neg lon else lon) c180) c360))
    (hu : -1074 ≤ (div (add (if F64.eq lon c180 then neg lon else lon) c180) c360).e + hc) :
    xIndex lon hc = xIndex lon (hc + d) / 2 ^ d := by
  unfold xIndex
  simp only []
  generalize (div (add (if F64.eq lon c180 = true then neg lon else lon) c180) c360) = t at hr hu ⊢
  rw [x_of_quotient t hc hr hu, x_of_quotient t (hc + d) hr (by omega)]
  have hn : floorInt ⟨t.m, t.e + hc⟩ = floorInt ⟨t.m, t.e + (hc + d)⟩ / 2 ^ d := by
    rw [floorInt_zoomOut]; congr 2; omega
  have hp : (2 : Int) ^ (hc + d).toNat = 2 ^ hc.toNat * 2 ^ d := by
    rw [← Int.pow_add]; congr 1; omega
  have hd := two_pow_pos d
  have hc0 := two_pow_pos hc.toNat
  generalize floorInt ⟨t.m, t.e + (hc + d)⟩ = i at hn ⊢
  rw [hn, hp]
  by_cases c : i ≥ 2 ^ hc.toNat * 2 ^ d
  · have c' : i / 2 ^ d ≥ 2 ^ hc.toNat := Int.le_ediv_of_mul_le hd c
    simp only [c, c', if_true]
    -- (2^hc·2^d - 1)/2^d = 2^hc - 1
    have := (Int.ediv_emod_unique (a := 2 ^ hc.toNat * 2 ^ d - 1) (b := 2 ^ d) (r := 2 ^ d - 1) (q := 2 ^ hc.toNat - 1) hd).mpr
      ⟨by rw [Int.mul_sub, Int.mul_one, Int.mul_comm]; omega, by omega, by omega⟩
    exact this.1.symm
  · have c' : ¬ i / 2 ^ d ≥ 2 ^ hc.toNat := by
      have := Int.ediv_lt_of_lt_mul hd (show i < 2 ^ hc.toNat * 2 ^ d by omega)
      omega
    simp only [c, c', if_false]

/-! ### zoom in and back out; merge of all descendants -/

/-- every descendant of `s` has `s` as its ancestor at `s`'s own zooms -/
theorem anc_of_desc (s o : Ext) (hw : C03.wf s) (H V : Int) (hH : s.h ≤ H) (hV : s.v ≤ V) (ho : o ∈ zoomOne H V s) :
    C05.anc o s.h s.v = s := by
  obtain ⟨h1, h2, h3, h4⟩ := hw
  obtain ⟨rfl, rfl, hm⟩ := (mem_zoomOne H V s o (by omega) (by omega) h1 h2 h3 h4).mp ho
  unfold meets axisMeet at hm
  have l1 : s.h.toNat ≤ o.h.toNat := by omega
  have l2 : s.v.toNat ≤ o.v.toNat := by omega
  simp only [l1, l2, if_true] at hm
  have e1 : (o.h - s.h).toNat = o.h.toNat - s.h.toNat := by omega
  have e2 : (o.v - s.v).toNat = o.v.toNat - s.v.toNat := by omega
  cases s
  simp only [C05.anc, e1, e2] at *
  simp [hm.1, hm.2.1, hm.2.2]

/-- **zoomIn_out_id**: zooming an ID in and then back out to its own zooms returns exactly that ID -/
theorem zoomIn_out_id (s : Ext) (hw : C03.wf s) (H V : Int) (hH : s.h ≤ H) (hV : s.v ≤ V) (o : Ext) :
    o ∈ changeExtE (changeExtE [s] H V) s.h s.v ↔ o = s := by
  have hwf := hw
  obtain ⟨h1, h2, h3, h4⟩ := hw
  unfold changeExtE
  simp only [List.flatMap_cons, List.flatMap_nil, List.append_nil, mem_dedup, List.mem_flatMap]
  constructor
  · rintro ⟨m, hm, ho⟩
    obtain ⟨r1, r2, hmm⟩ := (mem_zoomOne H V s m (by omega) (by omega) h1 h2 h3 h4).mp hm
    have hmx : 0 ≤ m.x ∧ 0 ≤ m.y := by
      unfold meets axisMeet at hmm
      have l1 : s.h.toNat ≤ m.h.toNat := by omega
      simp only [l1, if_true] at hmm
      have hp := two_pow_pos (m.h.toNat - s.h.toNat)
      constructor
      · by_contra hneg
        have := Int.ediv_lt_of_lt_mul hp (show m.x < 0 * 2 ^ (m.h.toNat - s.h.toNat) by omega)
        omega
      · by_contra hneg
        have := Int.ediv_lt_of_lt_mul hp (show m.y < 0 * 2 ^ (m.h.toNat - s.h.toNat) by omega)
        omega
    rw [C05.zoomOne_out m s.h s.v (by omega) (by omega) hmx.1 hmx.2, List.mem_singleton] at ho
    rw [ho]; exact anc_of_desc s m hwf H V hH hV hm
  · rintro rfl
    -- some descendant exists (the one containing the corner of `o`)
    obtain ⟨p, hp⟩ := region_nonempty o
    obtain ⟨m, hm, hpm⟩ := C03.zoomIn_cover H V o hwf hH hV p hp
    refine ⟨m, hm, ?_⟩
    have hanc := anc_of_desc o m hwf H V hH hV hm
    obtain ⟨r1, r2, hmm⟩ := (mem_zoomOne H V o m (by omega) (by omega) h1 h2 h3 h4).mp hm
    have hmx : 0 ≤ m.x ∧ 0 ≤ m.y := by
      unfold meets axisMeet at hmm
      have l1 : o.h.toNat ≤ m.h.toNat := by omega
      simp only [l1, if_true] at hmm
      have hp := two_pow_pos (m.h.toNat - o.h.toNat)
      constructor
      · by_contra hneg
        have := Int.ediv_lt_of_lt_mul hp (show m.x < 0 * 2 ^ (m.h.toNat - o.h.toNat) by omega)
        omega
      · by_contra hneg
        have := Int.ediv_lt_of_lt_mul hp (show m.y < 0 * 2 ^ (m.h.toNat - o.h.toNat) by omega)
        omega
    rw [C05.zoomOne_out m o.h o.v (by omega) (by omega) hmx.1 hmx.2, List.mem_singleton]
    exact hanc.symm

theorem desc_wf (s m : Ext) (hw : C03.wf s) (H V : Int) (hH : s.h ≤ H) (hV : s.v ≤ V) (hm : m ∈ zoomOne H V s) :
    0 ≤ m.h ∧ 0 ≤ m.v ∧ 0 ≤ m.x ∧ 0 ≤ m.y := by
  obtain ⟨h1, h2, h3, h4⟩ := hw
  obtain ⟨r1, r2, hmm⟩ := (mem_zoomOne H V s m (by omega) (by omega) h1 h2 h3 h4).mp hm
  unfold meets axisMeet at hmm
  have l1 : s.h.toNat ≤ m.h.toNat := by omega
  simp only [l1, if_true] at hmm
  have hp := two_pow_pos (m.h.toNat - s.h.toNat)
  refine ⟨by omega, by omega, ?_, ?_⟩
  · by_contra hneg
    have := Int.ediv_lt_of_lt_mul hp (show m.x < 0 * 2 ^ (m.h.toNat - s.h.toNat) by omega)
    omega
  · by_contra hneg
    have := Int.ediv_lt_of_lt_mul hp (show m.y < 0 * 2 ^ (m.h.toNat - s.h.toNat) by omega)
    omega

/-- **merge_children**: merging the complete set of descendants of an ID at its own zooms returns exactly that ID -/
theorem merge_children (s : Ext) (hw : C03.wf s) (H V : Int) (hH : s.h ≤ H) (hV : s.v ≤ V) (o : Ext) :
    o ∈ mergeExtE (zoomOne H V s) s.h s.v ↔ o = s := by
  have hwf := hw
  obtain ⟨h1, h2, h3, h4⟩ := hw
  have hwl : wfL (zoomOne H V s) := fun m hm => desc_wf s m hwf H V hH hV hm
  have hzoom : ∀ m ∈ zoomOne H V s, m.h = H ∧ m.v = V := fun m hm =>
    let r := (mem_zoomOne H V s m (by omega) (by omega) h1 h2 h3 h4).mp hm; ⟨r.1, r.2.1⟩
  have hanc : ∀ m ∈ zoomOne H V s, C05.anc m s.h s.v = s := fun m hm => anc_of_desc s m hwf H V hH hV hm
  -- the target voxel is filled by its descendants
  have hfilled : C04.filled (zoomOne H V s) s.h s.v s := by
    intro p hp
    obtain ⟨m, hm, hpm⟩ := C03.zoomIn_cover H V s hwf hH hV p hp
    refine ⟨m, (mem_membersOf _ _ _ _ m).mpr ⟨hm, ⟨by have := hzoom m hm; omega, by have := hzoom m hm; omega⟩, ?_⟩, hpm⟩
    rw [keyOf_eq_anc _ hwl s.h s.v m hm (by have := hzoom m hm; omega) (by have := hzoom m hm; omega)]
    exact hanc m hm
  rw [C04.mem_merge _ hwl s.h s.v h1 h2]
  constructor
  · rintro (⟨hm, hne⟩ | ⟨m, hm, _, rfl, _⟩ | ⟨hm, _, hnf⟩)
    · exact absurd ⟨by have := hzoom o hm; omega, by have := hzoom o hm; omega⟩ hne
    · exact hanc m hm
    · rw [hanc o hm] at hnf; exact absurd hfilled hnf
  · rintro rfl
    obtain ⟨p, hp⟩ := region_nonempty o
    obtain ⟨m, hm, _⟩ := C03.zoomIn_cover H V o hwf hH hV p hp
    right; left
    refine ⟨m, hm, ⟨by have := hzoom m hm; omega, by have := hzoom m hm; omega⟩, (hanc m hm).symm, ?_⟩
    rw [hanc m hm]; exact hfilled

/-- **pt_voxels_overlap**: two voxels that are nested axis by axis (as a point's voxels at two zoom pairs are, by the
three nesting theorems) are reported as overlapping -/
theorem nested_overlap (a b : Ext) (wa : C03.wf a) (wb : C03.wf b) (hh : a.h ≤ b.h) (hv : a.v ≤ b.v)
    (hx : b.x / 2 ^ (b.h - a.h).toNat = a.x) (hy : b.y / 2 ^ (b.h - a.h).toNat = a.y)
    (hf : b.f / 2 ^ (b.v - a.v).toNat = a.f) : overlapE a b = .ok true := by
  rw [C05.overlapE_iff_meets a b wa wb]
  have : meets a b := by
    unfold meets axisMeet
    have l1 : a.h.toNat ≤ b.h.toNat := by have := wa.1; omega
    have l2 : a.v.toNat ≤ b.v.toNat := by have := wa.2.1; omega
    have e1 : b.h.toNat - a.h.toNat = (b.h - a.h).toNat := by have := wa.1; omega
    have e2 : b.v.toNat - a.v.toNat = (b.v - a.v).toNat := by have := wa.2.1; omega
    simp only [l1, l2, if_true, e1, e2]
    exact ⟨hx, hy, hf⟩
  simp [this]

/-- kernel-evaluated instance: Tokyo station at zooms (25,25) and (20,18) — the coarse ID is the zoom-out of the fine one -/
example : changeExtE [⟨25, 29803148, 13212522, 25, 3⟩] 20 18 = [⟨20, 931348, 412891, 18, 0⟩] := by decide +kernel

end SpatialId.C09
