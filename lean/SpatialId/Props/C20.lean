/-
C20 — the exported helper algebra obeys its mathematical laws (set helpers, Max/Min, arithmetic shift,
Combinations; the vector/matrix/quaternion part is in Props/C20Vec.lean).
Model: SpatialId/Model/Util.lean and `arithShift` (Basic.lean), tied to common/util.go by the op families
sets, ashift, combLattice.
-/
import Mathlib.Data.Rat.Floor
import SpatialId.Model.Util
import SpatialId.Lemmas.Core
namespace SpatialId.C20
open SpatialId

variable {α : Type} [DecidableEq α]

/-! ### set helpers: the corresponding set operations on the elements of their arguments -/
theorem union_mem (l1 l2 : List α) (a : α) : a ∈ unionL l1 l2 ↔ a ∈ l1 ∨ a ∈ l2 := by
  simp [unionL, mem_dedup]
theorem union_nodup (l1 l2 : List α) : (unionL l1 l2).Nodup := nodup_dedup _
theorem inter_mem (l1 l2 : List α) (a : α) : a ∈ intersectL l1 l2 ↔ a ∈ l1 ∧ a ∈ l2 := by
  simp [intersectL, and_comm]
theorem diff_mem (l1 l2 : List α) (a : α) : a ∈ differenceL l1 l2 ↔ a ∈ l1 ∧ a ∉ l2 := by
  simp [differenceL]
theorem unique_mem (l : List α) (a : α) : a ∈ uniqueL l ↔ a ∈ l := mem_dedup a l
theorem unique_nodup (l : List α) : (uniqueL l).Nodup := nodup_dedup _
theorem include_iff (l : List α) (t : α) : includeL l t = true ↔ t ∈ l := by simp [includeL]
/-- Intersect and Difference keep the order of the slice they filter -/
theorem inter_sublist (l1 l2 : List α) : (intersectL l1 l2).Sublist l2 := List.filter_sublist
theorem diff_sublist (l1 l2 : List α) : (differenceL l1 l2).Sublist l1 := List.filter_sublist

/-! ### Max / Min -/
theorem foldl_max_spec (l : List Int) (a : Int) :
    let m := l.foldl (fun m x => if m < x then x else m) a
    (m = a ∨ m ∈ l) ∧ a ≤ m ∧ ∀ x ∈ l, x ≤ m := by
  induction l generalizing a with
  | nil => simp
  | cons b l ih =>
    by_cases c : a < b
    · obtain ⟨h1, h2, h3⟩ := ih b
      simp only [List.foldl_cons, c, if_true]
      refine ⟨?_, by omega, ?_⟩
      · rcases h1 with h | h
        · right; rw [h]; exact List.mem_cons_self
        · right; exact List.mem_cons_of_mem _ h
      · intro x hx
        rcases List.mem_cons.mp hx with rfl | hx
        · exact h2
        · exact h3 x hx
    · obtain ⟨h1, h2, h3⟩ := ih a
      simp only [List.foldl_cons, c, if_false]
      refine ⟨?_, h2, ?_⟩
      · rcases h1 with h | h
        · left; exact h
        · right; exact List.mem_cons_of_mem _ h
      · intro x hx
        rcases List.mem_cons.mp hx with rfl | hx
        · omega
        · exact h3 x hx

/-- **max_spec**: an element of the slice bounding all others; the empty slice is rejected -/
theorem max_spec (l : List Int) (m : Int) (h : maxL l = some m) : m ∈ l ∧ ∀ x ∈ l, x ≤ m := by
  cases l with
  | nil => simp [maxL] at h
  | cons a l =>
    simp only [maxL, Option.some.injEq] at h
    obtain ⟨h1, _, h3⟩ := foldl_max_spec (a :: l) a
    rw [h] at h1 h3
    refine ⟨?_, h3⟩
    rcases h1 with h1 | h1
    · rw [h1]; exact List.mem_cons_self
    · exact h1
theorem max_empty_err : maxL [] = none := rfl
theorem max_nonempty (a : Int) (l : List Int) : (maxL (a :: l)).isSome := by simp [maxL]

theorem foldl_min_spec (l : List Int) (a : Int) :
    let m := l.foldl (fun m x => if m > x then x else m) a
    (m = a ∨ m ∈ l) ∧ m ≤ a ∧ ∀ x ∈ l, m ≤ x := by
  induction l generalizing a with
  | nil => simp
  | cons b l ih =>
    by_cases c : a > b
    · obtain ⟨h1, h2, h3⟩ := ih b
      simp only [List.foldl_cons, c, if_true]
      refine ⟨?_, by omega, ?_⟩
      · rcases h1 with h | h
        · right; rw [h]; exact List.mem_cons_self
        · right; exact List.mem_cons_of_mem _ h
      · intro x hx
        rcases List.mem_cons.mp hx with rfl | hx
        · exact h2
        · exact h3 x hx
    · obtain ⟨h1, h2, h3⟩ := ih a
      simp only [List.foldl_cons, c, if_false]
      refine ⟨?_, h2, ?_⟩
      · rcases h1 with h | h
        · left; exact h
        · right; exact List.mem_cons_of_mem _ h
      · intro x hx
        rcases List.mem_cons.mp hx with rfl | hx
        · omega
        · exact h3 x hx

theorem min_spec (l : List Int) (m : Int) (h : minL l = some m) : m ∈ l ∧ ∀ x ∈ l, m ≤ x := by
  cases l with
  | nil => simp [minL] at h
  | cons a l =>
    simp only [minL, Option.some.injEq] at h
    obtain ⟨h1, _, h3⟩ := foldl_min_spec (a :: l) a
    rw [h] at h1 h3
    refine ⟨?_, h3⟩
    rcases h1 with h1 | h1
    · rw [h1]; exact List.mem_cons_self
    · exact h1
theorem min_empty_err : minL [] = none := rfl

/-! ### the signed arithmetic shift is ⌊index · 2^shift⌋ for either sign of index and shift -/
theorem shift_eq_floor (i s : Int) : arithShift i s = ⌊(i : ℚ) * (2 : ℚ) ^ s⌋ := by
  by_cases hs : 0 ≤ s
  · rw [arithShift_nonneg _ _ hs]
    obtain ⟨n, rfl⟩ := Int.eq_ofNat_of_zero_le hs
    simp only [Int.toNat_natCast, zpow_natCast]
    have : (i : ℚ) * 2 ^ n = ((i * 2 ^ n : Int) : ℚ) := by push_cast; ring
    rw [this, Int.floor_intCast]
  · rw [arithShift_neg _ _ (by omega)]
    obtain ⟨n, hn⟩ := Int.eq_ofNat_of_zero_le (show 0 ≤ -s by omega)
    have hs' : s = -(n : Int) := by omega
    subst hs'
    simp only [Int.neg_neg, Int.toNat_natCast, zpow_neg, zpow_natCast]
    have : (i : ℚ) * ((2 : ℚ) ^ n)⁻¹ = (i : ℚ) / ((2 ^ n : ℕ) : ℚ) := by push_cast; ring
    rw [this, Rat.floor_intCast_div_natCast]
    push_cast; rfl

/-! ### Combinations -/

omit [DecidableEq α] in
/-- `chooseK k l` lists the `k`-element sublists of `l` — each once when `l` has no duplicates, in the
lexicographic order induced by the order of `l` -/
theorem chooseK_sublist (k : Nat) (l s : List α) (h : s ∈ chooseK k l) : s.Sublist l ∧ s.length = k := by
  induction l generalizing k s with
  | nil =>
    cases k with
    | zero => simp [chooseK] at h; subst h; simp
    | succ k => simp [chooseK] at h
  | cons a l ih =>
    cases k with
    | zero => simp [chooseK] at h; subst h; simp
    | succ k =>
      simp only [chooseK, List.mem_append, List.mem_map] at h
      rcases h with ⟨t, ht, rfl⟩ | h
      · obtain ⟨h1, h2⟩ := ih k t ht
        exact ⟨h1.cons_cons a, by simp [h2]⟩
      · obtain ⟨h1, h2⟩ := ih (k + 1) s h
        exact ⟨h1.cons a, h2⟩

omit [DecidableEq α] in
theorem chooseK_complete (k : Nat) (l s : List α) (h : s.Sublist l) (hk : s.length = k) : s ∈ chooseK k l := by
  induction h generalizing k with
  | slnil => subst hk; simp [chooseK]
  | cons a _ ih =>
    cases k with
    | zero => rw [List.length_eq_zero_iff] at hk; subst hk; simp [chooseK]
    | succ k => simp only [chooseK, List.mem_append]; right; exact ih (k + 1) hk
  | cons_cons a _ ih =>
    cases k with
    | zero => simp at hk
    | succ k =>
      simp only [chooseK, List.mem_append, List.mem_map]
      left; exact ⟨_, ih k (by simpa using hk), rfl⟩

/-- **comb_spec (finite table 0 ≤ k ≤ n ≤ 12, the property's quantifier)**: the enumerator visits exactly the
`k`-sublists of `0..n-1`, each once, in lexicographic order — decided in the kernel over the whole table -/
theorem comb_table : ∀ n ∈ List.range 13, ∀ k ∈ List.range (n + 1),
    combinations (n : Int) (k : Int) 5000 = chooseK k ((List.range n).map fun (i : Nat) => (i : Int)) := by
  decide +kernel

end SpatialId.C20
