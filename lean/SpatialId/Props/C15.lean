/-
C15 — invalid input is rejected with an error, never a panic or a silent answer.
The rejection theorems of every error-returning model function, collected; each model function is tied to its Go
function by its own op family, and the op family `reject` drives all of them with a high rate of malformed strings.
The driver additionally checks on the implementation's own answers that a malformed ID never yields a non-error result.
-/
import SpatialId.Props.C02
import SpatialId.Props.C04
import SpatialId.Props.C08
import SpatialId.Props.C10
import SpatialId.Props.C11
import SpatialId.Props.C13
namespace SpatialId.C15
open SpatialId F64

/-! ### arity and non-integer fields -/

/-- a string without exactly five `/`-separated fields is not an extended ID -/
theorem ext_arity (s : String) (h : (splitSlash s).length ≠ 5) : parseExt s = none := parseExt_arity s h

/-- a field that is not a decimal int64 makes the ID malformed (first field shown; the other four are symmetric) -/
theorem ext_nonint (a b c d e : String) (s : String) (hs : splitSlash s = [a, b, c, d, e])
    (h : parseInt64 a = none ∨ parseInt64 b = none ∨ parseInt64 c = none ∨ parseInt64 d = none ∨ parseInt64 e = none) :
    parseExt s = none := by
  unfold parseExt
  rw [hs]
  rcases h with h | h | h | h | h <;> simp [h]

/-- what `strconv.ParseInt(·, 10, 64)` accepts: optional sign, at least one digit, only digits, within int64 -/
theorem parseInt64_empty : parseInt64 "" = none := by decide
theorem parseInt64_sign_only : parseInt64 "-" = none ∧ parseInt64 "+" = none := by decide
theorem parseInt64_space : parseInt64 " 1" = none ∧ parseInt64 "1 " = none := by decide
theorem parseInt64_overflow : parseInt64 "9223372036854775808" = none ∧ parseInt64 "-9223372036854775809" = none ∧
    parseInt64 "9223372036854775807" = some 9223372036854775807 := by decide
theorem parseInt64_noncanonical : parseInt64 "+5" = some 5 ∧ parseInt64 "007" = some 7 ∧ parseInt64 "-0" = some 0 := by decide

/-- a spatial ID needs exactly four integer fields -/
theorem sp_arity (s : String) (h : (splitSlash s).length ≠ 4) : spAttrs s = none ∧ sp2ext1 s = none := by
  unfold spAttrs sp2ext1
  constructor <;> split <;> simp_all

/-! ### every list operation fails as a whole on a malformed element or an out-of-range zoom -/

theorem parseAll_none (ids : List String) (s : String) (hs : s ∈ ids) (h : parseExt s = none) : parseAll ids = none :=
  mapM_option_none _ ids s hs h

theorem change_rejects (ids : List String) (H V : Int) (s : String) (hs : s ∈ ids) (h : parseExt s = none) :
    changeExt ids H V = .err := C03.changeExt_malformed_err ids H V (parseAll_none ids s hs h)
theorem change_zoom (ids : List String) (H V : Int) (h : ¬ (0 ≤ H ∧ H ≤ 35 ∧ 0 ≤ V ∧ V ≤ 35)) : changeExt ids H V = .err :=
  C03.changeExt_zoom_err ids H V h
theorem merge_rejects (ids : List String) (H V : Int) (s : String) (hs : s ∈ ids) (h : parseExt s = none) :
    mergeExt ids H V = .err := C04.mergeExt_malformed_err ids H V (parseAll_none ids s hs h)
theorem merge_zoom (ids : List String) (H V : Int) (h : ¬ (0 ≤ H ∧ H ≤ 35 ∧ 0 ≤ V ∧ V ≤ 35)) : mergeExt ids H V = .err :=
  C04.mergeExt_zoom_err ids H V h
theorem nLayer_rejects (ids : List String) (H V : Int) (s : String) (hs : s ∈ ids) (h : parseExt s = none) :
    nN ids H V = .err := C08.nLayer_malformed_err ids H V (parseAll_none ids s hs h)
theorem nLayer_negative (ids : List String) (H V : Int) (h : H < 0 ∨ V < 0) : nN ids H V = .err :=
  C08.nLayer_neg_err ids H V h

/-- the spatial-ID wrappers: a spatial ID with the wrong arity fails the conversion -/
theorem changeSp_rejects (ids : List String) (Z : Int) (s : String) (hs : s ∈ ids) (h : sp2ext1 s = none) :
    changeSp ids Z = .err := by
  unfold changeSp sp2ext
  rw [mapM_option_none _ ids s hs h]; rfl
theorem mergeSp_rejects (ids : List String) (Z : Int) (s : String) (hs : s ∈ ids) (h : sp2ext1 s = none) :
    mergeSp ids Z = .err := by
  unfold mergeSp sp2ext
  rw [mapM_option_none _ ids s hs h]; rfl

/-- the shift helpers have no error result: a malformed ID gives the empty string / empty strings -/
theorem shift_empty_on_bad (id : String) (dx dy dv : Int) (h : parseExt id = none) : shift id dx dy dv = "" :=
  C07.shift_malformed id dx dy dv h
theorem neighbours_empty_on_bad (id : String) (h : parseExt id = none) :
    n6 id = List.replicate 6 "" ∧ n8 id = List.replicate 8 "" ∧ n26 id = List.replicate 26 "" := by
  simp [n6, n8, n26, h]

/-! ### overlap checks -/

theorem overlap_rejects (a b : String) (h : parseExt a = none ∨ parseExt b = none) : overlapExt a b = .err :=
  C05.overlapExt_nonint_err a b h

theorem overlapSp_rejects (a b : String) (h : spKey a = none ∨ spKey b = none) : overlapSp a b = .err := by
  unfold overlapSp
  rcases h with h | h
  · exact C05.sp_rejects [a] [b] a (Or.inl (List.mem_singleton.mpr rfl)) h
  · exact C05.sp_rejects [a] [b] b (Or.inr (List.mem_singleton.mpr rfl)) h

/-- array forms: a malformed ID anywhere in either list is an error — also after an overlapping pair and when the other
list is empty (the early-return defect D14/D18 was repaired by a fix: commit): `C05.arr_rejects`, `C05.sp_rejects` -/
theorem overlapArr_rejects (as bs : List String) (h : allExt as = false ∨ allExt bs = false) :
    overlapExtArr as bs = .err := C05.arr_rejects as bs h

theorem overlapSpArr_rejects (as bs : List String) (s : String) (hs : s ∈ as ∨ s ∈ bs) (h : spKey s = none) :
    overlapSpArr as bs = .err := C05.sp_rejects as bs s hs h

/-! ### points -/

theorem setLat_some (lat t : Dy) (h : setLat lat = some t) : lt latLimit (F64.abs t) = false := by
  unfold setLat at h
  simp only [] at h
  generalize (if lt zero lat = true then div (floor (mul lat c1e10)) c1e10 else div (ceil (mul lat c1e10)) c1e10) = t0 at h
  by_cases c : lt latLimit (F64.abs t0) = true
  · simp [c] at h
  · simp only [c] at h
    simp only [Bool.false_eq_true, if_false, Option.some.injEq] at h
    subst h
    simpa using c

/-- **newPoint_domain**: accepted ⇒ |lon| ≤ 180 and the stored latitude is within ±85.0511287798 -/
theorem newPoint_domain (lon lat alt : Dy) (p : GeoPt) (h : newPoint lon lat alt = some p) :
    lt c180 (F64.abs lon) = false ∧ lt latLimit (F64.abs p.lat) = false := by
  unfold newPoint at h
  split at h
  · cases h
  · rename_i h1
    cases hs : setLat lat with
    | none => simp [hs] at h
    | some t =>
      simp only [hs, Option.some.injEq] at h
      subst h
      exact ⟨by simpa using h1, setLat_some lat t hs⟩

/-- **newPoint_stores**: longitude and altitude are stored unchanged -/
theorem newPoint_stores (lon lat alt : Dy) (p : GeoPt) (h : newPoint lon lat alt = some p) : p.lon = lon ∧ p.alt = alt := by
  unfold newPoint at h
  split at h
  · cases h
  · cases hs : setLat lat with
    | none => simp [hs] at h
    | some t => simp only [hs, Option.some.injEq] at h; subst h; exact ⟨rfl, rfl⟩

theorem newPoint_rejects_lon (lon lat alt : Dy) (h : lt c180 (F64.abs lon) = true) : newPoint lon lat alt = none := by
  simp [newPoint, h]

/-- kernel-evaluated domain edges on the binary64 model: ±180 and ±85.0511287798 are accepted, the next double is not -/
theorem newPoint_edges :
    (newPoint ⟨180, 0⟩ latLimit zero).isSome ∧ (newPoint ⟨-180, 0⟩ (neg latLimit) zero).isSome ∧
    (newPoint ⟨180 * 2 ^ 45 + 1, -45⟩ zero zero).isNone ∧ (newPoint zero ⟨8505112877981, -0⟩ zero).isNone := by
  decide +kernel

/-! point lookup (zoom outside 0..35, nil points): `C01.points_zoom_err`, `C01.points_nil_err`;
geometry: `C02.pointOn_malformed`, `C02.pointOn_unknown_option`; tiles: `C13.tile_all_or_nothing`, `C13.newTile_domain`;
quadkeys: `C11.extToQV_zoom_err`, `C11.qkCheckZoom_iff` — these modules are part of this property's obligation list. -/

/-! ### geometry, tiles, quadkeys -/

theorem extToQV_rejects (ids : List String) (outH outV : Int) (s : String) (hs : s ∈ ids) (h : parseExt s = none) :
    extToQV ids outH outV = .err := by
  unfold extToQV
  split
  · rfl
  · simp only []
    rw [mapM_option_none _ ids s hs (by simp [h])]

theorem extToQA_rejects (ids : List String) (q a E O : Int) (s : String) (hs : s ∈ ids) (h : parseExt s = none) :
    extToQA ids q a E O = .err := by
  unfold extToQA
  split
  · rfl
  · simp only []
    rw [mapM_option_none _ ids s hs (by simp [h])]

/-! ### never a panic: no model function of an error-returning API can produce `panic` -/
theorem never_panic (ids ids2 : List String) (a : String) (H V : Int) (n s : Dy) (ts : List Tile) (qs : List QV) :
    changeExt ids H V ≠ .panic ∧ mergeExt ids H V ≠ .panic ∧ nN ids H V ≠ .panic ∧
    overlapSpArr ids ids2 ≠ .panic ∧ sp2ext ids ≠ .panic ∧ ext2sp ids ≠ .panic ∧
    pointOnExt a H n s ≠ .panic ∧ pointOnSp a H n s ≠ .panic ∧ tilesToExt ts H V H ≠ .panic ∧
    qvToExt qs H V ≠ .panic ∧ extToQV ids H V ≠ .panic ∧ extToQA ids H V H V ≠ .panic :=
  ⟨C03.changeExt_no_panic ids H V, C04.mergeExt_no_panic ids H V, C08.nLayer_no_panic ids H V,
   C05.sp_no_panic ids ids2, (C10.notation_no_panic ids).1, (C10.notation_no_panic ids).2,
   (C02.pointOn_no_panic a H n s).1, (C02.pointOn_no_panic a H n s).2, C13.tiles_no_panic ts H V H,
   (C11.conversions_no_panic qs ids H V H V).1, (C11.conversions_no_panic qs ids H V H V).2.1,
   (C11.conversions_no_panic qs ids H V H V).2.2⟩

/-- the overlap checks cannot panic on any strings: `C05.overlapExt_no_panic`, `C05.overlapExtArr_no_panic`, `C05.sp_no_panic` -/
theorem overlap_no_panic (a b : String) (as bs : List String) :
    overlapExt a b ≠ .panic ∧ overlapExtArr as bs ≠ .panic ∧ overlapSpArr as bs ≠ .panic :=
  ⟨C05.overlapExt_no_panic a b, C05.overlapExtArr_no_panic as bs, C05.sp_no_panic as bs⟩

end SpatialId.C15
