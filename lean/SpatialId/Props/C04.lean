/-
C04 — merging never changes the covered region, merges all it can, and is idempotent.
Model: SpatialId/Model/Merge.lean, tied to integrate.MergeExtendedSpatialIds / MergeSpatialIds and
ExtendedSpatialID.Higher by the op families mrgExt, mrgSp.  Semantics over ℝ³ (Spec/Region.lean).
-/
import SpatialId.Lemmas.Merge
namespace SpatialId.C04
open SpatialId

/-- a candidate voxel is *filled* when the eligible inputs filed under it cover it completely -/
def filled (es : List Ext) (H V : Int) (k : Ext) : Prop := region k ⊆ regionL (membersOf es H V k)

/-- **mem_merge** — complete characterisation of the result: ineligible inputs verbatim; the candidate voxel of
every filled group; the members of every unfilled group verbatim. -/
theorem mem_merge (es : List Ext) (hw : wfL es) (H V : Int) (hH0 : 0 ≤ H) (hV0 : 0 ≤ V) (o : Ext) :
    o ∈ mergeExtE es H V ↔
      (o ∈ es ∧ ¬ (H ≤ o.h ∧ V ≤ o.v)) ∨
      (∃ e ∈ es, (H ≤ e.h ∧ V ≤ e.v) ∧ o = C05.anc e H V ∧ filled es H V (C05.anc e H V)) ∨
      (o ∈ es ∧ (H ≤ o.h ∧ V ≤ o.v) ∧ ¬ filled es H V (C05.anc o H V)) := by
  unfold mergeExtE
  simp only [mem_dedup, List.mem_append, List.mem_filter, List.mem_flatMap, groupsOf, List.mem_map,
    Bool.not_eq_true', eligible_iff]
  have key : ∀ e ∈ es, (H ≤ e.h ∧ V ≤ e.v) →
      ((Group.dense ⟨keyOf H V e, membersOf es H V (keyOf H V e),
          (membersOf es H V (keyOf H V e)).flatMap fun e' => unitsOf e' (maxZoomH es) (maxZoomV es)⟩
        (pow2 (maxZoomH es - H) * pow2 (maxZoomH es - H) * pow2 (maxZoomV es - V)) = true) ↔
        filled es H V (C05.anc e H V)) := by
    intro e he hel
    rw [keyOf_eq_anc es hw H V e he hel.1 hel.2]
    exact dense_iff_filled es hw H V hH0 hV0 e he hel.1 hel.2
  have elig_false : ∀ e : Ext, eligible H V e = false ↔ ¬ (H ≤ e.h ∧ V ≤ e.v) := by
    intro e; rw [← eligible_iff]; simp
  constructor
  · rintro (⟨ho, hne⟩ | ⟨g, ⟨k, hk, rfl⟩, hog⟩)
    · exact Or.inl ⟨ho, (elig_false o).mp hne⟩
    · obtain ⟨e, ⟨he, hel⟩, rfl⟩ := hk
      have hd := key e he hel
      by_cases hf : filled es H V (C05.anc e H V)
      · rw [if_pos (hd.mpr hf)] at hog
        rw [List.mem_singleton] at hog
        right; left
        exact ⟨e, he, hel, by rw [hog]; exact keyOf_eq_anc es hw H V e he hel.1 hel.2, hf⟩
      · rw [if_neg (fun h => hf (hd.mp h))] at hog
        simp only at hog
        obtain ⟨ho, hoel, hok⟩ := (mem_membersOf es H V _ o).mp hog
        right; right
        refine ⟨ho, hoel, ?_⟩
        rw [← keyOf_eq_anc es hw H V o ho hoel.1 hoel.2, hok, keyOf_eq_anc es hw H V e he hel.1 hel.2]
        exact hf
  · rintro (⟨ho, hne⟩ | ⟨e, he, hel, rfl, hf⟩ | ⟨ho, hoel, hnf⟩)
    · exact Or.inl ⟨ho, (elig_false o).mpr hne⟩
    · right
      refine ⟨_, ⟨keyOf H V e, ⟨e, ⟨he, hel⟩, rfl⟩, rfl⟩, ?_⟩
      rw [if_pos ((key e he hel).mpr hf)]
      exact List.mem_singleton.mpr (keyOf_eq_anc es hw H V e he hel.1 hel.2).symm
    · right
      refine ⟨_, ⟨keyOf H V o, ⟨o, ⟨ho, hoel⟩, rfl⟩, rfl⟩, ?_⟩
      rw [if_neg (fun h => hnf ((key o ho hoel).mp h))]
      exact (mem_membersOf es H V _ o).mpr ⟨ho, hoel, rfl⟩

/-- **merge_nodup** -/
theorem merge_nodup (es : List Ext) (H V : Int) : (mergeExtE es H V).Nodup := nodup_dedup _

/-- **merge_region**: the result covers exactly the region the input covers -/
theorem merge_region (es : List Ext) (hw : wfL es) (H V : Int) (hH0 : 0 ≤ H) (hV0 : 0 ≤ V) (p : Pt) :
    p ∈ regionL (mergeExtE es H V) ↔ p ∈ regionL es := by
  constructor
  · rintro ⟨o, ho, hp⟩
    rcases (mem_merge es hw H V hH0 hV0 o).mp ho with ⟨h, _⟩ | ⟨e, he, hel, rfl, hf⟩ | ⟨h, _, _⟩
    · exact ⟨o, h, hp⟩
    · obtain ⟨m, hm, hpm⟩ := hf hp
      exact ⟨m, ((mem_membersOf es H V _ m).mp hm).1, hpm⟩
    · exact ⟨o, h, hp⟩
  · rintro ⟨e, he, hp⟩
    by_cases hel : H ≤ e.h ∧ V ≤ e.v
    · by_cases hf : filled es H V (C05.anc e H V)
      · refine ⟨C05.anc e H V, (mem_merge es hw H V hH0 hV0 _).mpr (Or.inr (Or.inl ⟨e, he, hel, rfl, hf⟩)), ?_⟩
        exact region_subset_anc e H V hH0 hV0 hel.1 hel.2 (hw e he).2.2.1 (hw e he).2.2.2 hp
      · exact ⟨e, (mem_merge es hw H V hH0 hV0 e).mpr (Or.inr (Or.inr ⟨he, hel, hf⟩)), hp⟩
    · exact ⟨e, (mem_merge es hw H V hH0 hV0 e).mpr (Or.inl ⟨he, hel⟩), hp⟩

theorem anc_self (e : Ext) (H V : Int) (h1 : e.h = H) (h2 : e.v = V) : C05.anc e H V = e := by
  cases e; simp only at h1 h2; subst h1 h2; simp [C05.anc]

/-- **merge_dense**: a target voxel completely filled by eligible inputs appears in the result, and the inputs
it replaces (those filed under it, other than the voxel itself) do not -/
theorem merge_dense (es : List Ext) (hw : wfL es) (H V : Int) (hH0 : 0 ≤ H) (hV0 : 0 ≤ V)
    (e : Ext) (he : e ∈ es) (hel : H ≤ e.h ∧ V ≤ e.v) (hf : filled es H V (C05.anc e H V)) :
    C05.anc e H V ∈ mergeExtE es H V ∧
    ∀ e' ∈ membersOf es H V (C05.anc e H V), e' ≠ C05.anc e H V → e' ∉ mergeExtE es H V := by
  refine ⟨(mem_merge es hw H V hH0 hV0 _).mpr (Or.inr (Or.inl ⟨e, he, hel, rfl, hf⟩)), ?_⟩
  intro e' he' hne hmem
  obtain ⟨hes', hel', hk'⟩ := (mem_membersOf es H V _ e').mp he'
  rw [keyOf_eq_anc es hw H V e' hes' hel'.1 hel'.2] at hk'
  rcases (mem_merge es hw H V hH0 hV0 e').mp hmem with ⟨_, h⟩ | ⟨e'', _, _, heq, _⟩ | ⟨_, _, hnf⟩
  · exact h hel'
  · have : C05.anc e' H V = e' := anc_self e' H V (by rw [heq]; rfl) (by rw [heq]; rfl)
    exact hne (by rw [← this, hk'])
  · rw [hk'] at hnf; exact hnf hf

/-- **merge_unchanged**: every other input (coarser than the target in either axis, or part of an incompletely
filled voxel) is returned unchanged -/
theorem merge_unchanged (es : List Ext) (hw : wfL es) (H V : Int) (hH0 : 0 ≤ H) (hV0 : 0 ≤ V)
    (e : Ext) (he : e ∈ es) (h : ¬ (H ≤ e.h ∧ V ≤ e.v) ∨ ¬ filled es H V (C05.anc e H V)) : e ∈ mergeExtE es H V := by
  rw [mem_merge es hw H V hH0 hV0]
  by_cases hel : H ≤ e.h ∧ V ≤ e.v
  · rcases h with h | h
    · exact absurd hel h
    · exact Or.inr (Or.inr ⟨he, hel, h⟩)
  · exact Or.inl ⟨he, hel⟩

/-- the result of a merge is again well-formed -/
theorem merge_wf (es : List Ext) (hw : wfL es) (H V : Int) (hH0 : 0 ≤ H) (hV0 : 0 ≤ V) : wfL (mergeExtE es H V) := by
  intro o ho
  rcases (mem_merge es hw H V hH0 hV0 o).mp ho with ⟨h, _⟩ | ⟨e, he, _, rfl, _⟩ | ⟨h, _, _⟩
  · exact hw o h
  · exact anc_wf e H V hH0 hV0 (hw e he).2.2.1 (hw e he).2.2.2
  · exact hw o h

/-- **merge_idem**: merging the result again changes nothing (as sets; both are duplicate-free) -/
theorem merge_idem (es : List Ext) (hw : wfL es) (H V : Int) (hH0 : 0 ≤ H) (hV0 : 0 ≤ V) (o : Ext) :
    o ∈ mergeExtE (mergeExtE es H V) H V ↔ o ∈ mergeExtE es H V := by
  let R := mergeExtE es H V
  have hwR : wfL R := merge_wf es hw H V hH0 hV0
  have mR := mem_merge R hwR H V hH0 hV0
  have mE := mem_merge es hw H V hH0 hV0
  -- a filled candidate of the first pass, sitting in R, is filled in the second pass (by itself)
  have selfFilled : ∀ k, k ∈ R → k.h = H → k.v = V → filled R H V k := by
    intro k hk h1 h2 p hp
    refine ⟨k, (mem_membersOf R H V k k).mpr ⟨hk, ⟨by omega, by omega⟩, ?_⟩, hp⟩
    rw [keyOf_eq_anc R hwR H V k hk (by omega) (by omega)]
    exact anc_self k H V h1 h2
  -- an unfilled group keeps exactly its members, so it stays unfilled
  have unfilledStays : ∀ e ∈ es, (H ≤ e.h ∧ V ≤ e.v) → ¬ filled es H V (C05.anc e H V) → ¬ filled R H V (C05.anc e H V) := by
    intro e he hel hnf hfR
    apply hnf
    intro p hp
    obtain ⟨m, hm, hpm⟩ := hfR hp
    obtain ⟨hmR, hmel, hmk⟩ := (mem_membersOf R H V _ m).mp hm
    rw [keyOf_eq_anc R hwR H V m hmR hmel.1 hmel.2] at hmk
    rcases (mE m).mp hmR with ⟨_, h⟩ | ⟨e'', he'', hel'', heq, hf''⟩ | ⟨hmes, _, _⟩
    · exact absurd hmel h
    · exfalso
      have : C05.anc m H V = m := anc_self m H V (by rw [heq]; rfl) (by rw [heq]; rfl)
      rw [this] at hmk
      rw [← hmk, heq] at hnf
      exact hnf hf''
    · exact ⟨m, (mem_membersOf es H V _ m).mpr ⟨hmes, hmel, by rw [keyOf_eq_anc es hw H V m hmes hmel.1 hmel.2]; exact hmk⟩, hpm⟩
  constructor
  · intro ho
    rcases (mR o).mp ho with ⟨h, _⟩ | ⟨e, heR, hel, rfl, hfR⟩ | ⟨h, _, _⟩
    · exact h
    · rcases (mE e).mp heR with ⟨_, h⟩ | ⟨e'', _, _, heq, _⟩ | ⟨hees, _, hnf⟩
      · exact absurd hel h
      · have : C05.anc e H V = e := anc_self e H V (by rw [heq]; rfl) (by rw [heq]; rfl)
        rw [this]; exact heR
      · exact absurd hfR (unfilledStays e hees hel hnf)
    · exact h
  · intro ho
    rw [mR]
    rcases (mE o).mp ho with ⟨_, h⟩ | ⟨e, he, hel, rfl, hf⟩ | ⟨hoes, hel, hnf⟩
    · exact Or.inl ⟨ho, h⟩
    · right; left
      have hs : C05.anc (C05.anc e H V) H V = C05.anc e H V := anc_self _ H V rfl rfl
      refine ⟨C05.anc e H V, ho, ⟨Int.le_refl _, Int.le_refl _⟩, hs.symm, ?_⟩
      rw [hs]; exact selfFilled _ ho rfl rfl
    · exact Or.inr (Or.inr ⟨ho, hel, unfilledStays o hoes hel hnf⟩)

/-! ### string level -/

theorem mergeExt_zoom_err (ids : List String) (H V : Int) (h : ¬ (0 ≤ H ∧ H ≤ 35 ∧ 0 ≤ V ∧ V ≤ 35)) :
    mergeExt ids H V = .err := by
  unfold mergeExt checkZoom
  have : (decide (0 ≤ H) && decide (H ≤ 35) && (decide (0 ≤ V) && decide (V ≤ 35))) = false := by
    simp only [Bool.and_eq_false_iff, decide_eq_false_iff_not]; omega
  simp [this]

theorem mergeExt_malformed_err (ids : List String) (H V : Int) (h : parseAll ids = none) : mergeExt ids H V = .err := by
  unfold mergeExt; split
  · rfl
  · simp [h]

theorem mergeExt_no_panic (ids : List String) (H V : Int) : mergeExt ids H V ≠ .panic := by
  unfold mergeExt; split
  · simp
  · split <;> simp

/-- regression witnesses (kernel-evaluated): the ground-level pair is no longer merged (D2), a complete sibling
set straddling nothing is -/
example : mergeExtE [⟨5, 1, 1, 5, -1⟩, ⟨5, 1, 1, 5, 0⟩] 5 4 = [⟨5, 1, 1, 5, -1⟩, ⟨5, 1, 1, 5, 0⟩] := by decide
example : mergeExtE [⟨5, 1, 1, 5, -2⟩, ⟨5, 1, 1, 5, -1⟩] 5 4 = [⟨5, 1, 1, 4, -1⟩] := by decide

end SpatialId.C04
