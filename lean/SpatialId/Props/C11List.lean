/-
C11 (list level) — the cross-group de-duplication of the exported "to quadkey" conversions reports every candidate pair exactly
once, never an empty group; and converting the reported pairs back yields exactly the voxels of the two-step zoom change
(through the quadkey zooms), in particular the original IDs when all zooms coincide.
-/
import SpatialId.Props.C11
import SpatialId.Props.C03
namespace SpatialId.C11
open SpatialId

abbrev Pair := Int × Int

/-- the inner fold of `groupPairs`: elements of `c` not yet seen are appended to the fresh list and added to the seen list -/
def innerStep (acc : List Pair × List Pair) (p : Pair) : List Pair × List Pair :=
  if p ∈ acc.1 then acc else (p :: acc.1, acc.2 ++ [p])

theorem inner_spec (c : List Pair) : ∀ (a1 a2 : List Pair), (∀ p ∈ a2, p ∈ a1) → a2.Nodup →
    let r := c.foldl innerStep (a1, a2)
    (∀ p, p ∈ r.2 ↔ p ∈ a2 ∨ (p ∈ c ∧ p ∉ a1)) ∧ (∀ p, p ∈ r.1 ↔ p ∈ a1 ∨ p ∈ c) ∧ r.2.Nodup ∧ (∀ p ∈ r.2, p ∈ r.1) := by
  induction c with
  | nil => intro a1 a2 h hn; simp only [List.foldl_nil]; exact ⟨by simp, by simp, hn, h⟩
  | cons q c ih =>
    intro a1 a2 h hn
    simp only [List.foldl_cons]
    by_cases hq : q ∈ a1
    · have e : innerStep (a1, a2) q = (a1, a2) := by simp [innerStep, hq]
      rw [e]
      obtain ⟨i1, i2, i3, i4⟩ := ih a1 a2 h hn
      refine ⟨fun p => ?_, fun p => ?_, i3, i4⟩
      · rw [i1 p]; constructor
        · rintro (h1 | ⟨h1, h2⟩); · exact Or.inl h1
          exact Or.inr ⟨List.mem_cons_of_mem _ h1, h2⟩
        · rintro (h1 | ⟨h1, h2⟩); · exact Or.inl h1
          rcases List.mem_cons.mp h1 with rfl | h1
          · exact absurd hq h2
          · exact Or.inr ⟨h1, h2⟩
      · rw [i2 p]; constructor
        · rintro (h1 | h1); · exact Or.inl h1
          exact Or.inr (List.mem_cons_of_mem _ h1)
        · rintro (h1 | h1); · exact Or.inl h1
          rcases List.mem_cons.mp h1 with rfl | h1
          · exact Or.inl hq
          · exact Or.inr h1
    · have e : innerStep (a1, a2) q = (q :: a1, a2 ++ [q]) := by simp [innerStep, hq]
      rw [e]
      have h' : ∀ p ∈ a2 ++ [q], p ∈ q :: a1 := by
        intro p hp
        rcases List.mem_append.mp hp with hp | hp
        · exact List.mem_cons_of_mem _ (h p hp)
        · rw [List.mem_singleton] at hp; subst hp; exact List.mem_cons_self
      have hn' : (a2 ++ [q]).Nodup := by
        rw [List.nodup_append]
        refine ⟨hn, by simp, ?_⟩
        intro a ha b hb
        rw [List.mem_singleton] at hb; subst hb
        intro hab; subst hab; exact hq (h a ha)
      obtain ⟨i1, i2, i3, i4⟩ := ih (q :: a1) (a2 ++ [q]) h' hn'
      refine ⟨fun p => ?_, fun p => ?_, i3, i4⟩
      · rw [i1 p]; constructor
        · rintro (h1 | ⟨h1, h2⟩)
          · rcases List.mem_append.mp h1 with h1 | h1
            · exact Or.inl h1
            · rw [List.mem_singleton] at h1; subst h1; exact Or.inr ⟨List.mem_cons_self, hq⟩
          · exact Or.inr ⟨List.mem_cons_of_mem _ h1, fun hc => h2 (List.mem_cons_of_mem _ hc)⟩
        · rintro (h1 | ⟨h1, h2⟩)
          · exact Or.inl (List.mem_append_left _ h1)
          · rcases List.mem_cons.mp h1 with rfl | h1
            · exact Or.inl (List.mem_append_right _ (List.mem_singleton.mpr rfl))
            · by_cases hpq : p = q
              · subst hpq; exact Or.inl (List.mem_append_right _ (List.mem_singleton.mpr rfl))
              · exact Or.inr ⟨h1, fun hc => by
                  rcases List.mem_cons.mp hc with hc | hc
                  · exact hpq hc
                  · exact h2 hc⟩
      · rw [i2 p]; constructor
        · rintro (h1 | h1)
          · rcases List.mem_cons.mp h1 with rfl | h1
            · exact Or.inr List.mem_cons_self
            · exact Or.inl h1
          · exact Or.inr (List.mem_cons_of_mem _ h1)
        · rintro (h1 | h1)
          · exact Or.inl (List.mem_cons_of_mem _ h1)
          · rcases List.mem_cons.mp h1 with rfl | h1
            · exact Or.inl List.mem_cons_self
            · exact Or.inr h1

/-- the outer step of `groupPairs` -/
def outerStep (st : List Pair × List (List Pair)) (c : List Pair) : List Pair × List (List Pair) :=
  let fresh := (c.foldl innerStep (st.1, [])).2
  let seen := fresh.reverse ++ st.1
  if fresh.isEmpty then (seen, st.2) else (seen, st.2 ++ [fresh])

theorem groupPairs_eq (cands : List (List Pair)) : groupPairs cands = (cands.foldl outerStep ([], [])).2 := rfl

/-- state invariant of the outer fold: the seen list is the union of the reported groups, which are pairwise disjoint,
duplicate-free and non-empty -/
def GInv (st : List Pair × List (List Pair)) : Prop :=
  (∀ p, p ∈ st.1 ↔ p ∈ st.2.flatten) ∧ st.2.flatten.Nodup ∧ ∀ g ∈ st.2, g ≠ []

theorem outer_spec (cs : List (List Pair)) : ∀ st, GInv st →
    GInv (cs.foldl outerStep st) ∧
    ∀ p, p ∈ (cs.foldl outerStep st).2.flatten ↔ p ∈ st.2.flatten ∨ ∃ c ∈ cs, p ∈ c := by
  induction cs with
  | nil => intro st h; simp only [List.foldl_nil]; exact ⟨h, by simp⟩
  | cons c cs ih =>
    intro st ⟨h1, h2, h3⟩
    simp only [List.foldl_cons]
    obtain ⟨i1, _, i3, _⟩ := inner_spec c st.1 [] (by simp) List.nodup_nil
    -- fresh := elements of c not in st.1
    have hfresh : ∀ p, p ∈ (c.foldl innerStep (st.1, [])).2 ↔ p ∈ c ∧ p ∉ st.1 := by
      intro p; rw [i1 p]; simp
    have hstep : GInv (outerStep st c) ∧ ∀ p, p ∈ (outerStep st c).2.flatten ↔ p ∈ st.2.flatten ∨ p ∈ c := by
      unfold outerStep
      simp only []
      by_cases he : (c.foldl innerStep (st.1, [])).2.isEmpty = true
      · rw [if_pos he]
        have hnil : (c.foldl innerStep (st.1, [])).2 = [] := List.isEmpty_iff.mp he
        simp only [hnil, List.reverse_nil, List.nil_append]
        refine ⟨⟨h1, h2, h3⟩, fun p => ⟨Or.inl, ?_⟩⟩
        rintro (hp | hp); · exact hp
        by_cases hs : p ∈ st.1
        · exact (h1 p).mp hs
        · have := (hfresh p).mpr ⟨hp, hs⟩; rw [hnil] at this; simp at this
      · rw [if_neg he]
        refine ⟨⟨fun p => ?_, ?_, ?_⟩, fun p => ?_⟩
        · simp only [List.mem_append, List.mem_reverse, List.flatten_append, List.flatten_cons, List.flatten_nil,
            List.append_nil, hfresh, h1 p]
          constructor
          · rintro (⟨hc, hn⟩ | hp); · exact Or.inr ⟨hc, hn⟩
            exact Or.inl hp
          · rintro (hp | ⟨hc, hn⟩); · exact Or.inr hp
            exact Or.inl ⟨hc, hn⟩
        · simp only [List.flatten_append, List.flatten_cons, List.flatten_nil, List.append_nil]
          rw [List.nodup_append]
          refine ⟨h2, i3, ?_⟩
          intro a ha b hb hab; subst hab
          exact ((hfresh a).mp hb).2 ((h1 a).mpr ha)
        · intro g hg
          rcases List.mem_append.mp hg with hg | hg
          · exact h3 g hg
          · rw [List.mem_singleton] at hg; subst hg
            intro hn; exact he (List.isEmpty_iff.mpr hn)
        · simp only [List.flatten_append, List.flatten_cons, List.flatten_nil, List.append_nil, List.mem_append, hfresh]
          constructor
          · rintro (hp | ⟨hc, _⟩); · exact Or.inl hp
            exact Or.inr hc
          · rintro (hp | hc); · exact Or.inl hp
            by_cases hs : p ∈ st.1
            · exact Or.inl ((h1 p).mp hs)
            · exact Or.inr ⟨hc, hs⟩
    obtain ⟨j1, j2⟩ := ih (outerStep st c) hstep.1
    refine ⟨j1, fun p => ?_⟩
    rw [j2 p, hstep.2 p]
    constructor
    · rintro ((hp | hp) | ⟨c', hc', hp⟩)
      · exact Or.inl hp
      · exact Or.inr ⟨c, List.mem_cons_self, hp⟩
      · exact Or.inr ⟨c', List.mem_cons_of_mem _ hc', hp⟩
    · rintro (hp | ⟨c', hc', hp⟩)
      · exact Or.inl (Or.inl hp)
      · rcases List.mem_cons.mp hc' with rfl | hc'
        · exact Or.inl (Or.inr hp)
        · exact Or.inr ⟨c', hc', hp⟩

/-- **no_pair_twice / groups_complete**: the reported groups contain every candidate pair, each exactly once over all groups,
and no group is empty -/
theorem groupPairs_spec (cands : List (List Pair)) :
    (∀ p, p ∈ (groupPairs cands).flatten ↔ ∃ c ∈ cands, p ∈ c) ∧ (groupPairs cands).flatten.Nodup ∧
    ∀ g ∈ groupPairs cands, g ≠ [] := by
  rw [groupPairs_eq]
  obtain ⟨⟨_, h2, h3⟩, h4⟩ := outer_spec cands ([], []) ⟨by simp, by simp, by simp⟩
  refine ⟨fun p => ?_, h2, h3⟩
  rw [h4 p]; simp

/-! ### the exported round trip -/

theorem mapM_option_map {α β} (f : α → Option β) (g : α → β) :
    ∀ l : List α, (∀ a ∈ l, f a = some (g a)) → l.mapM f = some (l.map g) := by
  intro l
  induction l with
  | nil => intro _; rfl
  | cons a l ih =>
    intro h
    rw [List.mapM_cons, h a List.mem_cons_self, ih (fun b hb => h b (List.mem_cons_of_mem _ hb))]
    rfl

/-- an index meeting a valid index of zoom `z` is a valid index of zoom `Z` -/
theorem axisMeet_range (z Z : Nat) (i j : Int) (hi : 0 ≤ i ∧ i < 2 ^ z) (h : axisMeet z Z i j) : 0 ≤ j ∧ j < 2 ^ Z := by
  unfold axisMeet at h
  split at h
  · rename_i hle
    obtain ⟨d, rfl⟩ := Nat.exists_eq_add_of_le hle
    simp only [Nat.add_sub_cancel_left] at h
    have hp := two_pow_pos d
    obtain ⟨h1, h2⟩ := (ediv_eq_iff_block j i (2 ^ d) hp).mp h
    have e : (2 : Int) ^ (z + d) = 2 ^ z * 2 ^ d := by rw [Int.pow_add]
    rw [e]
    constructor
    · have : 0 ≤ i * 2 ^ d := Int.mul_nonneg hi.1 (Int.le_of_lt hp)
      omega
    · have : (i + 1) * 2 ^ d ≤ 2 ^ z * 2 ^ d := Int.mul_le_mul_of_nonneg_right (by omega) (Int.le_of_lt hp)
      rw [Int.add_mul, Int.one_mul] at this
      omega
  · rename_i hlt
    have hlt' : Z ≤ z := by omega
    obtain ⟨d, rfl⟩ := Nat.exists_eq_add_of_le hlt'
    simp only [Nat.add_sub_cancel_left] at h
    have hp := two_pow_pos d
    subst h
    constructor
    · exact Int.ediv_nonneg hi.1 (Int.le_of_lt hp)
    · apply Int.ediv_lt_of_lt_mul hp
      rw [← Int.pow_add]; exact hi.2

/-- candidates of one valid extended ID at quadkey zoom `h`, vertical zoom `v` -/
def cands (h v : Int) (e : Ext) : List Pair :=
  (hZoomIdx e.h e.x e.y h).flatMap fun p => (vZoomIdx e.v e.f v).map fun f => (qkEnc h p.1 p.2, f)

/-- candidates of one input string (empty for a malformed one, which cannot occur after `parseAll` succeeded) -/
def candsOf (h v : Int) (s : String) : List Pair := match parseExt s with | some e => cands h v e | none => []

/-- **roundtrip_eq_changeZoom**: for valid IDs, converting to (quadkey, vertical index) pairs at zooms `(h, v)` and converting
all reported pairs back at zooms `(h', v')` succeeds and returns exactly the voxels of the two zoom changes
`ids → (h, v) → (h', v')` of C03 -/
theorem roundtrip_eq_changeZoom (ids : List String) (es : List Ext) (hp : parseAll ids = some es)
    (hval : ∀ e ∈ es, e.valid) (h v h' v' : Int) (hq : qkCheckZoom h v = true) (he : extCheckZoom h' v' = true) :
    ∃ gs, extToQV ids h v = .ok gs ∧ ∃ r, qvToExt (gs.flatten.map fun p => ⟨h, p.1, v, p.2⟩) h' v' = .ok r ∧
      ∀ o, o ∈ r ↔ o ∈ changeExtE (changeExtE es h v) h' v' := by
  have hqz := (qkCheckZoom_iff h v).mp hq
  have hez : (0 ≤ h' ∧ h' ≤ 35) ∧ (0 ≤ v' ∧ v' ≤ 35) := by simpa [extCheckZoom] using he
  have hh0 : 0 ≤ h := by omega
  have hv0 : 0 ≤ v := by omega
  -- forward direction: every element parses and passes the zoom check
  have hspec := mapM_option_spec parseExt ids es hp
  have hfw : extToQV ids h v = .ok (groupPairs (ids.map (candsOf h v))) := by
    unfold extToQV
    simp only [hq, Bool.not_true, Bool.false_eq_true, if_false]
    rw [mapM_option_map _ (candsOf h v) ids ?_]
    intro s hs
    obtain ⟨i, hi, rfl⟩ := List.getElem_of_mem hs
    have hpi := hspec.2 i hi (by rw [hspec.1]; exact hi)
    have hv := hval _ (List.getElem_mem (by rw [hspec.1]; exact hi))
    have hz : extCheckZoom (es[i]'(by rw [hspec.1]; exact hi)).h (es[i]'(by rw [hspec.1]; exact hi)).v = true := by
      unfold Ext.valid at hv; simp [extCheckZoom]; omega
    simp only [candsOf, hpi, hz, Bool.not_true, Bool.false_eq_true, if_false]
    congr 1
    simp only [cands, dedup_eq_self_of_nodup _ (vZoomIdx_nodup _ _ _), List.flatMap_map]
  refine ⟨_, hfw, ?_⟩
  obtain ⟨gmem, _, _⟩ := groupPairs_spec (ids.map (candsOf h v))
  -- the candidate lists are those of the parsed IDs
  have hc : ∀ p, (∃ c ∈ (ids.map (candsOf h v)), p ∈ c) ↔
      ∃ e ∈ es, p ∈ cands h v e := by
    intro p
    constructor
    · rintro ⟨c, hc, hpc⟩
      obtain ⟨s, hs, rfl⟩ := List.mem_map.mp hc
      obtain ⟨i, hi, rfl⟩ := List.getElem_of_mem hs
      have hpi := hspec.2 i hi (by rw [hspec.1]; exact hi)
      simp only [candsOf, hpi] at hpc
      exact ⟨_, List.getElem_mem _, hpc⟩
    · rintro ⟨e, hee, hpe⟩
      obtain ⟨i, hi, rfl⟩ := List.getElem_of_mem hee
      have hi' : i < ids.length := by rw [← hspec.1]; exact hi
      have hpi := hspec.2 i hi' hi
      refine ⟨_, List.mem_map.mpr ⟨ids[i], List.getElem_mem _, rfl⟩, ?_⟩
      simp only [candsOf, hpi]; exact hpe
  -- every reported pair is a quadkey of an in-range tile of zoom h
  have hpair : ∀ p ∈ (groupPairs (ids.map (candsOf h v))).flatten,
      ∃ x y : Int, (0 ≤ x ∧ x < 2 ^ h.toNat) ∧ (0 ≤ y ∧ y < 2 ^ h.toNat) ∧ p.1 = qkEnc h x y := by
    intro p hpm
    obtain ⟨e, hee, hpe⟩ := (hc p).mp ((gmem p).mp hpm)
    simp only [cands, List.mem_flatMap, List.mem_map] at hpe
    obtain ⟨t, ht, f, _, rfl⟩ := hpe
    have hv := hval e hee
    unfold Ext.valid at hv
    rw [mem_hZoomIdx _ _ _ _ _ (by omega) hh0 (by omega) (by omega)] at ht
    exact ⟨t.1, t.2, axisMeet_range _ _ _ _ ⟨by omega, by omega⟩ ht.1, axisMeet_range _ _ _ _ ⟨by omega, by omega⟩ ht.2, rfl⟩
  -- backward direction: every element passes the checks and decodes to its tile
  have hbw : qvToExt ((groupPairs (ids.map (candsOf h v))).flatten.map fun p => (⟨h, p.1, v, p.2⟩ : QV)) h' v' =
      .ok (dedup (((groupPairs (ids.map (candsOf h v))).flatten.map fun p => (⟨h, p.1, v, p.2⟩ : QV)).map
        (fun q => zoomOne h' v' ⟨h, (qkDec q.q h).1, (qkDec q.q h).2, v, q.vi⟩)).flatten) := by
    unfold qvToExt
    simp only [he, Bool.not_true, Bool.false_eq_true, if_false]
    rw [mapM_option_map _ (fun q => zoomOne h' v' ⟨h, (qkDec q.q h).1, (qkDec q.q h).2, v, q.vi⟩) _ ?_]
    intro q hqm
    obtain ⟨p, hpm, rfl⟩ := List.mem_map.mp hqm
    obtain ⟨x, y, hx, hy, hpe⟩ := hpair p hpm
    have hlt := enc_lt h x y hx.1 hy.1
    have hbig : ¬ p.1 > 4611686018427388064 := by
      rw [hpe]
      have hn : h.toNat ≤ 31 := by omega
      have hnat : (4 : Nat) ^ h.toNat ≤ 4 ^ 31 := Nat.pow_le_pow_right (by decide) hn
      have : (4 : Int) ^ h.toNat ≤ 4 ^ 31 := by exact_mod_cast hnat
      have e31 : (4 : Int) ^ 31 = 4611686018427387904 := by decide
      omega
    simp only [hq, Bool.not_true, Bool.false_eq_true, if_false, hbig]
    rfl
  refine ⟨_, hbw, ?_⟩
  · intro o
    simp only [mem_dedup, List.mem_flatten, List.mem_map, changeExtE, List.mem_flatMap]
    constructor
    · rintro ⟨l, ⟨q, ⟨p, hpm, rfl⟩, rfl⟩, ho⟩
      obtain ⟨e, hee, hpe⟩ := (hc p).mp ((gmem p).mp (List.mem_flatten.mpr hpm))
      simp only [cands, List.mem_flatMap, List.mem_map] at hpe
      obtain ⟨t, ht, f, hf, rfl⟩ := hpe
      have hv := hval e hee
      unfold Ext.valid at hv
      have ht' := (mem_hZoomIdx _ _ _ _ _ (by omega) hh0 (by omega) (by omega)).mp ht
      have hx := axisMeet_range _ _ _ _ ⟨by omega, by omega⟩ ht'.1
      have hy := axisMeet_range _ _ _ _ ⟨by omega, by omega⟩ ht'.2
      simp only [dec_enc h t.1 t.2 ⟨hqz.1.1, hqz.1.2⟩ hx hy] at ho
      refine ⟨⟨h, t.1, t.2, v, f⟩, ⟨e, hee, ?_⟩, ho⟩
      simp only [zoomOne, List.mem_flatMap, List.mem_map]
      exact ⟨t, ht, f, hf, rfl⟩
    · rintro ⟨m, ⟨e, hee, hm⟩, ho⟩
      simp only [zoomOne, List.mem_flatMap, List.mem_map] at hm
      obtain ⟨t, ht, f, hf, rfl⟩ := hm
      have hv := hval e hee
      unfold Ext.valid at hv
      have ht' := (mem_hZoomIdx _ _ _ _ _ (by omega) hh0 (by omega) (by omega)).mp ht
      have hx := axisMeet_range _ _ _ _ ⟨by omega, by omega⟩ ht'.1
      have hy := axisMeet_range _ _ _ _ ⟨by omega, by omega⟩ ht'.2
      have hpm : (qkEnc h t.1 t.2, f) ∈ (groupPairs (ids.map (candsOf h v))).flatten := by
        rw [gmem, hc]
        refine ⟨e, hee, ?_⟩
        simp only [cands, List.mem_flatMap, List.mem_map]
        exact ⟨t, ht, f, hf, rfl⟩
      refine ⟨_, ⟨⟨h, qkEnc h t.1 t.2, v, f⟩, ⟨_, List.mem_flatten.mp hpm, rfl⟩, rfl⟩, ?_⟩
      simp only [dec_enc h t.1 t.2 ⟨hqz.1.1, hqz.1.2⟩ hx hy]
      exact ho

/-- **roundtrip_same_zoom**: with all zooms equal to those of the (valid) IDs the round trip returns exactly the given voxels -/
theorem roundtrip_same_zoom (ids : List String) (es : List Ext) (hp : parseAll ids = some es)
    (hval : ∀ e ∈ es, e.valid) (h v : Int) (hq : qkCheckZoom h v = true) (hsame : ∀ e ∈ es, e.h = h ∧ e.v = v) :
    ∃ gs, extToQV ids h v = .ok gs ∧ ∃ r, qvToExt (gs.flatten.map fun p => ⟨h, p.1, v, p.2⟩) h v = .ok r ∧
      ∀ o, o ∈ r ↔ o ∈ es := by
  have hqz := (qkCheckZoom_iff h v).mp hq
  have he : extCheckZoom h v = true := by simp [extCheckZoom]; omega
  obtain ⟨gs, h1, r, h2, h3⟩ := roundtrip_eq_changeZoom ids es hp hval h v h v hq he
  refine ⟨gs, h1, r, h2, fun o => ?_⟩
  rw [h3 o]
  -- a zoom change to the voxels' own zooms is the identity on sets
  have hid : ∀ l : List Ext, (∀ e ∈ l, e.valid ∧ e.h = h ∧ e.v = v) → ∀ o, o ∈ changeExtE l h v ↔ o ∈ l := by
    intro l hl o
    simp only [changeExtE, mem_dedup, List.mem_flatMap]
    constructor
    · rintro ⟨e, hel, ho⟩
      obtain ⟨hv, rfl, rfl⟩ := hl e hel
      unfold Ext.valid at hv
      rw [mem_zoomOne _ _ _ _ (by omega) (by omega) (by omega) (by omega) (by omega) (by omega)] at ho
      obtain ⟨e1, e2, m1, m2, m3⟩ := ho
      unfold axisMeet at m1 m2 m3
      simp at m1 m2 m3
      have : o = e := by cases o; cases e; simp_all
      rw [this]; exact hel
    · intro hol
      obtain ⟨hv, rfl, rfl⟩ := hl o hol
      unfold Ext.valid at hv
      refine ⟨o, hol, ?_⟩
      rw [mem_zoomOne _ _ _ _ (by omega) (by omega) (by omega) (by omega) (by omega) (by omega)]
      refine ⟨rfl, rfl, ?_, ?_, ?_⟩ <;> (unfold axisMeet; simp)
  have hl1 : ∀ e ∈ es, e.valid ∧ e.h = h ∧ e.v = v := fun e hee => ⟨hval e hee, hsame e hee⟩
  have hl2 : ∀ e ∈ changeExtE es h v, e.valid ∧ e.h = h ∧ e.v = v := by
    intro e hee
    have := (hid es hl1 e).mp hee
    exact hl1 e this
  rw [hid _ hl2 o, hid es hl1 o]

end SpatialId.C11
