/-
C12 — altitude-key conversion never loses altitude and is exact where it can be.
Model: SpatialId/Model/AltKey.lean (`z2k`, `k2z`, `zToMinKey`, `zToMaxKey`, `validateIndex`), tied to
transform.ConvertZToMinMaxAltitudekey, ConvertAltitudekeyToMinMaxZ, convertZToMinAltitudekey,
convertZToMaxAltitudekey, validateIndexExists by the op families altkey and altkeyLattice, and by the
translator tie (Props/Tie.lean).  Semantics: Spec/Altitude.lean (fixed-point altitude intervals).
-/
import SpatialId.Lemmas.AltKey
namespace SpatialId.C12
open SpatialId Alt

/-- zooms and base exponent in the documented range -/
def zr (z : Int) : Prop := 0 ≤ z ∧ z ≤ 35

/-! ### Z → key -/

/-- lower end of the result: first key meeting the metre-widened voxel -/
def zLo (f zi zo E O : Int) : Int := ((widen (fCell f zi)).1 + O * M) / 2 ^ (E - zo + 35).toNat
/-- upper end of the result: last key meeting the voxel itself -/
def zHi (f zi zo E O : Int) : Int := ((fCell f zi).2 + O * M - 1) / 2 ^ (E - zo + 35).toNat
/-- first key meeting the voxel itself -/
def zLoExact (f zi zo E O : Int) : Int := ((fCell f zi).1 + O * M) / 2 ^ (E - zo + 35).toNat
/-- last key meeting the metre-widened voxel -/
def zHiWide (f zi zo E O : Int) : Int := ((widen (fCell f zi)).2 + O * M - 1) / 2 ^ (E - zo + 35).toNat

theorem fCell_lt (f z : Int) : (fCell f z).1 < (fCell f z).2 := by
  simp only [fCell]; have := two_pow_pos (60 - z).toNat; rw [Int.add_mul, Int.one_mul]; omega

theorem bounds_order (f zi zo E O : Int) :
    zLo f zi zo E O ≤ zLoExact f zi zo E O ∧ zLoExact f zi zo E O ≤ zHi f zi zo E O ∧
    zHi f zi zo E O ≤ zHiWide f zi zo E O := by
  have hc := two_pow_pos (E - zo + 35).toNat
  have h1 := widen_lo_le (fCell f zi)
  have h2 := widen_hi_ge (fCell f zi)
  have h3 := fCell_lt f zi
  unfold zLo zLoExact zHi zHiWide
  exact ⟨Int.ediv_le_ediv hc (by omega), Int.ediv_le_ediv hc (by omega), Int.ediv_le_ediv hc (by omega)⟩

/-- **z2k_eq**: the function returns `(zLo, zHi)` — or an error exactly when the source index does not exist or
one of the two ends is not a key of the target zoom -/
theorem z2k_eq (f zi zo E O : Int) (h1 : zr zi) (h2 : zr zo) (h3 : zr E) :
    z2k f zi zo E O =
      if (-(2 ^ zi.toNat) ≤ f ∧ f ≤ 2 ^ zi.toNat - 1) ∧
         (0 ≤ zLo f zi zo E O ∧ zLo f zi zo E O ≤ 2 ^ zo.toNat - 1) ∧
         (0 ≤ zHi f zi zo E O ∧ zHi f zi zo E O ≤ 2 ^ zo.toNat - 1)
      then .ok (zLo f zi zo E O, zHi f zi zo E O) else .err := by
  have hmin : ∀ (hv : validateIndex f zi true = true), zToMinKey f zi zo E O =
      if 0 ≤ zLo f zi zo E O ∧ zLo f zi zo E O ≤ 2 ^ zo.toNat - 1 then some (zLo f zi zo E O) else none := by
    intro hv
    unfold zToMinKey
    simp only [hv, Bool.not_true, Bool.false_eq_true, if_false, minKey_closed f zi zo E O h1 h2 h3]
    have := validateIndex_iff (zLo f zi zo E O) zo false h2.1
    simp only [Bool.false_eq_true, if_false] at this
    unfold zLo at this ⊢
    by_cases hc : 0 ≤ ((widen (fCell f zi)).1 + O * M) / 2 ^ (E - zo + 35).toNat ∧
        ((widen (fCell f zi)).1 + O * M) / 2 ^ (E - zo + 35).toNat ≤ 2 ^ zo.toNat - 1
    · simp [hc, this.mpr hc]
    · have : validateIndex (((widen (fCell f zi)).1 + O * M) / 2 ^ (E - zo + 35).toNat) zo false = false := by
        cases hb : validateIndex (((widen (fCell f zi)).1 + O * M) / 2 ^ (E - zo + 35).toNat) zo false
        · rfl
        · exact absurd (this.mp hb) hc
      simp [hc, this]
  have hmax : ∀ (hv : validateIndex f zi true = true), zToMaxKey f zi zo E O =
      if 0 ≤ zHi f zi zo E O ∧ zHi f zi zo E O ≤ 2 ^ zo.toNat - 1 then some (zHi f zi zo E O) else none := by
    intro hv
    have hraw := maxKey_closed f zi zo E O h1 h2 h3
    unfold maxKeyRaw at hraw
    unfold zToMaxKey
    simp only [hv, Bool.not_true, Bool.false_eq_true, if_false]
    simp only [] at hraw
    rw [hraw]
    have := validateIndex_iff (zHi f zi zo E O) zo false h2.1
    simp only [Bool.false_eq_true, if_false] at this
    unfold zHi at this ⊢
    by_cases hc : 0 ≤ ((fCell f zi).2 + O * M - 1) / 2 ^ (E - zo + 35).toNat ∧
        ((fCell f zi).2 + O * M - 1) / 2 ^ (E - zo + 35).toNat ≤ 2 ^ zo.toNat - 1
    · simp [hc, this.mpr hc]
    · have : validateIndex (((fCell f zi).2 + O * M - 1) / 2 ^ (E - zo + 35).toNat) zo false = false := by
        cases hb : validateIndex (((fCell f zi).2 + O * M - 1) / 2 ^ (E - zo + 35).toNat) zo false
        · rfl
        · exact absurd (this.mp hb) hc
      simp [hc, this]
  have hvalid := validateIndex_iff f zi true h1.1
  simp only [if_true] at hvalid
  have hord := bounds_order f zi zo E O
  unfold z2k
  by_cases hv : validateIndex f zi true = true
  · rw [hmin hv, hmax hv]
    have hvf := hvalid.mp hv
    by_cases c1 : 0 ≤ zLo f zi zo E O ∧ zLo f zi zo E O ≤ 2 ^ zo.toNat - 1
    · by_cases c2 : 0 ≤ zHi f zi zo E O ∧ zHi f zi zo E O ≤ 2 ^ zo.toNat - 1
      · have : ¬ (zLo f zi zo E O > zHi f zi zo E O) := by omega
        simp [c1, c2, hvf, this]
      · simp [c1, c2]
    · simp [c1]
  · have hvf : ¬ (-(2 ^ zi.toNat) ≤ f ∧ f ≤ 2 ^ zi.toNat - 1) := fun h => hv (hvalid.mpr h)
    have : zToMinKey f zi zo E O = none := by
      unfold zToMinKey
      have : validateIndex f zi true = false := by
        cases hb : validateIndex f zi true
        · rfl
        · exact absurd hb hv
      simp [this]
    simp [this, hvf]

/-- what an `ok` result is -/
theorem z2k_ok (f zi zo E O a b : Int) (h1 : zr zi) (h2 : zr zo) (h3 : zr E) (h : z2k f zi zo E O = .ok (a, b)) :
    a = zLo f zi zo E O ∧ b = zHi f zi zo E O := by
  rw [z2k_eq f zi zo E O h1 h2 h3] at h
  split at h
  · simp only [Outcome.ok.injEq, Prod.mk.injEq] at h; exact ⟨h.1.symm, h.2.symm⟩
  · cases h

theorem keyCell_eq (j zo E O : Int) :
    keyCell j zo E O = (j * 2 ^ (E - zo + 35).toNat - O * M, (j + 1) * 2 ^ (E - zo + 35).toNat - O * M) := rfl

/-- **z2k_contains** — never loses altitude: every key whose cell meets the voxel's altitude interval is in the range -/
theorem z2k_contains (f zi zo E O a b : Int) (h1 : zr zi) (h2 : zr zo) (h3 : zr E)
    (h : z2k f zi zo E O = .ok (a, b)) (j : Int) (hj : inter (keyCell j zo E O) (fCell f zi)) : a ≤ j ∧ j ≤ b := by
  obtain ⟨rfl, rfl⟩ := z2k_ok f zi zo E O a b h1 h2 h3 h
  rw [keyCell_eq, cell_inter_iff _ _ _ _ _ (two_pow_pos _) (fCell_lt f zi)] at hj
  have := bounds_order f zi zo E O
  unfold zLoExact at this
  unfold zHi
  exact ⟨by omega, hj.2⟩

/-- **z2k_within** — no key beyond those meeting the interval widened outward to whole metres -/
theorem z2k_within (f zi zo E O a b : Int) (h1 : zr zi) (h2 : zr zo) (h3 : zr E)
    (h : z2k f zi zo E O = .ok (a, b)) (j : Int) (hj : a ≤ j ∧ j ≤ b) : inter (keyCell j zo E O) (widen (fCell f zi)) := by
  obtain ⟨rfl, rfl⟩ := z2k_ok f zi zo E O a b h1 h2 h3 h
  have hw : (widen (fCell f zi)).1 < (widen (fCell f zi)).2 := by
    have := widen_lo_le (fCell f zi); have := widen_hi_ge (fCell f zi); have := fCell_lt f zi; omega
  rw [keyCell_eq, cell_inter_iff _ _ _ _ _ (two_pow_pos _) hw]
  have := bounds_order f zi zo E O
  unfold zLo at hj; unfold zHiWide at this
  exact ⟨hj.1, by omega⟩

theorem z2k_min_le_max (f zi zo E O a b : Int) (h1 : zr zi) (h2 : zr zo) (h3 : zr E)
    (h : z2k f zi zo E O = .ok (a, b)) : a ≤ b := by
  obtain ⟨rfl, rfl⟩ := z2k_ok f zi zo E O a b h1 h2 h3 h
  have := bounds_order f zi zo E O; omega

theorem widen_eq_of_dvd (I : Ivl) (h1 : M ∣ I.1) (h2 : M ∣ I.2) : widen I = I := by
  obtain ⟨x, y⟩ := I
  obtain ⟨a, ha⟩ := h1
  obtain ⟨b, hb⟩ := h2
  have hM := Int.ne_of_gt M_pos
  simp only at ha hb
  subst ha hb
  simp only [widen]
  rw [Int.mul_ediv_cancel_left _ hM, ← Int.mul_neg, Int.mul_ediv_cancel_left _ hM, Int.neg_neg,
    Int.mul_comm a, Int.mul_comm b]

/-- a voxel at least one metre tall has whole-metre boundaries -/
theorem fCell_whole (f z : Int) (hz : z ≤ 25) : widen (fCell f z) = fCell f z := by
  have e : (2 : Int) ^ (60 - z).toNat = M * 2 ^ (25 - z).toNat := by
    unfold M; rw [← Int.pow_add]; congr 1; omega
  apply widen_eq_of_dvd <;> simp only [fCell, e] <;> exact ⟨_, by rw [Int.mul_left_comm]⟩

/-- **z2k_exact_ge1m** — exact whenever the source cell is at least one metre tall -/
theorem z2k_exact_ge1m (f zi zo E O a b : Int) (h1 : zr zi) (h2 : zr zo) (h3 : zr E) (hz : zi ≤ 25)
    (h : z2k f zi zo E O = .ok (a, b)) (j : Int) : (a ≤ j ∧ j ≤ b) ↔ inter (keyCell j zo E O) (fCell f zi) := by
  constructor
  · intro hj; have := z2k_within f zi zo E O a b h1 h2 h3 h j hj; rwa [fCell_whole f zi hz] at this
  · exact z2k_contains f zi zo E O a b h1 h2 h3 h j

/-- **z2k errors (1)**: a source index that does not exist at its zoom is an error -/
theorem z2k_err_bad_index (f zi zo E O : Int) (h1 : zr zi) (h2 : zr zo) (h3 : zr E)
    (h : ¬ (-(2 ^ zi.toNat) ≤ f ∧ f ≤ 2 ^ zi.toNat - 1)) : z2k f zi zo E O = .err := by
  rw [z2k_eq f zi zo E O h1 h2 h3]; simp [h]

/-- **z2k errors (2)**: if the exact covering range leaves the key range of the target zoom, an error is reported -/
theorem z2k_err_exact_leaves (f zi zo E O : Int) (h1 : zr zi) (h2 : zr zo) (h3 : zr E)
    (h : zLoExact f zi zo E O < 0 ∨ 2 ^ zo.toNat - 1 < zHi f zi zo E O) : z2k f zi zo E O = .err := by
  rw [z2k_eq f zi zo E O h1 h2 h3]
  have := bounds_order f zi zo E O
  have : ¬ ((-(2 ^ zi.toNat) ≤ f ∧ f ≤ 2 ^ zi.toNat - 1) ∧
         (0 ≤ zLo f zi zo E O ∧ zLo f zi zo E O ≤ 2 ^ zo.toNat - 1) ∧
         (0 ≤ zHi f zi zo E O ∧ zHi f zi zo E O ≤ 2 ^ zo.toNat - 1)) := by omega
  simp [this]

/-- **z2k errors (3)**: never an error when the index exists and even the metre-widened range fits -/
theorem z2k_ok_when_wide_fits (f zi zo E O : Int) (h1 : zr zi) (h2 : zr zo) (h3 : zr E)
    (hf : -(2 ^ zi.toNat) ≤ f ∧ f ≤ 2 ^ zi.toNat - 1)
    (h : 0 ≤ zLo f zi zo E O ∧ zHiWide f zi zo E O ≤ 2 ^ zo.toNat - 1) :
    z2k f zi zo E O = .ok (zLo f zi zo E O, zHi f zi zo E O) := by
  rw [z2k_eq f zi zo E O h1 h2 h3]
  have := bounds_order f zi zo E O
  have : ((-(2 ^ zi.toNat) ≤ f ∧ f ≤ 2 ^ zi.toNat - 1) ∧
         (0 ≤ zLo f zi zo E O ∧ zLo f zi zo E O ≤ 2 ^ zo.toNat - 1) ∧
         (0 ≤ zHi f zi zo E O ∧ zHi f zi zo E O ≤ 2 ^ zo.toNat - 1)) := by omega
  simp [this]

/-! ### key → Z -/

def kLo (k zk zo E O : Int) : Int := (widen (keyCell k zk E O)).1 / 2 ^ (60 - zo).toNat
def kHi (k zk zo E O : Int) : Int := ((widen (keyCell k zk E O)).2 - 1) / 2 ^ (60 - zo).toNat

theorem keyCell_lt (k z E O : Int) : (keyCell k z E O).1 < (keyCell k z E O).2 := by
  simp only [keyCell]; have := two_pow_pos (E - z + 35).toNat; rw [Int.add_mul, Int.one_mul]; omega

/-- **k2z_eq**: the function returns exactly the cover of the metre-widened key cell — or an error when the key does
not exist or that cover leaves the index range of the target zoom -/
theorem k2z_eq (k zk zo E O : Int) (h1 : zr zk) (h2 : zr zo) (h3 : zr E) :
    k2z k zk zo E O =
      if (0 ≤ k ∧ k ≤ 2 ^ zk.toNat - 1) ∧ kHi k zk zo E O ≤ 2 ^ zo.toNat - 1 ∧ -(2 ^ zo.toNat) ≤ kLo k zk zo E O
      then .ok (kLo k zk zo E O, kHi k zk zo E O) else .err := by
  have hlo := key_widen_lo k zk E O h1 h3
  have hhi := key_widen_hi k zk E O h1 h3
  have hmin : arithShift (arithShift k (E - zk) - O) (zo - 25) = kLo k zk zo E O := by
    unfold kLo
    rw [hlo, shift_as_div _ (zo - 25) 35 (by have := h2.1; have := h2.2; omega) (by have := h2.2; omega)]
    unfold M
    congr 2; omega
  have hmax : (if zo - 25 > 0
        then arithShift ((if E - zk > 0 then arithShift (k + 1) (E - zk) - 1 else arithShift k (E - zk)) - O + 1) (zo - 25) - 1
        else arithShift ((if E - zk > 0 then arithShift (k + 1) (E - zk) - 1 else arithShift k (E - zk)) - O) (zo - 25))
      = kHi k zk zo E O := by
    unfold kHi
    rw [hhi]
    generalize (if E - zk > 0 then arithShift (k + 1) (E - zk) - 1 else arithShift k (E - zk)) = iMax
    unfold M
    by_cases hod : zo - 25 > 0
    · simp only [hod, if_true]
      rw [shift_top_pos _ _ 35 (by omega) (by have := h2.2; omega)]
      congr 2; omega
    · simp only [hod, if_false]
      have e : iMax - O = (iMax - O + 1) - 1 := by omega
      rw [e, shift_top_neg _ _ 35 (by omega)]
      congr 2; all_goals omega
  unfold k2z
  simp only [arithShift_nonneg 1 zk h1.1, arithShift_nonneg 1 zo h2.1, Int.one_mul]
  by_cases hk : k > 2 ^ zk.toNat - 1 ∨ k < 0
  · have : ¬ (0 ≤ k ∧ k ≤ 2 ^ zk.toNat - 1) := by omega
    simp [hk, this]
  · have hk' : (0 ≤ k ∧ k ≤ 2 ^ zk.toNat - 1) := by omega
    rw [if_neg hk, hmin]
    have hmax' := hmax
    by_cases hz : E - zk > 0
    · simp only [hz, if_true] at hmax' ⊢
      rw [hmax']
      by_cases hr : kHi k zk zo E O > 2 ^ zo.toNat - 1 ∨ kLo k zk zo E O < -(2 ^ zo.toNat)
      · have : ¬ (kHi k zk zo E O ≤ 2 ^ zo.toNat - 1 ∧ -(2 ^ zo.toNat) ≤ kLo k zk zo E O) := by omega
        simp [hr, this]
      · have : (kHi k zk zo E O ≤ 2 ^ zo.toNat - 1 ∧ -(2 ^ zo.toNat) ≤ kLo k zk zo E O) := by omega
        simp [hr, this, hk']
    · simp only [hz, if_false] at hmax' ⊢
      rw [hmax']
      by_cases hr : kHi k zk zo E O > 2 ^ zo.toNat - 1 ∨ kLo k zk zo E O < -(2 ^ zo.toNat)
      · have : ¬ (kHi k zk zo E O ≤ 2 ^ zo.toNat - 1 ∧ -(2 ^ zo.toNat) ≤ kLo k zk zo E O) := by omega
        simp [hr, this]
      · have : (kHi k zk zo E O ≤ 2 ^ zo.toNat - 1 ∧ -(2 ^ zo.toNat) ≤ kLo k zk zo E O) := by omega
        simp [hr, this, hk']

theorem k2z_ok (k zk zo E O a b : Int) (h1 : zr zk) (h2 : zr zo) (h3 : zr E) (h : k2z k zk zo E O = .ok (a, b)) :
    a = kLo k zk zo E O ∧ b = kHi k zk zo E O := by
  rw [k2z_eq k zk zo E O h1 h2 h3] at h
  split at h
  · simp only [Outcome.ok.injEq, Prod.mk.injEq] at h; exact ⟨h.1.symm, h.2.symm⟩
  · cases h

theorem fCell_eq (g z : Int) : fCell g z = (g * 2 ^ (60 - z).toNat - 0, (g + 1) * 2 ^ (60 - z).toNat - 0) := by
  simp [fCell]

/-- **k2z_coverW**: the returned range is exactly the set of vertical indices whose cell meets the metre-widened key cell -/
theorem k2z_coverW (k zk zo E O a b : Int) (h1 : zr zk) (h2 : zr zo) (h3 : zr E) (h : k2z k zk zo E O = .ok (a, b))
    (g : Int) : (a ≤ g ∧ g ≤ b) ↔ inter (fCell g zo) (widen (keyCell k zk E O)) := by
  obtain ⟨rfl, rfl⟩ := k2z_ok k zk zo E O a b h1 h2 h3 h
  have hw : (widen (keyCell k zk E O)).1 < (widen (keyCell k zk E O)).2 := by
    have := widen_lo_le (keyCell k zk E O); have := widen_hi_ge (keyCell k zk E O); have := keyCell_lt k zk E O; omega
  rw [fCell_eq, cell_inter_iff _ _ _ _ _ (two_pow_pos _) hw]
  unfold kLo kHi
  simp

/-- **k2z_contains** — never loses altitude -/
theorem k2z_contains (k zk zo E O a b : Int) (h1 : zr zk) (h2 : zr zo) (h3 : zr E) (h : k2z k zk zo E O = .ok (a, b))
    (g : Int) (hg : inter (fCell g zo) (keyCell k zk E O)) : a ≤ g ∧ g ≤ b := by
  rw [k2z_coverW k zk zo E O a b h1 h2 h3 h g]
  obtain ⟨t, t1, t2, t3, t4⟩ := hg
  have := widen_lo_le (keyCell k zk E O); have := widen_hi_ge (keyCell k zk E O)
  exact ⟨t, t1, t2, by omega, by omega⟩

/-- a key cell at least one metre tall has whole-metre boundaries -/
theorem keyCell_whole (k z E O : Int) (hz : z ≤ E) : widen (keyCell k z E O) = keyCell k z E O := by
  have e : (2 : Int) ^ (E - z + 35).toNat = M * 2 ^ (E - z).toNat := by
    unfold M; rw [← Int.pow_add]; congr 1; omega
  apply widen_eq_of_dvd <;> simp only [keyCell, e]
  · exact ⟨k * 2 ^ (E - z).toNat - O, by rw [Int.mul_sub, Int.mul_left_comm, Int.mul_comm M O]⟩
  · exact ⟨(k + 1) * 2 ^ (E - z).toNat - O, by rw [Int.mul_sub, Int.mul_left_comm, Int.mul_comm M O]⟩

/-- **k2z_exact_ge1m** -/
theorem k2z_exact_ge1m (k zk zo E O a b : Int) (h1 : zr zk) (h2 : zr zo) (h3 : zr E) (hz : zk ≤ E)
    (h : k2z k zk zo E O = .ok (a, b)) (g : Int) : (a ≤ g ∧ g ≤ b) ↔ inter (fCell g zo) (keyCell k zk E O) := by
  rw [k2z_coverW k zk zo E O a b h1 h2 h3 h g, keyCell_whole k zk E O hz]

theorem k2z_min_le_max (k zk zo E O a b : Int) (h1 : zr zk) (h2 : zr zo) (h3 : zr E)
    (h : k2z k zk zo E O = .ok (a, b)) : a ≤ b := by
  obtain ⟨rfl, rfl⟩ := k2z_ok k zk zo E O a b h1 h2 h3 h
  have := widen_lo_le (keyCell k zk E O); have := widen_hi_ge (keyCell k zk E O); have := keyCell_lt k zk E O
  unfold kLo kHi
  exact Int.ediv_le_ediv (two_pow_pos _) (by omega)

theorem k2z_err_bad_key (k zk zo E O : Int) (h1 : zr zk) (h2 : zr zo) (h3 : zr E)
    (h : ¬ (0 ≤ k ∧ k ≤ 2 ^ zk.toNat - 1)) : k2z k zk zo E O = .err := by
  rw [k2z_eq k zk zo E O h1 h2 h3]; simp [h]

/-- **consistent_exact** — in the exact regime (both cells at least one metre tall) the two directions agree:
a key is in the range of `f` iff `f` is in the range of the key -/
theorem consistent_exact (f zi k zk E O a b a' b' : Int) (h1 : zr zi) (h2 : zr zk) (h3 : zr E)
    (hzi : zi ≤ 25) (hzk : zk ≤ E)
    (hz : z2k f zi zk E O = .ok (a, b)) (hk : k2z k zk zi E O = .ok (a', b')) :
    (a ≤ k ∧ k ≤ b) ↔ (a' ≤ f ∧ f ≤ b') := by
  rw [z2k_exact_ge1m f zi zk E O a b h1 h2 h3 hzi hz k, k2z_exact_ge1m k zk zi E O a' b' h2 h1 h3 hzk hk f]
  exact inter_symm _ _

/-- regression witnesses of D5 (kernel-evaluated): the partial top cell is kept, the top index is accepted -/
example : z2k 0 1 1 25 1 = .ok (0, 1) := by decide
example : z2k 0 0 0 25 0 = .ok (0, 0) := by decide
example : z2k 56 26 26 25 0 = .ok (56, 56) := by decide
example : k2z 5 3 25 3 0 = .ok (5, 5) := by decide

end SpatialId.C12
