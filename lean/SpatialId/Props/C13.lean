/-
C13 — 3D tile keys convert to IDs that cover the tile and keep its footprint.
Model: `tileToExt`, `tilesToExt`, `tilesToSp`, `newTile` in SpatialId/Model/AltKey.lean, tied to
transform.ConvertTileXYZsToExtendedSpatialIDs / ConvertTileXYZsToSpatialIDs and object.NewTileXYZ by the op family tiles.
-/
import SpatialId.Props.C12
import SpatialId.Props.C10
namespace SpatialId.C13
open SpatialId Alt

theorem tileToExt_some (E O outV : Int) (t : Tile) (l : List Ext) (h : tileToExt E O outV t = some l) :
    extCheckZoom t.h outV = true ∧ ∃ a b, k2z t.z t.v outV E O = .ok (a, b) ∧
      l = (irange a b).map fun z => ⟨t.h, t.x, t.y, outV, z⟩ := by
  unfold tileToExt at h
  split at h
  · cases h
  · rename_i hz
    split at h
    · rename_i lo hi hk
      simp only [Option.some.injEq] at h
      exact ⟨by simpa using hz, lo, hi, hk, h.symm⟩
    · cases h

/-- **tile_indices / tile_footprint / tile_vzoom**: a voxel is in the result iff it is some tile's footprint
(hZoom, x, y unchanged) at the requested vertical zoom with a vertical index in that tile's covering range -/
theorem mem_tilesToExt (ts : List Tile) (E O outV : Int) (r : List Ext) (h : tilesToExt ts E O outV = .ok r) (o : Ext) :
    o ∈ r ↔ ∃ t ∈ ts, ∃ a b, k2z t.z t.v outV E O = .ok (a, b) ∧ a ≤ o.f ∧ o.f ≤ b ∧
      o.h = t.h ∧ o.x = t.x ∧ o.y = t.y ∧ o.v = outV := by
  unfold tilesToExt at h
  cases hm : ts.mapM (tileToExt E O outV) with
  | none => simp [hm] at h
  | some ls =>
    simp only [hm, Outcome.ok.injEq] at h
    subst h
    obtain ⟨hlen, hget⟩ := mapM_option_spec _ _ _ hm
    rw [mem_dedup, List.mem_flatten]
    constructor
    · rintro ⟨l, hl, ho⟩
      obtain ⟨i, hi, rfl⟩ := List.getElem_of_mem hl
      have hi' : i < ts.length := by omega
      obtain ⟨_, a, b, hk, hl'⟩ := tileToExt_some E O outV ts[i] ls[i] (hget i hi' hi)
      rw [hl', List.mem_map] at ho
      obtain ⟨z, hz, rfl⟩ := ho
      rw [mem_irange] at hz
      exact ⟨ts[i], List.getElem_mem hi', a, b, hk, hz.1, hz.2, rfl, rfl, rfl, rfl⟩
    · rintro ⟨t, ht, a, b, hk, h1, h2, e1, e2, e3, e4⟩
      obtain ⟨i, hi, rfl⟩ := List.getElem_of_mem ht
      have hi' : i < ls.length := by omega
      obtain ⟨_, a', b', hk', hl'⟩ := tileToExt_some E O outV ts[i] ls[i] (hget i hi hi')
      rw [hk] at hk'
      simp only [Outcome.ok.injEq, Prod.mk.injEq] at hk'
      obtain ⟨rfl, rfl⟩ := hk'
      refine ⟨ls[i], List.getElem_mem hi', ?_⟩
      rw [hl', List.mem_map]
      exact ⟨o.f, (mem_irange _ _ _).mpr ⟨h1, h2⟩, by cases o; simp_all⟩

/-- **tile_nodup**: duplicates across tiles are removed -/
theorem tile_nodup (ts : List Tile) (E O outV : Int) (r : List Ext) (h : tilesToExt ts E O outV = .ok r) : r.Nodup := by
  unfold tilesToExt at h
  split at h
  · cases h
  · simp only [Outcome.ok.injEq] at h; subst h; exact nodup_dedup _

/-- **tile_all_or_nothing**: any tile whose zoom or range is in error fails the whole call (no partial result) -/
theorem tile_all_or_nothing (ts : List Tile) (E O outV : Int) (t : Tile) (ht : t ∈ ts)
    (hbad : tileToExt E O outV t = none) : tilesToExt ts E O outV = .err := by
  unfold tilesToExt
  rw [mapM_option_none _ ts t ht hbad]

theorem tileToExt_none_iff (E O outV : Int) (t : Tile) :
    tileToExt E O outV t = none ↔ extCheckZoom t.h outV = false ∨ ∀ a b, k2z t.z t.v outV E O ≠ .ok (a, b) := by
  unfold tileToExt
  cases hz : extCheckZoom t.h outV
  · simp
  · simp only [Bool.not_true, Bool.false_eq_true, if_false]
    cases hk : k2z t.z t.v outV E O with
    | ok p => obtain ⟨a, b⟩ := p; simp
    | err => simp
    | panic => simp

theorem tiles_no_panic (ts : List Tile) (E O outV : Int) : tilesToExt ts E O outV ≠ .panic := by
  unfold tilesToExt; split <;> simp

/-- **tile_covers**: the union of the results contains the tile's altitude interval — every vertical cell of the
output zoom that meets the tile's key cell is present over the tile's footprint -/
theorem tile_covers (ts : List Tile) (E O outV : Int) (r : List Ext) (h : tilesToExt ts E O outV = .ok r)
    (hE : C12.zr E) (hV : C12.zr outV) (t : Tile) (ht : t ∈ ts) (htv : C12.zr t.v)
    (g : Int) (hg : inter (fCell g outV) (keyCell t.z t.v E O)) : (⟨t.h, t.x, t.y, outV, g⟩ : Ext) ∈ r := by
  -- the tile itself converted (otherwise the whole call would have failed)
  have hsome : ∃ l, tileToExt E O outV t = some l := by
    cases hto : tileToExt E O outV t with
    | some l => exact ⟨l, rfl⟩
    | none => rw [tile_all_or_nothing ts E O outV t ht hto] at h; cases h
  obtain ⟨l, hl⟩ := hsome
  obtain ⟨_, a, b, hk, _⟩ := tileToExt_some E O outV t l hl
  have hin := C12.k2z_contains t.z t.v outV E O a b htv hV hE hk g hg
  exact (mem_tilesToExt ts E O outV r h _).mpr ⟨t, ht, a, b, hk, hin.1, hin.2, rfl, rfl, rfl, rfl⟩

/-- **tileSp_eq_expand**: the spatial-ID variant is precisely the C10 expansion of the extended result -/
theorem tileSp_eq_expand (ts : List Tile) (E O outV : Int) :
    tilesToSp ts E O outV = (tilesToExt ts E O outV).map fun l => l.flatMap expandExt := rfl

/-- … hence the same region at a single zoom -/
theorem tileSp_region (ts : List Tile) (E O outV : Int) (r : List Ext) (_h : tilesToExt ts E O outV = .ok r)
    (hw : ∀ o ∈ r, C03.wf o) (p : Pt) : p ∈ regionL (r.flatMap expandExt) ↔ p ∈ regionL r := by
  constructor
  · rintro ⟨s, hs, hp⟩
    obtain ⟨o, ho, hso⟩ := List.mem_flatMap.mp hs
    exact ⟨o, ho, (C10.expand_region o (hw o ho) p).mp ⟨s, hso, hp⟩⟩
  · rintro ⟨o, ho, hp⟩
    obtain ⟨s, hs, hps⟩ := (C10.expand_region o (hw o ho) p).mpr hp
    exact ⟨s, List.mem_flatMap.mpr ⟨o, ho, hs⟩, hps⟩

/-- `NewTileXYZ` (after the D8 fix) accepts exactly zooms 0..35 -/
theorem newTile_domain (h x y v z : Int) :
    (newTile h x y v z).isSome ↔ (0 ≤ h ∧ h ≤ 35) ∧ (0 ≤ v ∧ v ≤ 35) := by
  unfold newTile
  by_cases c1 : 0 ≤ h ∧ h ≤ 35 <;> by_cases c2 : 0 ≤ v ∧ v ≤ 35 <;> simp [c1, c2]

example : tilesToExt [⟨20, 5, 6, 25, 2 ^ 24 + 3⟩] 25 (2 ^ 24) 26 = .ok [⟨20, 5, 6, 26, 6⟩, ⟨20, 5, 6, 26, 7⟩] := by decide

end SpatialId.C13
