/-
C17, the binary-subdivision loop in binary64 against its exact-arithmetic specification.
`C17.calcQ_spec` says what the loop computes over the rationals (the clamped cell index); `calcBit_float_eq` says when the
binary64 loop `calcBitLoop` computes the same: whenever the altitude keeps a margin `ε` from every border the exact loop
compares it with, where `ε` covers the accumulated rounding of the borders — `n` levels, each adding at most
`η = 2^-51·(2B+2) + 2^-1073` for heights bounded by `B`. For the documented ranges (|height| ≤ 2^26 m, 35 levels) that is a
margin of 35·(2^-24 + …) ≈ 2·10^-6 m: the binary64 index can differ from the exact one only for altitudes within two
micrometres of a cell border.
-/
import SpatialId.Props.C17
import SpatialId.Props.C06Mid
namespace SpatialId.C17
open SpatialId F64

theorem add_comm_dy (x y : Dy) : add x y = add y x := by
  unfold add
  simp only [Int.min_comm x.e y.e, Int.add_comm (x.m * _) _]

/-- the border of one level is the binary64 midpoint of the current interval -/
theorem border_eq_mid (maxH minH : Dy) : add (scale (sub maxH minH) (-1)) minH = C06.midC minH maxH := by
  unfold C06.midC; exact add_comm_dy _ _

/-- the altitude keeps the margin `ε` from every border the EXACT loop compares it with -/
def Clear (alt ε : ℚ) : Nat → ℚ → ℚ → Prop
  | 0, _, _ => True
  | n + 1, hi, lo =>
    let b := (hi - lo) / 2 + lo
    ε < |alt - b| ∧ (if b ≤ alt then Clear alt ε n hi b else Clear alt ε n b lo)

/-- per-level rounding of a border for heights bounded by `B` (and accumulated error at most 1) -/
def eta (B : ℚ) : ℚ := (2 : ℚ) ^ (-51 : Int) * (2 * B + 2) + (2 : ℚ) ^ (-1073 : Int)

theorem eta_pos (B : ℚ) (hB : 0 ≤ B) : 0 < eta B := by
  unfold eta
  have := two_zpow_pos (-51 : Int); have := two_zpow_pos (-1073 : Int)
  positivity

/-- **calcBit_float_eq** — the binary64 loop equals the exact loop under the margin condition -/
theorem calcBitLoop_eq_calcQ (alt : Dy) (B ε : ℚ) (hB : 0 ≤ B) (hε : ε ≤ 1) :
    ∀ (n : Nat) (idx : Int) (Hf Lf : Dy) (hi lo δ : ℚ), 0 ≤ δ →
      |val Hf - hi| ≤ δ → |val Lf - lo| ≤ δ → |hi| ≤ B → |lo| ≤ B → δ + n * eta B ≤ ε →
      Clear (val alt) ε n hi lo →
      calcBitLoop alt n idx Hf Lf = calcQ (val alt) n idx hi lo := by
  intro n
  induction n with
  | zero => intro idx Hf Lf hi lo δ _ _ _ _ _ _ _; rfl
  | succ n ih =>
    intro idx Hf Lf hi lo δ hδ0 hH hL bH bL hbud hclear
    have hη := eta_pos B hB
    simp only [calcBitLoop, calcQ, border_eq_mid]
    obtain ⟨hmargin, hrest⟩ := hclear
    set b := (hi - lo) / 2 + lo with hb
    -- the float border is within δ + η of the exact border
    have hδ1 : δ ≤ 1 := by
      have : (0 : ℚ) ≤ ((n + 1 : Nat) : ℚ) * eta B := by positivity
      linarith
    have hmid := C06.mid_close Lf Hf
    have aL : |val Lf| ≤ B + 1 := by
      have := abs_sub_abs_le_abs_sub (val Lf) lo; linarith
    have aH : |val Hf| ≤ B + 1 := by
      have := abs_sub_abs_le_abs_sub (val Hf) hi; linarith
    have hmid2 : |val (C06.midC Lf Hf) - (val Lf + val Hf) / 2| ≤ eta B := by
      unfold eta
      have k : (0 : ℚ) < (2 : ℚ) ^ (-51 : Int) := two_zpow_pos _
      have : (2 : ℚ) ^ (-51 : Int) * (|val Lf| + |val Hf|) ≤ (2 : ℚ) ^ (-51 : Int) * (2 * B + 2) :=
        mul_le_mul_of_nonneg_left (by linarith) (le_of_lt k)
      linarith
    have hexact : |(val Lf + val Hf) / 2 - b| ≤ δ := by
      have e : (val Lf + val Hf) / 2 - b = ((val Lf - lo) + (val Hf - hi)) / 2 := by rw [hb]; ring
      rw [e, abs_div]
      have := abs_add_le (val Lf - lo) (val Hf - hi)
      have h2 : |(2 : ℚ)| = 2 := by norm_num
      rw [h2]; linarith
    have hbf : |val (C06.midC Lf Hf) - b| ≤ δ + eta B := by
      have := abs_sub_le (val (C06.midC Lf Hf)) ((val Lf + val Hf) / 2) b
      linarith
    have hbB : |b| ≤ B := by
      have e : b = (hi + lo) / 2 := by rw [hb]; ring
      rw [e, abs_div]
      have := abs_add_le hi lo
      have h2 : |(2 : ℚ)| = 2 := by norm_num
      rw [h2]; linarith
    have hbud' : (δ + eta B) + n * eta B ≤ ε := by
      have : ((n + 1 : Nat) : ℚ) = (n : ℚ) + 1 := by push_cast; ring
      rw [this] at hbud; linarith
    have hδ' : 0 ≤ δ + eta B := by linarith
    have hle' : δ + eta B ≤ ε := by
      have : (0 : ℚ) ≤ (n : ℚ) * eta B := by positivity
      linarith
    have hbf2 := abs_le.mp hbf
    by_cases hc : b ≤ val alt
    · -- exact: upper half; float: the same
      rw [if_pos hc] at hrest
      have habs : |val alt - b| = val alt - b := abs_of_nonneg (by linarith)
      rw [habs] at hmargin
      have hfl : le (C06.midC Lf Hf) alt = true := (le_iff_val _ _).mpr (by linarith [hbf2.2])
      simp only [hfl, if_true, hc]
      exact ih _ Hf (C06.midC Lf Hf) hi b (δ + eta B) hδ' (by linarith) hbf bH hbB hbud' hrest
    · rw [if_neg hc] at hrest
      have hlt : val alt < b := not_le.mp hc
      have habs : |val alt - b| = b - val alt := by rw [abs_of_neg (by linarith)]; ring
      rw [habs] at hmargin
      have hfl : ¬ (le (C06.midC Lf Hf) alt = true) := by
        rw [le_iff_val]; intro h; linarith [hbf2.1]
      simp only [hfl, if_false, hc]
      exact ih _ (C06.midC Lf Hf) Lf b lo (δ + eta B) hδ' hbf (by linarith) hbB bL hbud' hrest

/-- **calcBit_float_spec** — `calcBitIndex` in binary64 returns the exact clamped cell index whenever the altitude is clear of
the borders by `zoom · η` -/
theorem calcBit_float_spec (alt maxH minH : Dy) (zoom : Int) (B : ℚ) (hB : 0 ≤ B) (hlt : val minH < val maxH)
    (bH : |val maxH| ≤ B) (bL : |val minH| ≤ B) (hbud : (zoom.toNat : ℚ) * eta B ≤ 1)
    (hclear : Clear (val alt) ((zoom.toNat : ℚ) * eta B) zoom.toNat (val maxH) (val minH)) :
    calcBit alt zoom maxH minH =
      clampFloor ((val alt - val minH) / (val maxH - val minH) * 2 ^ zoom.toNat) zoom.toNat := by
  unfold calcBit
  rw [calcBitLoop_eq_calcQ alt B _ hB hbud zoom.toNat 0 maxH minH (val maxH) (val minH) 0 (le_refl _)
    (by simp) (by simp) bH bL (by simp) hclear, calcQ_spec _ _ _ _ _ hlt]
  simp

end SpatialId.C17
