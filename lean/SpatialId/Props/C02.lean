/-
C02 — an ID is mapped back to the geometry of its voxel, and the grid tiles space.
Model: `altOf`, `westLon`, `eastLon`, `vertices`, `centre`, `pointOnExt`, `pointOnSp` in SpatialId/Model/Point.lean
(software binary64), tied bit-for-bit to shape.GetPointOnExtendedSpatialId / GetPointOnSpatialId by the op family geom;
the centre round trip is evaluated on the implementation by the op family ctrrt.  Row latitudes are oracle values.
-/
import SpatialId.Props.C01
namespace SpatialId.C02
open SpatialId F64

theorem fits_of_natAbs_lt (i : Int) (h : i.natAbs < 2 ^ 53) : bitLen i.natAbs ≤ 53 := bitLen_le_of_lt _ _ h

theorem ofInt_of_fits (i : Int) (h0 : i ≠ 0) (h : i.natAbs < 2 ^ 53) : ofInt i = ⟨i, 0⟩ :=
  rnd_of_fits i 0 h0 (fits_of_natAbs_lt i h) (by omega)

/-! ### altitude edges: exact, and shared between vertically adjacent voxels -/

/-- **alt_edges_exact**: the bottom altitude of `f ≠ 0` at zoom `v` is exactly `f·2^(25-v)` metres (no rounding),
the resolution exactly `2^(25-v)`; for `f = 0` the bottom is 0 -/
theorem alt_edges_exact (f v : Int) (hf : f.natAbs < 2 ^ 53) (hv : 0 ≤ v ∧ v ≤ 35) (h0 : f ≠ 0) :
    altOf f v = (⟨f, 25 - v⟩, ⟨1, 25 - v⟩) := by
  unfold altOf scale F64.pow2
  rw [ofInt_of_fits f h0 hf]
  simp only [Int.zero_add]
  rw [rnd_of_fits f _ h0 (fits_of_natAbs_lt f hf) (by omega)]

theorem alt_zero (v : Int) : altOf 0 v = (⟨0, 0⟩, ⟨1, 25 - v⟩) := by
  simp [altOf, ofInt, scale, rnd_zero, F64.pow2]

/-- **shared_face_alt**: the top of voxel `f` is *identical* to the bottom of voxel `f+1` (the same rounding of the
same exact value), so vertically adjacent voxels report the same altitude for their shared face -/
theorem shared_face_alt (f v : Int) (hf : f.natAbs < 2 ^ 52) (hv : 0 ≤ v ∧ v ≤ 35) (h0 : f ≠ 0) :
    add (altOf f v).1 (altOf f v).2 = (altOf (f + 1) v).1 := by
  rw [alt_edges_exact f v (by omega) hv h0]
  simp only []
  unfold add
  simp only [Int.min_self, Int.sub_self, Int.toNat_zero, Int.pow_zero, Int.mul_one]
  by_cases h1 : f + 1 = 0
  · rw [h1, alt_zero, rnd_zero]
  · rw [alt_edges_exact (f + 1) v (by omega) hv h1]
    exact rnd_of_fits _ _ h1 (fits_of_natAbs_lt _ (by omega)) (by omega)

/-- the remaining case `f = 0` (whose bottom is the literal 0): equal as binary64 values at every zoom -/
theorem shared_face_alt_zero : ∀ v ∈ List.range 36,
    F64.eq (add (altOf 0 (v : Int)).1 (altOf 0 (v : Int)).2) (altOf 1 (v : Int)).1 = true := by decide +kernel

/-! ### longitude edges -/

/-- **shared_face_lon**: the east edge of column `x` is *identical* to the west edge of column `x+1` -/
theorem shared_face_lon (x h : Int) (hx : 0 ≤ x ∧ x < 2 ^ 52) : eastLon x h = westLon (x + 1) h := by
  unfold eastLon westLon
  have : add (ofInt x) ⟨1, 0⟩ = ofInt (x + 1) := by
    by_cases h0 : x = 0
    · subst h0; simp [ofInt, rnd_zero, add]
    · rw [ofInt_of_fits x h0 (by omega)]
      unfold add ofInt
      simp
  rw [this]

/-- **lon_edges_exact**: the west edge of column `x` (0 < x ≤ 2^h, h ≤ 35) is exactly `360·x/2^h − 180` degrees: every
intermediate value is representable, so no rounding occurs -/
theorem lon_edges_exact (x h : Int) (hh : 0 ≤ h ∧ h ≤ 35) (hx : 0 < x ∧ x ≤ 2 ^ h.toNat) (hne : 360 * x ≠ 180 * 2 ^ h.toNat) :
    westLon x h = ⟨360 * x - 180 * 2 ^ h.toNat, -h⟩ := by
  have hp : (2 : Int) ^ h.toNat ≤ 2 ^ 35 := by
    have : h.toNat ≤ 35 := by omega
    exact_mod_cast Nat.pow_le_pow_right (by decide : 1 ≤ 2) this
  have hp0 := two_pow_pos h.toNat
  unfold westLon
  rw [ofInt_of_fits x (by omega) (by omega)]
  have hm : mul (⟨x, 0⟩ : Dy) c360 = ⟨x * 360, 0⟩ := by
    unfold mul c360
    simp only [Int.add_zero]
    exact rnd_of_fits _ _ (by omega) (fits_of_natAbs_lt _ (by omega)) (by omega)
  rw [hm]
  have hs : scale (⟨x * 360, 0⟩ : Dy) (-h) = ⟨x * 360, -h⟩ := by
    unfold scale
    simp only [Int.zero_add]
    exact rnd_of_fits _ _ (by omega) (fits_of_natAbs_lt _ (by omega)) (by omega)
  rw [hs]
  unfold sub add neg c180
  simp only []
  have e1 : min (-h) 0 = -h := by omega
  rw [e1]
  have e2 : (-h - -h).toNat = 0 := by omega
  have e3 : (0 - -h).toNat = h.toNat := by omega
  rw [e2, e3, Int.pow_zero, Int.mul_one]
  have e4 : x * 360 + -180 * 2 ^ h.toNat = 360 * x - 180 * 2 ^ h.toNat := by omega
  rw [e4]
  exact rnd_of_fits _ _ (by omega) (fits_of_natAbs_lt _ (by omega)) (by omega)

/-! ### rows: a shared row boundary is reported identically by both neighbours, for any oracle -/

/-- the eight vertices for a row oracle `rowLat : row boundary ↦ latitude` -/
def verticesO (rowLat : Int → Dy) (x y h f v : Int) : List GeoPt :=
  vertices x h f v (rowLat (clampRow y h)) (rowLat (clampRow y h + 1))

/-- **corner_order**: NW, NE, SE, SW at the bottom altitude, then the same four at the top altitude -/
theorem corner_order (x h f v : Int) (n s : Dy) :
    vertices x h f v n s =
      let w := westLon (wrapLon x h) h
      let e := eastLon (wrapLon x h) h
      let b := (altOf f v).1
      let t := add (altOf f v).1 (altOf f v).2
      [newPointLossy w n b, newPointLossy e n b, newPointLossy e s b, newPointLossy w s b,
       newPointLossy w n t, newPointLossy e n t, newPointLossy e s t, newPointLossy w s t] := by
  simp [vertices]

/-- **shared_face_lat**: the south latitude of row `y` and the north latitude of row `y+1` are the same stored value,
whatever the oracle is: both evaluate it at the boundary `y+1` and apply the same truncation -/
theorem shared_face_lat (rowLat : Int → Dy) (x y h f v : Int) (hy : 0 ≤ y ∧ y + 1 ≤ 2 ^ h.toNat - 1) :
    ((verticesO rowLat x y h f v).getD 3 default).lat = ((verticesO rowLat x (y + 1) h f v).getD 0 default).lat := by
  have c1 : clampRow y h = y := by unfold clampRow; simp only []; split <;> [omega; (split <;> omega)]
  have c2 : clampRow (y + 1) h = y + 1 := by unfold clampRow; simp only []; split <;> [omega; (split <;> omega)]
  simp only [verticesO, vertices, c1, c2, List.getD_cons_succ, List.getD_cons_zero]

/-! ### the voxels of one zoom tile space without gaps or overlaps -/

/-- **tiling**: every point of space lies in exactly one voxel of each (hZoom, vZoom) -/
theorem tiling (h v : ℕ) (p : Pt) : ∃! o : Ext, o.h = h ∧ o.v = v ∧ p ∈ region o := by
  obtain ⟨hin, huniq⟩ := C01.names_containing_voxel p h v
  refine ⟨_, ⟨rfl, rfl, hin⟩, ?_⟩
  rintro o ⟨h1, h2, h3⟩
  exact huniq o h1 h2 h3

/-! ### errors and options -/

theorem pointOn_malformed (id : String) (opt : Int) (n s : Dy) (h : parseExt id = none) : pointOnExt id opt n s = .err := by
  simp [pointOnExt, h]

theorem pointOn_unknown_option (id : String) (opt : Int) (n s : Dy) (h : opt ≠ 0 ∧ opt ≠ 1) : pointOnExt id opt n s = .err := by
  unfold pointOnExt
  split
  · rfl
  · split
    · rfl
    · simp [h.1, h.2]

theorem pointOn_counts (id : String) (opt : Int) (n s : Dy) (l : List GeoPt) (h : pointOnExt id opt n s = .ok l) :
    (opt = 0 ∧ l.length = 8) ∨ (opt = 1 ∧ l.length = 1) := by
  unfold pointOnExt at h
  split at h
  · cases h
  · split at h
    · cases h
    · split at h
      · rename_i h1
        simp only [Outcome.ok.injEq] at h; subst h; exact Or.inr ⟨h1, rfl⟩
      · split at h
        · rename_i h0
          simp only [Outcome.ok.injEq] at h; subst h; exact Or.inl ⟨h0, by simp [vertices]⟩
        · cases h

theorem pointOn_no_panic (id : String) (opt : Int) (n s : Dy) :
    pointOnExt id opt n s ≠ .panic ∧ pointOnSp id opt n s ≠ .panic := by
  have h1 : ∀ id, pointOnExt id opt n s ≠ .panic := by
    intro id; unfold pointOnExt
    split; · simp
    split; · simp
    split; · simp
    split <;> simp
  refine ⟨h1 id, ?_⟩
  unfold pointOnSp
  split
  · simp
  · exact h1 _

/-- Tokyo-area voxel: kernel-evaluated geometry (west/east edges and altitudes), non-vacuity of the hypotheses -/
example : westLon 29803148 25 = ⟨360 * 29803148 - 180 * 2 ^ 25, -25⟩ := by decide +kernel
example : (altOf (-1) 25).1 = ⟨-1, 0⟩ := by decide

end SpatialId.C02
