/-
C07 — shifting an ID is modular translation on the grid.
Model: SpatialId/Model/Shift.lean (`wrapIdx`, `shiftE`, `shift`), tied to
operated.GetShiftingSpatialID by the `shift`/`shift2` op families.
-/
import SpatialId.Model.Shift
import SpatialId.Lemmas.Core
namespace SpatialId.C07
open SpatialId

/-- the `for s < 0 { s += n }` loop only ever adds multiples of `n`, and with enough fuel ends non-negative -/
theorem wrapLoop_spec (n : Int) (_hn : 0 < n) :
    ∀ (fuel : Nat) (s : Int), (∃ k : Nat, wrapLoop n fuel s = s + k * n) ∧
      (0 ≤ s + fuel * n → 0 ≤ wrapLoop n fuel s) := by
  intro fuel
  induction fuel with
  | zero => intro s; exact ⟨⟨0, by simp [wrapLoop]⟩, by simp [wrapLoop]⟩
  | succ f ih =>
    intro s
    simp only [wrapLoop]
    split
    · obtain ⟨⟨k, hk⟩, h2⟩ := ih (s + n)
      refine ⟨⟨k + 1, ?_⟩, ?_⟩
      · rw [hk]; push_cast; rw [Int.add_mul]; omega
      · intro h; apply h2
        have : ((f + 1 : Nat) : Int) * n = f * n + n := by push_cast; rw [Int.add_mul]; omega
        omega
    · exact ⟨⟨0, by simp⟩, fun _ => by omega⟩

/-- the wrap step is reduction modulo `2^h` (for every zoom the int64 arithmetic can carry) -/
theorem wrapIdx_eq_emod (h s : Int) (hh : 0 ≤ h) : wrapIdx h s = s % 2 ^ h.toNat := by
  have hn : 0 < pow2 h := pow2_pos h hh
  have hp : pow2 h = 2 ^ h.toNat := pow2_nonneg_eq h hh
  unfold wrapIdx
  simp only []
  split
  · rename_i hcond
    obtain ⟨⟨k, hk⟩, hnn⟩ := wrapLoop_spec (pow2 h) hn ((-s) / pow2 h + 2).toNat s
    have hfuel : 0 ≤ s + (((-s) / pow2 h + 2).toNat : Int) * pow2 h := by
      by_cases hs : 0 ≤ s
      · have : 0 ≤ (((-s) / pow2 h + 2).toNat : Int) * pow2 h :=
          Int.mul_nonneg (Int.natCast_nonneg _) (Int.le_of_lt hn)
        omega
      · have hq : 0 ≤ (-s) / pow2 h := Int.ediv_nonneg (by omega) (Int.le_of_lt hn)
        have h1 := Int.lt_ediv_add_one_mul_self (-s) hn
        have h2 : (((-s) / pow2 h + 2).toNat : Int) = (-s) / pow2 h + 2 := by omega
        rw [h2]
        have h3 : ((-s) / pow2 h + 2) * pow2 h = ((-s) / pow2 h + 1) * pow2 h + pow2 h := by
          rw [show (-s) / pow2 h + 2 = ((-s) / pow2 h + 1) + 1 by omega, Int.add_mul _ 1, Int.one_mul]
        omega
    have hpos := hnn hfuel
    rw [Int.tmod_eq_emod_of_nonneg hpos, hk, Int.add_mul_emod_self_right, hp]
  · rename_i hcond
    have h0 : 0 ≤ s := by omega
    have h1 : s < 2 ^ h.toNat := by rw [← hp]; omega
    exact (Int.emod_eq_of_lt h0 h1).symm

/-- **shift_spec**: same zooms, x and y advanced modulo `2^h`, f advanced without bound. -/
theorem shift_spec (e : Ext) (dx dy dv : Int) (hh : 0 ≤ e.h) :
    shiftE e dx dy dv = ⟨e.h, (e.x + dx) % 2 ^ e.h.toNat, (e.y + dy) % 2 ^ e.h.toNat, e.v, e.f + dv⟩ := by
  simp [shiftE, wrapIdx_eq_emod _ _ hh]

/-- the result is always inside the horizontal index range -/
theorem shift_in_range (e : Ext) (dx dy dv : Int) (hh : 0 ≤ e.h) :
    0 ≤ (shiftE e dx dy dv).x ∧ (shiftE e dx dy dv).x < 2 ^ e.h.toNat ∧
    0 ≤ (shiftE e dx dy dv).y ∧ (shiftE e dx dy dv).y < 2 ^ e.h.toNat := by
  rw [shift_spec e dx dy dv hh]
  have hp := two_pow_pos e.h.toNat
  exact ⟨Int.emod_nonneg _ (Int.ne_of_gt hp), Int.emod_lt_of_pos _ hp,
         Int.emod_nonneg _ (Int.ne_of_gt hp), Int.emod_lt_of_pos _ hp⟩

/-- a zero shift is the identity on IDs whose horizontal indices are in range -/
theorem shift_zero (e : Ext) (hh : 0 ≤ e.h) (hx : 0 ≤ e.x ∧ e.x < 2 ^ e.h.toNat)
    (hy : 0 ≤ e.y ∧ e.y < 2 ^ e.h.toNat) : shiftE e 0 0 0 = e := by
  rw [shift_spec e 0 0 0 hh]
  cases e
  simp only [Int.add_zero] at *
  simp [Int.emod_eq_of_lt hx.1 hx.2, Int.emod_eq_of_lt hy.1 hy.2]

/-- two shifts compose to the shift by the sum (no validity hypothesis needed beyond `0 ≤ h`) -/
theorem shift_add (e : Ext) (ax ay av bx by' bv : Int) (hh : 0 ≤ e.h) :
    shiftE (shiftE e ax ay av) bx by' bv = shiftE e (ax + bx) (ay + by') (av + bv) := by
  have hh' : 0 ≤ (shiftE e ax ay av).h := by simp [shiftE, hh]
  rw [shift_spec _ bx by' bv hh', shift_spec e ax ay av hh, shift_spec e _ _ _ hh]
  simp only [Ext.mk.injEq, true_and]
  refine ⟨?_, ?_, by omega⟩
  · rw [Int.emod_add_emod]; congr 1; omega
  · rw [Int.emod_add_emod]; congr 1; omega

/-- shifting back by the negated offsets restores a valid ID -/
theorem shift_neg (e : Ext) (dx dy dv : Int) (hh : 0 ≤ e.h) (hx : 0 ≤ e.x ∧ e.x < 2 ^ e.h.toNat)
    (hy : 0 ≤ e.y ∧ e.y < 2 ^ e.h.toNat) :
    shiftE (shiftE e dx dy dv) (-dx) (-dy) (-dv) = e := by
  rw [shift_add e dx dy dv (-dx) (-dy) (-dv) hh]
  have : dx + -dx = 0 ∧ dy + -dy = 0 ∧ dv + -dv = 0 := by omega
  rw [this.1, this.2.1, this.2.2]
  exact shift_zero e hh hx hy

/-- string level: a malformed ID gives the empty string, a well-formed one the printed shifted voxel -/
theorem shift_malformed (id : String) (dx dy dv : Int) (h : parseExt id = none) : shift id dx dy dv = "" := by
  simp [shift, h]

theorem shift_wellformed (id : String) (e : Ext) (dx dy dv : Int) (h : parseExt id = some e) :
    shift id dx dy dv = (shiftE e dx dy dv).id := by
  simp [shift, h]

/-- non-vacuity: the hypotheses are met by a concrete edge voxel, and the wrap really wraps -/
example : shiftE ⟨5, 31, 0, 5, -1⟩ 1 (-1) 3 = ⟨5, 0, 31, 5, 2⟩ := by decide

end SpatialId.C07
