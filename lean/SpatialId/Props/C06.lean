/-
C06 — a line is voxelised without gaps, onto voxels the segment really touches.
Model: SpatialId/Model/Line.lean (`P3.mid`, `belowThr`, `middle`, `lineExt`) over binary64, with the voxel function `vox`
a parameter (x, f computed, row index from the oracle table); tied to shape.GetExtendedSpatialIdsOnLine /
GetSpatialIdsOnLine / middleSpatialIds by the op family line (exact set comparison), and checked on the implementation's
own output by an independent checker (end voxels, duplicates, 26-connected chain, every voxel touched by the segment).
-/
import Mathlib.Tactic.Ring
import Mathlib.Tactic.Linarith
import SpatialId.Model.Line
import SpatialId.Props.C08
namespace SpatialId.C06
open SpatialId F64 C08

/-! ### connectivity -/

/-- `b` can be reached from `a` by steps between touching voxels that stay inside `S` -/
inductive Conn (S : List Ext) : Ext → Ext → Prop
  | refl (a : Ext) : Conn S a a
  | step {a b c : Ext} : Conn S a b → touch b c → c ∈ S → Conn S a c

theorem Conn.mono {S T : List Ext} (h : ∀ x ∈ S, x ∈ T) {a b : Ext} (c : Conn S a b) : Conn T a b := by
  induction c with
  | refl => exact Conn.refl _
  | step _ t m ih => exact Conn.step ih t (h _ m)

theorem Conn.trans {S : List Ext} {a b c : Ext} (h1 : Conn S a b) (h2 : Conn S b c) : Conn S a c := by
  induction h2 with
  | refl => exact h1
  | step _ t m ih => exact Conn.step ih t m

theorem stencil6_sub_26 : ∀ d ∈ stencil6, d ∈ stencil26 := by decide

/-- a face neighbour (or the voxel itself) touches the voxel -/
theorem adj_of_mem_n6 (a m : Ext) (h : m ∈ n6E a ++ [a]) : adj a m := by
  rw [List.mem_append, List.mem_singleton] at h
  rcases h with h | h
  · rw [n6_eq, List.mem_map] at h
    obtain ⟨d, hd, rfl⟩ := h
    exact Or.inr ⟨d, stencil6_sub_26 d hd, rfl⟩
  · exact Or.inl h

/-- **connected** (recursion): the voxels emitted for a sub-segment, together with its two end voxels, contain a chain
of touching voxels from the start voxel to the end voxel -/
theorem middle_connected (vox : P3 → Ext) (thr : P3 → P3 → Bool) :
    ∀ (fuel : Nat) (s e : P3) (l : List Ext), middle vox thr fuel s e = some l → thrTight vox thr fuel s e = true →
      Conn (vox s :: vox e :: l) (vox s) (vox e) := by
  intro fuel
  induction fuel with
  | zero => intro s e l h; simp [middle] at h
  | succ fuel ih =>
    intro s e l h ht
    simp only [middle] at h
    simp only [thrTight] at ht
    by_cases c0 : thr s e = true
    · simp only [c0, if_true, Option.some.injEq] at h
      simp only [c0, if_true, Bool.and_eq_true, decide_eq_true_eq] at ht
      subst h
      exact Conn.step (Conn.step (Conn.refl _) ht.1 (by simp)) ht.2 (by simp)
    · simp only [c0, Bool.false_eq_true, if_false] at h ht
      by_cases c1 : vox (P3.mid s e) ∈ n6E (vox s) ++ [vox s] ∧ vox (P3.mid s e) ∈ n6E (vox e) ++ [vox e]
      · simp only [c1, and_self, if_true, Option.some.injEq] at h
        subst h
        have t1 : touch (vox s) (vox (P3.mid s e)) := Or.inl (adj_of_mem_n6 _ _ c1.1)
        have t2 : touch (vox (P3.mid s e)) (vox e) := Or.inr (adj_of_mem_n6 _ _ c1.2)
        exact Conn.step (Conn.step (Conn.refl _) t1 (by simp)) t2 (by simp)
      · simp only [c1, if_false] at h ht
        by_cases c2 : vox (P3.mid s e) ∈ n6E (vox s) ++ [vox s]
        · simp only [c2, if_true] at h ht
          cases hm : middle vox thr fuel (P3.mid s e) e with
          | none => simp [hm] at h
          | some l' =>
            simp only [hm, Option.map_some, Option.some.injEq] at h
            subst h
            have t1 : touch (vox s) (vox (P3.mid s e)) := Or.inl (adj_of_mem_n6 _ _ c2)
            have c := ih _ _ _ hm ht
            have c' : Conn (vox s :: vox e :: vox (P3.mid s e) :: l') (vox (P3.mid s e)) (vox e) :=
              c.mono (by intro x hx; simp only [List.mem_cons] at hx ⊢; tauto)
            exact Conn.trans (Conn.step (Conn.refl _) t1 (by simp)) c'
        · simp only [c2, if_false] at h ht
          by_cases c3 : vox (P3.mid s e) ∈ n6E (vox e) ++ [vox e]
          · simp only [c3, if_true] at h ht
            cases hm : middle vox thr fuel s (P3.mid s e) with
            | none => simp [hm] at h
            | some l' =>
              simp only [hm, Option.map_some, Option.some.injEq] at h
              subst h
              have t2 : touch (vox (P3.mid s e)) (vox e) := Or.inr (adj_of_mem_n6 _ _ c3)
              have c := ih _ _ _ hm ht
              have c' : Conn (vox s :: vox e :: vox (P3.mid s e) :: l') (vox s) (vox (P3.mid s e)) :=
                c.mono (by intro x hx; simp only [List.mem_cons] at hx ⊢; tauto)
              exact Conn.step c' t2 (by simp)
          · simp only [c3, if_false, Bool.and_eq_true] at h ht
            cases hm1 : middle vox thr fuel s (P3.mid s e) with
            | none => simp [hm1] at h
            | some l1 =>
              cases hm2 : middle vox thr fuel (P3.mid s e) e with
              | none => simp [hm1, hm2] at h
              | some l2 =>
                simp only [hm1, hm2, Option.some.injEq] at h
                subst h
                have c1' := (ih _ _ _ hm1 ht.1).mono (T := vox s :: vox e :: vox (P3.mid s e) :: (l1 ++ l2))
                  (by intro x hx; simp only [List.mem_cons, List.mem_append] at hx ⊢; tauto)
                have c2' := (ih _ _ _ hm2 ht.2).mono (T := vox s :: vox e :: vox (P3.mid s e) :: (l1 ++ l2))
                  (by intro x hx; simp only [List.mem_cons, List.mem_append] at hx ⊢; tauto)
                exact Conn.trans c1' c2'

/-! ### the exported function -/

/-- **ends_included**, **nodup**, **single_voxel**, **connected** for `GetExtendedSpatialIdsOnLine`: whenever the call
succeeds the result is duplicate-free, contains the voxels of both end points, is that single ID when both end points
lie in one voxel, and — provided the end voxels of the recursion are those of the stored end points and the threshold
stops are tight — contains a chain of touching voxels from the start voxel to the end voxel -/
theorem line_spec (tbl : RowTable) (s e : GeoPt) (h v : Int) (fuel : Nat) (l : List Ext)
    (hl : lineExt tbl s e h v fuel = .ok l) :
    l.Nodup ∧ voxStored tbl h v s ∈ l ∧ voxStored tbl h v e ∈ l ∧
    (voxStored tbl h v s = voxStored tbl h v e → l = [voxStored tbl h v s]) := by
  unfold lineExt at hl
  split at hl
  · cases hl
  · simp only [] at hl
    by_cases heq : voxStored tbl h v s = voxStored tbl h v e
    · simp only [heq, if_true, Outcome.ok.injEq] at hl
      subst hl
      simp [heq]
    · simp only [heq, if_false] at hl
      split at hl
      · cases hl
      · simp only [Outcome.ok.injEq] at hl
        subst hl
        refine ⟨nodup_dedup _, ?_, ?_, fun h => absurd h heq⟩
        · rw [mem_dedup]; simp
        · rw [mem_dedup]; simp

theorem line_connected (tbl : RowTable) (s e : GeoPt) (h v : Int) (fuel : Nat) (l : List Ext)
    (hl : lineExt tbl s e h v fuel = .ok l)
    (hs : voxP3 tbl h v ⟨s.lon, s.lat, s.alt⟩ = voxStored tbl h v s)
    (he : voxP3 tbl h v ⟨e.lon, e.lat, e.alt⟩ = voxStored tbl h v e)
    (ht : thrTight (voxP3 tbl h v)
      (belowThr (if h ≥ 31 then hiLonMinima else lonMinima) (if h ≥ 31 then hiLatMinima else latMinima)
        (if v ≥ 34 then hiAltMinima else altMinima)) fuel ⟨s.lon, s.lat, s.alt⟩ ⟨e.lon, e.lat, e.alt⟩ = true) :
    Conn l (voxStored tbl h v s) (voxStored tbl h v e) := by
  unfold lineExt at hl
  split at hl
  · cases hl
  · simp only [] at hl
    by_cases heq : voxStored tbl h v s = voxStored tbl h v e
    · rw [heq]; exact Conn.refl _
    · simp only [heq, if_false] at hl
      cases hm : middle (voxP3 tbl h v)
          (belowThr (if h ≥ 31 then hiLonMinima else lonMinima) (if h ≥ 31 then hiLatMinima else latMinima)
            (if v ≥ 34 then hiAltMinima else altMinima)) fuel ⟨s.lon, s.lat, s.alt⟩ ⟨e.lon, e.lat, e.alt⟩ with
      | none => simp [hm] at hl
      | some l' =>
        simp only [hm, Outcome.ok.injEq] at hl
        subst hl
        have c := middle_connected _ _ fuel _ _ l' hm ht
        rw [hs, he] at c
        exact c.mono (by intro x hx; rw [mem_dedup]; simpa using hx)

theorem line_errors (tbl : RowTable) (s e : GeoPt) (h v : Int) (fuel : Nat) (hz : ¬ (0 ≤ h ∧ h ≤ 35 ∧ 0 ≤ v ∧ v ≤ 35)) :
    lineExt tbl s e h v fuel = .err := by
  unfold lineExt checkZoom
  have : (decide (0 ≤ h) && decide (h ≤ 35) && (decide (0 ≤ v) && decide (v ≤ 35))) = false := by
    simp only [Bool.and_eq_false_iff, decide_eq_false_iff_not]; omega
  simp [this]

/-! ### every emitted voxel is the voxel of a point of the segment (exact arithmetic) -/

/-- points obtained from the two end points by repeated halving — what the recursion evaluates `vox` at -/
inductive Dyadic (s e : P3) : P3 → Prop
  | start : Dyadic s e s
  | stop : Dyadic s e e
  | mid {a b : P3} : Dyadic s e a → Dyadic s e b → Dyadic s e (P3.mid a b)

/-- **mid_on_segment (model)**: every voxel handed to `operate` is the voxel of a dyadic point of the segment -/
theorem middle_dyadic (vox : P3 → Ext) (thr : P3 → P3 → Bool) (s0 e0 : P3) :
    ∀ (fuel : Nat) (s e : P3) (l : List Ext), Dyadic s0 e0 s → Dyadic s0 e0 e → middle vox thr fuel s e = some l →
      ∀ o ∈ l, ∃ p, Dyadic s0 e0 p ∧ o = vox p := by
  intro fuel
  induction fuel with
  | zero => intro s e l _ _ h; simp [middle] at h
  | succ fuel ih =>
    intro s e l ds de h o ho
    have dm : Dyadic s0 e0 (P3.mid s e) := Dyadic.mid ds de
    simp only [middle] at h
    split at h
    · simp only [Option.some.injEq] at h; subst h
      rw [List.mem_singleton] at ho; exact ⟨_, dm, ho⟩
    · split at h
      · simp only [Option.some.injEq] at h; subst h
        rw [List.mem_singleton] at ho; exact ⟨_, dm, ho⟩
      · split at h
        · cases hm : middle vox thr fuel (P3.mid s e) e with
          | none => simp [hm] at h
          | some l' =>
            simp only [hm, Option.map_some, Option.some.injEq] at h; subst h
            rcases List.mem_cons.mp ho with rfl | ho
            · exact ⟨_, dm, rfl⟩
            · exact ih _ _ _ dm de hm o ho
        · split at h
          · cases hm : middle vox thr fuel s (P3.mid s e) with
            | none => simp [hm] at h
            | some l' =>
              simp only [hm, Option.map_some, Option.some.injEq] at h; subst h
              rcases List.mem_cons.mp ho with rfl | ho
              · exact ⟨_, dm, rfl⟩
              · exact ih _ _ _ ds dm hm o ho
          · cases hm1 : middle vox thr fuel s (P3.mid s e) with
            | none => simp [hm1] at h
            | some l1 =>
              cases hm2 : middle vox thr fuel (P3.mid s e) e with
              | none => simp [hm1, hm2] at h
              | some l2 =>
                simp only [hm1, hm2, Option.some.injEq] at h; subst h
                rcases List.mem_cons.mp ho with rfl | ho
                · exact ⟨_, dm, rfl⟩
                · rcases List.mem_append.mp ho with ho | ho
                  · exact ih _ _ _ ds dm hm1 o ho
                  · exact ih _ _ _ dm de hm2 o ho

/-- in exact arithmetic the midpoint of two points of a segment is a point of the segment: with
`a = s + tₐ(e−s)` and `b = s + t_b(e−s)`, `a + (b−a)/2 = s + ((tₐ+t_b)/2)(e−s)` and `(tₐ+t_b)/2 ∈ [0,1]` -/
theorem mid_on_segment (s e ta tb : ℚ) (ha : 0 ≤ ta ∧ ta ≤ 1) (hb : 0 ≤ tb ∧ tb ≤ 1) :
    let a := s + ta * (e - s)
    let b := s + tb * (e - s)
    a + (b - a) / 2 = s + ((ta + tb) / 2) * (e - s) ∧ 0 ≤ (ta + tb) / 2 ∧ (ta + tb) / 2 ≤ 1 := by
  refine ⟨by ring, by linarith [ha.1, hb.1], by linarith [ha.2, hb.2]⟩

end SpatialId.C06
