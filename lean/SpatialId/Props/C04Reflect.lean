/-
C04, last clause: "the rule is the same above and below ground level".
Formal content: merging commutes with the reflection of the vertical axis `f ↦ −1−f` (the map that sends the layer
just above ground, f = 0, to the layer just below, f = −1, at every zoom):

    o ∈ merge (es.map refl) H V  ↔  refl o ∈ merge es H V

for every well-formed list and every target.  (The defect D2 — truncating division in `Higher` — was a failure of
exactly this symmetry; the theorem is about the repaired rule, which the model and the implementation share.)
-/
import SpatialId.Props.C04
namespace SpatialId.C04
open SpatialId

/-- reflection of the vertical axis about ground level -/
def refl (e : Ext) : Ext := ⟨e.h, e.x, e.y, e.v, -1 - e.f⟩

@[simp] theorem refl_refl (e : Ext) : refl (refl e) = e := by
  cases e; simp only [refl, Ext.mk.injEq, true_and]; omega

theorem mem_map_refl (es : List Ext) (o : Ext) : o ∈ es.map refl ↔ refl o ∈ es := by
  simp only [List.mem_map]
  constructor
  · rintro ⟨e, he, rfl⟩; rwa [refl_refl]
  · intro h; exact ⟨refl o, h, refl_refl o⟩

/-- floor division commutes with the reflection -/
theorem ediv_refl (f n : Int) (hn : 0 < n) : (-1 - f) / n = -1 - f / n := by
  have h1 := Int.emod_nonneg f (ne_of_gt hn)
  have h2 := Int.emod_lt_of_pos f hn
  have h3 := Int.mul_ediv_add_emod f n
  refine ((Int.ediv_emod_unique hn).mpr (⟨?_, ?_, ?_⟩ : (n - 1 - f % n) + n * (-1 - f / n) = -1 - f ∧ _ ∧ _)).1
  · conv_rhs => rw [← h3]
    ring
  · omega
  · omega

theorem axisMeet_refl (z Z : ℕ) (i j : ℤ) : axisMeet z Z (-1 - i) (-1 - j) ↔ axisMeet z Z i j := by
  unfold axisMeet
  split
  · rw [ediv_refl _ _ (by positivity)]; constructor <;> intro h <;> omega
  · rw [ediv_refl _ _ (by positivity)]; constructor <;> intro h <;> omega

theorem meets_refl (e o : Ext) : meets (refl e) (refl o) ↔ meets e o := by
  unfold meets refl
  simp only [axisMeet_refl]

theorem anc_refl (e : Ext) (H V : Int) : C05.anc (refl e) H V = refl (C05.anc e H V) := by
  unfold C05.anc refl
  simp only [Ext.mk.injEq, true_and]
  exact ediv_refl _ _ (by positivity)

/-- covering a voxel, decided on the cells of any zoom pair at least as fine as everything involved -/
theorem subset_iff_units (k : Ext) (L : List Ext) (mH mV : Int)
    (hk : 0 ≤ k.h ∧ 0 ≤ k.v ∧ k.h ≤ mH ∧ k.v ≤ mV) (hL : ∀ e ∈ L, 0 ≤ e.h ∧ 0 ≤ e.v ∧ e.h ≤ mH ∧ e.v ≤ mV) :
    region k ⊆ regionL L ↔ ∀ u : Ext, u.h = mH → u.v = mV → meets k u → ∃ e ∈ L, meets e u := by
  constructor
  · intro hsub u r1 r2 hm
    have hs : region u ⊆ region k :=
      region_subset_of_meets k u (by rw [r1]; omega) (by rw [r2]; omega) hm
    obtain ⟨p, hp⟩ := region_nonempty u
    obtain ⟨e, he, hpe⟩ := hsub (hs hp)
    exact ⟨e, he, (meets_iff e u).mp ⟨p, hpe, hp⟩⟩
  · intro hu p hp
    let u : Ext := ⟨mH, cell mH.toNat p.u, cell mH.toNat p.w, mV, cell mV.toNat p.a⟩
    have hpu : p ∈ region u := ⟨rfl, rfl, rfl⟩
    obtain ⟨e, he, hm⟩ := hu u rfl rfl ((meets_iff k u).mp ⟨p, hp, hpu⟩)
    have := hL e he
    exact ⟨e, he, region_subset_of_meets e u (by show e.h.toNat ≤ mH.toNat; omega) (by show e.v.toNat ≤ mV.toNat; omega) hm hpu⟩

theorem wfL_refl (es : List Ext) (hw : wfL es) : wfL (es.map refl) := by
  intro e he
  have := hw (refl e) ((mem_map_refl es e).mp he)
  exact this

theorem mem_membersOf_refl (es : List Ext) (hw : wfL es) (H V : Int) (k e : Ext) :
    e ∈ membersOf (es.map refl) H V (refl k) ↔ refl e ∈ membersOf es H V k := by
  rw [mem_membersOf, mem_membersOf, mem_map_refl]
  constructor
  · rintro ⟨he, hel, hk⟩
    refine ⟨he, hel, ?_⟩
    rw [keyOf_eq_anc _ (wfL_refl es hw) H V e ((mem_map_refl es e).mpr he) hel.1 hel.2] at hk
    rw [keyOf_eq_anc es hw H V (refl e) he hel.1 hel.2, anc_refl, hk, refl_refl]
  · rintro ⟨he, hel, hk⟩
    refine ⟨he, hel, ?_⟩
    rw [keyOf_eq_anc es hw H V (refl e) he hel.1 hel.2] at hk
    rw [keyOf_eq_anc _ (wfL_refl es hw) H V e ((mem_map_refl es e).mpr he) hel.1 hel.2, ← hk, anc_refl, refl_refl]

/-- a candidate is filled by the reflected inputs iff its mirror image is filled by the inputs -/
theorem filled_refl (es : List Ext) (hw : wfL es) (H V : Int) (k : Ext) (hk : 0 ≤ k.h ∧ 0 ≤ k.v) :
    filled (es.map refl) H V (refl k) ↔ filled es H V k := by
  unfold filled
  -- a zoom pair finer than everything: the list maxima and the candidate's zooms
  let mH := max (maxZoomH es) k.h
  let mV := max (maxZoomV es) k.v
  have hmH := (maxZoomH_ge es).2
  have hmV := (maxZoomV_ge es).2
  have bL : ∀ e ∈ membersOf es H V k, 0 ≤ e.h ∧ 0 ≤ e.v ∧ e.h ≤ mH ∧ e.v ≤ mV := by
    intro e he
    obtain ⟨hes, _, _⟩ := (mem_membersOf es H V k e).mp he
    have := hw e hes; have := hmH e hes; have := hmV e hes
    refine ⟨by omega, by omega, ?_, ?_⟩ <;> simp only [mH, mV] <;> omega
  have bL' : ∀ e ∈ membersOf (es.map refl) H V (refl k), 0 ≤ e.h ∧ 0 ≤ e.v ∧ e.h ≤ mH ∧ e.v ≤ mV := by
    intro e he
    exact bL (refl e) ((mem_membersOf_refl es hw H V k e).mp he)
  have bk : 0 ≤ k.h ∧ 0 ≤ k.v ∧ k.h ≤ mH ∧ k.v ≤ mV := by
    refine ⟨hk.1, hk.2, ?_, ?_⟩ <;> simp only [mH, mV] <;> omega
  rw [subset_iff_units (refl k) _ mH mV bk bL', subset_iff_units k _ mH mV bk bL]
  constructor
  · intro h u r1 r2 hm
    obtain ⟨e, he, hme⟩ := h (refl u) r1 r2 ((meets_refl k u).mpr hm)
    refine ⟨refl e, (mem_membersOf_refl es hw H V k e).mp he, ?_⟩
    exact (meets_refl (refl e) u).mp (by rw [refl_refl]; exact hme)
  · intro h u r1 r2 hm
    obtain ⟨e, he, hme⟩ := h (refl u) r1 r2 (by rw [← meets_refl, refl_refl]; exact hm)
    refine ⟨refl e, (mem_membersOf_refl es hw H V k (refl e)).mpr (by rw [refl_refl]; exact he), ?_⟩
    exact (meets_refl (refl e) u).mp (by rw [refl_refl]; exact hme)

/-- **merge_reflect** — the merge rule is the same above and below ground level -/
theorem merge_reflect (es : List Ext) (hw : wfL es) (H V : Int) (hH0 : 0 ≤ H) (hV0 : 0 ≤ V) (o : Ext) :
    o ∈ mergeExtE (es.map refl) H V ↔ refl o ∈ mergeExtE es H V := by
  rw [mem_merge _ (wfL_refl es hw) H V hH0 hV0, mem_merge es hw H V hH0 hV0]
  have fr : ∀ e : Ext, filled (es.map refl) H V (C05.anc (refl e) H V) ↔ filled es H V (C05.anc e H V) := by
    intro e
    rw [anc_refl]
    exact filled_refl es hw H V _ ⟨hH0, hV0⟩
  constructor
  · rintro (⟨ho, hne⟩ | ⟨e, he, hel, rfl, hf⟩ | ⟨ho, hoel, hnf⟩)
    · exact Or.inl ⟨(mem_map_refl es o).mp ho, hne⟩
    · right; left
      refine ⟨refl e, (mem_map_refl es e).mp he, hel, ?_, ?_⟩
      · rw [anc_refl]
      · have := (fr (refl e)); rw [refl_refl] at this; exact this.mp hf
    · right; right
      refine ⟨(mem_map_refl es o).mp ho, hoel, ?_⟩
      intro hf; apply hnf
      have := (fr (refl o)); rw [refl_refl] at this; exact this.mpr hf
  · rintro (⟨ho, hne⟩ | ⟨e, he, hel, hoe, hf⟩ | ⟨ho, hoel, hnf⟩)
    · exact Or.inl ⟨(mem_map_refl es o).mpr ho, hne⟩
    · right; left
      refine ⟨refl e, (mem_map_refl es (refl e)).mpr (by rw [refl_refl]; exact he), hel, ?_, ?_⟩
      · rw [anc_refl, ← hoe, refl_refl]
      · exact (fr e).mpr hf
    · right; right
      refine ⟨(mem_map_refl es o).mpr ho, hoel, ?_⟩
      intro hf; apply hnf
      have := (fr (refl o)); rw [refl_refl] at this; exact this.mp hf

/-- non-vacuity and a concrete instance: the pair straddling ground level (the D2 witness) and its mirror image
behave alike — neither is merged at (5,4), since the two voxels lie in different zoom-4 layers. -/
example : mergeExtE [⟨5,1,1,5,-1⟩, ⟨5,1,1,5,0⟩] 5 4 = [⟨5,1,1,5,-1⟩, ⟨5,1,1,5,0⟩] := by decide +kernel
example : mergeExtE ([⟨5,1,1,5,-1⟩, ⟨5,1,1,5,0⟩].map refl) 5 4 = [⟨5,1,1,5,0⟩, ⟨5,1,1,5,-1⟩] := by decide +kernel
example : mergeExtE [⟨5,1,1,5,-2⟩, ⟨5,1,1,5,-1⟩] 5 4 = [⟨5,1,1,4,-1⟩] := by decide +kernel
example : mergeExtE ([⟨5,1,1,5,-2⟩, ⟨5,1,1,5,-1⟩].map refl) 5 4 = [⟨5,1,1,4,0⟩] := by decide +kernel

end SpatialId.C04
