/-
C01 — a point is mapped to the one grid voxel that contains it.
Model: SpatialId/Model/Point.lean over the software binary64 of F64.lean (`xIndex`, `yIndex`, `fIndex`,
`pointToExt`, `pointsToExt`, `newPoint`), tied bit-for-bit to shape.GetExtendedSpatialIdsOnPoints /
GetSpatialIdsOnPoints / getHorizontalTileIdOnPoint / getVerticalTileIdOnAltitude / object.NewPoint by the op
families newpt and points; the latitude's transcendental sub-expression `u` is an oracle value (DESIGN §2.3).
-/
import Mathlib.Algebra.Order.Floor.Ring
import Mathlib.Algebra.Order.Archimedean.Real.Basic
import Mathlib.Tactic.Ring
import Mathlib.Tactic.Linarith
import SpatialId.Model.Point
import SpatialId.Lemmas.F64
import SpatialId.Spec.Region
namespace SpatialId.C01
open SpatialId F64

/-! ### vertical index: floor of the exact quotient, also below ground -/

/-- **f_exact**: for every binary64 altitude whose scaled value does not underflow, the index is the floor of the
*exact* dyadic `alt·2^v/2^25` — at every vertical zoom and for both signs -/
theorem f_exact (alt : Dy) (v : Int) (hr : Rep alt) (hu : -1074 ≤ alt.e + v - 25) :
    fIndex alt v = floorInt ⟨alt.m, alt.e + v - 25⟩ := by
  unfold fIndex scale
  have : alt.e + (v - 25) = alt.e + v - 25 := by omega
  rw [this]
  exact floorInt_rnd_of_fits _ _ hr.1 hu

/-- the floor of a dyadic is the floor of the real number it denotes -/
theorem floorInt_eq_floor (m e : Int) : floorInt ⟨m, e⟩ = ⌊(m : ℝ) * (2 : ℝ) ^ e⌋ := by
  unfold floorInt
  simp only []
  split
  · rename_i h
    obtain ⟨n, rfl⟩ := Int.eq_ofNat_of_zero_le h
    simp only [Int.toNat_natCast, zpow_natCast]
    have : (m : ℝ) * 2 ^ n = ((m * 2 ^ n : Int) : ℝ) := by push_cast; ring
    rw [this, Int.floor_intCast]
  · rename_i h
    obtain ⟨n, hn⟩ := Int.eq_ofNat_of_zero_le (show 0 ≤ -e by omega)
    have he : e = -(n : Int) := by omega
    subst he
    simp only [Int.neg_neg, Int.toNat_natCast, zpow_neg, zpow_natCast]
    have : (m : ℝ) * ((2 : ℝ) ^ n)⁻¹ = (m : ℝ) / ((2 ^ n : ℕ) : ℝ) := by push_cast; ring
    rw [this, Int.floor_div_natCast, Int.floor_intCast]
    push_cast; rfl

/-- **f_exact (real form)**: `f = ⌊alt · 2^v / 2^25⌋` with `alt = m·2^e` the exact value of the binary64 altitude -/
theorem f_exact_real (alt : Dy) (v : Int) (hr : Rep alt) (hu : -1074 ≤ alt.e + v - 25) :
    fIndex alt v = ⌊((alt.m : ℝ) * (2 : ℝ) ^ alt.e) * (2 : ℝ) ^ v / (2 : ℝ) ^ (25 : ℤ)⌋ := by
  rw [f_exact alt v hr hu, floorInt_eq_floor]
  congr 1
  have h2 : (2 : ℝ) ≠ 0 := by norm_num
  rw [show alt.e + v - 25 = alt.e + v + (-25) by ring, zpow_add₀ h2, zpow_add₀ h2, zpow_neg]
  field_simp

/-- **floor, not truncation, below ground**: a negative altitude never gets index 0 or above -/
theorem f_neg (alt : Dy) (v : Int) (hr : Rep alt) (hu : -1074 ≤ alt.e + v - 25) (hneg : alt.m < 0) :
    fIndex alt v ≤ -1 := by
  rw [f_exact alt v hr hu]; exact floorInt_neg _ _ hneg

theorem f_nonneg (alt : Dy) (v : Int) (h : 0 ≤ alt.m) : 0 ≤ fIndex alt v := by
  unfold fIndex; exact floorInt_nonneg' _ (scale_nonneg _ _ h)

/-! ### longitude index: always inside the grid -/

/-- the folded longitude (180 read as −180) is ≥ −180 whenever |lon| ≤ 180 -/
theorem folded_ge (lon : Dy) (hdom : ¬ lt c180 (F64.abs lon) = true) :
    0 ≤ cmpInt (if eq lon c180 then neg lon else lon) ⟨-180, 0⟩ := by
  unfold lt at hdom
  simp only [decide_eq_true_eq] at hdom
  unfold cmpInt c180 F64.abs at hdom
  simp only [] at hdom
  by_cases he : eq lon c180 = true
  · simp only [he, if_true]
    unfold eq cmpInt c180 at he
    simp only [decide_eq_true_eq] at he
    unfold cmpInt neg
    simp only []
    rw [Int.neg_mul]
    omega
  · rw [if_neg he]
    unfold cmpInt
    simp only []
    have hp := two_pow_pos (lon.e - min lon.e 0).toNat
    have habs : -(lon.m.natAbs : Int) ≤ lon.m := by omega
    have : -(lon.m.natAbs : Int) * 2 ^ (lon.e - min lon.e 0).toNat ≤ lon.m * 2 ^ (lon.e - min lon.e 0).toNat :=
      Int.mul_le_mul_of_nonneg_right habs (Int.le_of_lt hp)
    rw [Int.neg_mul] at this
    have e1 : min lon.e 0 = min 0 lon.e := Int.min_comm _ _
    rw [e1] at this ⊢
    omega

/-- **x_range**: for every longitude NewPoint accepts and every zoom, `0 ≤ x < 2^h` -/
theorem x_range (lon : Dy) (h : Int) (hdom : ¬ lt c180 (F64.abs lon) = true) :
    0 ≤ xIndex lon h ∧ xIndex lon h < 2 ^ h.toNat := by
  have hge := folded_ge lon hdom
  unfold xIndex
  simp only []
  generalize (if eq lon c180 = true then neg lon else lon) = lon' at hge ⊢
  have hnn : 0 ≤ floorInt (scale (div (add lon' c180) c360) h) := by
    have h1 := add180_nonneg _ hge
    have h2 := div_nonneg _ c360 h1 (by decide)
    exact floorInt_nonneg' _ (scale_nonneg _ h h2)
  have hp := two_pow_pos h.toNat
  split
  · omega
  · omega

/-! ### latitude index as a function of the oracle value -/

/-- **y_formula**: `y = ⌊u·2^h/2⌋` exactly, for any (representable) oracle value `u` -/
theorem y_formula (u : Dy) (h : Int) (hr : Rep u) (_hh : 0 ≤ h) (hu : -1074 ≤ u.e + h - 1) :
    yIndex u h = floorInt ⟨u.m, u.e + h - 1⟩ := by
  unfold yIndex scale
  by_cases h0 : u.m = 0
  · simp [h0, rnd_zero, floorInt_zero]
  · rw [rnd_of_fits u.m (u.e + h) h0 hr.1 (by have := hr.2; omega)]
    simp only []
    have : u.e + h + -1 = u.e + h - 1 := by omega
    rw [this]
    exact floorInt_rnd_of_fits _ _ hr.1 hu

/-- **y_range**: `0 ≤ y < 2^h` whenever the oracle value lies in `[0, 2)` -/
theorem y_range (u : Dy) (h : Int) (hr : Rep u) (hh : 0 ≤ h) (hu : -1074 ≤ u.e + h - 1)
    (h0 : 0 ≤ u.m) (h2 : (u.m : ℝ) * (2 : ℝ) ^ u.e < 2) : 0 ≤ yIndex u h ∧ yIndex u h < 2 ^ h.toNat := by
  rw [y_formula u h hr hh hu]
  refine ⟨floorInt_nonneg _ _ h0, ?_⟩
  rw [floorInt_eq_floor]
  have hlt : (u.m : ℝ) * (2 : ℝ) ^ (u.e + h - 1) < (2 : ℝ) ^ h := by
    have h2' : (2 : ℝ) ≠ 0 := by norm_num
    have hpos : (0 : ℝ) < (2 : ℝ) ^ (h - 1) := zpow_pos (by norm_num) _
    have e1 : (u.m : ℝ) * (2 : ℝ) ^ (u.e + h - 1) = ((u.m : ℝ) * (2 : ℝ) ^ u.e) * (2 : ℝ) ^ (h - 1) := by
      rw [show u.e + h - 1 = u.e + (h - 1) by ring, zpow_add₀ h2']; ring
    have e2 : (2 : ℝ) ^ h = 2 * (2 : ℝ) ^ (h - 1) := by
      rw [show h = 1 + (h - 1) by ring, zpow_add₀ h2', zpow_one]; ring_nf
    rw [e1, e2]
    exact mul_lt_mul_of_pos_right h2 hpos
  have hcast : ((2 ^ h.toNat : Int) : ℝ) = (2 : ℝ) ^ h := by
    obtain ⟨n, rfl⟩ := Int.eq_ofNat_of_zero_le hh
    simp
  rw [Int.floor_lt, hcast]
  exact hlt

/-! ### what the formulas mean: the voxel that contains the point, and only that one -/

/-- **names_containing_voxel**: a voxel whose indices are the floors of the scaled grid coordinates of a point
contains the point, and it is the only voxel of its zooms that does -/
theorem names_containing_voxel (p : Pt) (h v : ℕ) :
    let e : Ext := ⟨h, ⌊p.u * 2 ^ h⌋, ⌊p.w * 2 ^ h⌋, v, ⌊p.a * 2 ^ v⌋⟩
    p ∈ region e ∧ ∀ o : Ext, o.h = h → o.v = v → p ∈ region o → o = e := by
  intro e
  refine ⟨⟨by simp [e, cell], by simp [e, cell], by simp [e, cell]⟩, ?_⟩
  intro o h1 h2 ⟨a1, a2, a3⟩
  cases o
  simp only at h1 h2
  subst h1 h2
  simp only [Int.toNat_natCast, cell] at a1 a2 a3
  simp [e, a1, a2, a3]

/-! ### list and notation -/

/-- **list_shape**: the output keeps the length and the order of the input (i-th ID from i-th point) -/
theorem list_shape (pts : List (GeoPt × Dy)) (h v : Int) (r : List Ext)
    (hr : pointsToExt (pts.map some) h v = .ok r) : r = pts.map fun pu => pointToExt pu.1 pu.2 h v := by
  unfold pointsToExt at hr
  split at hr
  · cases hr
  · split at hr
    · cases hr
    · simp only [Outcome.ok.injEq] at hr
      rw [← hr, List.filterMap_map]
      simp

theorem points_zoom_err (pts : List (Option (GeoPt × Dy))) (h v : Int) (hz : ¬ (0 ≤ h ∧ h ≤ 35 ∧ 0 ≤ v ∧ v ≤ 35)) :
    pointsToExt pts h v = .err := by
  unfold pointsToExt checkZoom
  have : (decide (0 ≤ h) && decide (h ≤ 35) && (decide (0 ≤ v) && decide (v ≤ 35))) = false := by
    simp only [Bool.and_eq_false_iff, decide_eq_false_iff_not]; omega
  simp [this]

theorem points_nil_err (pts : List (Option (GeoPt × Dy))) (h v : Int) (hn : none ∈ pts) : pointsToExt pts h v = .err := by
  unfold pointsToExt
  split
  · rfl
  · have : pts.any Option.isNone = true := List.any_eq_true.mpr ⟨none, hn, rfl⟩
    simp [this]

/-- the spatial-ID form names the same voxel with h = v -/
theorem spatial_same_voxel (p : GeoPt) (u : Dy) (z : Int) :
    (pointToExt p u z z).h = (pointToExt p u z z).v ∧
    (pointToExt p u z z).spId = joinSlash [fmtInt z, fmtInt (fIndex p.alt z), fmtInt (xIndex p.lon z), fmtInt (yIndex u z)] := by
  simp [pointToExt, Ext.spId]

/-! ### kernel-evaluated witnesses on the binary64 model -/

/-- `nextafter(180, 0)` lies in the last column at every zoom (regression witness of D10) -/
theorem x_last_column_witness : ∀ h ∈ List.range 36, xIndex ⟨180 * 2 ^ 45 - 1, -45⟩ (h : Int) = 2 ^ h - 1 := by
  decide +kernel
/-- longitude 180 is treated as −180 -/
theorem x_180_is_minus_180 : ∀ h ∈ List.range 36, xIndex ⟨180, 0⟩ (h : Int) = 0 := by decide +kernel
/-- tile boundaries are mapped to their own tile: `lon = -180 + 360·k/2^h` gives `x = k` (sampled k, all zooms) -/
theorem x_on_boundaries : ∀ h ∈ List.range 36, ∀ k ∈ [0, 1, 2 ^ h / 2, 2 ^ h - 1],
    k < 2 ^ h → xIndex (sub (scale (mul (ofInt k) c360) (-(h : Int))) c180) (h : Int) = k := by decide +kernel
set_option exponentiation.threshold 3000 in
/-- the known finding D11 on the model: the smallest negative altitude underflows to index 0 (exact value −1) -/
theorem f_underflow_witness : fIndex ⟨-1, -1074⟩ 0 = 0 ∧ floorInt ⟨-1, -1074 + 0 - 25⟩ = -1 := by decide +kernel
set_option exponentiation.threshold 3000 in
/-- the known finding D16 on the model: a longitude one subnormal below 0 is assigned column 2 at zoom 2 (exact column 1) -/
theorem x_boundary_rounding_witness : xIndex ⟨-1, -1074⟩ 2 = 2 := by decide +kernel
example : fIndex ⟨-1, -1⟩ 25 = -1 := by decide      -- alt = -0.5 m at vZoom 25: floor, not truncation

end SpatialId.C01
