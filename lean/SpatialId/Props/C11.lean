/-
C11 — quadkeys are the bit-interleaving of x and y, and the round trip is exact.
Model: SpatialId/Model/Quadkey.lean, tied to transform.convertHorizontalIDToQuadkey,
convertQuadkeyToHorizontalID, ConvertQuadkeysAndVerticalIDsToExtendedSpatialIDs,
ConvertExtendedSpatialIDsToQuadkeysAndVerticalIDs, ConvertExtendedSpatialIDsToQuadkeysAndAltitudekeys by the op
families quadkey, quadkeyExh, qv.
-/
import Mathlib.Tactic.Ring
import SpatialId.Model.Quadkey
import SpatialId.Lemmas.Core
namespace SpatialId.C11
open SpatialId

/-- the bits of `v` below position `z`, spread to the even positions: `Σ_{i<z} bit_i(v)·4^i` -/
def spread : Nat → Int → Int
  | 0, _ => 0
  | z + 1, v => v % 2 + 4 * spread z (v / 2)

theorem spread_zero (z : Nat) : spread z 0 = 0 := by
  induction z with
  | zero => rfl
  | succ z ih => simp [spread, ih]

theorem four_pow (i : Nat) : (2 : Int) ^ (2 * i) = 4 ^ i := by
  rw [Int.pow_mul]; rfl

/-- each encoder loop adds the spread bits of its index, scaled by its multiplier -/
theorem encLoop_eq (mult : Int) : ∀ (fuel i : Nat) (v acc : Int), 0 ≤ v →
    encLoop mult fuel i v acc = acc + mult * 4 ^ i * spread fuel v := by
  intro fuel
  induction fuel with
  | zero => intro i v acc _; simp [encLoop, spread]
  | succ fuel ih =>
    intro i v acc hv
    simp only [encLoop, spread]
    by_cases hpos : v > 0
    · simp only [hpos, if_true]
      rw [Int.tdiv_eq_ediv_of_nonneg hv, Int.tmod_eq_emod_of_nonneg hv, ih _ _ _ (Int.ediv_nonneg hv (by decide)),
        four_pow, Int.pow_succ]
      ring
    · have : v = 0 := by omega
      subst this
      simp [spread_zero]

/-- **enc_bits (closed form)**: the key is `Σ (bit_i x + 2·bit_i y)·4^i` -/
theorem qkEnc_eq (z x y : Int) (hx : 0 ≤ x) (hy : 0 ≤ y) : qkEnc z x y = spread z.toNat x + 2 * spread z.toNat y := by
  unfold qkEnc
  rw [encLoop_eq 1 _ _ _ _ hx, encLoop_eq 2 _ _ _ _ hy]
  simp

theorem spread_bounds (z : Nat) : ∀ v : Int, 0 ≤ spread z v ∧ 3 * spread z v ≤ 4 ^ z - 1 := by
  induction z with
  | zero => intro v; simp [spread]
  | succ z ih =>
    intro v
    obtain ⟨h1, h2⟩ := ih (v / 2)
    have := Int.emod_nonneg v (by decide : (2 : Int) ≠ 0)
    have := Int.emod_lt_of_pos v (by decide : (0 : Int) < 2)
    simp only [spread, Int.pow_succ]
    omega

/-- **enc_lt**: `0 ≤ key < 4^zoom` -/
theorem enc_lt (z x y : Int) (hx : 0 ≤ x) (hy : 0 ≤ y) : 0 ≤ qkEnc z x y ∧ qkEnc z x y < 4 ^ z.toNat := by
  rw [qkEnc_eq z x y hx hy]
  have a := spread_bounds z.toNat x
  have b := spread_bounds z.toNat y
  omega

/-- **enc_bits**: base-4 digit `i` of the key is `bit_i(x) + 2·bit_i(y)` — the base-4 digits interleave the bits of y and x -/
theorem enc_bits (z : Nat) : ∀ (x y : Int) (i : Nat), i < z →
    ((spread z x + 2 * spread z y) / 4 ^ i) % 4 = (x / 2 ^ i) % 2 + 2 * ((y / 2 ^ i) % 2) := by
  induction z with
  | zero => intro x y i hi; omega
  | succ z ih =>
    intro x y i hi
    have hx0 := Int.emod_nonneg x (by decide : (2 : Int) ≠ 0)
    have hx1 := Int.emod_lt_of_pos x (by decide : (0 : Int) < 2)
    have hy0 := Int.emod_nonneg y (by decide : (2 : Int) ≠ 0)
    have hy1 := Int.emod_lt_of_pos y (by decide : (0 : Int) < 2)
    have hk : spread (z + 1) x + 2 * spread (z + 1) y =
        (x % 2 + 2 * (y % 2)) + 4 * (spread z (x / 2) + 2 * spread z (y / 2)) := by simp only [spread]; ring
    cases i with
    | zero =>
      simp only [Int.pow_zero, Int.ediv_one]
      rw [hk]; omega
    | succ i =>
      rw [hk, Int.pow_succ, Int.mul_comm (4 ^ i) 4, ← Int.ediv_ediv_of_nonneg (by decide : (0 : Int) ≤ 4)]
      have e : (x % 2 + 2 * (y % 2) + 4 * (spread z (x / 2) + 2 * spread z (y / 2))) / 4 =
          spread z (x / 2) + 2 * spread z (y / 2) := by omega
      rw [e, ih (x / 2) (y / 2) i (by omega)]
      have e2 : ∀ v : Int, v / 2 / 2 ^ i = v / 2 ^ (i + 1) := by
        intro v; rw [Int.ediv_ediv_of_nonneg (by decide : (0 : Int) ≤ 2), Int.pow_succ, Int.mul_comm]
      rw [e2, e2]

/-! ### the decoder -/

/-- arithmetic reading of the digit walk: `z` base-4 digits of `k`, most significant first -/
def decA : Nat → Int → Int × Int
  | 0, _ => (0, 0)
  | z + 1, k => let p := decA z (k / 4); (2 * p.1 + (k % 4) % 2, 2 * p.2 + (k % 4) / 2)

theorem decA_zero (z : Nat) : decA z 0 = (0, 0) := by
  induction z with
  | zero => rfl
  | succ z ih => simp [decA, ih]

theorem decStep_digit (p : Int × Int) (d : Nat) (hd : d < 4) :
    decStep p d = (2 * p.1 + ((d : Int) % 2), 2 * p.2 + ((d : Int) / 2)) := by
  have h : d = 0 ∨ d = 1 ∨ d = 2 ∨ d = 3 := by omega
  rcases h with rfl | rfl | rfl | rfl <;> simp [decStep]

/-- the digit string of `n < 4^z` has at most `z` digits and the walk over it computes `decA z n` -/
theorem walk_digits : ∀ (fuel n z : Nat), 1 ≤ z → z ≤ fuel → n < 4 ^ z →
    (digits4Aux fuel n).length ≤ z ∧ (digits4Aux fuel n).foldl decStep (0, 0) = decA z (n : Int) := by
  intro fuel
  induction fuel with
  | zero => intro n z h1 h2; omega
  | succ fuel ih =>
    intro n z h1 h2 h3
    obtain ⟨z', rfl⟩ : ∃ z', z = z' + 1 := ⟨z - 1, by omega⟩
    simp only [digits4Aux]
    by_cases hn : n < 4
    · simp only [hn, if_true, List.length_singleton, List.foldl_cons, List.foldl_nil]
      refine ⟨by omega, ?_⟩
      rw [decStep_digit _ _ hn]
      have e1 : (n : Int) / 4 = 0 := by omega
      have e2 : (n : Int) % 4 = n := by omega
      simp only [decA, e1, decA_zero, e2]
    · simp only [hn, if_false, List.length_append, List.length_singleton, List.foldl_append, List.foldl_cons,
        List.foldl_nil]
      have hz' : 1 ≤ z' := by
        rcases Nat.eq_zero_or_pos z' with rfl | h
        · simp at h3; omega
        · exact h
      have hn4 : n / 4 < 4 ^ z' := by
        rw [Nat.pow_succ] at h3; omega
      obtain ⟨l1, l2⟩ := ih (n / 4) z' hz' (by omega) hn4
      refine ⟨by omega, ?_⟩
      rw [l2, decStep_digit _ _ (Nat.mod_lt _ (by decide))]
      simp only [decA]
      have c1 : ((n / 4 : Nat) : Int) = (n : Int) / 4 := by omega
      have c2 : ((n % 4 : Nat) : Int) = (n : Int) % 4 := by omega
      rw [c1, c2]

/-- for a key below `4^zoom` the Go digit walk is `decA zoom` -/
theorem qkDec_eq (k z : Int) (hz : 1 ≤ z ∧ z ≤ 31) (hk : 0 ≤ k ∧ k < 4 ^ z.toNat) : qkDec k z = decA z.toNat k := by
  unfold qkDec digits4
  have hneg : ¬ k < 0 := by omega
  have hz1 : z ≥ 1 := hz.1
  simp only [hneg, if_false, hz1, if_true]
  have hk' : k.toNat < 4 ^ z.toNat := by
    have : ((k.toNat : Nat) : Int) < ((4 ^ z.toNat : Nat) : Int) := by push_cast; omega
    exact_mod_cast this
  obtain ⟨l1, l2⟩ := walk_digits 64 k.toNat z.toNat (by omega) (by omega) hk'
  rw [List.take_of_length_le l1, l2]
  congr 1; omega

theorem emod_two_mul (x m : Int) (hm : 0 < m) : x % (2 * m) = 2 * ((x / 2) % m) + x % 2 := by
  have h1 := Int.emod_nonneg x (by decide : (2 : Int) ≠ 0)
  have h2 := Int.emod_lt_of_pos x (by decide : (0 : Int) < 2)
  have h3 := Int.emod_nonneg (x / 2) (Int.ne_of_gt hm)
  have h4 := Int.emod_lt_of_pos (x / 2) hm
  have h5 := Int.mul_ediv_add_emod x 2
  have h6 := Int.mul_ediv_add_emod (x / 2) m
  have := (Int.ediv_emod_unique (a := x) (b := 2 * m) (r := 2 * ((x / 2) % m) + x % 2) (q := x / 2 / m)
    (by omega)).mpr ⟨by
      have : 2 * m * (x / 2 / m) = 2 * (m * (x / 2 / m)) := by ring
      omega, by omega, by omega⟩
  exact this.2

/-- **dec_enc (arithmetic form)** -/
theorem decA_spread (z : Nat) : ∀ x y : Int, decA z (spread z x + 2 * spread z y) = (x % 2 ^ z, y % 2 ^ z) := by
  induction z with
  | zero => intro x y; simp [decA, Int.emod_one]
  | succ z ih =>
    intro x y
    have hx0 := Int.emod_nonneg x (by decide : (2 : Int) ≠ 0)
    have hx1 := Int.emod_lt_of_pos x (by decide : (0 : Int) < 2)
    have hy0 := Int.emod_nonneg y (by decide : (2 : Int) ≠ 0)
    have hy1 := Int.emod_lt_of_pos y (by decide : (0 : Int) < 2)
    have hk : spread (z + 1) x + 2 * spread (z + 1) y =
        (x % 2 + 2 * (y % 2)) + 4 * (spread z (x / 2) + 2 * spread z (y / 2)) := by simp only [spread]; ring
    have e1 : (spread (z + 1) x + 2 * spread (z + 1) y) / 4 = spread z (x / 2) + 2 * spread z (y / 2) := by
      rw [hk]; omega
    have e2 : (spread (z + 1) x + 2 * spread (z + 1) y) % 4 = x % 2 + 2 * (y % 2) := by
      rw [hk]; omega
    simp only [decA, e1, e2, ih]
    have p := two_pow_pos z
    rw [Int.pow_succ, Int.mul_comm (2 ^ z) 2, emod_two_mul x _ p, emod_two_mul y _ p]
    ext <;> simp <;> omega

/-- **enc_dec (arithmetic form)** -/
theorem spread_decA (z : Nat) : ∀ k : Int, 0 ≤ k → k < 4 ^ z →
    spread z (decA z k).1 + 2 * spread z (decA z k).2 = k ∧
    (0 ≤ (decA z k).1 ∧ (decA z k).1 < 2 ^ z) ∧ (0 ≤ (decA z k).2 ∧ (decA z k).2 < 2 ^ z) := by
  induction z with
  | zero => intro k h0 h1; simp at h1; simp [decA, spread]; omega
  | succ z ih =>
    intro k h0 h1
    have hd0 := Int.emod_nonneg k (by decide : (4 : Int) ≠ 0)
    have hd1 := Int.emod_lt_of_pos k (by decide : (0 : Int) < 4)
    have hq : k / 4 < 4 ^ z := by rw [Int.pow_succ] at h1; omega
    obtain ⟨i1, ⟨i2, i3⟩, ⟨i4, i5⟩⟩ := ih (k / 4) (Int.ediv_nonneg h0 (by decide)) hq
    simp only [decA, spread, Int.pow_succ]
    have a1 : (2 * (decA z (k / 4)).1 + k % 4 % 2) % 2 = k % 4 % 2 := by omega
    have a2 : (2 * (decA z (k / 4)).1 + k % 4 % 2) / 2 = (decA z (k / 4)).1 := by omega
    have b1 : (2 * (decA z (k / 4)).2 + k % 4 / 2) % 2 = k % 4 / 2 := by omega
    have b2 : (2 * (decA z (k / 4)).2 + k % 4 / 2) / 2 = (decA z (k / 4)).2 := by omega
    rw [a1, a2, b1, b2]
    refine ⟨by omega, by omega, by omega⟩

/-- **dec_enc**: decoding the key of tile (x, y) at the same zoom returns (x, y) -/
theorem dec_enc (z x y : Int) (hz : 1 ≤ z ∧ z ≤ 31) (hx : 0 ≤ x ∧ x < 2 ^ z.toNat) (hy : 0 ≤ y ∧ y < 2 ^ z.toNat) :
    qkDec (qkEnc z x y) z = (x, y) := by
  have hl := enc_lt z x y hx.1 hy.1
  rw [qkDec_eq _ z hz hl, qkEnc_eq z x y hx.1 hy.1, decA_spread, Int.emod_eq_of_lt hx.1 hx.2, Int.emod_eq_of_lt hy.1 hy.2]

/-- **enc_dec**: encoding the tile decoded from a key below `4^zoom` returns the key; the correspondence
`[0,2^z)² ↔ [0,4^z)` is one-to-one -/
theorem enc_dec (z k : Int) (hz : 1 ≤ z ∧ z ≤ 31) (hk : 0 ≤ k ∧ k < 4 ^ z.toNat) :
    qkEnc z (qkDec k z).1 (qkDec k z).2 = k ∧
    (0 ≤ (qkDec k z).1 ∧ (qkDec k z).1 < 2 ^ z.toNat) ∧ (0 ≤ (qkDec k z).2 ∧ (qkDec k z).2 < 2 ^ z.toNat) := by
  rw [qkDec_eq k z hz hk]
  obtain ⟨h1, h2, h3⟩ := spread_decA z.toNat k hk.1 hk.2
  rw [qkEnc_eq _ _ _ h2.1 h3.1]
  exact ⟨h1, h2, h3⟩

/-- **dec_leading_zero**: keys whose base-4 string is shorter than the zoom (leading zero digits dropped) decode
like the padded key — a special case of `qkDec_eq`, stated for emphasis at the smallest key -/
theorem dec_leading_zero (z : Int) (hz : 1 ≤ z ∧ z ≤ 31) : qkDec 0 z = (0, 0) := by
  rw [qkDec_eq 0 z hz ⟨by omega, Int.pow_pos (by decide)⟩, decA_zero]

/-! ### exported conversions (structure) -/

theorem qvToExt_zoom_err (l : List QV) (outH outV : Int) (h : extCheckZoom outH outV = false) : qvToExt l outH outV = .err := by
  simp [qvToExt, h]

theorem extToQV_zoom_err (ids : List String) (outH outV : Int) (h : qkCheckZoom outH outV = false) :
    extToQV ids outH outV = .err := by
  simp [extToQV, h]

theorem extToQA_zoom_err (ids : List String) (q a E O : Int) (h : qkCheckZoom q a = false) :
    extToQA ids q a E O = .err := by
  simp [extToQA, h]

theorem qkCheckZoom_iff (h v : Int) : qkCheckZoom h v = true ↔ (1 ≤ h ∧ h ≤ 31) ∧ (0 ≤ v ∧ v ≤ 35) := by
  simp [qkCheckZoom]

theorem conversions_no_panic (l : List QV) (ids : List String) (a b c d : Int) :
    qvToExt l a b ≠ .panic ∧ extToQV ids a b ≠ .panic ∧ extToQA ids a b c d ≠ .panic := by
  refine ⟨?_, ?_, ?_⟩
  · unfold qvToExt; split; · simp
    simp only []; split <;> simp
  · unfold extToQV; split; · simp
    simp only []; split <;> simp
  · unfold extToQA; split; · simp
    simp only []; split <;> simp

example : qkEnc 3 5 6 = 57 := by decide        -- x = 101b, y = 110b ⇒ digits 3,2,1 (base 4) = 57
example : qkDec 57 3 = (5, 6) := by decide
example : qkDec 1 3 = (1, 0) := by decide       -- leading zero digits

end SpatialId.C11
