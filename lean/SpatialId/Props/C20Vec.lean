/-
C20 (second part) — the 3-D vector, line, matrix and quaternion helpers of `common/spatial` satisfy the usual identities.

The definitions of `Model/Vec.lean` are generic in the scalar type. Here they are instantiated with an arbitrary commutative
ring (line, vector and matrix identities: polynomial identities, true of every scalar type that is a ring) and with ℝ
(quaternion between two vectors). In binary64 the same code satisfies them only up to rounding: that part is checked
numerically on the implementation's own answers by the driver (ops `vline`, `vmat`, `vquat`), and the binary64 instance of
these very definitions is compared bit for bit with the Go code (ops `vadd` … `vmulvec`).
-/
import SpatialId.Model.Vec
import Mathlib.Tactic.Ring
import Mathlib.Tactic.FieldSimp
import Mathlib.Tactic.LinearCombination
import Mathlib.Tactic.Linarith
import Mathlib.Tactic.NormNum
import Mathlib.Analysis.Real.Sqrt
import SpatialId.Lemmas.F64Order
namespace SpatialId.C20Vec
open SpatialId.Vec

section ring
variable {α : Type} [CommRing α]

/-- **line_start**: a line's parameter 0 gives its start point -/
theorem line_start (s e : V3 α) : (lineFromPoints s e).toPoint 0 = s := by
  cases s; cases e
  simp only [lineFromPoints, Line.toPoint, translate, V3.add, V3.scale, vecFromPoints, V3.sub, V3.mk.injEq]
  refine ⟨?_, ?_, ?_⟩ <;> ring

/-- **line_end**: a line's parameter 1 gives its end point, which is also what `End` returns -/
theorem line_end (s e : V3 α) : (lineFromPoints s e).toPoint 1 = e ∧ (lineFromPoints s e).end_ = e ∧
    (lineFromPoints s e).start = s := by
  cases s; cases e
  simp only [lineFromPoints, Line.toPoint, Line.end_, Line.start, translate, V3.add, V3.scale, vecFromPoints, V3.sub,
    V3.mk.injEq]
  refine ⟨⟨?_, ?_, ?_⟩, ⟨?_, ?_, ?_⟩, trivial⟩ <;> ring

/-- the point at parameter `t` is the affine combination `(1-t)·s + t·e` -/
theorem line_affine (s e : V3 α) (t : α) :
    (lineFromPoints s e).toPoint t = (s.scale (1 - t)).add (e.scale t) := by
  cases s; cases e
  simp only [lineFromPoints, Line.toPoint, translate, V3.add, V3.scale, vecFromPoints, V3.sub, V3.mk.injEq]
  refine ⟨?_, ?_, ?_⟩ <;> ring

theorem vadd_comm (a b : V3 α) : a.add b = b.add a := by
  cases a; cases b; simp only [V3.add, V3.mk.injEq]; refine ⟨?_, ?_, ?_⟩ <;> ring

theorem vsub_add_cancel (a b : V3 α) : (a.sub b).add b = a := by
  cases a; cases b; simp only [V3.add, V3.sub, V3.mk.injEq]; refine ⟨?_, ?_, ?_⟩ <;> ring

/-- `NewVectorFromPoints p q` carries `p` to `q` -/
theorem translate_vecFromPoints (p q : V3 α) : translate p (vecFromPoints p q) = q := by
  cases p; cases q; simp only [translate, vecFromPoints, V3.add, V3.sub, V3.mk.injEq]; refine ⟨?_, ?_, ?_⟩ <;> ring

theorem dot_comm (a b : V3 α) : a.dot b = b.dot a := by
  cases a; cases b; simp only [V3.dot]; ring

theorem dot_scale (a b : V3 α) (f : α) : (a.scale f).dot b = f * a.dot b := by
  cases a; cases b; simp only [V3.dot, V3.scale]; ring

theorem cross_anticomm (a b : V3 α) : a.cross b = (b.cross a).scale (-1) := by
  cases a; cases b; simp only [V3.cross, V3.scale, V3.mk.injEq]; refine ⟨?_, ?_, ?_⟩ <;> ring

/-- the cross product is perpendicular to both factors -/
theorem cross_perp (a b : V3 α) : (a.cross b).dot a = 0 ∧ (a.cross b).dot b = 0 := by
  cases a; cases b; simp only [V3.cross, V3.dot]; constructor <;> ring

/-- Lagrange's identity `|a×b|² = |a|²|b|² − (a·b)²` -/
theorem lagrange (a b : V3 α) : (a.cross b).dot (a.cross b) = a.dot a * b.dot b - a.dot b * a.dot b := by
  cases a; cases b; simp only [V3.cross, V3.dot]; ring

/-- the vector triple product `(a×b)×c = b(a·c) − a(b·c)` -/
theorem triple (a b c : V3 α) : (a.cross b).cross c = ((b.scale (a.dot c))).sub (a.scale (b.dot c)) := by
  cases a; cases b; cases c
  simp only [V3.cross, V3.dot, V3.scale, V3.sub, V3.mk.injEq]; refine ⟨?_, ?_, ?_⟩ <;> ring

/-- **mat_assoc**: the matrix product is associative -/
theorem mat_assoc (a b c : M3 α) : (a.mul b).mul c = a.mul (b.mul c) := by
  cases a; cases b; cases c
  simp only [M3.mul, M3.mk.injEq]
  refine ⟨?_, ?_, ?_, ?_, ?_, ?_, ?_, ?_, ?_⟩ <;> ring

/-- **mat_mulVec**: the matrix product agrees with matrix-vector application, `(A·B)v = A(Bv)` -/
theorem mat_mulVec (a b : M3 α) (v : V3 α) : (a.mul b).mulVec v = a.mulVec (b.mulVec v) := by
  cases a; cases b; cases v
  simp only [M3.mul, M3.mulVec, V3.mk.injEq]
  refine ⟨?_, ?_, ?_⟩ <;> ring

/-- the unit matrix is neutral for the product and for application -/
theorem mat_one (a : M3 α) (v : V3 α) : M3.one.mul a = a ∧ a.mul M3.one = a ∧ (M3.one : M3 α).mulVec v = v := by
  cases a; cases v
  simp only [M3.mul, M3.mulVec, M3.one, M3.mk.injEq, V3.mk.injEq]
  refine ⟨⟨?_, ?_, ?_, ?_, ?_, ?_, ?_, ?_, ?_⟩, ⟨?_, ?_, ?_, ?_, ?_, ?_, ?_, ?_, ?_⟩, ⟨?_, ?_, ?_⟩⟩ <;> ring

/-- application is linear -/
theorem mulVec_add (a : M3 α) (v w : V3 α) : a.mulVec (v.add w) = (a.mulVec v).add (a.mulVec w) := by
  cases a; cases v; cases w
  simp only [M3.mulVec, V3.add, V3.mk.injEq]; refine ⟨?_, ?_, ?_⟩ <;> ring

/-- the norm of quaternions is multiplicative (so products of unit quaternions are unit quaternions) -/
theorem quat_normSq_mul (p q : Quat α) : (p.mul q).normSq = p.normSq * q.normSq := by
  cases p; cases q; simp only [Quat.mul, Quat.normSq]; ring

/-- the rotation `q·v·q*` written with vector operations: `(w² − u·u) v + 2 (u·v) u + 2 w (u × v)` -/
theorem rotate_formula (q : Quat α) (v : V3 α) :
    q.rotate 0 v =
      ((v.scale (q.w * q.w - (V3.mk q.x q.y q.z).dot ⟨q.x, q.y, q.z⟩)).add
        ((V3.mk q.x q.y q.z).scale (2 * (V3.mk q.x q.y q.z).dot v))).add
        (((V3.mk q.x q.y q.z).cross v).scale (2 * q.w)) := by
  cases q; cases v
  simp only [Quat.rotate, Quat.mul, Quat.conj, V3.dot, V3.scale, V3.add, V3.cross, V3.mk.injEq]
  refine ⟨?_, ?_, ?_⟩ <;> ring

/-- **the opposite-vector branch**: a unit axis perpendicular to `s`, turned by π (quaternion `(0, axis)`), is a unit
quaternion and carries `s` onto `-s` -/
theorem quat_opposite (s axis : V3 α) (hu : axis.dot axis = 1) (hp : axis.dot s = 0) :
    (Quat.mk 0 axis.x axis.y axis.z).normSq = 1 ∧
    (Quat.mk 0 axis.x axis.y axis.z).rotate 0 s = s.scale (-1) := by
  cases s with | mk s1 s2 s3 =>
  cases axis with | mk a1 a2 a3 =>
  simp only [V3.dot] at hu hp
  constructor
  · simp only [Quat.normSq]; linear_combination hu
  · simp only [Quat.rotate, Quat.mul, Quat.conj, V3.scale, V3.mk.injEq]
    refine ⟨?_, ?_, ?_⟩
    · linear_combination (-s1) * hu + (2 * a1) * hp
    · linear_combination (-s2) * hu + (2 * a2) * hp
    · linear_combination (-s3) * hu + (2 * a3) * hp

/-- the axis chosen in the opposite branch is perpendicular to the start vector, whichever fallback is taken -/
theorem opposite_axis_perp (s k : V3 α) : (s.cross k).dot s = 0 := (cross_perp s k).1

end ring

section field
variable {K : Type} [Field K]

/-- the quaternion `RotateBetweenVector` builds in its main branch, from unit vectors `s`, `e` and `S = √(2(1 + s·e))` -/
def rotBetween (s e : V3 K) (S : K) : Quat K :=
  let a := s.cross e
  ⟨S * (1 / 2), a.x * (1 / S), a.y * (1 / S), a.z * (1 / S)⟩

/-- **quat_unit** and **quat_rotates** over any field: for unit vectors `s`, `e` that are not opposite and
`S² = 2(1 + s·e)`, the quaternion is a unit quaternion and the rotation it represents carries `s` onto `e` -/
theorem quat_between (s e : V3 K) (S : K) (h2 : (2 : K) ≠ 0) (hs : s.dot s = 1) (he : e.dot e = 1)
    (hS : S * S = 2 * (1 + s.dot e)) (hS0 : S ≠ 0) :
    (rotBetween s e S).normSq = 1 ∧ (rotBetween s e S).rotate 0 s = e := by
  have hL := lagrange s e
  cases s with | mk s1 s2 s3 =>
  cases e with | mk e1 e2 e3 =>
  simp only [V3.dot, V3.cross] at hs he hS hL
  have hS2 : S ^ 2 = 2 * (1 + (s1 * e1 + s2 * e2 + s3 * e3)) := by rw [pow_two]; exact hS
  have hc : (1 + (s1 * e1 + s2 * e2 + s3 * e3)) ≠ 0 := by
    intro h; rw [h] at hS; simp at hS; exact hS0 hS
  constructor
  · simp only [rotBetween, Quat.normSq, V3.cross]
    field_simp
    rw [hs, he] at hL
    -- goal: S^2*S^2 + 4*|s×e|^2 = 4*S^2  (up to normal form)
    have key : S ^ 2 * S ^ 2 + 4 * ((s2 * e3 - s3 * e2) * (s2 * e3 - s3 * e2) + (s3 * e1 - s1 * e3) * (s3 * e1 - s1 * e3) +
        (s1 * e2 - s2 * e1) * (s1 * e2 - s2 * e1)) = 4 * S ^ 2 := by
      rw [hL, hS2]; ring
    linear_combination key
  · simp only [rotBetween, Quat.rotate, Quat.mul, Quat.conj, V3.cross, V3.mk.injEq]
    rw [hs, he] at hL
    refine ⟨?_, ?_, ?_⟩
    · field_simp
      linear_combination (4 * S ^ 2 * e1 - 4 * s1) * hs + (-4 * s1 * (s1 * s1 + s2 * s2 + s3 * s3)) * he +
        s1 * (S ^ 2 - 2 * (s1 * e1 + s2 * e2 + s3 * e3) + 2) * hS2
    · field_simp
      linear_combination (4 * S ^ 2 * e2 - 4 * s2) * hs + (-4 * s2 * (s1 * s1 + s2 * s2 + s3 * s3)) * he +
        s2 * (S ^ 2 - 2 * (s1 * e1 + s2 * e2 + s3 * e3) + 2) * hS2
    · field_simp
      linear_combination (4 * S ^ 2 * e3 - 4 * s3) * hs + (-4 * s3 * (s1 * s1 + s2 * s2 + s3 * s3)) * he +
        s3 * (S ^ 2 - 2 * (s1 * e1 + s2 * e2 + s3 * e3) + 2) * hS2

/-- the hypotheses of `quat_between` are satisfiable by a non-trivial pair (a rotation by arccos(7/25) about the z axis) -/
example : (rotBetween (⟨1, 0, 0⟩ : V3 ℚ) ⟨7 / 25, 24 / 25, 0⟩ (8 / 5)).normSq = 1 ∧
    (rotBetween (⟨1, 0, 0⟩ : V3 ℚ) ⟨7 / 25, 24 / 25, 0⟩ (8 / 5)).rotate 0 ⟨1, 0, 0⟩ = ⟨7 / 25, 24 / 25, 0⟩ := by
  apply quat_between <;> simp [V3.dot] <;> norm_num

end field

section real
open Real

/-- `Vector3.Unit` over ℝ -/
noncomputable def unitR (v : V3 ℝ) : V3 ℝ := v.scale (1 / Real.sqrt (v.dot v))

theorem dot_self_nonneg (v : V3 ℝ) : 0 ≤ v.dot v := by
  cases v with | mk a b c =>
  simp only [V3.dot]
  have := mul_self_nonneg a; have := mul_self_nonneg b; have := mul_self_nonneg c
  linarith

/-- a normalised non-zero vector has length 1 -/
theorem unitR_dot (v : V3 ℝ) (hv : v.dot v ≠ 0) : (unitR v).dot (unitR v) = 1 := by
  have h0 : 0 ≤ v.dot v := dot_self_nonneg v
  have hs : Real.sqrt (v.dot v) * Real.sqrt (v.dot v) = v.dot v := Real.mul_self_sqrt h0
  have hne : Real.sqrt (v.dot v) ≠ 0 := by
    intro h; rw [h] at hs; simp at hs; exact hv hs.symm
  unfold unitR
  generalize Real.sqrt (v.dot v) = r at hs hne
  cases v with | mk a b c =>
  simp only [V3.scale, V3.dot] at *
  field_simp
  linear_combination -hs

/-- the cosine of two unit vectors is at least −1 (so the square root in `RotateBetweenVector` is of a non-negative number,
and `cos + 1 = 0` exactly when the vectors are opposite) -/
theorem one_add_cos_nonneg (s e : V3 ℝ) (hs : s.dot s = 1) (he : e.dot e = 1) : 0 ≤ 1 + s.dot e := by
  have h := dot_self_nonneg (s.add e)
  cases s with | mk s1 s2 s3 =>
  cases e with | mk e1 e2 e3 =>
  simp only [V3.dot, V3.add] at *
  nlinarith [h, hs, he]

/-- **quat_unit / quat_rotates (main branch of `RotateBetweenVector`)**: for any two non-zero real vectors that are not
opposite, the quaternion built from their unit vectors, `cos` and `s = √(2(1+cos))` is a unit quaternion, and the rotation
`q·v·q*` carries the first direction onto the second -/
theorem rotateBetween_real (a b : V3 ℝ) (ha : a.dot a ≠ 0) (hb : b.dot b ≠ 0)
    (hc : 0 < 1 + (unitR a).dot (unitR b)) :
    (rotBetween (unitR a) (unitR b) (Real.sqrt (2 * (1 + (unitR a).dot (unitR b))))).normSq = 1 ∧
    (rotBetween (unitR a) (unitR b) (Real.sqrt (2 * (1 + (unitR a).dot (unitR b))))).rotate 0 (unitR a) = unitR b := by
  have hpos : 0 < 2 * (1 + (unitR a).dot (unitR b)) := by linarith
  apply quat_between _ _ _ (by norm_num) (unitR_dot a ha) (unitR_dot b hb)
  · exact Real.mul_self_sqrt hpos.le
  · exact (Real.sqrt_pos.mpr hpos).ne'

/-- **the opposite branch**: for a unit vector `s` and any helper vector `k` not parallel to it, the half-turn about the
normalised `s × k` is a unit quaternion carrying `s` onto `-s` -/
theorem rotateOpposite_real (s k : V3 ℝ) (hk : (s.cross k).dot (s.cross k) ≠ 0) :
    let ax := unitR (s.cross k)
    (Quat.mk 0 ax.x ax.y ax.z).normSq = 1 ∧ (Quat.mk 0 ax.x ax.y ax.z).rotate 0 s = s.scale (-1) := by
  intro ax
  apply quat_opposite s ax (unitR_dot _ hk)
  have hp := (cross_perp s k).1
  show (unitR (s.cross k)).dot s = 0
  unfold unitR
  rw [dot_scale, hp, mul_zero]

/-- the fallback of the opposite branch always finds an axis: a non-zero vector parallel to the z axis is not parallel to the
x axis -/
theorem fallback_axis (s : V3 ℝ) (hs : s.dot s ≠ 0) (hz : s.cross ⟨0, 0, 1⟩ = ⟨0, 0, 0⟩) :
    (s.cross ⟨1, 0, 0⟩).dot (s.cross ⟨1, 0, 0⟩) ≠ 0 := by
  cases s with | mk a b c =>
  simp only [V3.cross, V3.dot, V3.mk.injEq] at *
  obtain ⟨h1, h2, _⟩ := hz
  have hb : b = 0 := by linarith
  have ha : a = 0 := by linarith
  subst hb; subst ha
  intro h
  apply hs
  nlinarith [mul_self_nonneg c]

end real

/-! ### `MaxPoint` / `MinPoint` on binary64: an element of the list whose projection bounds all others -/
section maxpoint
open SpatialId.F64 SpatialId.Vec.Dy

/-- state of the fold of `maxPoint`: the best point so far is a listed point, carries its own projection, and bounds the
projections of every point seen so far -/
theorem maxFold_inv (vec : V3 F64.Dy) (all : List (V3 F64.Dy)) : ∀ (l seen : List (V3 F64.Dy)) (acc : V3 F64.Dy × F64.Dy),
    acc.1 ∈ all → acc.2 = acc.1.dot vec → (∀ p ∈ seen, val (p.dot vec) ≤ val acc.2) → (∀ p ∈ l, p ∈ all) →
    let r := l.foldl (fun (acc : V3 F64.Dy × F64.Dy) p => let v := p.dot vec; if F64.lt acc.2 v then (p, v) else acc) acc
    r.1 ∈ all ∧ r.2 = r.1.dot vec ∧ ∀ p ∈ seen ++ l, val (p.dot vec) ≤ val r.2 := by
  intro l
  induction l with
  | nil => intro seen acc h1 h2 h3 _; simpa using ⟨h1, h2, h3⟩
  | cons q l ih =>
    intro seen acc h1 h2 h3 h4
    simp only [List.foldl_cons]
    by_cases hlt : F64.lt acc.2 (q.dot vec) = true
    · simp only [hlt, if_true]
      have hv := (lt_iff_val _ _).mp hlt
      have := ih (seen ++ [q]) (q, q.dot vec) (h4 q List.mem_cons_self) rfl
        (by
          intro p hp
          rcases List.mem_append.mp hp with hp | hp
          · exact le_trans (h3 p hp) (le_of_lt hv)
          · rw [List.mem_singleton] at hp; subst hp; exact le_refl _)
        (fun p hp => h4 p (List.mem_cons_of_mem _ hp))
      simpa [List.append_assoc] using this
    · have hf : F64.lt acc.2 (q.dot vec) = false := by cases h : F64.lt acc.2 (q.dot vec) <;> simp_all
      simp only [hf, Bool.false_eq_true, if_false]
      have hv : val (q.dot vec) ≤ val acc.2 := by
        by_contra hc
        exact hlt ((lt_iff_val _ _).mpr (not_le.mp hc))
      have := ih (seen ++ [q]) acc h1 h2
        (by
          intro p hp
          rcases List.mem_append.mp hp with hp | hp
          · exact h3 p hp
          · rw [List.mem_singleton] at hp; subst hp; exact hv)
        (fun p hp => h4 p (List.mem_cons_of_mem _ hp))
      simpa [List.append_assoc] using this

/-- **maxPoint_spec**: `MaxPoint` rejects exactly the empty list, and otherwise returns a listed point whose projection on
`vec` (as computed in binary64) is at least that of every listed point -/
theorem maxPoint_spec (pts : List (V3 F64.Dy)) (vec : V3 F64.Dy) :
    (maxPoint pts vec = none ↔ pts = []) ∧
    ∀ r, maxPoint pts vec = some r → r ∈ pts ∧ ∀ p ∈ pts, val (p.dot vec) ≤ val (r.dot vec) := by
  cases pts with
  | nil => simp [maxPoint]
  | cons p0 rest =>
    refine ⟨by simp [maxPoint], ?_⟩
    intro r hr
    simp only [maxPoint, Option.some.injEq] at hr
    have := maxFold_inv vec (p0 :: rest) (p0 :: rest) [] (p0, p0.dot vec) List.mem_cons_self rfl (by simp) (fun p hp => hp)
    simp only [List.nil_append] at this
    obtain ⟨h1, h2, h3⟩ := this
    rw [hr] at h1 h2
    refine ⟨h1, fun p hp => ?_⟩
    have := h3 p hp
    rwa [h2] at this

/-- state of the fold of `minPoint` (mirror image of `maxFold_inv`): the best point so far is a listed point, carries its own projection, and bounds the
projections of every point seen so far -/
theorem minFold_inv (vec : V3 F64.Dy) (all : List (V3 F64.Dy)) : ∀ (l seen : List (V3 F64.Dy)) (acc : V3 F64.Dy × F64.Dy),
    acc.1 ∈ all → acc.2 = acc.1.dot vec → (∀ p ∈ seen, val acc.2 ≤ val (p.dot vec)) → (∀ p ∈ l, p ∈ all) →
    let r := l.foldl (fun (acc : V3 F64.Dy × F64.Dy) p => let v := p.dot vec; if F64.lt v acc.2 then (p, v) else acc) acc
    r.1 ∈ all ∧ r.2 = r.1.dot vec ∧ ∀ p ∈ seen ++ l, val r.2 ≤ val (p.dot vec) := by
  intro l
  induction l with
  | nil => intro seen acc h1 h2 h3 _; simpa using ⟨h1, h2, h3⟩
  | cons q l ih =>
    intro seen acc h1 h2 h3 h4
    simp only [List.foldl_cons]
    by_cases hlt : F64.lt (q.dot vec) acc.2 = true
    · simp only [hlt, if_true]
      have hv := (lt_iff_val _ _).mp hlt
      have := ih (seen ++ [q]) (q, q.dot vec) (h4 q List.mem_cons_self) rfl
        (by
          intro p hp
          rcases List.mem_append.mp hp with hp | hp
          · exact le_trans (le_of_lt hv) (h3 p hp)
          · rw [List.mem_singleton] at hp; subst hp; exact le_refl _)
        (fun p hp => h4 p (List.mem_cons_of_mem _ hp))
      simpa [List.append_assoc] using this
    · have hf : F64.lt (q.dot vec) acc.2 = false := by cases h : F64.lt (q.dot vec) acc.2 <;> simp_all
      simp only [hf, Bool.false_eq_true, if_false]
      have hv : val acc.2 ≤ val (q.dot vec) := by
        by_contra hc
        exact hlt ((lt_iff_val _ _).mpr (not_le.mp hc))
      have := ih (seen ++ [q]) acc h1 h2
        (by
          intro p hp
          rcases List.mem_append.mp hp with hp | hp
          · exact h3 p hp
          · rw [List.mem_singleton] at hp; subst hp; exact hv)
        (fun p hp => h4 p (List.mem_cons_of_mem _ hp))
      simpa [List.append_assoc] using this

/-- **minPoint_spec**: `MinPoint` rejects exactly the empty list, and otherwise returns a listed point whose projection on
`vec` (as computed in binary64) is at most that of every listed point -/
theorem minPoint_spec (pts : List (V3 F64.Dy)) (vec : V3 F64.Dy) :
    (minPoint pts vec = none ↔ pts = []) ∧
    ∀ r, minPoint pts vec = some r → r ∈ pts ∧ ∀ p ∈ pts, val (r.dot vec) ≤ val (p.dot vec) := by
  cases pts with
  | nil => simp [minPoint]
  | cons p0 rest =>
    refine ⟨by simp [minPoint], ?_⟩
    intro r hr
    simp only [minPoint, Option.some.injEq] at hr
    have := minFold_inv vec (p0 :: rest) (p0 :: rest) [] (p0, p0.dot vec) List.mem_cons_self rfl (by simp) (fun p hp => hp)
    simp only [List.nil_append] at this
    obtain ⟨h1, h2, h3⟩ := this
    rw [hr] at h1 h2
    refine ⟨h1, fun p hp => ?_⟩
    have := h3 p hp
    rwa [h2] at this

end maxpoint

end SpatialId.C20Vec
