/-
Tie 2 — translated Go functions (lean/SpatialId/Gen/Int64Fns.lean, REGENERATED from /repo on every run by /verif/extract)
are equal to the hand-written model functions the property theorems are about: `operated.GetShiftingSpatialID` on a
well-formed ID (the five parsed components), with its two `for s < 0 { s += 2^h }` loops translated over fuel.
Float idioms are read as exact integer operations (`int64(math.Mod(float64(a), math.Pow(2, float64(h))))` = `a tmod 2^h`), which
is the assumption |a| < 2^53 the property itself makes.
The theorem holds for EVERY fuel that lets both loops finish (`0 ≤ s + fuel·2^h`): the Go loops have no fuel.
-/
import SpatialId.Props.Tie.Shift
import SpatialId.Props.C07
namespace SpatialId.Tie
open SpatialId

theorem shift_loop1_eq (h : Int) : ∀ (fuel : Nat) (s : Int), Gen.GetShiftingSpatialID_loop1 h fuel s = wrapLoop (pow2 h) fuel s := by
  intro fuel
  induction fuel with
  | zero => intro s; rfl
  | succ f ih => intro s; simp only [Gen.GetShiftingSpatialID_loop1, wrapLoop, Id.run, id_pure, ih]

theorem shift_loop2_eq (h : Int) : ∀ (fuel : Nat) (s : Int), Gen.GetShiftingSpatialID_loop2 h fuel s = wrapLoop (pow2 h) fuel s := by
  intro fuel
  induction fuel with
  | zero => intro s; rfl
  | succ f ih => intro s; simp only [Gen.GetShiftingSpatialID_loop2, wrapLoop, Id.run, id_pure, ih]

/-- the wrapped branch, for any sufficient fuel -/
theorem wrap_fuel (h s : Int) (hh : 0 ≤ h) (fuel : Nat) (hf : 0 ≤ s + fuel * pow2 h) :
    Int.tmod (wrapLoop (pow2 h) fuel s) (pow2 h) = s % 2 ^ h.toNat := by
  have hn : 0 < pow2 h := pow2_pos h hh
  have hp : pow2 h = 2 ^ h.toNat := pow2_nonneg_eq h hh
  obtain ⟨⟨k, hk⟩, hnn⟩ := C07.wrapLoop_spec (pow2 h) hn fuel s
  rw [Int.tmod_eq_emod_of_nonneg (hnn hf), hk, Int.add_mul_emod_self_right, hp]

/-- the untouched branch -/
theorem nowrap (h s : Int) (hh : 0 ≤ h) (hc : ¬ (s > pow2 h - 1 ∨ s < 0)) : s = s % 2 ^ h.toNat := by
  have hp : pow2 h = 2 ^ h.toNat := pow2_nonneg_eq h hh
  have h0 : 0 ≤ s := by omega
  have h1 : s < 2 ^ h.toNat := by rw [← hp]; omega
  exact (Int.emod_eq_of_lt h0 h1).symm

/-- `GetShiftingSpatialID` on the parsed components: the model's `shiftE`, for every sufficient fuel -/
theorem GetShiftingSpatialID_eq (fuel : Nat) (e : Ext) (dx dy dv : Int) (hh : 0 ≤ e.h)
    (hfx : 0 ≤ (e.x + dx) + fuel * pow2 e.h) (hfy : 0 ≤ (e.y + dy) + fuel * pow2 e.h) :
    Gen.GetShiftingSpatialID fuel e.h e.x e.y e.v e.f dx dy dv =
      ((shiftE e dx dy dv).h, (shiftE e dx dy dv).x, (shiftE e dx dy dv).y, (shiftE e dx dy dv).v, (shiftE e dx dy dv).f) := by
  rw [C07.shift_spec e dx dy dv hh]
  unfold Gen.GetShiftingSpatialID
  simp only [Id.run, id_pure, shift_loop1_eq, shift_loop2_eq]
  have wx := wrap_fuel e.h (e.x + dx) hh fuel hfx
  have wy := wrap_fuel e.h (e.y + dy) hh fuel hfy
  have nx := nowrap e.h (e.x + dx) hh
  have ny := nowrap e.h (e.y + dy) hh
  split_ifs <;> simp only [Prod.mk.injEq, true_and, and_true] <;>
    (first
      | exact ⟨wx, wy⟩
      | exact ⟨wx, ny (by assumption)⟩
      | exact ⟨nx (by assumption), wy⟩
      | exact ⟨nx (by assumption), ny (by assumption)⟩
      | (refine ⟨?_, ?_⟩ <;> first | exact wx | exact wy | (apply nx; omega) | (apply ny; omega)))

end SpatialId.Tie
