/-
Tie 2 — translated Go functions (lean/SpatialId/Gen/Int64Fns.lean, REGENERATED from /repo on every run by /verif/extract)
are equal to the hand-written model functions the property theorems are about: the constants and the table of error-returning exported functions.
An edit of one of these Go functions changes the generated definition; the equality below then either still checks
(a harmless rewrite) or fails (a broken obligation: the check searches for a failing input and reports).
-/
import SpatialId.Gen.Int64Fns
import SpatialId.Gen.Api
namespace SpatialId.Tie
open SpatialId

/-- the generated constants the models rely on -/
theorem consts_eq : Gen.const_consts_ZOriginValue = 25 ∧ Gen.const_consts_ZBaseOffsetForNegativeFIndex = 2 ^ 24 ∧
    Gen.const_consts_MaxTileXYZZoom = 35 := by decide

/-- **API coverage**: the error-returning exported functions of the library are exactly those the models and op families
cover — a new one appears here as a failed obligation -/
theorem api_error_returning :
    (Gen.api.filter (·.2.2.2)).map (fun r => (r.1, r.2.1)) =
    [("common", "Max"), ("common", "Min"), ("common/errors", "NewSpatialIdError"),
     ("common/object", "*ExtendedSpatialID ResetExtendedSpatialID"), ("common/object", "*Point SetLat"),
     ("common/object", "*Point SetLon"), ("common/object", "*TileXYZ SetHZoom"), ("common/object", "*TileXYZ SetVZoom"),
     ("common/object", "NewExtendedSpatialID"), ("common/object", "NewPoint"), ("common/object", "NewTileXYZ"),
     ("common/spatial", "MaxPoint"), ("common/spatial", "MinPoint"),
     ("detector", "CheckExtendedSpatialIdsArrayOverlap"), ("detector", "CheckExtendedSpatialIdsOverlap"),
     ("detector", "CheckSpatialIdsArrayOverlap"), ("detector", "CheckSpatialIdsOverlap"),
     ("integrate", "ChangeExtendedSpatialIdsZoom"), ("integrate", "ChangeSpatialIdsZoom"),
     ("integrate", "MergeExtendedSpatialIds"), ("integrate", "MergeSpatialIds"),
     ("operated", "GetNspatialIdsAroundVoxcels"),
     ("shape", "ConvertExtendedSpatialIdsToSpatialIds"), ("shape", "ConvertPointListToProjectedPointList"),
     ("shape", "ConvertProjectedPointListToPointList"), ("shape", "ConvertSpatialIdsToExtendedSpatialIds"),
     ("shape", "GetExtendedSpatialIdsOnLine"), ("shape", "GetExtendedSpatialIdsOnPoints"),
     ("shape", "GetPointOnExtendedSpatialId"), ("shape", "GetPointOnSpatialId"), ("shape", "GetSpatialIdsOnLine"),
     ("shape", "GetSpatialIdsOnPoints"),
     ("transform", "ConvertAltitudekeyToMinMaxZ"), ("transform", "ConvertExtendedSpatialIDsToQuadkeysAndAltitudekeys"),
     ("transform", "ConvertExtendedSpatialIDsToQuadkeysAndVerticalIDs"),
     ("transform", "ConvertQuadkeysAndVerticalIDsToExtendedSpatialIDs"),
     ("transform", "ConvertQuadkeysAndVerticalIDsToSpatialIDs"), ("transform", "ConvertSpatialIDsToQuadkeysAndVerticalIDs"),
     ("transform", "ConvertTileXYZsToExtendedSpatialIDs"), ("transform", "ConvertTileXYZsToSpatialIDs"),
     ("transform", "ConvertZToMinMaxAltitudekey"), ("transform", "FitClearanceAroundExtendedSpatialID"),
     ("transform", "GetExtendedSpatialIdsWithinRadiusOfLine")] := by decide

end SpatialId.Tie
