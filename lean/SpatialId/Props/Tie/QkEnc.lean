/-
Tie 2 — translated Go functions (lean/SpatialId/Gen/Int64Fns.lean, REGENERATED from /repo on every run by /verif/extract)
are equal to the hand-written model functions the property theorems are about: the quadkey encoder
`convertHorizontalIDToQuadkey` (two bit loops, translated as structurally recursive definitions over fuel).
The Go loops have no fuel: they stop because `i < hZoom` fails after `hZoom` rounds; the theorem is therefore stated for
EVERY fuel that is at least `hZoom`, and says the result does not depend on it.
The loop state is (quadkey, i, index) — the order in which the Go function declares them.
-/
import SpatialId.Props.Tie.Shift
import SpatialId.Model.Quadkey
import Mathlib.Tactic.Ring
namespace SpatialId.Tie
open SpatialId

@[simp] theorem toNat_mul_two (i : Nat) : (((i : Int) * 2 : Int)).toNat = 2 * i := by omega
@[simp] theorem toNat_two_mul (i : Nat) : ((2 * (i : Int) : Int)).toNat = 2 * i := by omega
theorem cast_succ_nat (i : Nat) : ((i : Int) + 1) = ((i + 1 : Nat) : Int) := by push_cast; rfl

/-- closes the side goals "the next loop state is the model's next state": syntactic variants of the same integer expression -/
macro "enc_step" : tactic => `(tactic| first
  | rfl
  | (simp only [toNat_mul_two, toNat_two_mul, Int.mul_one, Int.one_mul]; done)
  | (simp only [toNat_mul_two, toNat_two_mul, Int.mul_one, Int.one_mul]; ring)
  | (simp only [toNat_mul_two, toNat_two_mul]; ring_nf; done)
  | (simp (disch := omega) only [Int.toNat_add, Int.toNat_mul, Int.toNat_natCast, Int.toNat_one, Int.reduceToNat,
      Int.mul_one, Int.one_mul]; ring)
  | (simp (disch := omega) only [Int.toNat_add, Int.toNat_mul, Int.toNat_natCast, Int.toNat_one, Int.reduceToNat,
      Int.mul_one, Int.one_mul]; ring_nf; done)
  | (simp [toNat_mul_two, toNat_two_mul] <;> ring_nf <;> done))

/-- first loop (x bits): with `n` rounds left before `i` reaches `hZoom`, any fuel ≥ n gives the model's loop -/
theorem loop1_eq (hZoom : Int) : ∀ (n fuel i : Nat) (x q : Int), n ≤ fuel → (i : Int) + n = hZoom →
    (Gen.convertHorizontalIDToQuadkey_loop1 hZoom fuel q i x).1 = encLoop 1 n i x q := by
  intro n
  induction n with
  | zero =>
    intro fuel i x q _ hi
    have : ¬ ((i : Int) < hZoom) := by omega
    cases fuel <;> simp [Gen.convertHorizontalIDToQuadkey_loop1, encLoop, this]
  | succ n ih =>
    intro fuel i x q hf hi
    obtain ⟨f, rfl⟩ : ∃ f, fuel = f + 1 := ⟨fuel - 1, by omega⟩
    have hlt : (i : Int) < hZoom := by omega
    by_cases hx : x > 0
    · simp only [Gen.convertHorizontalIDToQuadkey_loop1, encLoop, hx, hlt, and_self, if_true, Id.run, id_pure]
      rw [cast_succ_nat, ih f (i + 1) _ _ (by omega) (by push_cast; omega)]
      congr 1 <;> enc_step
    · simp [Gen.convertHorizontalIDToQuadkey_loop1, encLoop, hx]

/-- second loop (y bits) -/
theorem loop2_eq (hZoom : Int) : ∀ (n fuel i : Nat) (y q : Int), n ≤ fuel → (i : Int) + n = hZoom →
    (Gen.convertHorizontalIDToQuadkey_loop2 hZoom fuel q i y).1 = encLoop 2 n i y q := by
  intro n
  induction n with
  | zero =>
    intro fuel i y q _ hi
    have : ¬ ((i : Int) < hZoom) := by omega
    cases fuel <;> simp [Gen.convertHorizontalIDToQuadkey_loop2, encLoop, this]
  | succ n ih =>
    intro fuel i y q hf hi
    obtain ⟨f, rfl⟩ : ∃ f, fuel = f + 1 := ⟨fuel - 1, by omega⟩
    have hlt : (i : Int) < hZoom := by omega
    by_cases hy : y > 0
    · simp only [Gen.convertHorizontalIDToQuadkey_loop2, encLoop, hy, hlt, and_self, if_true, Id.run, id_pure]
      rw [cast_succ_nat, ih f (i + 1) _ _ (by omega) (by push_cast; omega)]
      congr 1 <;> enc_step
    · simp [Gen.convertHorizontalIDToQuadkey_loop2, encLoop, hy]

/-- `convertHorizontalIDToQuadkey("z/x/y")`, for the parsed fields, is the model's `qkEnc` — for every sufficient fuel -/
theorem convertHorizontalIDToQuadkey_eq (fuel : Nat) (z x y : Int) (hz : 0 ≤ z) (hf : z.toNat ≤ fuel) :
    Gen.convertHorizontalIDToQuadkey fuel z x y = qkEnc z x y := by
  unfold Gen.convertHorizontalIDToQuadkey qkEnc
  simp only [Id.run, id_pure]
  have h1 := loop1_eq z z.toNat fuel 0 x 0 hf (by omega)
  have h2 := fun q => loop2_eq z z.toNat fuel 0 y q hf (by omega)
  simp only [Int.natCast_zero] at h1 h2
  rw [h1, h2]

end SpatialId.Tie
