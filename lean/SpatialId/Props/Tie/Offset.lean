/-
Tie 2 — translated Go functions (lean/SpatialId/Gen/Int64Fns.lean, REGENERATED from /repo on every run by /verif/extract)
are equal to the hand-written model functions the property theorems are about: offsetFIndex of the spatial-ID overlap check.
An edit of one of these Go functions changes the generated definition; the equality below then either still checks
(a harmless rewrite) or fails (a broken obligation: the check searches for a failing input and reports).
-/
import SpatialId.Props.Tie.Shift
import SpatialId.Model.Overlap
namespace SpatialId.Tie
open SpatialId

theorem offsetFIndex_eq (f z : Int) : Gen.offsetFIndex f z = Outcome.ofOption (offsetF f z) := by
  unfold Gen.offsetFIndex offsetF
  have e : ((1 : Int) * 2 ^ (((25 : Int) - 1)).toNat) = 2 ^ 24 := by decide
  simp only [Id.run, id_pure, gen_helper, CalculateArithmeticShift_eq, e]
  tie_auto

end SpatialId.Tie
