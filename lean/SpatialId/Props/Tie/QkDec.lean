/-
Tie 2 — translated Go functions (lean/SpatialId/Gen/Int64Fns.lean, REGENERATED from /repo on every run by /verif/extract)
are equal to the hand-written model functions the property theorems are about: the quadkey decoder
`convertQuadkeyToHorizontalID` (a walk over the characters of the base-4 text of the key, with a `break` after `zoom` digits,
translated as a structurally recursive definition over the list of digit values).
-/
import SpatialId.Props.Tie.Shift
import SpatialId.Model.Quadkey
namespace SpatialId.Tie
open SpatialId

/-- one step of the walk on an integer digit value (anything but 1, 2, 3 — `0` or the sign — adds no bit) -/
def stepI (p : Int × Int) (s : Int) : Int × Int :=
  (2 * p.1 + (if s = 1 ∨ s = 3 then 1 else 0), 2 * p.2 + (if s = 2 ∨ s = 3 then 1 else 0))

/-- the walk with its `break`: after the digit with index `zoom − 1` nothing more is read -/
def walk (zoom : Int) : List Int → Int → Int × Int → Int × Int
  | [], _, p => p
  | s :: r, i, p => if i = zoom - 1 then stepI p s else walk zoom r (i + 1) (stepI p s)

/-- the generated loop is the walk (the only part that looks at the generated text) -/
theorem loop_eq_walk (zoom : Int) : ∀ (l : List Int) (i x y : Int),
    Gen.convertQuadkeyToHorizontalID_loop1 zoom l i x y = walk zoom l i (x, y) := by
  intro l
  induction l with
  | nil => intro i x y; rfl
  | cons s r ih =>
    intro i x y
    simp only [Gen.convertQuadkeyToHorizontalID_loop1, walk, stepI, Id.run, id_pure, ih]
    repeat' split
    all_goals first
      | rfl
      | (exfalso; omega)
      | (simp_all; done)
      | (congr 1 <;> omega)
      | (congr 2 <;> omega)
      | (simp_all <;> omega)
      | (simp_all <;> (constructor <;> omega))
      | (simp_all <;> congr 1 <;> omega)
      | (simp_all <;> congr 2 <;> omega)

/-- the walk from index `i ≥ 0` reads `zoom − i` digits if that is positive, all digits otherwise -/
theorem walk_eq_foldl (zoom : Int) : ∀ (l : List Int) (i : Int) (p : Int × Int), 0 ≤ i →
    walk zoom l i p = ((if zoom ≥ i + 1 then l.take (zoom - i).toNat else l).foldl stepI p) := by
  intro l
  induction l with
  | nil => intro i p _; simp [walk]
  | cons s r ih =>
    intro i p hi
    unfold walk
    by_cases h : i = zoom - 1
    · have e : (zoom - i).toNat = 1 := by omega
      have g : zoom ≥ i + 1 := by omega
      have : (zoom - (zoom - 1)).toNat = 1 := by omega
      simp [h, this]
    · rw [if_neg h, ih (i + 1) _ (by omega)]
      by_cases g : zoom ≥ i + 1
      · have g2 : zoom ≥ i + 1 + 1 := by omega
        have e : (zoom - i).toNat = (zoom - (i + 1)).toNat + 1 := by omega
        rw [if_pos g2, if_pos g, e, List.take_succ_cons, List.foldl_cons]
      · have g2 : ¬ zoom ≥ i + 1 + 1 := by omega
        rw [if_neg g2, if_neg g, List.foldl_cons]

theorem stepI_nat (p : Int × Int) (d : Nat) : stepI p (Int.ofNat d) = decStep p d := by
  unfold stepI decStep
  have a : ((Int.ofNat d = 1 ∨ Int.ofNat d = 3) ↔ (d = 1 ∨ d = 3)) := by
    simp only [Int.ofNat_eq_natCast]; omega
  have b : ((Int.ofNat d = 2 ∨ Int.ofNat d = 3) ↔ (d = 2 ∨ d = 3)) := by
    simp only [Int.ofNat_eq_natCast]; omega
  simp only [a, b]

theorem stepI_sign (p : Int × Int) : stepI p (-1) = decStep p 0 := by
  unfold stepI decStep; simp

theorem foldl_stepI_map (l : List Nat) (p : Int × Int) : (l.map Int.ofNat).foldl stepI p = l.foldl decStep p := by
  induction l generalizing p with
  | nil => rfl
  | cons d r ih => simp only [List.map_cons, List.foldl_cons, stepI_nat, ih]

/-- `convertQuadkeyToHorizontalID(quadkey, zoom)` is the model's `qkDec` -/
theorem convertQuadkeyToHorizontalID_eq (key zoom : Int) : Gen.convertQuadkeyToHorizontalID key zoom = qkDec key zoom := by
  unfold Gen.convertQuadkeyToHorizontalID
  simp only [Id.run, id_pure, loop_eq_walk]
  rw [show ∀ q : Int × Int, (q.1, q.2) = q from fun q => rfl, walk_eq_foldl zoom _ 0 _ (by omega)]
  unfold qkDec fmtBase4
  simp only [Int.sub_zero, Int.zero_add, ge_iff_le]
  by_cases hk : key < 0 <;> by_cases hz : 1 ≤ zoom
  · simp only [hk, hz, if_true]
    obtain ⟨n, hn⟩ : ∃ n, zoom.toNat = n + 1 := ⟨zoom.toNat - 1, by omega⟩
    rw [hn, List.take_succ_cons, List.take_succ_cons, List.foldl_cons, List.foldl_cons, stepI_sign, ← List.map_take,
      foldl_stepI_map]
  · simp only [hk, hz, if_true, if_false, List.foldl_cons, stepI_sign, foldl_stepI_map]
  · simp only [hk, hz, if_true, if_false, ← List.map_take, foldl_stepI_map]
  · simp only [hk, hz, if_false, foldl_stepI_map]

end SpatialId.Tie
