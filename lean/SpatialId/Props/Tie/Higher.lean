/-
Tie 2 — translated Go functions (lean/SpatialId/Gen/Int64Fns.lean, REGENERATED from /repo on every run by /verif/extract)
are equal to the hand-written model functions the property theorems are about: the method `ExtendedSpatialID.Higher`
(the parent voxel that merge groups by — floor division below ground), which is the model's `higher`.
-/
import SpatialId.Props.Tie.Shift
import SpatialId.Model.Merge
namespace SpatialId.Tie
open SpatialId

theorem Higher_eq (e : Ext) (dh dv : Int) :
    Gen.Higher e.h e.x e.y e.v e.f dh dv =
      ((higher e dh dv).h, (higher e dh dv).x, (higher e dh dv).y, (higher e dh dv).v, (higher e dh dv).f) := by
  unfold Gen.Higher higher
  (try simp only [Id.run, id_pure, gen_helper]) <;> tie_auto

end SpatialId.Tie
