/-
Tie 2 — translated Go functions (lean/SpatialId/Gen/Int64Fns.lean, REGENERATED from /repo on every run by /verif/extract)
are equal to the hand-written model functions the property theorems are about: HorizontalZoomMinMax.
An edit of one of these Go functions changes the generated definition; the equality below then either still checks
(a harmless rewrite) or fails (a broken obligation: the check searches for a failing input and reports).
-/
import SpatialId.Props.Tie.Shift
import SpatialId.Model.Zoom
namespace SpatialId.Tie
open SpatialId

theorem HorizontalZoomMinMax_eq (zi x y zo : Int) : Gen.HorizontalZoomMinMax zi x y zo = hZoomMinMax zi x y zo := by
  unfold Gen.HorizontalZoomMinMax hZoomMinMax
  (try simp only [Id.run, id_pure, gen_helper]) <;> tie_auto

end SpatialId.Tie
