/-
Tie 2 — translated Go functions (lean/SpatialId/Gen/Int64Fns.lean, REGENERATED from /repo on every run by /verif/extract)
are equal to the hand-written model functions the property theorems are about: the arithmetic shift, the three zoom predicates and the index-existence test.
An edit of one of these Go functions changes the generated definition; the equality below then either still checks
(a harmless rewrite) or fails (a broken obligation: the check searches for a failing input and reports).
-/
import SpatialId.Gen.Int64Fns
import SpatialId.Model.AltKey
import SpatialId.Lemmas.Core
namespace SpatialId.Tie
open SpatialId

theorem id_pure {α} (a : α) : (pure a : Id α) = a := rfl

theorem CalculateArithmeticShift_eq (i s : Int) : Gen.CalculateArithmeticShift i s = arithShift i s := by
  unfold Gen.CalculateArithmeticShift arithShift
  simp only [Id.run, id_pure]

theorem CheckZoom_eq (z : Int) : Gen.CheckZoom z = checkZoom z := by
  unfold Gen.CheckZoom checkZoom
  simp [Id.run, id_pure, Bool.decide_and]

theorem quadkeyCheckZoom_eq (h v : Int) : Gen.quadkeyCheckZoom h v = qkCheckZoom h v := by
  unfold Gen.quadkeyCheckZoom qkCheckZoom
  simp [Id.run, id_pure, Bool.decide_and]

theorem extendedSpatialIDCheckZoom_eq (h v : Int) : Gen.extendedSpatialIDCheckZoom h v = extCheckZoom h v := by
  unfold Gen.extendedSpatialIDCheckZoom extCheckZoom
  simp [Id.run, id_pure, Bool.decide_and]

theorem validateIndexExists_eq (i z : Int) (neg : Bool) : Gen.validateIndexExists i z neg = validateIndex i z neg := by
  unfold Gen.validateIndexExists validateIndex
  simp only [Id.run, id_pure, CalculateArithmeticShift_eq]
  cases neg
  · by_cases h : i > arithShift 1 z - 1 ∨ i < 0 <;> simp [h, id_pure] <;> omega
  · by_cases h : i > arithShift 1 z - 1 ∨ i < -arithShift 1 z <;> simp [h, id_pure] <;> omega

end SpatialId.Tie
