/-
Tie 2 — translated Go functions (lean/SpatialId/Gen/Int64Fns.lean, REGENERATED from /repo on every run by /verif/extract)
are equal to the hand-written model functions the property theorems are about: the arithmetic shift, the three zoom predicates and the index-existence test.
An edit of one of these Go functions changes the generated definition; the equality below then either still checks
(a harmless rewrite) or fails (a broken obligation: the check searches for a failing input and reports).
-/
import SpatialId.Gen.Int64Fns
import SpatialId.Model.AltKey
import SpatialId.Lemmas.Core
import Mathlib.Tactic.SplitIfs
namespace SpatialId.Tie
open SpatialId

theorem id_pure {α} (a : α) : (pure a : Id α) = a := rfl

/-- closes one case of a tie goal: both sides reduced to the same value, or the case is contradictory -/
macro "tie_leaf" : tactic => `(tactic| first
  | rfl
  | omega
  | (exfalso; omega)
  | (simp_all [Outcome.ofOption, id_pure]; done)
  | (simp_all [Outcome.ofOption, id_pure] <;> omega)
  | (simp_all [Outcome.ofOption, id_pure, Bool.decide_and] <;> (first | omega | (constructor <;> intros <;> omega)))
  | (simp only [Outcome.ofOption, id_pure] at *; grind)
  | grind)

/-- the generic tie proof: case-split every `if`/`match` on both sides and close each case. It does not depend on the order of
branches, on how conditions are spelled or on the names of locals, so a behaviour-preserving rewrite of the Go function keeps
the equality provable -/
macro "tie_auto" : tactic => `(tactic| first
  | rfl
  | (split_ifs <;> tie_leaf)
  | ((repeat' split) <;> tie_leaf)
  | (simp [id_pure, Bool.decide_and, Outcome.ofOption] <;> tie_leaf))

theorem CalculateArithmeticShift_eq (i s : Int) : Gen.CalculateArithmeticShift i s = arithShift i s := by
  unfold Gen.CalculateArithmeticShift arithShift
  (try simp only [Id.run, id_pure, gen_helper]) <;> tie_auto

theorem CheckZoom_eq (z : Int) : Gen.CheckZoom z = checkZoom z := by
  unfold Gen.CheckZoom checkZoom
  first
  | (simp [Id.run, id_pure, Bool.decide_and]; done)
  | ((try simp only [Id.run, id_pure, gen_helper]) <;> tie_auto)

theorem quadkeyCheckZoom_eq (h v : Int) : Gen.quadkeyCheckZoom h v = qkCheckZoom h v := by
  unfold Gen.quadkeyCheckZoom qkCheckZoom
  first
  | (simp [Id.run, id_pure, Bool.decide_and]; done)
  | ((try simp only [Id.run, id_pure, gen_helper]) <;> tie_auto)

theorem extendedSpatialIDCheckZoom_eq (h v : Int) : Gen.extendedSpatialIDCheckZoom h v = extCheckZoom h v := by
  unfold Gen.extendedSpatialIDCheckZoom extCheckZoom
  first
  | (simp [Id.run, id_pure, Bool.decide_and]; done)
  | ((try simp only [Id.run, id_pure, gen_helper]) <;> tie_auto)

theorem validateIndexExists_eq (i z : Int) (neg : Bool) : Gen.validateIndexExists i z neg = validateIndex i z neg := by
  unfold Gen.validateIndexExists validateIndex
  simp only [Id.run, id_pure, gen_helper, CalculateArithmeticShift_eq]
  cases neg <;> simp only [Bool.false_eq_true, if_true, if_false, id_pure] <;> tie_auto

end SpatialId.Tie
