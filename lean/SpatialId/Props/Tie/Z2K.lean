/-
Tie 2 — translated Go functions (lean/SpatialId/Gen/Int64Fns.lean, REGENERATED from /repo on every run by /verif/extract)
are equal to the hand-written model functions the property theorems are about: the Z → altitude-key conversion (min, max and the exported function).
An edit of one of these Go functions changes the generated definition; the equality below then either still checks
(a harmless rewrite) or fails (a broken obligation: the check searches for a failing input and reports).
-/
import SpatialId.Props.Tie.Shift
namespace SpatialId.Tie
open SpatialId

theorem convertZToMinAltitudekey_eq (f zi zo E O : Int) :
    Gen.convertZToMinAltitudekey f zi zo E O = Outcome.ofOption (zToMinKey f zi zo E O) := by
  unfold Gen.convertZToMinAltitudekey zToMinKey
  simp only [Id.run, id_pure, CalculateArithmeticShift_eq, validateIndexExists_eq]
  by_cases h1 : validateIndex f zi true = true
  · by_cases h2 : validateIndex (arithShift (arithShift f (-(zi - 25)) + O) (zo - E)) zo false = true
    · simp [h1, h2, Outcome.ofOption, id_pure]
    · simp [h1, h2, Outcome.ofOption, id_pure]
  · simp [h1, Outcome.ofOption, id_pure]

theorem convertZToMaxAltitudekey_eq (f zi zo E O : Int) :
    Gen.convertZToMaxAltitudekey f zi zo E O = Outcome.ofOption (zToMaxKey f zi zo E O) := by
  unfold Gen.convertZToMaxAltitudekey zToMaxKey
  simp only [Id.run, id_pure, CalculateArithmeticShift_eq, validateIndexExists_eq]
  by_cases h1 : validateIndex f zi true = true
  · by_cases hd : 25 - zi < 0
    · by_cases hs : zo - E - -(25 - zi) < 0
      · simp only [h1, hd, hs, if_true, if_false, not_true, not_false_eq_true, id_pure]
        split <;> simp_all [Outcome.ofOption, id_pure]
      · simp only [h1, hd, hs, if_true, if_false, not_true, not_false_eq_true, id_pure]
        split <;> simp_all [Outcome.ofOption, id_pure]
    · by_cases hs : zo - E - 0 < 0
      · simp only [h1, hd, hs, if_true, if_false, not_true, not_false_eq_true, id_pure]
        split <;> simp_all [Outcome.ofOption, id_pure]
      · simp only [h1, hd, hs, if_true, if_false, not_true, not_false_eq_true, id_pure]
        split <;> simp_all [Outcome.ofOption, id_pure]
  · simp [h1, Outcome.ofOption, id_pure]

theorem ConvertZToMinMaxAltitudekey_eq (f zi zo E O : Int) :
    Gen.ConvertZToMinMaxAltitudekey f zi zo E O = z2k f zi zo E O := by
  unfold Gen.ConvertZToMinMaxAltitudekey z2k
  simp only [Id.run, id_pure, convertZToMinAltitudekey_eq, convertZToMaxAltitudekey_eq]
  cases zToMinKey f zi zo E O with
  | none => simp [Outcome.ofOption, id_pure]
  | some lo =>
    cases zToMaxKey f zi zo E O with
    | none => simp [Outcome.ofOption, id_pure]
    | some hi => by_cases h : lo > hi <;> simp [Outcome.ofOption, h, id_pure]

end SpatialId.Tie
