/-
Tie 2 — translated Go functions (lean/SpatialId/Gen/Int64Fns.lean, REGENERATED from /repo on every run by /verif/extract)
are equal to the hand-written model functions the property theorems are about: the Z → altitude-key conversion (min, max and the exported function).
An edit of one of these Go functions changes the generated definition; the equality below then either still checks
(a harmless rewrite) or fails (a broken obligation: the check searches for a failing input and reports).
-/
import SpatialId.Props.Tie.Shift
namespace SpatialId.Tie
open SpatialId

theorem convertZToMinAltitudekey_eq (f zi zo E O : Int) :
    Gen.convertZToMinAltitudekey f zi zo E O = Outcome.ofOption (zToMinKey f zi zo E O) := by
  unfold Gen.convertZToMinAltitudekey zToMinKey
  simp only [Id.run, id_pure, gen_helper, CalculateArithmeticShift_eq, validateIndexExists_eq]
  tie_auto

theorem convertZToMaxAltitudekey_eq (f zi zo E O : Int) :
    Gen.convertZToMaxAltitudekey f zi zo E O = Outcome.ofOption (zToMaxKey f zi zo E O) := by
  unfold Gen.convertZToMaxAltitudekey zToMaxKey
  simp only [Id.run, id_pure, gen_helper, CalculateArithmeticShift_eq, validateIndexExists_eq]
  tie_auto

theorem ConvertZToMinMaxAltitudekey_eq (f zi zo E O : Int) :
    Gen.ConvertZToMinMaxAltitudekey f zi zo E O = z2k f zi zo E O := by
  unfold Gen.ConvertZToMinMaxAltitudekey z2k
  simp only [Id.run, id_pure, gen_helper, convertZToMinAltitudekey_eq, convertZToMaxAltitudekey_eq]
  cases zToMinKey f zi zo E O <;> cases zToMaxKey f zi zo E O <;> simp only [Outcome.ofOption, id_pure] <;> tie_auto

end SpatialId.Tie
