/-
Tie 2 — translated Go functions (lean/SpatialId/Gen/Int64Fns.lean, REGENERATED from /repo on every run by /verif/extract)
are equal to the hand-written model functions the property theorems are about: the index range `(min, max)` over which
`integrate.VerticalZoom` loops (the statements before its `for v := min; v <= max; v++`), which is the model's `vZoomMinMax` —
the floor semantics below ground of C03/C05/C09/C10 is therefore a statement about the source text. The loop body (string
formatting) is tied by correspondence.
-/
import SpatialId.Props.Tie.Shift
import SpatialId.Model.Zoom
namespace SpatialId.Tie
open SpatialId

theorem VerticalZoom_bounds_eq (zi f zo : Int) : Gen.VerticalZoom_bounds zi f zo = vZoomMinMax zi f zo := by
  unfold Gen.VerticalZoom_bounds vZoomMinMax
  (try simp only [Id.run, id_pure, gen_helper, CalculateArithmeticShift_eq]) <;> tie_auto

end SpatialId.Tie
