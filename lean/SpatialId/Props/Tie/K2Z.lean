/-
Tie 2 — translated Go functions (lean/SpatialId/Gen/Int64Fns.lean, REGENERATED from /repo on every run by /verif/extract)
are equal to the hand-written model functions the property theorems are about: the altitude-key → Z conversion.
An edit of one of these Go functions changes the generated definition; the equality below then either still checks
(a harmless rewrite) or fails (a broken obligation: the check searches for a failing input and reports).
-/
import SpatialId.Props.Tie.Shift
namespace SpatialId.Tie
open SpatialId

theorem ConvertAltitudekeyToMinMaxZ_eq (k zk zo E O : Int) :
    Gen.ConvertAltitudekeyToMinMaxZ k zk zo E O = k2z k zk zo E O := by
  unfold Gen.ConvertAltitudekeyToMinMaxZ k2z
  simp only [Id.run, id_pure, gen_helper, CalculateArithmeticShift_eq, validateIndexExists_eq]
  -- (a rewrite may call the index check where the function used to compare by hand: the model's check is then opened too)
  try simp only [validateIndex, if_true, ite_true, Bool.false_eq_true, if_false, decide_eq_true_eq, Bool.decide_eq_true]
  tie_auto

end SpatialId.Tie
