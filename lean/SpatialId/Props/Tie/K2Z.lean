/-
Tie 2 — translated Go functions (lean/SpatialId/Gen/Int64Fns.lean, REGENERATED from /repo on every run by /verif/extract)
are equal to the hand-written model functions the property theorems are about: the altitude-key → Z conversion.
An edit of one of these Go functions changes the generated definition; the equality below then either still checks
(a harmless rewrite) or fails (a broken obligation: the check searches for a failing input and reports).
-/
import SpatialId.Props.Tie.Shift
namespace SpatialId.Tie
open SpatialId

theorem ConvertAltitudekeyToMinMaxZ_eq (k zk zo E O : Int) :
    Gen.ConvertAltitudekeyToMinMaxZ k zk zo E O = k2z k zk zo E O := by
  unfold Gen.ConvertAltitudekeyToMinMaxZ k2z
  simp only [Id.run, id_pure, CalculateArithmeticShift_eq]
  by_cases h1 : k > arithShift 1 zk - 1 ∨ k < 0
  · simp [h1, id_pure]
  · by_cases h2 : E - zk > 0 <;> by_cases h3 : zo - 25 > 0 <;> simp only [h1, h2, h3, if_true, if_false, id_pure] <;>
      (split <;> simp_all [id_pure])

end SpatialId.Tie
