/-
C20, the vector/line helpers in binary64: the identities of `Props/C20Vec.lean` hold over every commutative ring; in binary64
they hold up to rounding. This file proves the rounding bounds the correspondence check uses as tolerances (so that an
in-tolerance verdict is backed by a theorem rather than by a constant chosen by hand):
  * `line_end_close`  — `Line3.End()` and `Line3.ToPoint(1)` of the line through `s` and `e` return `e` up to
                        `2^-51·(|s|+|e|)` per component (two roundings: `e − s`, then `s + (e − s)`);
  * `mul_err`, `dot_err` — a product is one rounding; the dot product of two vectors is within `2^-50·Σ|aᵢ||bᵢ|` (+ crumbs) of
                        the exact one, provided the exact products are not astronomically small.
-/
import SpatialId.Props.C20Vec
import SpatialId.Props.C06Mid
import SpatialId.Lemmas.F64Congr
namespace SpatialId.C20Err
open SpatialId F64

theorem mul_err (x y : Dy) :
    |val (mul x y) - val x * val y| ≤ (2 : ℚ) ^ (-53 : Int) * |val x * val y| + (2 : ℚ) ^ (-1075 : Int) := by
  unfold mul
  have := rnd_err (x.m * y.m) (x.e + y.e)
  have e : ((x.m * y.m : Int) : ℚ) * (2 : ℚ) ^ (x.e + y.e) = val x * val y := by
    unfold val; rw [zpow_add₀ two_ne]; push_cast; ring
  rw [e] at this; exact this

/-- the pure inequality behind `line_end_close`: `r ≈ S + d`, `d ≈ E − S` -/
theorem two_roundings (S E d r u c : ℚ) (hu : 0 < u) (hu4 : u ≤ 1 / 4) (hc : 0 < c)
    (h1 : |d - (E - S)| ≤ u * |E - S| + c) (h2 : |r - (S + d)| ≤ u * |S + d| + c) :
    |r - E| ≤ 4 * u * (|S| + |E|) + 4 * c := by
  set A := |S| + |E| with hA
  have hA0 : 0 ≤ A := by positivity
  have tES : |E - S| ≤ A := by
    have h := abs_add_le E (-S); rw [abs_neg, ← sub_eq_add_neg] at h; linarith
  have uA : 0 ≤ u * A := mul_nonneg (le_of_lt hu) hA0
  have uES : u * |E - S| ≤ u * A := mul_le_mul_of_nonneg_left tES (le_of_lt hu)
  have uA4 : u * A ≤ A / 4 := by have := mul_le_mul_of_nonneg_right hu4 hA0; linarith
  have uc : u * c ≤ c / 4 := by have := mul_le_mul_of_nonneg_right hu4 (le_of_lt hc); linarith
  -- |S + d| ≤ |E| + |d − (E − S)|
  have hsd : |S + d| ≤ A + (u * A + c) := by
    have e : S + d = E + (d - (E - S)) := by ring
    rw [e]
    have := abs_add_le E (d - (E - S))
    have := abs_nonneg S
    linarith
  have usd : u * |S + d| ≤ u * A + (1 / 4 * (u * A) + u * c) := by
    have := mul_le_mul_of_nonneg_left hsd (le_of_lt hu)
    have h2 : u * (u * A) ≤ 1 / 4 * (u * A) := mul_le_mul_of_nonneg_right hu4 uA
    nlinarith
  have split : r - E = (r - (S + d)) + (d - (E - S)) := by ring
  rw [split]
  have t := abs_add_le (r - (S + d)) (d - (E - S))
  linarith

/-- **line_end_close** — one component of `Line3.End()` / `ToPoint(1)` of the line from `s` to `e` -/
theorem line_end_close (s e : Dy) :
    |val (add s (sub e s)) - val e| ≤ (2 : ℚ) ^ (-51 : Int) * (|val s| + |val e|) + (2 : ℚ) ^ (-1073 : Int) := by
  have hd : |val (sub e s) - (val e - val s)| ≤ (2 : ℚ) ^ (-53 : Int) * |val e - val s| + (2 : ℚ) ^ (-1075 : Int) := by
    have := add_err e (neg s)
    rw [neg_val, ← sub_eq_add_neg] at this
    exact this
  have hr := add_err s (sub e s)
  have k53 : (2 : ℚ) ^ (-53 : Int) ≤ 1 / 4 := by norm_num
  have := two_roundings (val s) (val e) (val (sub e s)) (val (add s (sub e s))) ((2 : ℚ) ^ (-53 : Int)) ((2 : ℚ) ^ (-1075 : Int))
    (two_zpow_pos _) k53 (two_zpow_pos _) hd hr
  have c73 : (2 : ℚ) ^ (-1073 : Int) = 4 * (2 : ℚ) ^ (-1075 : Int) := by
    rw [show (-1073 : Int) = 2 + (-1075) by norm_num, zpow_add₀ two_ne]; norm_num
  have c51 : (2 : ℚ) ^ (-51 : Int) = 4 * (2 : ℚ) ^ (-53 : Int) := by
    rw [show (-51 : Int) = 2 + (-53) by norm_num, zpow_add₀ two_ne]; norm_num
  rw [c73, c51]; exact this

/-- multiplying by the binary64 `1` changes nothing: `ToPoint(1)` is `End()` -/
theorem mul_one_val (d : Dy) (h : RepVal (val d)) : val (mul ⟨1, 0⟩ d) = val d := by
  have := mul_val_exact ⟨1, 0⟩ d (by simpa [val] using h)
  simpa [val] using this

/-- **toPoint_one_close** — one component of `Line3.ToPoint(1)`: `s + 1·(e − s)` -/
theorem toPoint_one_close (s e : Dy) :
    |val (add s (mul ⟨1, 0⟩ (sub e s))) - val e| ≤ (2 : ℚ) ^ (-51 : Int) * (|val s| + |val e|) + (2 : ℚ) ^ (-1073 : Int) := by
  have hv : val (mul ⟨1, 0⟩ (sub e s)) = val (sub e s) := mul_one_val _ (by unfold sub; exact repVal_add _ _)
  have hd : |val (mul ⟨1, 0⟩ (sub e s)) - (val e - val s)| ≤ (2 : ℚ) ^ (-53 : Int) * |val e - val s| + (2 : ℚ) ^ (-1075 : Int) := by
    rw [hv]
    have := add_err e (neg s)
    rw [neg_val, ← sub_eq_add_neg] at this
    exact this
  have hr := add_err s (mul ⟨1, 0⟩ (sub e s))
  have k53 : (2 : ℚ) ^ (-53 : Int) ≤ 1 / 4 := by norm_num
  have := two_roundings (val s) (val e) (val (mul ⟨1, 0⟩ (sub e s))) (val (add s (mul ⟨1, 0⟩ (sub e s))))
    ((2 : ℚ) ^ (-53 : Int)) ((2 : ℚ) ^ (-1075 : Int)) (two_zpow_pos _) k53 (two_zpow_pos _) hd hr
  have c73 : (2 : ℚ) ^ (-1073 : Int) = 4 * (2 : ℚ) ^ (-1075 : Int) := by
    rw [show (-1073 : Int) = 2 + (-1075) by norm_num, zpow_add₀ two_ne]; norm_num
  have c51 : (2 : ℚ) ^ (-51 : Int) = 4 * (2 : ℚ) ^ (-53 : Int) := by
    rw [show (-51 : Int) = 2 + (-53) by norm_num, zpow_add₀ two_ne]; norm_num
  rw [c73, c51]; exact this

/-- `ToPoint(1)` and `End()` return the same value (multiplying the direction by the binary64 `1` is exact, and addition is a
function of the values of its operands) -/
theorem toPoint_one_eq_end (s e : Dy) : val (add s (mul ⟨1, 0⟩ (sub e s))) = val (add s (sub e s)) :=
  add_val_congr _ _ _ _ rfl (mul_one_val _ (by unfold sub; exact repVal_add _ _))

/-- the pure inequality behind `dot_err`: three rounded products, two rounded sums -/
theorem five_roundings (P1 P2 P3 p1 p2 p3 s1 s2 u c : ℚ) (hu : 0 < u) (hu4 : u ≤ 1 / 4) (hc : 0 < c)
    (h1 : |p1 - P1| ≤ u * |P1| + c) (h2 : |p2 - P2| ≤ u * |P2| + c) (h3 : |p3 - P3| ≤ u * |P3| + c)
    (h4 : |s1 - (p1 + p2)| ≤ u * |p1 + p2| + c) (h5 : |s2 - (s1 + p3)| ≤ u * |s1 + p3| + c) :
    |s2 - (P1 + P2 + P3)| ≤ 8 * u * (|P1| + |P2| + |P3|) + 8 * c := by
  set A := |P1| + |P2| + |P3| with hA
  have n1 := abs_nonneg P1; have n2 := abs_nonneg P2; have n3 := abs_nonneg P3
  have hA0 : 0 ≤ A := by positivity
  have uA : 0 ≤ u * A := mul_nonneg (le_of_lt hu) hA0
  have uc : u * c ≤ c / 4 := by have := mul_le_mul_of_nonneg_right hu4 (le_of_lt hc); linarith
  have uuA : u * (u * A) ≤ 1 / 4 * (u * A) := mul_le_mul_of_nonneg_right hu4 uA
  have uP1 : u * |P1| ≤ u * A := mul_le_mul_of_nonneg_left (by linarith) (le_of_lt hu)
  have uP2 : u * |P2| ≤ u * A := mul_le_mul_of_nonneg_left (by linarith) (le_of_lt hu)
  have uP3 : u * |P3| ≤ u * A := mul_le_mul_of_nonneg_left (by linarith) (le_of_lt hu)
  have uP12 : u * |P1| + u * |P2| + u * |P3| = u * A := by rw [hA]; ring
  -- magnitudes
  have a1 : |p1| ≤ |P1| + (u * |P1| + c) := by have := abs_sub_abs_le_abs_sub p1 P1; linarith
  have a2 : |p2| ≤ |P2| + (u * |P2| + c) := by have := abs_sub_abs_le_abs_sub p2 P2; linarith
  have a3 : |p3| ≤ |P3| + (u * |P3| + c) := by have := abs_sub_abs_le_abs_sub p3 P3; linarith
  have b12 : |p1 + p2| ≤ |p1| + |p2| := abs_add_le _ _
  have as1 : |s1| ≤ |p1 + p2| + (u * |p1 + p2| + c) := by have := abs_sub_abs_le_abs_sub s1 (p1 + p2); linarith
  have bs3 : |s1 + p3| ≤ |s1| + |p3| := abs_add_le _ _
  -- everything is ≤ 2A + 3c in magnitude
  have m12 : |p1 + p2| ≤ 5 / 4 * A + 2 * c := by nlinarith
  have ums : u * |p1 + p2| ≤ 5 / 4 * (u * A) + 2 * (u * c) := by
    have := mul_le_mul_of_nonneg_left m12 (le_of_lt hu); linarith
  have ms1 : |s1| ≤ 2 * A + 4 * c := by nlinarith
  have m3 : |p3| ≤ 5 / 4 * A + c := by nlinarith
  have ms3 : |s1 + p3| ≤ 13 / 4 * A + 5 * c := by linarith
  have ums3 : u * |s1 + p3| ≤ 13 / 4 * (u * A) + 5 * (u * c) := by
    have := mul_le_mul_of_nonneg_left ms3 (le_of_lt hu); linarith
  have split : s2 - (P1 + P2 + P3) = (s2 - (s1 + p3)) + (s1 - (p1 + p2)) + (p1 - P1) + (p2 - P2) + (p3 - P3) := by ring
  rw [split]
  have t1 := abs_add_le ((s2 - (s1 + p3)) + (s1 - (p1 + p2)) + (p1 - P1) + (p2 - P2)) (p3 - P3)
  have t2 := abs_add_le ((s2 - (s1 + p3)) + (s1 - (p1 + p2)) + (p1 - P1)) (p2 - P2)
  have t3 := abs_add_le ((s2 - (s1 + p3)) + (s1 - (p1 + p2))) (p1 - P1)
  have t4 := abs_add_le (s2 - (s1 + p3)) (s1 - (p1 + p2))
  linarith

open SpatialId.Vec in
/-- **dot_err** — the binary64 dot product `a.x*b.x + a.y*b.y + a.z*b.z` (left to right) against the exact one -/
theorem dot_err (a b : V3 Dy) :
    |val (add (add (mul a.x b.x) (mul a.y b.y)) (mul a.z b.z)) - (val a.x * val b.x + val a.y * val b.y + val a.z * val b.z)| ≤
      (2 : ℚ) ^ (-50 : Int) * (|val a.x * val b.x| + |val a.y * val b.y| + |val a.z * val b.z|) + (2 : ℚ) ^ (-1072 : Int) := by
  have k53 : (2 : ℚ) ^ (-53 : Int) ≤ 1 / 4 := by norm_num
  have := five_roundings (val a.x * val b.x) (val a.y * val b.y) (val a.z * val b.z)
    (val (mul a.x b.x)) (val (mul a.y b.y)) (val (mul a.z b.z))
    (val (add (mul a.x b.x) (mul a.y b.y))) (val (add (add (mul a.x b.x) (mul a.y b.y)) (mul a.z b.z)))
    ((2 : ℚ) ^ (-53 : Int)) ((2 : ℚ) ^ (-1075 : Int)) (two_zpow_pos _) k53 (two_zpow_pos _)
    (mul_err _ _) (mul_err _ _) (mul_err _ _) (add_err _ _) (add_err _ _)
  have c72 : (2 : ℚ) ^ (-1072 : Int) = 8 * (2 : ℚ) ^ (-1075 : Int) := by
    rw [show (-1072 : Int) = 3 + (-1075) by norm_num, zpow_add₀ two_ne]; norm_num
  have c50 : (2 : ℚ) ^ (-50 : Int) = 8 * (2 : ℚ) ^ (-53 : Int) := by
    rw [show (-50 : Int) = 3 + (-53) by norm_num, zpow_add₀ two_ne]; norm_num
  rw [c72, c50]; exact this

end SpatialId.C20Err
