/-
C08 (count) — where the stencil is narrower than the grid, the N-layer neighbourhood of a single voxel has exactly
(2H+1)²(2V+1) − 1 elements: the shifts by the non-zero offsets of the box are pairwise different.
(Finset cardinalities from Mathlib; the membership characterisation and the injectivity of the shift come from C08.)
-/
import SpatialId.Props.C08
import Mathlib.Data.Int.Interval
import Mathlib.Data.Finset.Prod
import Mathlib.Data.Finset.Card
import Mathlib.Data.Finset.Image
import Mathlib.Tactic.Ring
namespace SpatialId.C08
open SpatialId

/-- the offsets `-H..H × -H..H × -V..V` -/
def box (H V : Int) : Finset Off := Finset.Icc (-H) H ×ˢ (Finset.Icc (-H) H ×ˢ Finset.Icc (-V) V)

theorem mem_box (H V : Int) (d : Off) :
    d ∈ box H V ↔ (-H ≤ d.1 ∧ d.1 ≤ H) ∧ (-H ≤ d.2.1 ∧ d.2.1 ≤ H) ∧ (-V ≤ d.2.2 ∧ d.2.2 ≤ V) := by
  obtain ⟨a, b, c⟩ := d
  simp [box, Finset.mem_product, Finset.mem_Icc]

theorem card_box (H V : Int) (hH : 0 ≤ H) (hV : 0 ≤ V) :
    ((box H V).card : Int) = (2 * H + 1) * (2 * H + 1) * (2 * V + 1) := by
  simp only [box, Finset.card_product, Int.card_Icc]
  have e1 : ((H + 1 - -H).toNat : Int) = 2 * H + 1 := by omega
  have e2 : ((V + 1 - -V).toNat : Int) = 2 * V + 1 := by omega
  push_cast
  rw [e1, e2]; ring

/-- **count_general**: `2H+1 ≤ 2^h` ⇒ a single voxel has exactly `(2H+1)²(2V+1) − 1` distinct voxels in its N-layer
neighbourhood -/
theorem count_general (e : Ext) (hh : 0 ≤ e.h) (H V : Int) (hH : 0 ≤ H) (hV : 0 ≤ V)
    (hw : 2 * H + 1 ≤ 2 ^ e.h.toNat) :
    ((nNE [e] H V).length : Int) = (2 * H + 1) * (2 * H + 1) * (2 * V + 1) - 1 := by
  have hnd := nLayer_nodup [e] H V
  have hset : (nNE [e] H V).toFinset = ((box H V).erase (0, 0, 0)).image (sh e) := by
    ext o
    simp only [List.mem_toFinset, nLayer_set, List.mem_singleton, Finset.mem_image, Finset.mem_erase, mem_box]
    constructor
    · rintro ⟨e', rfl, d, h1, h2, h3, hne, rfl⟩
      exact ⟨d, ⟨hne, h1, h2, h3⟩, rfl⟩
    · rintro ⟨d, ⟨hne, h1, h2, h3⟩, rfl⟩
      exact ⟨e, rfl, d, h1, h2, h3, hne, rfl⟩
  have hinj : Set.InjOn (sh e) (↑((box H V).erase (0, 0, 0)) : Set Off) := by
    intro d hd d' hd' h
    simp only [Finset.coe_erase, Set.mem_sdiff, Finset.mem_coe, mem_box] at hd hd'
    exact sh_inj e hh d d' H hw hd.1.1 hd.1.2.1 hd'.1.1 hd'.1.2.1 h
  have h0 : ((0, 0, 0) : Off) ∈ box H V := by rw [mem_box]; simp; omega
  have hc : (nNE [e] H V).length = (box H V).card - 1 := by
    rw [← List.toFinset_card_of_nodup hnd, hset, Finset.card_image_of_injOn hinj, Finset.card_erase_of_mem h0]
  have hb := card_box H V hH hV
  have hpos : 1 ≤ (box H V).card := Finset.card_pos.mpr ⟨_, h0⟩
  rw [hc]; push_cast [Nat.cast_sub hpos]; rw [hb]

/-- the 26-neighbourhood is the case H = V = 1 -/
example : (2 * 1 + 1) * (2 * 1 + 1) * (2 * 1 + 1) - 1 = (26 : Int) := by decide

end SpatialId.C08
