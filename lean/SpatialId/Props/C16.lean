/-
C16 — results depend only on the input set: deterministic, order-blind, no duplicates.
Go's only source of nondeterminism is map iteration order; in the models it only affects the *order* of a
de-duplicated result.  The theorems below state that membership in every set-valued result is a function of the
*set* of inputs (so permuting the input list or repeating entries cannot change it) and that results documented as
de-duplicated have no duplicates; with the correspondence check comparing sorted results, this is "the same set on every
run".  Tied to the implementation by the metamorphic op families det_* (5 repeated calls, 3 shuffled/duplicated variants,
duplicate scan, argument slices compared before/after).
-/
import SpatialId.Props.C04
import SpatialId.Props.C08
import SpatialId.Props.C13
import SpatialId.Model.Util
import SpatialId.Props.C05
namespace SpatialId.C16
open SpatialId

/-- two lists with the same elements (any order, any multiplicity) -/
def SameSet {α} (l l' : List α) : Prop := ∀ a, a ∈ l ↔ a ∈ l'

theorem sameSet_of_perm {α} (l l' : List α) (h : l.Perm l') : SameSet l l' := fun _ => h.mem_iff
theorem sameSet_dup {α} (l : List α) (a : α) (h : a ∈ l) : SameSet (a :: l) l := by
  intro b; simp only [List.mem_cons]; constructor
  · rintro (rfl | hb); exact h; exact hb
  · exact Or.inr

/-! ### zoom change -/
theorem change_set (es es' : List Ext) (H V : Int) (h : SameSet es es') : SameSet (changeExtE es H V) (changeExtE es' H V) := by
  intro o
  simp only [changeExtE, mem_dedup, List.mem_flatMap]
  constructor <;> rintro ⟨e, he, ho⟩
  · exact ⟨e, (h e).mp he, ho⟩
  · exact ⟨e, (h e).mpr he, ho⟩
theorem change_nodup (es : List Ext) (H V : Int) : (changeExtE es H V).Nodup := nodup_dedup _

/-! ### neighbourhoods -/
theorem nLayer_set (es es' : List Ext) (H V : Int) (h : SameSet es es') : SameSet (nNE es H V) (nNE es' H V) := by
  intro o
  rw [C08.nLayer_set, C08.nLayer_set]
  constructor <;> rintro ⟨e, he, d⟩
  · exact ⟨e, (h e).mp he, d⟩
  · exact ⟨e, (h e).mpr he, d⟩
theorem nLayer_nodup (es : List Ext) (H V : Int) : (nNE es H V).Nodup := nodup_dedup _

/-! ### merge -/
theorem membersOf_set (es es' : List Ext) (H V : Int) (k : Ext) (h : SameSet es es') :
    SameSet (membersOf es H V k) (membersOf es' H V k) := by
  intro e; rw [mem_membersOf, mem_membersOf, h e]

theorem filled_set (es es' : List Ext) (H V : Int) (k : Ext) (h : SameSet es es') :
    C04.filled es H V k ↔ C04.filled es' H V k := by
  have hm := membersOf_set es es' H V k h
  unfold C04.filled regionL
  constructor <;> intro hf p hp
  · obtain ⟨e, he, hpe⟩ := hf hp; exact ⟨e, (hm e).mp he, hpe⟩
  · obtain ⟨e, he, hpe⟩ := hf hp; exact ⟨e, (hm e).mpr he, hpe⟩

theorem merge_set (es es' : List Ext) (H V : Int) (hw : wfL es) (hH : 0 ≤ H) (hV : 0 ≤ V) (h : SameSet es es') :
    SameSet (mergeExtE es H V) (mergeExtE es' H V) := by
  have hw' : wfL es' := fun e he => hw e ((h e).mpr he)
  intro o
  rw [C04.mem_merge es hw H V hH hV, C04.mem_merge es' hw' H V hH hV]
  constructor
  · rintro (⟨a, b⟩ | ⟨e, he, hel, rfl, hf⟩ | ⟨a, b, c⟩)
    · exact Or.inl ⟨(h o).mp a, b⟩
    · exact Or.inr (Or.inl ⟨e, (h e).mp he, hel, rfl, (filled_set es es' H V _ h).mp hf⟩)
    · exact Or.inr (Or.inr ⟨(h o).mp a, b, fun hf => c ((filled_set es es' H V _ h).mpr hf)⟩)
  · rintro (⟨a, b⟩ | ⟨e, he, hel, rfl, hf⟩ | ⟨a, b, c⟩)
    · exact Or.inl ⟨(h o).mpr a, b⟩
    · exact Or.inr (Or.inl ⟨e, (h e).mpr he, hel, rfl, (filled_set es es' H V _ h).mpr hf⟩)
    · exact Or.inr (Or.inr ⟨(h o).mpr a, b, fun hf => c ((filled_set es es' H V _ h).mp hf)⟩)
theorem merge_nodup (es : List Ext) (H V : Int) : (mergeExtE es H V).Nodup := nodup_dedup _

/-! ### overlap (array forms): when no element is in error the answer is "some pair overlaps" -/
theorem any_set {α} (l l' : List α) (p : α → Bool) (h : SameSet l l') : l.any p = l'.any p := by
  rw [Bool.eq_iff_iff, List.any_eq_true, List.any_eq_true]
  constructor <;> rintro ⟨a, ha, hp⟩
  · exact ⟨a, (h a).mp ha, hp⟩
  · exact ⟨a, (h a).mpr ha, hp⟩

theorem allExt_set (l l' : List String) (h : SameSet l l') : allExt l = allExt l' := by
  unfold allExt
  rw [Bool.eq_iff_iff, List.all_eq_true, List.all_eq_true]
  constructor <;> intro hh s hs
  · exact hh s ((h s).mpr hs)
  · exact hh s ((h s).mp hs)

theorem overlapArr_set (as as' bs bs' : List String) (f : String → String → Bool)
    (hA : allExt as = true) (hB : allExt bs = true)
    (hok : ∀ a b, overlapExt a b = .ok (f a b)) (ha : SameSet as as') (hb : SameSet bs bs') :
    overlapExtArr as bs = overlapExtArr as' bs' := by
  rw [C05.arr_eq_any as bs f hA hB (fun a _ b _ => hok a b),
    C05.arr_eq_any as' bs' f (by rw [← allExt_set as as' ha]; exact hA) (by rw [← allExt_set bs bs' hb]; exact hB)
      (fun a _ b _ => hok a b)]
  congr 1
  rw [any_set as as' _ ha]
  congr 1; funext a
  exact any_set bs bs' _ hb

/-! ### tiles -/
theorem tiles_set (ts ts' : List Tile) (E O outV : Int) (r r' : List Ext) (h : SameSet ts ts')
    (hr : tilesToExt ts E O outV = .ok r) (hr' : tilesToExt ts' E O outV = .ok r') : SameSet r r' := by
  intro o
  rw [C13.mem_tilesToExt ts E O outV r hr, C13.mem_tilesToExt ts' E O outV r' hr']
  constructor <;> rintro ⟨t, ht, rest⟩
  · exact ⟨t, (h t).mp ht, rest⟩
  · exact ⟨t, (h t).mpr ht, rest⟩
theorem tiles_nodup (ts : List Tile) (E O outV : Int) (r : List Ext) (h : tilesToExt ts E O outV = .ok r) : r.Nodup :=
  C13.tile_nodup ts E O outV r h

/-! ### the generic helpers -/
theorem unique_set {α} [DecidableEq α] (l l' : List α) (h : SameSet l l') : SameSet (uniqueL l) (uniqueL l') := by
  intro a; simp only [uniqueL, mem_dedup]; exact h a
theorem union_set {α} [DecidableEq α] (l1 l1' l2 l2' : List α) (h1 : SameSet l1 l1') (h2 : SameSet l2 l2') :
    SameSet (unionL l1 l2) (unionL l1' l2') := by
  intro a; simp only [unionL, mem_dedup, List.mem_append, h1 a, h2 a]

/-- the model functions are pure: the same arguments give the same value (no hidden state) — in Lean this is `rfl`;
for the Go code it is what the repeated calls of the det_* families observe -/
theorem deterministic (es : List Ext) (H V : Int) : changeExtE es H V = changeExtE es H V := rfl

example : changeExtE [⟨1, 0, 0, 1, 0⟩, ⟨1, 1, 0, 1, 0⟩] 0 0 = [⟨0, 0, 0, 0, 0⟩] ∧
    changeExtE [⟨1, 1, 0, 1, 0⟩, ⟨1, 0, 0, 1, 0⟩, ⟨1, 1, 0, 1, 0⟩] 0 0 = [⟨0, 0, 0, 0, 0⟩] := by decide

end SpatialId.C16
