/-
Tie 2 (facts): the set of numeric literals of the Go functions below, REGENERATED from /repo on
every run (Gen/Facts.lean), are the ones the hand-written model was written against (C07 C08).
A changed constant in one of these functions breaks the `decide` below even where no sampled
input shows it; renaming and reordering of statements do not.
-/
import SpatialId.Gen.Facts
namespace SpatialId.FactsShift
open SpatialId

/-- numeric literals of `operated.GetShiftingSpatialID` -/
theorem facts_operated_GetShiftingSpatialID :
    Gen.funcFacts.lookup "operated.GetShiftingSpatialID" = some ["i:0", "i:1", "i:2"] := by decide

end SpatialId.FactsShift
