/-
Tie 2 (facts): the set of numeric literals of the Go functions below, REGENERATED from /repo on
every run (Gen/Facts.lean), are the ones the hand-written model was written against (C17).
A changed constant in one of these functions breaks the `decide` below even where no sampled
input shows it; renaming and reordering of statements do not.
-/
import SpatialId.Gen.Facts
namespace SpatialId.FactsBitAlt
open SpatialId

/-- numeric literals of `transform.calcBitIndex` -/
theorem facts_transform_calcBitIndex :
    Gen.funcFacts.lookup "transform.calcBitIndex" = some ["i:2"] := by decide

/-- numeric literals of `transform.convertVerticallIDToBit` -/
theorem facts_transform_convertVerticallIDToBit :
    Gen.funcFacts.lookup "transform.convertVerticallIDToBit" = some ["i:2"] := by decide

/-- numeric literals of `transform.convertBitToVerticalID` -/
theorem facts_transform_convertBitToVerticalID :
    Gen.funcFacts.lookup "transform.convertBitToVerticalID" = some ["i:2"] := by decide

end SpatialId.FactsBitAlt
