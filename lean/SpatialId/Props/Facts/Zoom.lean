/-
Tie 2 (facts): the set of numeric literals of the Go functions below, REGENERATED from /repo on
every run (Gen/Facts.lean), are the ones the hand-written model was written against (C03 C04 C09 C10).
A changed constant in one of these functions breaks the `decide` below even where no sampled
input shows it; renaming and reordering of statements do not.
-/
import SpatialId.Gen.Facts
namespace SpatialId.FactsZoom
open SpatialId

/-- numeric literals of `integrate.VerticalZoom` -/
theorem facts_integrate_VerticalZoom :
    Gen.funcFacts.lookup "integrate.VerticalZoom" = some ["i:2"] := by decide

/-- numeric literals of `object.(ExtendedSpatialID).Higher` -/
theorem facts_object_ExtendedSpatialID_Higher :
    Gen.funcFacts.lookup "object.(ExtendedSpatialID).Higher" = some ["i:2"] := by decide

end SpatialId.FactsZoom
