/-
Tie 2 (facts): the set of numeric literals of the Go functions below, REGENERATED from /repo on
every run (Gen/Facts.lean), are the ones the hand-written model was written against (C11).
A changed constant in one of these functions breaks the `decide` below even where no sampled
input shows it; renaming and reordering of statements do not.
-/
import SpatialId.Gen.Facts
namespace SpatialId.FactsQuadkey
open SpatialId

/-- numeric literals of `transform.convertHorizontalIDToQuadkey` -/
theorem facts_transform_convertHorizontalIDToQuadkey :
    Gen.funcFacts.lookup "transform.convertHorizontalIDToQuadkey" = some ["i:0", "i:1", "i:2"] := by decide

/-- numeric literals of `transform.convertQuadkeyToHorizontalID` -/
theorem facts_transform_convertQuadkeyToHorizontalID :
    Gen.funcFacts.lookup "transform.convertQuadkeyToHorizontalID" = some ["i:0", "i:1"] := by decide

end SpatialId.FactsQuadkey
