/-
Tie 2 (facts): the set of numeric literals of the Go functions below, REGENERATED from /repo on
every run (Gen/Facts.lean), are the ones the hand-written model was written against (C06 C14: zoom switches 31/34, the midpoint parameter 0.5, the threshold comparisons).
A changed constant in one of these functions breaks the `decide` below even where no sampled
input shows it; renaming and reordering of statements do not.
-/
import SpatialId.Gen.Facts
import SpatialId.Model.Line
namespace SpatialId.FactsLine
open SpatialId

/-- numeric literals of `shape.GetExtendedSpatialIdsOnLine` -/
theorem facts_shape_GetExtendedSpatialIdsOnLine :
    Gen.funcFacts.lookup "shape.GetExtendedSpatialIdsOnLine" = some ["f:4467902934002620053", "f:4482622658704346170", "f:4491629857959087162", "f:4557750909289998844", "f:4569063951553953530", "i:31", "i:34"] := by decide

/-- numeric literals of `shape.middleSpatialIds` -/
theorem facts_shape_middleSpatialIds :
    Gen.funcFacts.lookup "shape.middleSpatialIds" = some ["f:4602678819172646912"] := by decide

/-- the six thresholds of shape/line.go are the binary64 values the model uses -/
theorem line_thresholds :
    Gen.floatConsts.lookup "shape.LonMinima" = some (F64.toBits SpatialId.lonMinima) ∧
    Gen.floatConsts.lookup "shape.LatMinima" = some (F64.toBits SpatialId.latMinima) ∧
    Gen.floatConsts.lookup "shape.AltMinima" = some (F64.toBits SpatialId.altMinima) ∧
    Gen.floatConsts.lookup "shape.HightZoomLonMinima" = some (F64.toBits SpatialId.hiLonMinima) ∧
    Gen.floatConsts.lookup "shape.HightZoomLatMinima" = some (F64.toBits SpatialId.hiLatMinima) ∧
    Gen.floatConsts.lookup "shape.HightZoomAltMinima" = some (F64.toBits SpatialId.hiAltMinima) := by decide +kernel

end SpatialId.FactsLine
