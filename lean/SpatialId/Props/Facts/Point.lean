/-
Tie 2 (facts): the set of numeric literals of the Go functions below, REGENERATED from /repo on
every run (Gen/Facts.lean), are the ones the hand-written model was written against (C01 C02 C09 C15: NewPoint's domain tests, the index formulas and the vertex formulas).
A changed constant in one of these functions breaks the `decide` below even where no sampled
input shows it; renaming and reordering of statements do not.
-/
import SpatialId.Gen.Facts
import SpatialId.Model.Point
namespace SpatialId.FactsPoint
open SpatialId

/-- numeric literals of `object.(*Point).SetLon` -/
theorem facts_object_Point_SetLon :
    Gen.funcFacts.lookup "object.(*Point).SetLon" = some ["i:180"] := by decide

/-- numeric literals of `object.(*Point).SetLat` -/
theorem facts_object_Point_SetLat :
    Gen.funcFacts.lookup "object.(*Point).SetLat" = some ["f:4635685358059997190", "i:10"] := by decide

/-- numeric literals of `shape.getHorizontalTileIdOnPoint` -/
theorem facts_shape_getHorizontalTileIdOnPoint :
    Gen.funcFacts.lookup "shape.getHorizontalTileIdOnPoint" = some ["i:180", "i:2", "i:360"] := by decide

/-- numeric literals of `shape.getVerticalTileIdOnAltitude` -/
theorem facts_shape_getVerticalTileIdOnAltitude :
    Gen.funcFacts.lookup "shape.getVerticalTileIdOnAltitude" = some ["i:2", "i:25"] := by decide

/-- numeric literals of `shape.getVertexOnVoxelOffset` -/
theorem facts_shape_getVertexOnVoxelOffset :
    Gen.funcFacts.lookup "shape.getVertexOnVoxelOffset" = some ["i:180", "i:2", "i:360"] := by decide

/-- the latitude limit literal of SetLat is the binary64 value the model uses -/
theorem lat_limit : F64.toBits SpatialId.latLimit = 4635685358059997190 := by decide +kernel

end SpatialId.FactsPoint
