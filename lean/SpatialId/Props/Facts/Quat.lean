/-
Tie 2 (facts): the set of numeric literals of the Go functions below, REGENERATED from /repo on
every run (Gen/Facts.lean), are the ones the hand-written model was written against (C20).
A changed constant in one of these functions breaks the `decide` below even where no sampled
input shows it; renaming and reordering of statements do not.
-/
import SpatialId.Gen.Facts
namespace SpatialId.FactsQuat
open SpatialId

/-- numeric literals of `spatial.RotateBetweenVector` -/
theorem facts_spatial_RotateBetweenVector :
    Gen.funcFacts.lookup "spatial.RotateBetweenVector" = some ["f:4457293557087583675", "f:4602678819172646912", "i:2"] := by decide

/-- numeric literals of `spatial.QuatFromAxisAngle` -/
theorem facts_spatial_QuatFromAxisAngle :
    Gen.funcFacts.lookup "spatial.QuatFromAxisAngle" = some ["f:4602678819172646912"] := by decide

/-- `consts.Minima` (the "opposite vectors" threshold on cos + 1) is 1e-10 -/
theorem minima : Gen.floatConsts.lookup "consts.Minima" = some 4457293557087583675 := by decide

end SpatialId.FactsQuat
