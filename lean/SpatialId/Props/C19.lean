/-
C19 — all operations may be called concurrently.
The library is modelled as an abstract machine over a global store `G`; the store of the real library is the
*regenerated* table `Gen.globals` (every package-level `var`), and `Gen.globalWrites` lists every syntactic non-read use
of one of them (assignment also through field/index/pointer, increment/decrement, address taken, method call).  Both tables
are rewritten from /repo's source on every run by /verif/extract, so a new package-level variable or a new write site
breaks `repo_readonly` / `globals_table`.  The race detector run of the conc op family searches for a failing schedule.
-/
import SpatialId.Gen.Globals
namespace SpatialId.C19

/-- an operation of the library: reads the store and its arguments, returns a new store and a result -/
structure Op (G A R : Type) where
  step : G → A → G × R

/-- running a schedule (any interleaving of whole operations, each by some goroutine) from store `g`:
the results in schedule order -/
def run {G A R} (op : Op G A R) : G → List A → List R
  | _, [] => []
  | g, a :: as => let (g', r) := op.step g a; r :: run op g' as

/-- **readonly_interleaving**: if no operation changes the store then under every schedule each call returns exactly
what it returns when run alone from the initial store -/
theorem readonly_interleaving {G A R} (op : Op G A R) (hro : ∀ g a, (op.step g a).1 = g) (g : G) (sched : List A) :
    run op g sched = sched.map fun a => (op.step g a).2 := by
  induction sched with
  | nil => rfl
  | cons a as ih =>
    simp only [run, List.map_cons]
    rw [hro g a, ih]

/-- … in particular the result of a call does not depend on what was scheduled before it or on the order -/
theorem result_independent_of_schedule {G A R} (op : Op G A R) (hro : ∀ g a, (op.step g a).1 = g) (g : G)
    (pre pre' : List A) (a : A) :
    (run op g (pre ++ [a])).getLast? = (run op g (pre' ++ [a])).getLast? := by
  rw [readonly_interleaving op hro, readonly_interleaving op hro]
  simp

/-- **repo_readonly**: the regenerated table of non-read uses of package-level variables is empty -/
theorem repo_readonly : Gen.globalWrites = [] := by decide

/-- **globals_table**: the only package-level variable is the constant `transform.alt25 = 2^25` -/
theorem globals_table : Gen.globals = [("transform", "alt25", "= math.Pow(2, 25)")] := by decide

end SpatialId.C19
