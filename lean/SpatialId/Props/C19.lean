/-
C19 — all operations may be called concurrently.
The library is modelled as an abstract machine over a global store `G`; the store of the real library is the
*regenerated* table `Gen.globals` (every package-level `var`), and `Gen.globalWrites` lists every syntactic non-read use
of one of them (assignment also through field/index/pointer, increment/decrement, address taken, method call).  Both tables
are rewritten from /repo's source on every run by /verif/extract, so a new package-level variable or a new write site
breaks `repo_readonly` / `globals_immutable` (unless it is a read-only value or table).  The race detector run of the conc op family searches for a failing schedule.
-/
import SpatialId.Gen.Globals
namespace SpatialId.C19

/-- an operation of the library: reads the store and its arguments, returns a new store and a result -/
structure Op (G A R : Type) where
  step : G → A → G × R

/-- running a schedule (any interleaving of whole operations, each by some goroutine) from store `g`:
the results in schedule order -/
def run {G A R} (op : Op G A R) : G → List A → List R
  | _, [] => []
  | g, a :: as => let (g', r) := op.step g a; r :: run op g' as

/-- **readonly_interleaving**: if no operation changes the store then under every schedule each call returns exactly
what it returns when run alone from the initial store -/
theorem readonly_interleaving {G A R} (op : Op G A R) (hro : ∀ g a, (op.step g a).1 = g) (g : G) (sched : List A) :
    run op g sched = sched.map fun a => (op.step g a).2 := by
  induction sched with
  | nil => rfl
  | cons a as ih =>
    simp only [run, List.map_cons]
    rw [hro g a, ih]

/-- … in particular the result of a call does not depend on what was scheduled before it or on the order -/
theorem result_independent_of_schedule {G A R} (op : Op G A R) (hro : ∀ g a, (op.step g a).1 = g) (g : G)
    (pre pre' : List A) (a : A) :
    (run op g (pre ++ [a])).getLast? = (run op g (pre' ++ [a])).getLast? := by
  rw [readonly_interleaving op hro, readonly_interleaving op hro]
  simp

/-- **repo_readonly**: the regenerated table of non-read uses of package-level variables is empty -/
theorem repo_readonly : Gen.globalWrites = [] := by decide

/-- **globals_immutable**: every package-level variable is a `value` (scalar, string, array of those, `errors.New` value:
only a non-read use of its name can change it) or a `table` (slice or map of scalars whose every use other than indexing,
`len`, `cap`, `range` is listed in `globalWrites`); none is a pointer, struct, interface, channel, sync type or other
reference.  Together with `repo_readonly` the library keeps no mutable package-level state; a new read-only constant
table does not break this, a cache, pool or scratch buffer does. -/
theorem globals_immutable : ∀ g ∈ Gen.globals, g.2.2.1 = "value" ∨ g.2.2.1 = "table" := by decide

/-- non-vacuity on a sample table: a scalar constant and a ranged-over sign table pass, a mutex would not -/
example : (∀ g ∈ [("transform", "alt25", "value", "= math.Pow(2, 25)"), ("operated", "signs", "table", "= []int64{-1, 1}")],
    g.2.2.1 = "value" ∨ g.2.2.1 = "table") ∧
    ¬ (∀ g ∈ [("common", "mu", "ref", "sync.Mutex")], g.2.2.1 = "value" ∨ g.2.2.1 = "table") := by decide

end SpatialId.C19
