/-
C10 — converting between ID notations loses nothing.
Model: SpatialId/Model/Notation.lean (`sp2ext`, `ext2sp`, `voxelId`), `expandExt` in Model/Zoom.lean,
`parseExt`/`Ext.id` in Basic.lean; tied by the op family `notation`
(shape.ConvertSpatialIdsToExtendedSpatialIds, shape.ConvertExtendedSpatialIdsToSpatialIds,
transform.ConvertExtendedSpatialIDToSpatialIDs, transform.GetVoxelIDfromSpatialID, object.NewExtendedSpatialID).
-/
import SpatialId.Props.C03
import SpatialId.Lemmas.Parse
namespace SpatialId.C10
open SpatialId

/-! ### the two notations are permutations of the field list -/

/-- field-level content of `sp2ext1` / `ext2sp1` (the string functions split, permute, join) -/
def sp2extF : List String → Option (List String)
  | [z, f, x, y] => some [z, x, y, z, f]
  | _ => none
def ext2spF : List String → Option (List String)
  | [h, x, y, _v, f] => some [h, f, x, y]
  | _ => none

theorem sp2ext1_eq (s : String) : sp2ext1 s = (sp2extF (splitSlash s)).map joinSlash := by
  unfold sp2ext1 sp2extF
  split <;> simp_all

theorem ext2sp1_eq (s : String) : ext2sp1 s = (ext2spF (splitSlash s)).map joinSlash := by
  unfold ext2sp1 ext2spF
  split <;> simp_all

/-- spatial → extended → spatial is the identity on every 4-field ID, whatever the fields are -/
theorem toExt_toSp (fs : List String) (h : fs.length = 4) : (sp2extF fs).bind ext2spF = some fs := by
  match fs, h with
  | [z, f, x, y], _ => rfl

/-- extended → spatial → extended is the identity on IDs whose two zoom fields agree, component by component -/
theorem toSp_toExt (h x y f : String) : (ext2spF [h, x, y, h, f]).bind sp2extF = some [h, x, y, h, f] := rfl

/-- wrong arity is rejected, in both directions -/
theorem sp2ext_arity (fs : List String) (h : fs.length ≠ 4) : sp2extF fs = none := by
  unfold sp2extF; split
  · simp at h
  · rfl
theorem ext2sp_arity (fs : List String) (h : fs.length ≠ 5) : ext2spF fs = none := by
  unfold ext2spF; split
  · simp at h
  · rfl

/-- the list functions preserve length and order: the i-th output comes from the i-th input -/
theorem sp2ext_list (ids out : List String) (h : sp2ext ids = .ok out) :
    out.length = ids.length ∧ ∀ i (hi : i < ids.length) (ho : i < out.length), sp2ext1 ids[i] = some out[i] := by
  unfold sp2ext at h
  cases hm : ids.mapM sp2ext1 with
  | none => simp [hm, Outcome.ofOption] at h
  | some l =>
    simp only [hm, Outcome.ofOption, Outcome.ok.injEq] at h
    subst h
    exact mapM_option_spec _ _ _ hm

theorem ext2sp_list (ids out : List String) (h : ext2sp ids = .ok out) :
    out.length = ids.length ∧ ∀ i (hi : i < ids.length) (ho : i < out.length), ext2sp1 ids[i] = some out[i] := by
  unfold ext2sp at h
  cases hm : ids.mapM ext2sp1 with
  | none => simp [hm, Outcome.ofOption] at h
  | some l =>
    simp only [hm, Outcome.ofOption, Outcome.ok.injEq] at h
    subst h
    exact mapM_option_spec _ _ _ hm

theorem notation_no_panic (ids : List String) : sp2ext ids ≠ .panic ∧ ext2sp ids ≠ .panic := by
  unfold sp2ext ext2sp Outcome.ofOption
  constructor <;> split <;> simp

/-! ### parsing reads the five numbers in their positions -/

/-- `GetVoxelIDfromSpatialID` returns (x, y, f) of a well-formed extended ID -/
theorem voxelId_components (s : String) (e : Ext) (h : parseExt s = some e) : voxelId s = .ok [e.x, e.y, e.f] := by
  obtain ⟨a, b, c, d, f, hs, _, h2, h3, _, h5⟩ := parseExt_fields s e h
  simp [voxelId, hs, parseInt64Lossy, h2, h3, h5]

/-! ### expansion of an extended ID with h ≠ v into spatial IDs -/

theorem axisMeet_same (z : ℕ) (i j : ℤ) : axisMeet z z i j ↔ j = i := by
  simp [axisMeet]

/-- the expansion is exactly the set of voxels at zoom `max h v` (on both axes) that meet the input -/
theorem mem_expandExt (e o : Ext) (he : C03.wf e) :
    o ∈ expandExt e ↔ o.h = max e.h e.v ∧ o.v = max e.h e.v ∧ meets e o := by
  obtain ⟨h1, h2, h3, h4⟩ := he
  unfold expandExt meets
  by_cases c1 : e.h < e.v
  · have hm : max e.h e.v = e.v := by omega
    simp only [c1, if_true, hm]
    have hx := hAxis_mem e.h e.x e.v o.x h1 h2 h3
    have hy := hAxis_mem e.h e.y e.v o.y h1 h2 h4
    have c : e.v - e.h > 0 := by omega
    simp only [c, if_true] at hx hy
    unfold hZoomMinMax
    simp only [c, if_true, List.mem_flatMap, List.mem_map, mem_irange]
    constructor
    · rintro ⟨x, hx', y, hy', rfl⟩
      refine ⟨rfl, rfl, hx.mp hx', hy.mp hy', ?_⟩
      simp [axisMeet]
    · rintro ⟨r1, r2, m1, m2, m3⟩
      rw [r2, axisMeet_same] at m3
      rw [r1] at m1 m2
      refine ⟨o.x, hx.mpr m1, o.y, hy.mpr m2, ?_⟩
      cases o; simp_all
  · by_cases c2 : e.h > e.v
    · have hm : max e.h e.v = e.h := by omega
      simp only [c1, c2, if_true, if_false, hm, List.mem_map]
      constructor
      · rintro ⟨f, hf, rfl⟩
        rw [mem_vZoomIdx _ _ _ _ h2 h1] at hf
        exact ⟨rfl, rfl, by simp [axisMeet], by simp [axisMeet], hf⟩
      · rintro ⟨r1, r2, m1, m2, m3⟩
        rw [r1, axisMeet_same] at m1 m2
        rw [r2] at m3
        refine ⟨o.f, (mem_vZoomIdx _ _ _ _ h2 h1).mpr m3, ?_⟩
        cases o; simp_all
    · have heq : e.h = e.v := by omega
      have hm : max e.h e.v = e.h := by omega
      simp only [c1, c2, if_false, hm, List.mem_singleton]
      constructor
      · rintro rfl; exact ⟨rfl, heq.symm, by simp [axisMeet], by simp [axisMeet], by simp [axisMeet]⟩
      · rintro ⟨r1, r2, m1, m2, m3⟩
        rw [r1, axisMeet_same] at m1 m2
        rw [r2, heq, axisMeet_same] at m3
        cases o; cases e; simp_all

theorem expand_zoom (e o : Ext) (he : C03.wf e) (ho : o ∈ expandExt e) : o.h = max e.h e.v ∧ o.v = max e.h e.v :=
  let h := (mem_expandExt e o he).mp ho; ⟨h.1, h.2.1⟩

/-- **expand_region**: the union of the expansion is exactly the original voxel -/
theorem expand_region (e : Ext) (he : C03.wf e) (p : Pt) : p ∈ regionL (expandExt e) ↔ p ∈ region e := by
  have hwf := he
  obtain ⟨h1, h2, _, _⟩ := he
  constructor
  · rintro ⟨o, ho, hp⟩
    obtain ⟨r1, r2, hm⟩ := (mem_expandExt e o hwf).mp ho
    exact region_subset_of_meets e o (by omega) (by omega) hm hp
  · intro hp
    let M := max e.h e.v
    let o : Ext := ⟨M, cell M.toNat p.u, cell M.toNat p.w, M, cell M.toNat p.a⟩
    have hpo : p ∈ region o := ⟨rfl, rfl, rfl⟩
    exact ⟨o, (mem_expandExt e o hwf).mpr ⟨rfl, rfl, (meets_iff e o).mp ⟨p, hp, hpo⟩⟩, hpo⟩

/-- **expand_nodup** -/
theorem expand_nodup (e : Ext) : (expandExt e).Nodup := by
  unfold expandExt
  split
  · simp only []
    apply nodup_flatMap_map_inj _ _ _ (nodup_irange _ _) (nodup_irange _ _)
    intro a b a' b' h; simp only [Ext.mk.injEq] at h; exact ⟨h.2.1, h.2.2.1⟩
  · split
    · unfold vZoomIdx
      exact List.Pairwise.map _ (fun a b (h : a ≠ b) heq => h (by simp only [Ext.mk.injEq] at heq; exact heq.2.2.2.2))
        (nodup_irange _ _)
    · simp

/-- **expand_count**: `4^d` voxels when the vertical zoom is `d` finer, `2^d` when the horizontal zoom is -/
theorem expand_count_h (e : Ext) (d : Nat) (hd : 0 < d) (hv : e.v = e.h + d) : (expandExt e).length = 4 ^ d := by
  unfold expandExt hZoomMinMax
  have c1 : e.h < e.v := by omega
  have c : e.v - e.h > 0 := by omega
  have hn : (e.v - e.h).natAbs = d := by omega
  simp only [c1, c, if_true, hn, pow2_natCast]
  have e1 : ∀ i : Int, i * 2 ^ d + 2 ^ d - 1 + 1 - i * 2 ^ d = ((2 ^ d : Nat) : Int) := by
    intro i; push_cast; omega
  rw [C03.length_flatMap_const _ _ (2 ^ d)]
  · rw [length_irange, e1, Int.toNat_natCast, ← Nat.mul_pow]
  · intro a _; rw [List.length_map, length_irange, e1, Int.toNat_natCast]

theorem expand_count_v (e : Ext) (d : Nat) (hd : 0 < d) (hh : e.h = e.v + d) : (expandExt e).length = 2 ^ d := by
  unfold expandExt vZoomIdx vZoomMinMax
  have c1 : ¬ e.h < e.v := by omega
  have c2 : e.h > e.v := by omega
  have c : e.h - e.v > 0 := by omega
  have hn : (e.h - e.v).natAbs = d := by omega
  simp only [c1, c2, c, if_true, if_false, hn, pow2_natCast, List.length_map, length_irange]
  have : e.f * 2 ^ d + 2 ^ d - 1 + 1 - e.f * 2 ^ d = ((2 ^ d : Nat) : Int) := by push_cast; omega
  rw [this, Int.toNat_natCast]

example : (expandExt ⟨1, 0, 0, 2, -1⟩).map Ext.spId = ["2/-1/0/0", "2/-1/0/1", "2/-1/1/0", "2/-1/1/1"] := by decide

end SpatialId.C10
