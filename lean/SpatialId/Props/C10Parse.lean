/-
C10 (and the string interface every other property goes through): the textual form of an ID is lossless.
  * print-then-parse is the identity on every ID with int64 components, in particular on every valid ID;
  * hence the printed form is injective: two different voxels never share a string;
  * the two notation conversions, applied to printed IDs, give the printed ID of the same voxel in the other notation.
All for every ID, no bound on zoom or index.
-/
import SpatialId.Lemmas.ParsePrint
import SpatialId.Model.Notation
namespace SpatialId.C10Parse
open SpatialId

theorem id_roundtrip (e : Ext) (h : e.valid) : parseExt e.id = some e := parseExt_id_valid e h

theorem id_roundtrip_int64 (e : Ext) (h : e.int64) : parseExt e.id = some e := parseExt_id e h

theorem id_injective (e₁ e₂ : Ext) (h₁ : e₁.int64) (h₂ : e₂.int64) (h : e₁.id = e₂.id) : e₁ = e₂ := by
  have a := parseExt_id e₁ h₁
  rw [h, parseExt_id e₂ h₂] at a
  exact (Option.some.inj a).symm

/-- spatial-ID notation → extended notation, on the printed form of a voxel. -/
theorem sp2ext1_print (e : Ext) : sp2ext1 e.spId = some (Ext.id ⟨e.h, e.x, e.y, e.h, e.f⟩) := by
  unfold sp2ext1 Ext.spId Ext.id
  rw [splitSlash_joinSlash _ (by simp)]
  intro s hs
  simp only [List.mem_cons, List.not_mem_nil, or_false] at hs
  rcases hs with rfl | rfl | rfl | rfl <;> exact slash_not_in_fmtInt _

/-- extended notation → spatial-ID notation, on the printed form of a voxel. -/
theorem ext2sp1_print (e : Ext) : ext2sp1 e.id = some e.spId := by
  unfold ext2sp1 Ext.spId Ext.id
  rw [splitSlash_joinSlash _ (by simp)]
  intro s hs
  simp only [List.mem_cons, List.not_mem_nil, or_false] at hs
  rcases hs with rfl | rfl | rfl | rfl | rfl <;> exact slash_not_in_fmtInt _

/-- the round trip of the two conversions on a printed spatial ID: the same string. -/
theorem sp_ext_sp (e : Ext) : (sp2ext1 e.spId).bind ext2sp1 = some e.spId := by
  rw [sp2ext1_print, Option.bind_some, ext2sp1_print]; rfl

/-- the converted ID denotes the same voxel (with both zooms equal to the spatial zoom). -/
theorem sp2ext1_parse (e : Ext) (h : e.int64) :
    (sp2ext1 e.spId).bind parseExt = some ⟨e.h, e.x, e.y, e.h, e.f⟩ := by
  rw [sp2ext1_print, Option.bind_some]
  exact parseExt_id _ ⟨h.1, h.2.1, h.2.2.1, h.1, h.2.2.2.2⟩

/-- a list of printed IDs parses back to the list of voxels: the hypothesis `parseAll ids = some es` of the list-level theorems
(C03, C04, C05, C08, C11, C13) is met by the printed form of EVERY list of valid IDs -/
theorem parseAll_ids (es : List Ext) (h : ∀ e ∈ es, e.int64) : parseAll (es.map Ext.id) = some es := by
  unfold parseAll
  induction es with
  | nil => rfl
  | cons e r ih =>
    have he := parseExt_id e (h e (by simp))
    have hr := ih (fun x hx => h x (by simp [hx]))
    simp only [List.map_cons, List.mapM_cons, he, hr, Option.pure_def, Option.bind_eq_bind, Option.bind_some]

theorem parseAll_ids_valid (es : List Ext) (h : ∀ e ∈ es, e.valid) : parseAll (es.map Ext.id) = some es :=
  parseAll_ids es (fun e he => (h e he).int64)

/-- non-vacuity: a concrete valid ID -/
example : (⟨25, 29803148, 13212522, 25, -3⟩ : Ext).valid := by decide

end SpatialId.C10Parse
