/-
C01, longitude index, quantitatively (the part the bit-exact range theorem `C01.x_range` leaves open).
The tile index is computed in binary64 as ⌊2^h · ((lon + 180) / 360)⌋: one rounded addition, one rounded division, an exact
scaling. `x_close` bounds the distance of the computed product from the exact rational X = 2^h (lon+180)/360 by 2^-15 of a
tile for every stored longitude and every zoom 0..35; hence
  * `x_exact`: the index IS the exact ⌊X⌋ unless X lies within 2^-15 of a tile boundary, and
  * `x_within_one`: it never differs from ⌊X⌋ by more than one tile.
This is the proved form of known finding D16 (the index can be one too large within rounding distance below a boundary): the
finding's predicate is the only way the x clause of C01 can fail.
-/
import SpatialId.Props.C01
import SpatialId.Lemmas.F64Err
namespace SpatialId.C01X
open SpatialId F64

theorem val_c180 : val c180 = 180 := by simp [val, c180]
theorem val_c360 : val c360 = 360 := by simp [val, c360]

/-- the computed fraction (lon+180)/360 is within relative 2^-51 (plus a subnormal crumb) of the exact one -/
theorem frac_close (lon : Dy) (hlo : -180 ≤ val lon) :
    |val (div (add lon c180) c360) - (val lon + 180) / 360| ≤ (2 : ℚ) ^ (-51 : Int) * ((val lon + 180) / 360) + (2 : ℚ) ^ (-1073 : Int) := by
  have hS0 : 0 ≤ val lon + 180 := by linarith
  have ha := add_err lon c180
  rw [val_c180, abs_of_nonneg hS0] at ha
  have hd := div_err (add lon c180) c360 (by decide)
  rw [val_c360] at hd
  set s := val (add lon c180) with hs
  set S := val lon + 180 with hS
  have c1075 : (0 : ℚ) < (2 : ℚ) ^ (-1075 : Int) := two_zpow_pos _
  -- |s| ≤ S(1+2^-53) + 2^-1075
  have hsabs : |s| ≤ S * (1 + (2 : ℚ) ^ (-53 : Int)) + (2 : ℚ) ^ (-1075 : Int) := by
    have := abs_sub_abs_le_abs_sub s S
    rw [abs_of_nonneg hS0] at this
    linarith
  have hsdiv : |s / 360| = |s| / 360 := by rw [abs_div]; norm_num
  rw [hsdiv] at hd
  have tri : |val (div (add lon c180) c360) - S / 360| ≤ |val (div (add lon c180) c360) - s / 360| + |s / 360 - S / 360| :=
    abs_sub_le _ _ _
  have h2 : |s / 360 - S / 360| = |s - S| / 360 := by
    rw [← sub_div, abs_div]; norm_num
  rw [h2] at tri
  have k52 : (0 : ℚ) < (2 : ℚ) ^ (-52 : Int) := two_zpow_pos _
  have e1 : (2 : ℚ) ^ (-52 : Int) * ((S * (1 + (2 : ℚ) ^ (-53 : Int)) + (2 : ℚ) ^ (-1075 : Int)) / 360) + (2 : ℚ) ^ (-1075 : Int)
      + ((2 : ℚ) ^ (-53 : Int) * S + (2 : ℚ) ^ (-1075 : Int)) / 360
      ≤ (2 : ℚ) ^ (-51 : Int) * (S / 360) + (2 : ℚ) ^ (-1073 : Int) := by
    have a1 : (2 : ℚ) ^ (-52 : Int) * (1 + (2 : ℚ) ^ (-53 : Int)) + (2 : ℚ) ^ (-53 : Int) ≤ (2 : ℚ) ^ (-51 : Int) := by norm_num
    have a2 : (2 : ℚ) ^ (-52 : Int) * ((2 : ℚ) ^ (-1075 : Int) / 360) + (2 : ℚ) ^ (-1075 : Int) + (2 : ℚ) ^ (-1075 : Int) / 360
        ≤ (2 : ℚ) ^ (-1073 : Int) := by
      have : (2 : ℚ) ^ (-1073 : Int) = 4 * (2 : ℚ) ^ (-1075 : Int) := by
        rw [show (-1073 : Int) = 2 + (-1075) by norm_num, zpow_add₀ two_ne]; norm_num
      rw [this]
      have b1 : (2 : ℚ) ^ (-52 : Int) ≤ 1 := by norm_num
      nlinarith
    have hS360 : 0 ≤ S / 360 := by positivity
    nlinarith [mul_le_mul_of_nonneg_right a1 hS360]
  have step : |val (div (add lon c180) c360) - s / 360| ≤
      (2 : ℚ) ^ (-52 : Int) * ((S * (1 + (2 : ℚ) ^ (-53 : Int)) + (2 : ℚ) ^ (-1075 : Int)) / 360) + (2 : ℚ) ^ (-1075 : Int) := by
    have : |s| / 360 ≤ (S * (1 + (2 : ℚ) ^ (-53 : Int)) + (2 : ℚ) ^ (-1075 : Int)) / 360 := by
      apply div_le_div_of_nonneg_right hsabs; norm_num
    have := mul_le_mul_of_nonneg_left this (le_of_lt k52)
    linarith
  have step2 : |s - S| / 360 ≤ ((2 : ℚ) ^ (-53 : Int) * S + (2 : ℚ) ^ (-1075 : Int)) / 360 := by
    apply div_le_div_of_nonneg_right ha; norm_num
  linarith

/-- **x_close** — the computed product 2^h·((lon+180)/360) is within 2^-15 of the exact X, for every zoom 0..35 -/
theorem x_close (lon : Dy) (h : Int) (hlo : -180 ≤ val lon) (hhi : val lon < 180) (hh : 0 ≤ h ∧ h ≤ 35) :
    |val (scale (div (add lon c180) c360) h) - (val lon + 180) / 360 * (2 : ℚ) ^ h| ≤ (2 : ℚ) ^ (-15 : Int) := by
  have hsc : val (scale (div (add lon c180) c360) h) = val (div (add lon c180) c360) * (2 : ℚ) ^ h :=
    scale_val_exact _ h (repVal_mul_pow _ (repVal_div _ _) h hh.1)
  rw [hsc, ← sub_mul, abs_mul, abs_of_pos (two_zpow_pos h)]
  have hf := frac_close lon hlo
  have hS1 : (val lon + 180) / 360 < 1 := by rw [div_lt_one (by norm_num)]; linarith
  have hS0 : 0 ≤ (val lon + 180) / 360 := by apply _root_.div_nonneg <;> linarith
  have hp : (2 : ℚ) ^ h ≤ (2 : ℚ) ^ (35 : Int) := zpow_le_zpow_right₀ (by norm_num) hh.2
  have hp0 : (0 : ℚ) < (2 : ℚ) ^ h := two_zpow_pos h
  have b : |val (div (add lon c180) c360) - (val lon + 180) / 360| ≤ (2 : ℚ) ^ (-51 : Int) + (2 : ℚ) ^ (-1073 : Int) := by
    have : (2 : ℚ) ^ (-51 : Int) * ((val lon + 180) / 360) ≤ (2 : ℚ) ^ (-51 : Int) * 1 :=
      mul_le_mul_of_nonneg_left (le_of_lt hS1) (le_of_lt (two_zpow_pos _))
    linarith
  calc |val (div (add lon c180) c360) - (val lon + 180) / 360| * (2 : ℚ) ^ h
      ≤ ((2 : ℚ) ^ (-51 : Int) + (2 : ℚ) ^ (-1073 : Int)) * (2 : ℚ) ^ (35 : Int) :=
        mul_le_mul b hp (le_of_lt hp0) (by positivity)
    _ ≤ (2 : ℚ) ^ (-15 : Int) := by
        have t : (2 : ℚ) ^ (-1073 : Int) ≤ (2 : ℚ) ^ (-51 : Int) := zpow_le_zpow_right₀ (by norm_num) (by norm_num)
        have e : ((2 : ℚ) ^ (-51 : Int) + (2 : ℚ) ^ (-51 : Int)) * (2 : ℚ) ^ (35 : Int) = (2 : ℚ) ^ (-15 : Int) := by norm_num
        rw [← e]
        exact mul_le_mul_of_nonneg_right (by linarith) (by positivity)

/-- the index before the clamp is the floor of the computed product -/
def rawX (lon : Dy) (h : Int) : Int := floorInt (scale (div (add lon c180) c360) h)

/-- **x_exact** — away from tile boundaries (by 2^-15 of a tile) the computed index is exactly ⌊X⌋ -/
theorem x_exact (lon : Dy) (h : Int) (k : Int) (hlo : -180 ≤ val lon) (hhi : val lon < 180) (hh : 0 ≤ h ∧ h ≤ 35)
    (h1 : (k : ℚ) + (2 : ℚ) ^ (-15 : Int) ≤ (val lon + 180) / 360 * (2 : ℚ) ^ h)
    (h2 : (val lon + 180) / 360 * (2 : ℚ) ^ h < (k : ℚ) + 1 - (2 : ℚ) ^ (-15 : Int)) :
    rawX lon h = k := by
  unfold rawX
  rw [floorInt_val]
  have hc := abs_le.mp (x_close lon h hlo hhi hh)
  have hpos : (0 : ℚ) < (2 : ℚ) ^ (-15 : Int) := two_zpow_pos _
  rw [Int.floor_eq_iff]
  constructor <;> linarith [hc.1, hc.2]

/-- **x_within_one** — the computed index never differs from the exact ⌊X⌋ by more than one tile -/
theorem x_within_one (lon : Dy) (h : Int) (hlo : -180 ≤ val lon) (hhi : val lon < 180) (hh : 0 ≤ h ∧ h ≤ 35) :
    |rawX lon h - ⌊(val lon + 180) / 360 * (2 : ℚ) ^ h⌋| ≤ 1 := by
  unfold rawX
  rw [floorInt_val]
  have hc := abs_le.mp (x_close lon h hlo hhi hh)
  have hsmall : (2 : ℚ) ^ (-15 : Int) < 1 := by norm_num
  set A := val (scale (div (add lon c180) c360) h)
  set X := (val lon + 180) / 360 * (2 : ℚ) ^ h
  have a1 := Int.floor_le A
  have a2 := Int.lt_floor_add_one A
  have x1 := Int.floor_le X
  have x2 := Int.lt_floor_add_one X
  rw [abs_le]
  constructor
  · have : (⌊X⌋ : ℚ) - 1 < ⌊A⌋ + 1 := by linarith
    have : ⌊X⌋ - 1 < ⌊A⌋ + 1 := by exact_mod_cast this
    omega
  · have : (⌊A⌋ : ℚ) < ⌊X⌋ + 1 + 1 := by linarith
    have : ⌊A⌋ < ⌊X⌋ + 1 + 1 := by exact_mod_cast this
    omega

/-- the model's `xIndex` is `rawX` of the folded longitude, clamped below 2^h -/
theorem xIndex_eq (lon : Dy) (h : Int) (hne : eq lon c180 = false) :
    xIndex lon h = if rawX lon h ≥ 2 ^ h.toNat then 2 ^ h.toNat - 1 else rawX lon h := by
  unfold xIndex rawX; simp only [hne, Bool.false_eq_true, if_false]

/-- **x_index_exact** — `xIndex` itself: for a stored longitude other than 180 whose exact X is at least 2^-15 of a tile away from
both boundaries of tile `k`, with `k` inside the grid, the ID's x is `k` -/
theorem x_index_exact (lon : Dy) (h : Int) (k : Int) (hne : eq lon c180 = false) (hlo : -180 ≤ val lon) (hhi : val lon < 180)
    (hh : 0 ≤ h ∧ h ≤ 35) (hk : k < 2 ^ h.toNat)
    (h1 : (k : ℚ) + (2 : ℚ) ^ (-15 : Int) ≤ (val lon + 180) / 360 * (2 : ℚ) ^ h)
    (h2 : (val lon + 180) / 360 * (2 : ℚ) ^ h < (k : ℚ) + 1 - (2 : ℚ) ^ (-15 : Int)) :
    xIndex lon h = k := by
  rw [xIndex_eq lon h hne, x_exact lon h k hlo hhi hh h1 h2, if_neg (by omega)]

/-- non-vacuity: Tokyo station at zoom 25 — the hypotheses hold and the index is the one the library prints -/
example : xIndex ⟨4917125000599003, -45⟩ 25 = 29803148 := by decide +kernel

end SpatialId.C01X
