/-
C17 — binary-subdivision altitude IDs cover the voxel and stay inside the height range.
Model: SpatialId/Model/BitAlt.lean (binary64 through F64.lean), tied bit-for-bit to transform.calcBitIndex,
convertVerticallIDToBit, convertBitToVerticalID and to the maxHeight ≠ minHeight branches of the two exported conversions
by the op family bitalt.
-/
import Mathlib.Algebra.Order.Floor.Ring
import Mathlib.Algebra.Order.Archimedean.Real.Basic
import SpatialId.Model.BitAlt
import SpatialId.Lemmas.F64Order
import SpatialId.Lemmas.F64
import SpatialId.Lemmas.Core
namespace SpatialId.C17
open SpatialId F64

/-! ### calcBitIndex: always inside 0..2^zoom-1, monotone in the altitude -/

/-- the loop refines the prefix `idx`: the result lies in `[idx·2^n, (idx+1)·2^n)` — whatever the arithmetic does -/
theorem loop_range (alt : Dy) : ∀ (n : Nat) (idx : Int) (maxH minH : Dy),
    idx * 2 ^ n ≤ calcBitLoop alt n idx maxH minH ∧ calcBitLoop alt n idx maxH minH < (idx + 1) * 2 ^ n := by
  intro n
  induction n with
  | zero => intro idx _ _; simp [calcBitLoop]
  | succ n ih =>
    intro idx maxH minH
    simp only [calcBitLoop]
    have hp := two_pow_pos n
    split
    · obtain ⟨h1, h2⟩ := ih (idx * 2 + 1) maxH (add (scale (sub maxH minH) (-1)) minH)
      rw [Int.pow_succ]
      constructor
      · have : idx * (2 ^ n * 2) = (idx * 2) * 2 ^ n := by ring
        have h3 : (idx * 2 + 1) * 2 ^ n = (idx * 2) * 2 ^ n + 2 ^ n := by ring
        omega
      · have h3 : (idx * 2 + 1 + 1) * 2 ^ n = (idx + 1) * (2 ^ n * 2) := by ring
        omega
    · obtain ⟨h1, h2⟩ := ih (idx * 2) (add (scale (sub maxH minH) (-1)) minH) minH
      rw [Int.pow_succ]
      constructor
      · have : idx * (2 ^ n * 2) = (idx * 2) * 2 ^ n := by ring
        omega
      · have h3 : (idx + 1) * (2 ^ n * 2) = (idx * 2 + 1) * 2 ^ n + 2 ^ n := by ring
        omega

/-- **calcBit_lt**: altitudes outside the range are clamped to the first or last cell, never rejected -/
theorem calcBit_lt (alt : Dy) (z : Int) (maxH minH : Dy) :
    0 ≤ calcBit alt z maxH minH ∧ calcBit alt z maxH minH < 2 ^ z.toNat := by
  have := loop_range alt z.toNat 0 maxH minH
  simpa [calcBit] using this

/-- **calcBit_mono**: a higher altitude never gets a lower cell -/
theorem loop_mono (a1 a2 : Dy) (h : le a1 a2 = true) : ∀ (n : Nat) (idx : Int) (maxH minH : Dy),
    calcBitLoop a1 n idx maxH minH ≤ calcBitLoop a2 n idx maxH minH := by
  intro n
  induction n with
  | zero => intro idx _ _; simp [calcBitLoop]
  | succ n ih =>
    intro idx maxH minH
    simp only [calcBitLoop]
    generalize add (scale (sub maxH minH) (-1)) minH = border
    by_cases c1 : le border a1 = true
    · have c2 : le border a2 = true := le_trans' border a1 a2 c1 h
      simp only [c1, c2, if_true]
      exact ih _ _ _
    · by_cases c2 : le border a2 = true
      · simp only [c1, c2, if_true]
        have r1 := (loop_range a1 n (idx * 2) border minH).2
        have r2 := (loop_range a2 n (idx * 2 + 1) maxH border).1
        simp only [Bool.false_eq_true, if_false]
        omega
      · simp only [c1, c2, Bool.false_eq_true, if_false]
        exact ih _ _ _

theorem calcBit_mono (a1 a2 : Dy) (z : Int) (maxH minH : Dy) (h : le a1 a2 = true) :
    calcBit a1 z maxH minH ≤ calcBit a2 z maxH minH := loop_mono a1 a2 h _ _ _ _

/-! ### voxel → bit IDs -/

/-- the bottom altitude of index `i` at zoom `vZoom` is exactly `i·2^(25-vZoom)` -/
theorem idxAlt_val (i vZoom : Int) (hi : i.natAbs < 2 ^ 53) (hv : 0 ≤ vZoom ∧ vZoom ≤ 35) :
    val (idxAlt i vZoom) = (i : ℚ) * (2 : ℚ) ^ (25 - vZoom) := by
  unfold idxAlt scale ofInt
  by_cases h0 : i = 0
  · subst h0; simp [rnd_zero, val]
  · have hb : bitLen i.natAbs ≤ 53 := bitLen_le_of_lt _ _ hi
    rw [rnd_of_fits i 0 h0 hb (by omega)]
    simp only []
    rw [rnd_of_fits i _ h0 hb (by omega)]
    simp only []
    rw [rnd_of_fits i _ h0 hb (by omega)]
    unfold val
    simp only []
    congr 2

/-- the top of a voxel is not below its bottom -/
theorem idxAlt_le (i vZoom : Int) (hi : i.natAbs + 1 < 2 ^ 53) (hv : 0 ≤ vZoom ∧ vZoom ≤ 35) :
    le (idxAlt i vZoom) (idxAlt (i + 1) vZoom) = true := by
  rw [le_iff_val, idxAlt_val i vZoom (by omega) hv, idxAlt_val (i + 1) vZoom (by omega) hv]
  have hp := two_zpow_pos (25 - vZoom)
  push_cast
  nlinarith

/-- **v2b_contiguous / v2b_covers / v2b_in_range**: the produced IDs are exactly the contiguous run from the cell
containing the voxel's bottom altitude to the cell containing its top altitude, all inside `0..2^zoom-1` -/
theorem v2b_spec (vZoom vIndex outZoom : Int) (maxH minH : Dy) (hi : vIndex.natAbs + 1 < 2 ^ 53) (hv : 0 ≤ vZoom ∧ vZoom ≤ 35)
    (k : Int) :
    let lo := calcBit (idxAlt vIndex vZoom) outZoom maxH minH
    let hi' := calcBit (idxAlt (vIndex + 1) vZoom) outZoom maxH minH
    (k ∈ v2b vZoom vIndex outZoom maxH minH ↔ lo ≤ k ∧ k ≤ hi') ∧ lo ≤ hi' ∧ 0 ≤ lo ∧ hi' < 2 ^ outZoom.toNat := by
  intro lo hi'
  have hmono : lo ≤ hi' := calcBit_mono _ _ outZoom maxH minH (idxAlt_le vIndex vZoom hi hv)
  have r1 := calcBit_lt (idxAlt vIndex vZoom) outZoom maxH minH
  have r2 := calcBit_lt (idxAlt (vIndex + 1) vZoom) outZoom maxH minH
  refine ⟨?_, hmono, r1.1, r2.2⟩
  unfold v2b
  simp only []
  by_cases he : hi' = lo
  · have he' : calcBit (idxAlt (vIndex + 1) vZoom) outZoom maxH minH = calcBit (idxAlt vIndex vZoom) outZoom maxH minH := he
    simp only [he', if_true, List.mem_singleton]
    show k = lo ↔ lo ≤ k ∧ k ≤ hi'
    omega
  · have he' : ¬ calcBit (idxAlt (vIndex + 1) vZoom) outZoom maxH minH = calcBit (idxAlt vIndex vZoom) outZoom maxH minH := he
    simp only [he', if_false, List.mem_append, List.mem_cons, List.not_mem_nil, or_false, mem_irange]
    show (k = hi' ∨ k = lo) ∨ (lo + 1 ≤ k ∧ k ≤ hi' - 1) ↔ lo ≤ k ∧ k ≤ hi'
    omega

/-! ### bit ID → vertical indices -/

/-- **b2v_contiguous / b2v_covers**: a contiguous run of vertical indices from the cell's bottom altitude to its top
altitude (as computed in binary64) -/
theorem b2v_spec (vZoom vIndex outZoom : Int) (maxH minH : Dy) (k : Int) :
    let voxelHeight := scale (sub maxH minH) (-vZoom)
    let fMax := fIndex (add (mul (ofInt (vIndex + 1)) voxelHeight) minH) outZoom
    let fMin := fIndex (add (mul (ofInt vIndex) voxelHeight) minH) outZoom
    fMin ≤ fMax → (k ∈ b2v vZoom vIndex outZoom maxH minH ↔ fMin ≤ k ∧ k ≤ fMax) := by
  intro voxelHeight fMax fMin hle
  unfold b2v
  simp only [List.mem_append, List.mem_cons, List.not_mem_nil, or_false, mem_irange]
  show (k = fMax ∨ k = fMin) ∨ (fMin + 1 ≤ k ∧ k ≤ fMax - 1) ↔ fMin ≤ k ∧ k ≤ fMax
  omega

/-! ### the exported conversions: branch selection and the error for an inverted range -/

/-- **hi_lt_lo_err** (extended IDs → keys): maxHeight < minHeight is an error as soon as an ID is processed -/
theorem extToQVH_inverted (ids : List String) (s : String) (e : Ext) (hs : s ∈ ids) (hp : parseExt s = some e)
    (outH outV : Int) (maxH minH : Dy) (hne : F64.eq maxH minH = false) (hlt : lt minH maxH = false) :
    extToQVH ids outH outV maxH minH = .err := by
  unfold extToQVH
  split
  · rfl
  · simp only []
    rw [mapM_option_none _ ids s hs]
    simp only [hp, hne, hlt]
    split <;> simp

/-- **hi_lt_lo_err** (keys → extended IDs) -/
theorem qvToExtH_inverted (l : List QV) (q : QV) (hq : q ∈ l) (outH outV : Int) (maxH minH : Dy)
    (hne : F64.eq maxH minH = false) (hlt : lt minH maxH = false) : qvToExtH l outH outV maxH minH = .err := by
  unfold qvToExtH
  split
  · rfl
  · simp only []
    rw [mapM_option_none _ l q hq]
    simp only [hne, hlt]
    split
    · rfl
    · split
      · rfl
      · simp

/-- **branch_select**: equal heights select the index form (C11), whatever the height value -/
theorem branch_equal (ids : List String) (outH outV : Int) (hgt : Dy) :
    extToQVH ids outH outV hgt hgt = extToQV ids outH outV := by
  have he : F64.eq hgt hgt = true := by simp [F64.eq, cmpInt]
  unfold extToQVH extToQV
  simp only [he, if_true]
  rfl

/-! ### the exact-arithmetic reading of calcBitIndex -/

/-- the same loop over the rationals (no rounding) -/
def calcQ (alt : ℚ) : Nat → Int → ℚ → ℚ → Int
  | 0, idx, _, _ => idx
  | n + 1, idx, hi, lo =>
    let border := (hi - lo) / 2 + lo
    if border ≤ alt then calcQ alt n (idx * 2 + 1) hi border else calcQ alt n (idx * 2) border lo

/-- floor clamped to `[0, 2^n - 1]` -/
def clampFloor (t : ℚ) (n : Nat) : Int := max 0 (min (2 ^ n - 1) ⌊t⌋)

/-- **calcBit_spec** (exact arithmetic): for `hi > lo` the result is the index of the cell of the `2^z`-fold binary
subdivision of `[lo, hi)` containing the altitude, clamped to the first/last cell outside the range -/
theorem calcQ_spec (alt : ℚ) : ∀ (n : Nat) (idx : Int) (hi lo : ℚ), lo < hi →
    calcQ alt n idx hi lo = idx * 2 ^ n + clampFloor ((alt - lo) / (hi - lo) * 2 ^ n) n := by
  intro n
  induction n with
  | zero =>
    intro idx hi lo _
    simp [calcQ, clampFloor]
  | succ n ih =>
    intro idx hi lo hlt
    have hd : (0 : ℚ) < hi - lo := by linarith
    have hne : hi - lo ≠ 0 := ne_of_gt hd
    have hp : (0 : ℚ) < 2 ^ n := by positivity
    simp only [calcQ]
    set t := (alt - lo) / (hi - lo) with ht
    have hborder : (hi - lo) / 2 + lo ≤ alt ↔ 1 / 2 ≤ t := by
      rw [ht, le_div_iff₀ hd]; constructor <;> intro h <;> linarith
    by_cases c : (hi - lo) / 2 + lo ≤ alt
    · simp only [c, if_true]
      rw [ih _ _ _ (by linarith)]
      have ht' : (alt - ((hi - lo) / 2 + lo)) / (hi - ((hi - lo) / 2 + lo)) * 2 ^ n = t * 2 ^ (n + 1) - 2 ^ n := by
        have h1 : alt - ((hi - lo) / 2 + lo) = (alt - lo) - (hi - lo) / 2 := by ring
        have h2 : hi - ((hi - lo) / 2 + lo) = (hi - lo) / 2 := by ring
        rw [h1, h2, ht]
        generalize alt - lo = a
        generalize hi - lo = d at hne
        field_simp
        ring
      rw [ht']
      have hge : (2 : ℚ) ^ n ≤ t * 2 ^ (n + 1) := by
        have := hborder.mp c
        rw [pow_succ]; nlinarith
      have hfl : ⌊t * 2 ^ (n + 1) - 2 ^ n⌋ = ⌊t * 2 ^ (n + 1)⌋ - 2 ^ n := by
        have : (2 : ℚ) ^ n = ((2 ^ n : Int) : ℚ) := by push_cast; rfl
        rw [this, Int.floor_sub_intCast]
      have hfge : (2 : Int) ^ n ≤ ⌊t * 2 ^ (n + 1)⌋ := by
        rw [Int.le_floor]; push_cast; exact hge
      unfold clampFloor
      rw [hfl, Int.pow_succ]
      have hpi := two_pow_pos n
      have e1 : idx * (2 ^ n * 2) = (idx * 2 + 1) * 2 ^ n - 2 ^ n := by ring
      omega
    · simp only [c, if_false]
      rw [ih _ _ _ (by linarith)]
      have ht' : (alt - lo) / ((hi - lo) / 2 + lo - lo) * 2 ^ n = t * 2 ^ (n + 1) := by
        have h2 : (hi - lo) / 2 + lo - lo = (hi - lo) / 2 := by ring
        rw [h2, ht]
        generalize alt - lo = a
        generalize hi - lo = d at hne
        field_simp
        ring
      rw [ht']
      have hlt2 : t * 2 ^ (n + 1) < 2 ^ n := by
        have : t < 1 / 2 := by
          by_contra hc; exact c (hborder.mpr (not_lt.mp hc))
        rw [pow_succ]; nlinarith
      have hflt : ⌊t * 2 ^ (n + 1)⌋ < 2 ^ n := by
        rw [Int.floor_lt]; push_cast; exact hlt2
      unfold clampFloor
      rw [Int.pow_succ]
      have hpi := two_pow_pos n
      have e1 : idx * (2 ^ n * 2) = idx * 2 * 2 ^ n := by ring
      omega

example : calcBit ⟨5, 0⟩ 3 ⟨8, 0⟩ ⟨0, 0⟩ = 5 ∧ calcBit ⟨-1, 0⟩ 3 ⟨8, 0⟩ ⟨0, 0⟩ = 0 ∧ calcBit ⟨100, 0⟩ 3 ⟨8, 0⟩ ⟨0, 0⟩ = 7 := by
  decide

end SpatialId.C17
