/-
C05 — overlap detection answers exactly whether two voxel sets intersect.
Model: SpatialId/Model/Overlap.lean, tied to the four functions of detector/check_spatial_id_overlap.go by the op
families ovE, ovEA, ovS, ovSA.  The radix tree is modelled abstractly (`treeOverlap`): a stored key matches a query
iff one is a prefix of the other; the tree's own code is an oracle (DESIGN §2.7).
-/
import SpatialId.Props.C03
import SpatialId.Lemmas.Parse
import SpatialId.Model.Overlap
namespace SpatialId.C05
open SpatialId

/-! ### closed form of the zoom-out used by the extended check -/

/-- the ancestor of `e` at zooms `(H, V)`: floor division on every axis -/
def anc (e : Ext) (H V : Int) : Ext :=
  ⟨H, e.x / 2 ^ (e.h - H).toNat, e.y / 2 ^ (e.h - H).toNat, V, e.f / 2 ^ (e.v - V).toNat⟩

theorem vZoomIdx_out_eq (zi f zo : Int) (h : zo ≤ zi) : vZoomIdx zi f zo = [f / 2 ^ (zi - zo).toNat] := by
  unfold vZoomIdx vZoomMinMax
  simp only []
  have c1 : ¬ (zo - zi > 0) := by omega
  by_cases a1 : zo - zi < 0
  · rw [if_neg c1, if_pos a1]
    simp only [C03.irange_self, arithShift_neg _ _ a1]
    have : (-(zo - zi)).toNat = (zi - zo).toNat := by omega
    rw [this]
  · rw [if_neg c1, if_neg a1]
    have : zi - zo = 0 := by omega
    simp [C03.irange_self, this]

theorem hZoomIdx_out_eq (zi x y zo : Int) (h : zo ≤ zi) (hx : 0 ≤ x) (hy : 0 ≤ y) :
    hZoomIdx zi x y zo = [(x / 2 ^ (zi - zo).toNat, y / 2 ^ (zi - zo).toNat)] := by
  unfold hZoomIdx hZoomMinMax
  simp only []
  have c1 : ¬ (zo - zi > 0) := by omega
  by_cases a1 : zo - zi < 0
  · rw [if_neg c1, if_pos a1]
    have : (zo - zi).natAbs = (zi - zo).toNat := by omega
    simp only [C03.irange_self, pow2_natCast, this, Int.tdiv_eq_ediv_of_nonneg hx, Int.tdiv_eq_ediv_of_nonneg hy]
    simp
  · rw [if_neg c1, if_neg a1]
    have : zi - zo = 0 := by omega
    simp [C03.irange_self, this]

theorem zoomOne_out (e : Ext) (H V : Int) (hH : H ≤ e.h) (hV : V ≤ e.v) (hx : 0 ≤ e.x) (hy : 0 ≤ e.y) :
    zoomOne H V e = [anc e H V] := by
  simp [zoomOne, hZoomIdx_out_eq _ _ _ _ hH hx hy, vZoomIdx_out_eq _ _ _ hV, anc]

theorem changeExtE_single_out (e : Ext) (H V : Int) (hH : H ≤ e.h) (hV : V ≤ e.v) (hx : 0 ≤ e.x) (hy : 0 ≤ e.y) :
    changeExtE [e] H V = [anc e H V] := by
  simp [changeExtE, zoomOne_out e H V hH hV hx hy, dedup]

/-- one axis: the two ancestors at the coarser zoom coincide iff the cells meet -/
theorem axis_anc_eq_iff (z1 z2 i1 i2 : Int) (h1 : 0 ≤ z1) (h2 : 0 ≤ z2) :
    i1 / 2 ^ (z1 - (if z1 > z2 then z2 else z1)).toNat = i2 / 2 ^ (z2 - (if z1 > z2 then z2 else z1)).toNat ↔
      axisMeet z1.toNat z2.toNat i1 i2 := by
  unfold axisMeet
  by_cases c : z1 > z2
  · have hn : ¬ z1.toNat ≤ z2.toNat := by omega
    simp only [c, if_true, hn, if_false]
    have e1 : (z2 - z2).toNat = 0 := by omega
    have e2 : (z1 - z2).toNat = z1.toNat - z2.toNat := by omega
    rw [e1, e2, Int.pow_zero, Int.ediv_one]
  · have hn : z1.toNat ≤ z2.toNat := by omega
    simp only [c, if_false, hn, if_true]
    have e1 : (z1 - z1).toNat = 0 := by omega
    have e2 : (z2 - z1).toNat = z2.toNat - z1.toNat := by omega
    rw [e1, e2, Int.pow_zero, Int.ediv_one]
    exact eq_comm

/-- **ext_iff_meet (index form)**: the extended check says `true` exactly when the voxels meet -/
theorem overlapE_iff_meets (e1 e2 : Ext) (w1 : C03.wf e1) (w2 : C03.wf e2) :
    overlapE e1 e2 = .ok (decide (meets e1 e2)) := by
  obtain ⟨a1, a2, a3, a4⟩ := w1
  obtain ⟨b1, b2, b3, b4⟩ := w2
  unfold overlapE overlapAt
  rw [changeExtE_single_out e1 _ _ (by split <;> omega) (by split <;> omega) a3 a4,
      changeExtE_single_out e2 _ _ (by split <;> omega) (by split <;> omega) b3 b4]
  simp only [Outcome.ok.injEq]
  have hx := axis_anc_eq_iff e1.h e2.h e1.x e2.x a1 b1
  have hy := axis_anc_eq_iff e1.h e2.h e1.y e2.y a1 b1
  have hf := axis_anc_eq_iff e1.v e2.v e1.f e2.f a2 b2
  rw [Bool.eq_iff_iff, beq_iff_eq, decide_eq_true_eq]
  show anc e1 _ _ = anc e2 _ _ ↔ meets e1 e2
  unfold meets
  simp only [anc, Ext.mk.injEq, true_and]
  rw [hx, hy, hf]

/-- **ext_iff_meet**: … i.e. exactly when the two regions of space share a point -/
theorem ext_iff_meet (e1 e2 : Ext) (w1 : C03.wf e1) (w2 : C03.wf e2) :
    overlapE e1 e2 = .ok true ↔ (region e1 ∩ region e2).Nonempty := by
  rw [overlapE_iff_meets e1 e2 w1 w2, meets_iff]
  simp

/-- **ext_iff_ancestor**: meeting means ancestor-or-equal on the horizontal and on the vertical axis
(the finer index floor-divided to the coarser zoom equals the coarser index) -/
theorem ext_iff_ancestor (e1 e2 : Ext) :
    meets e1 e2 ↔
      (if e1.h.toNat ≤ e2.h.toNat then e2.x / 2 ^ (e2.h.toNat - e1.h.toNat) = e1.x ∧ e2.y / 2 ^ (e2.h.toNat - e1.h.toNat) = e1.y
        else e1.x / 2 ^ (e1.h.toNat - e2.h.toNat) = e2.x ∧ e1.y / 2 ^ (e1.h.toNat - e2.h.toNat) = e2.y) ∧
      (if e1.v.toNat ≤ e2.v.toNat then e2.f / 2 ^ (e2.v.toNat - e1.v.toNat) = e1.f
        else e1.f / 2 ^ (e1.v.toNat - e2.v.toNat) = e2.f) := by
  unfold meets axisMeet
  by_cases c : e1.h.toNat ≤ e2.h.toNat <;> simp [c, and_assoc]

theorem meets_symm (e1 e2 : Ext) : meets e1 e2 ↔ meets e2 e1 := by
  unfold meets
  rw [axisMeet_symm e1.h.toNat, axisMeet_symm e1.h.toNat _ e1.y, axisMeet_symm e1.v.toNat]

theorem meets_refl (e : Ext) : meets e e := by simp [meets, axisMeet]

/-- **ext_symm**, **ext_refl** -/
theorem ext_symm (e1 e2 : Ext) (w1 : C03.wf e1) (w2 : C03.wf e2) : overlapE e1 e2 = overlapE e2 e1 := by
  rw [overlapE_iff_meets e1 e2 w1 w2, overlapE_iff_meets e2 e1 w2 w1]
  simp only [Outcome.ok.injEq, decide_eq_decide]
  exact meets_symm e1 e2

theorem ext_refl (e : Ext) (w : C03.wf e) : overlapE e e = .ok true := by
  rw [overlapE_iff_meets e e w w]; simp [meets_refl]

/-! ### the string-level function is the structured one on well-formed IDs, an error otherwise -/

theorem overlapExt_wellformed (a b : String) (e1 e2 : Ext) (p1 : parseExt a = some e1) (p2 : parseExt b = some e2)
    (z1 : 0 ≤ e1.h ∧ e1.h ≤ 35 ∧ 0 ≤ e1.v ∧ e1.v ≤ 35) (z2 : 0 ≤ e2.h ∧ e2.h ≤ 35 ∧ 0 ≤ e2.v ∧ e2.v ≤ 35) :
    overlapExt a b = overlapE e1 e2 := by
  obtain ⟨a0, a1, a2, a3, a4, sa, ha0, _, _, ha3, _⟩ := parseExt_fields a e1 p1
  obtain ⟨b0, b1, b2, b3, b4, sb, hb0, _, _, hb3, _⟩ := parseExt_fields b e2 p2
  unfold overlapExt overlapExtAt overlapE
  simp only [sa, sb, List.length_cons, List.length_nil, List.getD_cons_zero, List.getD_cons_succ,
    parseInt64Lossy_of_some _ _ ha0, parseInt64Lossy_of_some _ _ hb0, parseInt64Lossy_of_some _ _ ha3,
    parseInt64Lossy_of_some _ _ hb3, p1, p2]
  have hz : (checkZoom (if e1.h > e2.h then e2.h else e1.h) && checkZoom (if e1.v > e2.v then e2.v else e1.v)) = true := by
    unfold checkZoom
    simp only [Bool.and_eq_true, decide_eq_true_eq]
    split <;> split <;> omega
  simp [hz]

theorem overlapExt_arity_err (a b : String) (h : (splitSlash a).length ≠ 5 ∨ (splitSlash b).length ≠ 5) :
    overlapExt a b = .err := by
  unfold overlapExt
  simp only []
  rw [if_pos h]

theorem overlapExtAt_nonint_err (tH tV : Int) (a b : String) (h : parseExt a = none ∨ parseExt b = none) :
    overlapExtAt tH tV a b = .err := by
  unfold overlapExtAt
  split
  · rfl
  · rcases h with h | h
    · simp [h]
    · cases parseExt a <;> simp [h]

theorem overlapExt_nonint_err (a b : String) (h : parseExt a = none ∨ parseExt b = none) : overlapExt a b = .err := by
  unfold overlapExt
  simp only []
  split
  · rfl
  · exact overlapExtAt_nonint_err _ _ a b h

/-! ### array form -/

theorem allExt_cons (a : String) (l : List String) : allExt (a :: l) = ((parseExt a).isSome && allExt l) := by
  simp [allExt]

theorem allExt_mem (l : List String) (h : allExt l = true) (s : String) (hs : s ∈ l) : (parseExt s).isSome = true := by
  unfold allExt at h; exact List.all_eq_true.mp h s hs

/-- a pairwise answer (no error) means both IDs are well formed -/
theorem overlapExt_ok_parses (a b : String) (v : Bool) (h : overlapExt a b = .ok v) :
    (parseExt a).isSome = true ∧ (parseExt b).isSome = true := by
  by_contra hc
  have : parseExt a = none ∨ parseExt b = none := by
    cases ha : parseExt a <;> cases hb : parseExt b <;> simp_all
  rw [overlapExt_nonint_err a b this] at h
  cases h

theorem ovInner_ok (a : String) (restA : List String) (f : String → Bool) :
    ∀ bs : List String, (∀ b ∈ bs, overlapExt a b = .ok (f b)) → allExt restA = true → allExt bs = true →
      ovInner a restA bs = .ok (bs.any f) := by
  intro bs
  induction bs with
  | nil => intro _ _ _; rfl
  | cons b bs ih =>
    intro h hA hB
    rw [allExt_cons, Bool.and_eq_true] at hB
    simp only [ovInner, h b List.mem_cons_self, List.any_cons]
    cases hf : f b
    · simp only [Bool.false_or]
      exact ih (fun b' hb' => h b' (List.mem_cons_of_mem _ hb')) hA hB.2
    · simp [hA, hB.2]

theorem ovOuter_ok (bs : List String) (f : String → String → Bool) (hB : allExt bs = true) :
    ∀ as : List String, (∀ a ∈ as, ∀ b ∈ bs, overlapExt a b = .ok (f a b)) → allExt as = true →
      ovOuter bs as = .ok (as.any fun a => bs.any fun b => f a b) := by
  intro as
  induction as with
  | nil => intro _ _; rfl
  | cons a as ih =>
    intro h hA
    rw [allExt_cons, Bool.and_eq_true] at hA
    simp only [ovOuter, ovInner_ok a as (f a) bs (h a List.mem_cons_self) hA.2 hB, List.any_cons]
    cases hv : bs.any (f a)
    · simp only [Bool.false_or]
      exact ih (fun a' ha' => h a' (List.mem_cons_of_mem _ ha')) hA.2
    · simp

/-- **arr_eq_any**: on well-formed lists whose pairwise checks answer, the array form is the disjunction of the pairwise form -/
theorem arr_eq_any (as bs : List String) (f : String → String → Bool) (hA : allExt as = true) (hB : allExt bs = true)
    (h : ∀ a ∈ as, ∀ b ∈ bs, overlapExt a b = .ok (f a b)) :
    overlapExtArr as bs = .ok (as.any fun a => bs.any fun b => f a b) := by
  unfold overlapExtArr
  rw [ovOuter_ok bs f hB as h hA]
  cases hv : (as.any fun a => bs.any fun b => f a b)
  · simp [hA, hB]
  · rfl

/-- **arr_empty**: false when either list is empty (and the other is well formed) -/
theorem arr_empty_left (bs : List String) (hB : allExt bs = true) : overlapExtArr [] bs = .ok false := by
  have := arr_eq_any [] bs (fun _ _ => false) rfl hB (by simp)
  simpa using this
theorem arr_empty_right (as : List String) (hA : allExt as = true) : overlapExtArr as [] = .ok false := by
  have := arr_eq_any as [] (fun _ _ => false) hA rfl (by simp)
  rw [this]
  congr 1
  induction as with
  | nil => rfl
  | cons a l ih => simp

/-! the zoom change of one voxel is never empty, so the `ids[0]` of the pairwise check always exists -/

theorem irange_ne_nil (lo hi : Int) (h : lo ≤ hi) : irange lo hi ≠ [] := by
  intro he
  have : lo ∈ irange lo hi := (mem_irange lo hi lo).mpr ⟨Int.le_refl _, h⟩
  rw [he] at this; cases this

theorem pow2_natAbs_pos (d : Int) : 1 ≤ pow2 (d.natAbs : Int) := by
  have := pow2_pos (d.natAbs : Int) (Int.natCast_nonneg _); omega

theorem zoomOne_ne_nil (H V : Int) (e : Ext) : zoomOne H V e ≠ [] := by
  have hn := pow2_natAbs_pos (H - e.h)
  have hm := pow2_natAbs_pos (V - e.v)
  have hh : hZoomIdx e.h e.x e.y H ≠ [] := by
    unfold hZoomIdx hZoomMinMax
    simp only []
    split <;> [skip; split] <;>
    · simp only [ne_eq, List.flatMap_eq_nil_iff, not_forall]
      refine ⟨_, (mem_irange _ _ _).mpr ⟨Int.le_refl _, by omega⟩, ?_⟩
      simp only [List.map_eq_nil_iff]
      exact irange_ne_nil _ _ (by omega)
  have hv : vZoomIdx e.v e.f V ≠ [] := by
    unfold vZoomIdx vZoomMinMax
    simp only []
    split <;> [skip; split] <;> exact irange_ne_nil _ _ (by omega)
  unfold zoomOne
  obtain ⟨p, hp⟩ := List.exists_mem_of_ne_nil _ hh
  obtain ⟨f, hf⟩ := List.exists_mem_of_ne_nil _ hv
  intro he
  have : (⟨H, p.1, p.2, V, f⟩ : Ext) ∈ (hZoomIdx e.h e.x e.y H).flatMap fun p => (vZoomIdx e.v e.f V).map fun f' => ⟨H, p.1, p.2, V, f'⟩ :=
    List.mem_flatMap.mpr ⟨p, hp, List.mem_map.mpr ⟨f, hf, rfl⟩⟩
  rw [he] at this; cases this

theorem changeExtE_single_ne_nil (e : Ext) (H V : Int) : changeExtE [e] H V ≠ [] := by
  obtain ⟨o, ho⟩ := List.exists_mem_of_ne_nil _ (zoomOne_ne_nil H V e)
  intro he
  have : o ∈ changeExtE [e] H V := by
    unfold changeExtE; rw [mem_dedup]; simpa using ho
  rw [he] at this; cases this

theorem overlapAt_no_panic (tH tV : Int) (e1 e2 : Ext) : overlapAt tH tV e1 e2 ≠ .panic := by
  unfold overlapAt
  have h1 := changeExtE_single_ne_nil e1 tH tV
  have h2 := changeExtE_single_ne_nil e2 tH tV
  cases hc1 : changeExtE [e1] tH tV with
  | nil => exact absurd hc1 h1
  | cons x xs =>
    cases hc2 : changeExtE [e2] tH tV with
    | nil => exact absurd hc2 h2
    | cons y ys => simp

theorem overlapExtAt_no_panic (tH tV : Int) (a b : String) : overlapExtAt tH tV a b ≠ .panic := by
  unfold overlapExtAt
  split
  · simp
  · split
    · exact overlapAt_no_panic _ _ _ _
    · simp

/-- the extended overlap check cannot panic on any two strings -/
theorem overlapExt_no_panic (a b : String) : overlapExt a b ≠ .panic := by
  unfold overlapExt
  simp only []
  by_cases h : (splitSlash a).length ≠ 5 ∨ (splitSlash b).length ≠ 5
  · rw [if_pos h]; simp
  · rw [if_neg h]; exact overlapExtAt_no_panic _ _ _ _

/-- what the inner loop's answers say about the pairs it looked at -/
theorem ovInner_false (a : String) (restA : List String) : ∀ bs, ovInner a restA bs = .ok false →
    ∀ b ∈ bs, overlapExt a b = .ok false := by
  intro bs
  induction bs with
  | nil => intro _ b hb; cases hb
  | cons b bs ih =>
    intro h b' hb'
    simp only [ovInner] at h
    cases ho : overlapExt a b with
    | ok v =>
      cases v
      · simp only [ho] at h
        rcases List.mem_cons.mp hb' with rfl | hm
        · exact ho
        · exact ih h b' hm
      · simp only [ho] at h; split at h <;> cases h
    | err => simp [ho] at h
    | panic => simp [ho] at h

theorem ovInner_true (a : String) (restA : List String) : ∀ bs, ovInner a restA bs = .ok true →
    allExt restA = true ∧ allExt bs = true ∧ (parseExt a).isSome = true ∧ bs ≠ [] := by
  intro bs
  induction bs with
  | nil => intro h; cases h
  | cons b bs ih =>
    intro h
    simp only [ovInner] at h
    cases ho : overlapExt a b with
    | ok v =>
      have hp := overlapExt_ok_parses a b v ho
      cases v
      · simp only [ho] at h
        obtain ⟨h1, h2, h3, _⟩ := ih h
        exact ⟨h1, by rw [allExt_cons, hp.2, h2]; rfl, h3, by simp⟩
      · simp only [ho] at h
        by_cases hc : (allExt restA && allExt bs) = true
        · rw [Bool.and_eq_true] at hc
          exact ⟨hc.1, by rw [allExt_cons, hp.2, hc.2]; rfl, hp.1, by simp⟩
        · simp [hc] at h
    | err => simp [ho] at h
    | panic => simp [ho] at h

theorem ovInner_no_panic (a : String) (restA : List String) : ∀ bs, ovInner a restA bs ≠ .panic := by
  intro bs
  induction bs with
  | nil => simp [ovInner]
  | cons b bs ih =>
    simp only [ovInner]
    cases ho : overlapExt a b with
    | ok v => cases v <;> simp only []; exact ih; split <;> simp
    | err => simp
    | panic => exact absurd ho (overlapExt_no_panic a b)

/-- the outer loop: an answer (true or false) certifies that everything it compared was well formed -/
theorem ovOuter_spec (bs : List String) : ∀ as, (ovOuter bs as ≠ .panic) ∧
    (ovOuter bs as = .ok true → allExt as = true ∧ allExt bs = true) ∧
    (ovOuter bs as = .ok false → ∀ a ∈ as, ∀ b ∈ bs, overlapExt a b = .ok false) := by
  intro as
  induction as with
  | nil => simp [ovOuter]
  | cons a as ih =>
    obtain ⟨i1, i2, i3⟩ := ih
    simp only [ovOuter]
    cases hi : ovInner a as bs with
    | ok v =>
      cases v
      · simp only []
        have hf := ovInner_false a as bs hi
        refine ⟨i1, ?_, ?_⟩
        · intro ht
          obtain ⟨hA, hB⟩ := i2 ht
          -- `a` was compared with a non-empty `bs` (otherwise no later row could have found a pair)
          have hbs : bs ≠ [] := by
            intro he; subst he
            have : ∀ l, ovOuter [] l = .ok false := by
              intro l; induction l with
              | nil => rfl
              | cons x l ihl => simp [ovOuter, ovInner, ihl]
            rw [this as] at ht; cases ht
          obtain ⟨b, hb⟩ := List.exists_mem_of_ne_nil _ hbs
          have := overlapExt_ok_parses a b false (hf b hb)
          exact ⟨by rw [allExt_cons, this.1, hA]; rfl, hB⟩
        · intro hfalse a' ha' b hb
          rcases List.mem_cons.mp ha' with rfl | hm
          · exact hf b hb
          · exact i3 hfalse a' hm b hb
      · simp only []
        obtain ⟨h1, h2, h3, _⟩ := ovInner_true a as bs hi
        exact ⟨by simp, fun _ => ⟨by rw [allExt_cons, h3, h1]; rfl, h2⟩, fun h => by cases h⟩
    | err => simp
    | panic => exact absurd hi (ovInner_no_panic a as bs)

theorem overlapExtArr_no_panic (as bs : List String) : overlapExtArr as bs ≠ .panic := by
  unfold overlapExtArr
  have := (ovOuter_spec bs as).1
  cases h : ovOuter bs as with
  | ok v => cases v <;> simp only []; split <;> simp; simp
  | err => simp
  | panic => exact absurd h this

/-- **arr_rejects**: a malformed ID anywhere in either list is an error — also after an overlapping pair and when the
other list is empty (the early-return defect D14/D18 is repaired) -/
theorem arr_rejects (as bs : List String) (h : allExt as = false ∨ allExt bs = false) : overlapExtArr as bs = .err := by
  obtain ⟨_, s2, s3⟩ := ovOuter_spec bs as
  unfold overlapExtArr
  cases ho : ovOuter bs as with
  | ok v =>
    cases v
    · simp only []
      by_cases he : (as.isEmpty || bs.isEmpty) = true
      · have : (allExt as && allExt bs) = false := by rcases h with h | h <;> simp [h]
        simp [he, this]
      · exfalso
        simp only [Bool.or_eq_true, List.isEmpty_iff, not_or] at he
        have hpairs := s3 ho
        obtain ⟨a0, ha0⟩ := List.exists_mem_of_ne_nil _ he.1
        obtain ⟨b0, hb0⟩ := List.exists_mem_of_ne_nil _ he.2
        have hA : allExt as = true := by
          unfold allExt; rw [List.all_eq_true]; intro a ha
          exact (overlapExt_ok_parses a b0 false (hpairs a ha b0 hb0)).1
        have hB : allExt bs = true := by
          unfold allExt; rw [List.all_eq_true]; intro b hb
          exact (overlapExt_ok_parses a0 b false (hpairs a0 ha0 b hb)).2
        rcases h with h | h <;> simp_all
    · exfalso
      obtain ⟨hA, hB⟩ := s2 ho
      rcases h with h | h <;> simp_all
  | err => rfl
  | panic => exact absurd ho (ovOuter_spec bs as).1

/-! ### spatial IDs through the (abstract) radix tree -/

/-- a spatial ID in the documented domain: zoom 1..35, indices in range, altitude within ±2^24 m -/
def spValid (z f x y : Int) : Prop :=
  1 ≤ z ∧ z ≤ 35 ∧ 0 ≤ x ∧ x < 2 ^ z.toNat ∧ 0 ≤ y ∧ y < 2 ^ z.toNat ∧ -(2 ^ (z - 1).toNat) ≤ f ∧ f < 2 ^ (z - 1).toNat

theorem pow_split (z : Int) (hz : 1 ≤ z) : (2 : Int) ^ z.toNat = 2 * 2 ^ (z - 1).toNat := by
  have : z.toNat = (z - 1).toNat + 1 := by omega
  rw [this, Int.pow_succ]; omega

theorem offset_eq (z : Int) (hz : 1 ≤ z) (hz' : z ≤ 35) : arithShift (2 ^ 24) (z - 25) = 2 ^ (z - 1).toNat := by
  have h : z = 1 ∨ z = 2 ∨ z = 3 ∨ z = 4 ∨ z = 5 ∨ z = 6 ∨ z = 7 ∨ z = 8 ∨ z = 9 ∨ z = 10 ∨ z = 11 ∨ z = 12 ∨
      z = 13 ∨ z = 14 ∨ z = 15 ∨ z = 16 ∨ z = 17 ∨ z = 18 ∨ z = 19 ∨ z = 20 ∨ z = 21 ∨ z = 22 ∨ z = 23 ∨ z = 24 ∨
      z = 25 ∨ z = 26 ∨ z = 27 ∨ z = 28 ∨ z = 29 ∨ z = 30 ∨ z = 31 ∨ z = 32 ∨ z = 33 ∨ z = 34 ∨ z = 35 := by omega
  rcases h with h | h | h | h | h | h | h | h | h | h | h | h | h | h | h | h | h | h | h | h | h | h | h | h | h |
    h | h | h | h | h | h | h | h | h | h <;> subst h <;> decide

/-- the key of a valid spatial ID: the f index offset by `2^(z-1)`, indices unchanged -/
theorem offsetF_valid (z f : Int) (hz : 1 ≤ z) (hz' : z ≤ 35) (h1 : -(2 ^ (z - 1).toNat) ≤ f) (h2 : f < 2 ^ (z - 1).toNat) :
    offsetF f z = some (f + 2 ^ (z - 1).toNat) := by
  unfold offsetF
  simp only [offset_eq z hz hz']
  have hs : arithShift 1 z = 2 ^ z.toNat := by rw [arithShift_nonneg _ _ (by omega)]; omega
  rw [hs, pow_split z hz]
  have : ¬ (z < 1 ∨ f + 2 ^ (z - 1).toNat < 0 ∨ f + 2 ^ (z - 1).toNat ≥ 2 * 2 ^ (z - 1).toNat) := by omega
  rw [if_neg this]

/-- one axis of the tree's prefix test with the offset removed: the offset is a multiple of the zoom ratio -/
theorem offset_prefix (z1 z2 f1 f2 : Int) (h1 : 1 ≤ z1) (h12 : z1 ≤ z2) :
    (f2 + 2 ^ (z2 - 1).toNat) / 2 ^ (z2 - z1).toNat = f1 + 2 ^ (z1 - 1).toNat ↔ f2 / 2 ^ (z2 - z1).toNat = f1 := by
  have e : (2 : Int) ^ (z2 - 1).toNat = 2 ^ (z1 - 1).toNat * 2 ^ (z2 - z1).toNat := by
    rw [← Int.pow_add]; congr 1; omega
  rw [e, Int.add_mul_ediv_right _ _ (Int.ne_of_gt (two_pow_pos _))]
  omega

/-- **sp_iff_meet**: for two valid spatial IDs the tree test on their keys is the `meets` relation of the voxels -/
theorem sp_iff_meet (z1 f1 x1 y1 z2 f2 x2 y2 : Int) (v1 : spValid z1 f1 x1 y1) (v2 : spValid z2 f2 x2 y2) :
    let k1 : Key := ⟨z1, f1 + 2 ^ (z1 - 1).toNat, x1, y1⟩
    let k2 : Key := ⟨z2, f2 + 2 ^ (z2 - 1).toNat, x2, y2⟩
    (k1.isPrefixOf k2 || k2.isPrefixOf k1) = true ↔ meets ⟨z1, x1, y1, z1, f1⟩ ⟨z2, x2, y2, z2, f2⟩ := by
  obtain ⟨a1, a2, _, _, _, _, _, _⟩ := v1
  obtain ⟨b1, b2, _, _, _, _, _, _⟩ := v2
  simp only [Key.isPrefixOf, Bool.or_eq_true, Bool.and_eq_true, decide_eq_true_eq, beq_iff_eq, meets, axisMeet]
  by_cases c : z1 ≤ z2
  · have hn : z1.toNat ≤ z2.toNat := by omega
    have e2 : (z2 - z1).toNat = z2.toNat - z1.toNat := by omega
    simp only [hn, if_true]
    rw [← e2]
    constructor
    · rintro (⟨⟨⟨_, hf⟩, hx⟩, hy⟩ | ⟨⟨⟨hle, hf⟩, hx⟩, hy⟩)
      · exact ⟨hx, hy, (offset_prefix z1 z2 f1 f2 a1 c).mp hf⟩
      · have : z1 = z2 := by omega
        subst this
        simp only [Int.sub_self, Int.toNat_zero, Int.pow_zero, Int.ediv_one] at *
        omega
    · rintro ⟨hx, hy, hf⟩
      exact Or.inl ⟨⟨⟨c, (offset_prefix z1 z2 f1 f2 a1 c).mpr hf⟩, hx⟩, hy⟩
  · have hn : ¬ z1.toNat ≤ z2.toNat := by omega
    have c' : z2 ≤ z1 := by omega
    have e2 : (z1 - z2).toNat = z1.toNat - z2.toNat := by omega
    simp only [hn, if_false]
    rw [← e2]
    constructor
    · rintro (⟨⟨⟨hle, _⟩, _⟩, _⟩ | ⟨⟨⟨_, hf⟩, hx⟩, hy⟩)
      · omega
      · exact ⟨hx, hy, (offset_prefix z2 z1 f2 f1 b1 c').mp hf⟩
    · rintro ⟨hx, hy, hf⟩
      exact Or.inr ⟨⟨⟨c', (offset_prefix z2 z1 f2 f1 b1 c').mpr hf⟩, hx⟩, hy⟩

/-- the key computed from a well-formed, valid spatial ID string -/
theorem spKey_valid (s : String) (z f x y : Int) (h : spAttrs s = some (z, f, x, y)) (v : spValid z f x y) :
    spKey s = some ⟨z, f + 2 ^ (z - 1).toNat, x, y⟩ := by
  obtain ⟨a1, a2, a3, a4, a5, a6, a7, a8⟩ := v
  unfold spKey
  simp only [h, offsetF_valid z f a1 a2 a7 a8]
  have hp := pow_split z a1
  rw [Int.emod_eq_of_lt (by omega) (by omega), Int.emod_eq_of_lt a3 a4, Int.emod_eq_of_lt a5 a6]

/-- **sp pairwise form**: `CheckSpatialIdsOverlap` on two valid IDs answers the `meets` relation -/
theorem overlapSp_valid (a b : String) (z1 f1 x1 y1 z2 f2 x2 y2 : Int)
    (pa : spAttrs a = some (z1, f1, x1, y1)) (pb : spAttrs b = some (z2, f2, x2, y2))
    (v1 : spValid z1 f1 x1 y1) (v2 : spValid z2 f2 x2 y2) :
    overlapSp a b = .ok (decide (meets ⟨z1, x1, y1, z1, f1⟩ ⟨z2, x2, y2, z2, f2⟩)) := by
  unfold overlapSp overlapSpArr
  simp only [List.mapM_cons, List.mapM_nil, spKey_valid a _ _ _ _ pa v1, spKey_valid b _ _ _ _ pb v2, bind, Option.bind, pure,
    List.isEmpty_cons, treeOverlap, List.any_cons, List.any_nil, Bool.or_false]
  have := sp_iff_meet z1 f1 x1 y1 z2 f2 x2 y2 v1 v2
  simp only at this
  rw [if_neg (by decide)]
  by_cases hm : meets ⟨z1, x1, y1, z1, f1⟩ ⟨z2, x2, y2, z2, f2⟩
  · rw [this.mpr hm]; simp only [hm, decide_true]
  · have hf : ¬ ((Key.isPrefixOf ⟨z1, f1 + 2 ^ (z1 - 1).toNat, x1, y1⟩ ⟨z2, f2 + 2 ^ (z2 - 1).toNat, x2, y2⟩ ||
        Key.isPrefixOf ⟨z2, f2 + 2 ^ (z2 - 1).toNat, x2, y2⟩ ⟨z1, f1 + 2 ^ (z1 - 1).toNat, x1, y1⟩) = true) :=
      fun h => hm (this.mp h)
    rw [Bool.not_eq_true] at hf
    rw [hf]; simp only [hm, decide_false]

/-- **sp_eq_ext**: on inputs valid for both, the tree-based check and the zoom-change-based check agree -/
theorem sp_eq_ext (a b : String) (z1 f1 x1 y1 z2 f2 x2 y2 : Int)
    (pa : spAttrs a = some (z1, f1, x1, y1)) (pb : spAttrs b = some (z2, f2, x2, y2))
    (v1 : spValid z1 f1 x1 y1) (v2 : spValid z2 f2 x2 y2) :
    overlapSp a b = overlapE ⟨z1, x1, y1, z1, f1⟩ ⟨z2, x2, y2, z2, f2⟩ := by
  rw [overlapSp_valid a b _ _ _ _ _ _ _ _ pa pb v1 v2, overlapE_iff_meets]
  · unfold spValid at v1; unfold C03.wf; simp only; omega
  · unfold spValid at v2; unfold C03.wf; simp only; omega

theorem mapM_spKey_some (as : List String) (h : ∀ a ∈ as, (spKey a).isSome) : ∃ l, as.mapM spKey = some l := by
  induction as with
  | nil => exact ⟨[], rfl⟩
  | cons a r ih =>
    obtain ⟨k, hk⟩ := Option.isSome_iff_exists.mp (h a List.mem_cons_self)
    obtain ⟨l, hl⟩ := ih (fun b hb => h b (List.mem_cons_of_mem _ hb))
    exact ⟨k :: l, by simp [List.mapM_cons, hk, hl]⟩

/-- **sp_empty**: either list empty ⇒ false (the other list being well formed) -/
theorem sp_empty_left (bs : List String) (h : ∀ b ∈ bs, (spKey b).isSome) : overlapSpArr [] bs = .ok false := by
  obtain ⟨l, hl⟩ := mapM_spKey_some bs h
  simp [overlapSpArr, hl]

theorem sp_empty_right (as : List String) (h : ∀ a ∈ as, (spKey a).isSome) : overlapSpArr as [] = .ok false := by
  obtain ⟨l, hl⟩ := mapM_spKey_some as h
  unfold overlapSpArr
  rw [hl]
  simp

/-- **sp_rejects**: a malformed or out-of-range ID anywhere in either list is an error -/
theorem sp_rejects (as bs : List String) (s : String) (hs : s ∈ as ∨ s ∈ bs) (h : spKey s = none) : overlapSpArr as bs = .err := by
  unfold overlapSpArr
  rcases hs with hs | hs
  · rw [mapM_option_none _ as s hs h]
  · cases as.mapM spKey with
    | none => rfl
    | some stored => simp only []; rw [mapM_option_none _ bs s hs h]

/-- the model of the spatial check never panics (the empty-tree panic D3 is gone) -/
theorem sp_no_panic (as bs : List String) : overlapSpArr as bs ≠ .panic := by
  unfold overlapSpArr
  split
  · simp
  · split
    · simp
    · split <;> simp

example : overlapE ⟨5, 1, 1, 5, -1⟩ ⟨5, 1, 1, 4, -1⟩ = .ok true := by decide
example : overlapE ⟨5, 1, 1, 5, -1⟩ ⟨5, 1, 1, 4, 0⟩ = .ok false := by decide
example : spValid 26 1 1 1 := by unfold spValid; decide

end SpatialId.C05
