/-
C05 — overlap detection answers exactly whether two voxel sets intersect.
Model: SpatialId/Model/Overlap.lean, tied to the four functions of detector/check_spatial_id_overlap.go by the op
families ovE, ovEA, ovS, ovSA.  The radix tree is modelled abstractly (`treeOverlap`): a stored key matches a query
iff one is a prefix of the other; the tree's own code is an oracle (DESIGN §2.7).
-/
import SpatialId.Props.C03
import SpatialId.Lemmas.Parse
import SpatialId.Model.Overlap
namespace SpatialId.C05
open SpatialId

/-! ### closed form of the zoom-out used by the extended check -/

/-- the ancestor of `e` at zooms `(H, V)`: floor division on every axis -/
def anc (e : Ext) (H V : Int) : Ext :=
  ⟨H, e.x / 2 ^ (e.h - H).toNat, e.y / 2 ^ (e.h - H).toNat, V, e.f / 2 ^ (e.v - V).toNat⟩

theorem vZoomIdx_out_eq (zi f zo : Int) (h : zo ≤ zi) : vZoomIdx zi f zo = [f / 2 ^ (zi - zo).toNat] := by
  unfold vZoomIdx vZoomMinMax
  simp only []
  have c1 : ¬ (zo - zi > 0) := by omega
  by_cases a1 : zo - zi < 0
  · rw [if_neg c1, if_pos a1]
    simp only [C03.irange_self, arithShift_neg _ _ a1]
    have : (-(zo - zi)).toNat = (zi - zo).toNat := by omega
    rw [this]
  · rw [if_neg c1, if_neg a1]
    have : zi - zo = 0 := by omega
    simp [C03.irange_self, this]

theorem hZoomIdx_out_eq (zi x y zo : Int) (h : zo ≤ zi) (hx : 0 ≤ x) (hy : 0 ≤ y) :
    hZoomIdx zi x y zo = [(x / 2 ^ (zi - zo).toNat, y / 2 ^ (zi - zo).toNat)] := by
  unfold hZoomIdx hZoomMinMax
  simp only []
  have c1 : ¬ (zo - zi > 0) := by omega
  by_cases a1 : zo - zi < 0
  · rw [if_neg c1, if_pos a1]
    have : (zo - zi).natAbs = (zi - zo).toNat := by omega
    simp only [C03.irange_self, pow2_natCast, this, Int.tdiv_eq_ediv_of_nonneg hx, Int.tdiv_eq_ediv_of_nonneg hy]
    simp
  · rw [if_neg c1, if_neg a1]
    have : zi - zo = 0 := by omega
    simp [C03.irange_self, this]

theorem zoomOne_out (e : Ext) (H V : Int) (hH : H ≤ e.h) (hV : V ≤ e.v) (hx : 0 ≤ e.x) (hy : 0 ≤ e.y) :
    zoomOne H V e = [anc e H V] := by
  simp [zoomOne, hZoomIdx_out_eq _ _ _ _ hH hx hy, vZoomIdx_out_eq _ _ _ hV, anc]

theorem changeExtE_single_out (e : Ext) (H V : Int) (hH : H ≤ e.h) (hV : V ≤ e.v) (hx : 0 ≤ e.x) (hy : 0 ≤ e.y) :
    changeExtE [e] H V = [anc e H V] := by
  simp [changeExtE, zoomOne_out e H V hH hV hx hy, dedup]

/-- one axis: the two ancestors at the coarser zoom coincide iff the cells meet -/
theorem axis_anc_eq_iff (z1 z2 i1 i2 : Int) (h1 : 0 ≤ z1) (h2 : 0 ≤ z2) :
    i1 / 2 ^ (z1 - (if z1 > z2 then z2 else z1)).toNat = i2 / 2 ^ (z2 - (if z1 > z2 then z2 else z1)).toNat ↔
      axisMeet z1.toNat z2.toNat i1 i2 := by
  unfold axisMeet
  by_cases c : z1 > z2
  · have hn : ¬ z1.toNat ≤ z2.toNat := by omega
    simp only [c, if_true, hn, if_false]
    have e1 : (z2 - z2).toNat = 0 := by omega
    have e2 : (z1 - z2).toNat = z1.toNat - z2.toNat := by omega
    rw [e1, e2, Int.pow_zero, Int.ediv_one]
  · have hn : z1.toNat ≤ z2.toNat := by omega
    simp only [c, if_false, hn, if_true]
    have e1 : (z1 - z1).toNat = 0 := by omega
    have e2 : (z2 - z1).toNat = z2.toNat - z1.toNat := by omega
    rw [e1, e2, Int.pow_zero, Int.ediv_one]
    exact eq_comm

/-- **ext_iff_meet (index form)**: the extended check says `true` exactly when the voxels meet -/
theorem overlapE_iff_meets (e1 e2 : Ext) (w1 : C03.wf e1) (w2 : C03.wf e2) :
    overlapE e1 e2 = .ok (decide (meets e1 e2)) := by
  obtain ⟨a1, a2, a3, a4⟩ := w1
  obtain ⟨b1, b2, b3, b4⟩ := w2
  unfold overlapE overlapAt
  rw [changeExtE_single_out e1 _ _ (by split <;> omega) (by split <;> omega) a3 a4,
      changeExtE_single_out e2 _ _ (by split <;> omega) (by split <;> omega) b3 b4]
  simp only [Outcome.ok.injEq]
  have hx := axis_anc_eq_iff e1.h e2.h e1.x e2.x a1 b1
  have hy := axis_anc_eq_iff e1.h e2.h e1.y e2.y a1 b1
  have hf := axis_anc_eq_iff e1.v e2.v e1.f e2.f a2 b2
  rw [Bool.eq_iff_iff, beq_iff_eq, decide_eq_true_eq]
  show anc e1 _ _ = anc e2 _ _ ↔ meets e1 e2
  unfold meets
  simp only [anc, Ext.mk.injEq, true_and]
  rw [hx, hy, hf]

/-- **ext_iff_meet**: … i.e. exactly when the two regions of space share a point -/
theorem ext_iff_meet (e1 e2 : Ext) (w1 : C03.wf e1) (w2 : C03.wf e2) :
    overlapE e1 e2 = .ok true ↔ (region e1 ∩ region e2).Nonempty := by
  rw [overlapE_iff_meets e1 e2 w1 w2, meets_iff]
  simp

/-- **ext_iff_ancestor**: meeting means ancestor-or-equal on the horizontal and on the vertical axis
(the finer index floor-divided to the coarser zoom equals the coarser index) -/
theorem ext_iff_ancestor (e1 e2 : Ext) :
    meets e1 e2 ↔
      (if e1.h.toNat ≤ e2.h.toNat then e2.x / 2 ^ (e2.h.toNat - e1.h.toNat) = e1.x ∧ e2.y / 2 ^ (e2.h.toNat - e1.h.toNat) = e1.y
        else e1.x / 2 ^ (e1.h.toNat - e2.h.toNat) = e2.x ∧ e1.y / 2 ^ (e1.h.toNat - e2.h.toNat) = e2.y) ∧
      (if e1.v.toNat ≤ e2.v.toNat then e2.f / 2 ^ (e2.v.toNat - e1.v.toNat) = e1.f
        else e1.f / 2 ^ (e1.v.toNat - e2.v.toNat) = e2.f) := by
  unfold meets axisMeet
  by_cases c : e1.h.toNat ≤ e2.h.toNat <;> simp [c, and_assoc]

theorem meets_symm (e1 e2 : Ext) : meets e1 e2 ↔ meets e2 e1 := by
  unfold meets
  rw [axisMeet_symm e1.h.toNat, axisMeet_symm e1.h.toNat _ e1.y, axisMeet_symm e1.v.toNat]

theorem meets_refl (e : Ext) : meets e e := by simp [meets, axisMeet]

/-- **ext_symm**, **ext_refl** -/
theorem ext_symm (e1 e2 : Ext) (w1 : C03.wf e1) (w2 : C03.wf e2) : overlapE e1 e2 = overlapE e2 e1 := by
  rw [overlapE_iff_meets e1 e2 w1 w2, overlapE_iff_meets e2 e1 w2 w1]
  simp only [Outcome.ok.injEq, decide_eq_decide]
  exact meets_symm e1 e2

theorem ext_refl (e : Ext) (w : C03.wf e) : overlapE e e = .ok true := by
  rw [overlapE_iff_meets e e w w]; simp [meets_refl]

/-! ### the string-level function is the structured one on well-formed IDs, an error otherwise -/

theorem overlapExt_wellformed (a b : String) (e1 e2 : Ext) (p1 : parseExt a = some e1) (p2 : parseExt b = some e2)
    (z1 : 0 ≤ e1.h ∧ e1.h ≤ 35 ∧ 0 ≤ e1.v ∧ e1.v ≤ 35) (z2 : 0 ≤ e2.h ∧ e2.h ≤ 35 ∧ 0 ≤ e2.v ∧ e2.v ≤ 35) :
    overlapExt a b = overlapE e1 e2 := by
  obtain ⟨a0, a1, a2, a3, a4, sa, ha0, _, _, ha3, _⟩ := parseExt_fields a e1 p1
  obtain ⟨b0, b1, b2, b3, b4, sb, hb0, _, _, hb3, _⟩ := parseExt_fields b e2 p2
  unfold overlapExt overlapExtAt overlapE
  simp only [sa, sb, List.length_cons, List.length_nil, List.getD_cons_zero, List.getD_cons_succ,
    parseInt64Lossy_of_some _ _ ha0, parseInt64Lossy_of_some _ _ hb0, parseInt64Lossy_of_some _ _ ha3,
    parseInt64Lossy_of_some _ _ hb3, p1, p2]
  have hz : (checkZoom (if e1.h > e2.h then e2.h else e1.h) && checkZoom (if e1.v > e2.v then e2.v else e1.v)) = true := by
    unfold checkZoom
    simp only [Bool.and_eq_true, decide_eq_true_eq]
    split <;> split <;> omega
  simp [hz]

theorem overlapExt_arity_err (a b : String) (h : (splitSlash a).length ≠ 5 ∨ (splitSlash b).length ≠ 5) :
    overlapExt a b = .err := by
  unfold overlapExt
  simp only []
  rw [if_pos h]

theorem overlapExtAt_nonint_err (tH tV : Int) (a b : String) (h : parseExt a = none ∨ parseExt b = none) :
    overlapExtAt tH tV a b = .err := by
  unfold overlapExtAt
  split
  · rfl
  · rcases h with h | h
    · simp [h]
    · cases parseExt a <;> simp [h]

theorem overlapExt_nonint_err (a b : String) (h : parseExt a = none ∨ parseExt b = none) : overlapExt a b = .err := by
  unfold overlapExt
  simp only []
  split
  · rfl
  · exact overlapExtAt_nonint_err _ _ a b h

/-! ### array form -/

theorem firstHit_all_ok (l : List Bool) : firstHit (l.map .ok) = .ok (l.any id) := by
  induction l with
  | nil => rfl
  | cons b l ih => cases b <;> simp [firstHit, ih]

/-- **arr_empty**: false when either list is empty -/
theorem arr_empty_left (bs : List String) : overlapExtArr [] bs = .ok false := by simp [overlapExtArr, firstHit]
theorem arr_empty_right (as : List String) : overlapExtArr as [] = .ok false := by
  simp only [overlapExtArr, List.map_nil]
  induction as with
  | nil => simp [firstHit]
  | cons a l ih => simpa using ih

theorem any_flatMap_map {α β} (as : List α) (bs : List β) (f : α → β → Bool) :
    (as.flatMap fun a => bs.map fun b => f a b).any id = as.any fun a => bs.any fun b => f a b := by
  induction as with
  | nil => rfl
  | cons a l ih => simp only [List.flatMap_cons, List.any_append, List.any_cons, List.any_map, ih]; rfl

/-- **arr_eq_any**: when every pairwise check answers (no error), the array form is the disjunction of the pairwise form -/
theorem arr_eq_any (as bs : List String) (f : String → String → Bool)
    (h : ∀ a ∈ as, ∀ b ∈ bs, overlapExt a b = .ok (f a b)) :
    overlapExtArr as bs = .ok (as.any fun a => bs.any fun b => f a b) := by
  unfold overlapExtArr
  have : (as.flatMap fun a => bs.map fun b => overlapExt a b) =
      (as.flatMap fun a => bs.map fun b => f a b).map Outcome.ok := by
    rw [List.map_flatMap]
    apply List.flatMap_congr
    intro a ha
    rw [List.map_map]
    apply List.map_congr_left
    intro b hb
    exact h a ha b hb
  rw [this, firstHit_all_ok, any_flatMap_map]

theorem arr_no_panic_of_pairs (as bs : List String) (h : ∀ a ∈ as, ∀ b ∈ bs, overlapExt a b ≠ .panic) :
    overlapExtArr as bs ≠ .panic := by
  unfold overlapExtArr
  generalize hl : (as.flatMap fun a => bs.map fun b => overlapExt a b) = l
  have hmem : ∀ o ∈ l, o ≠ Outcome.panic := by
    intro o ho; subst hl
    obtain ⟨a, ha, hab⟩ := List.mem_flatMap.mp ho
    obtain ⟨b, hb, rfl⟩ := List.mem_map.mp hab
    exact h a ha b hb
  clear hl
  induction l with
  | nil => simp [firstHit]
  | cons o l ih =>
    cases o with
    | ok b => cases b <;> simp [firstHit]; exact ih (fun o ho => hmem o (List.mem_cons_of_mem _ ho))
    | err => simp [firstHit]
    | panic => exact absurd rfl (hmem _ List.mem_cons_self)

/-! ### spatial IDs through the (abstract) radix tree -/

/-- a spatial ID in the documented domain: zoom 1..35, indices in range, altitude within ±2^24 m -/
def spValid (z f x y : Int) : Prop :=
  1 ≤ z ∧ z ≤ 35 ∧ 0 ≤ x ∧ x < 2 ^ z.toNat ∧ 0 ≤ y ∧ y < 2 ^ z.toNat ∧ -(2 ^ (z - 1).toNat) ≤ f ∧ f < 2 ^ (z - 1).toNat

theorem pow_split (z : Int) (hz : 1 ≤ z) : (2 : Int) ^ z.toNat = 2 * 2 ^ (z - 1).toNat := by
  have : z.toNat = (z - 1).toNat + 1 := by omega
  rw [this, Int.pow_succ]; omega

theorem offset_eq (z : Int) (hz : 1 ≤ z) (hz' : z ≤ 35) : arithShift (2 ^ 24) (z - 25) = 2 ^ (z - 1).toNat := by
  have h : z = 1 ∨ z = 2 ∨ z = 3 ∨ z = 4 ∨ z = 5 ∨ z = 6 ∨ z = 7 ∨ z = 8 ∨ z = 9 ∨ z = 10 ∨ z = 11 ∨ z = 12 ∨
      z = 13 ∨ z = 14 ∨ z = 15 ∨ z = 16 ∨ z = 17 ∨ z = 18 ∨ z = 19 ∨ z = 20 ∨ z = 21 ∨ z = 22 ∨ z = 23 ∨ z = 24 ∨
      z = 25 ∨ z = 26 ∨ z = 27 ∨ z = 28 ∨ z = 29 ∨ z = 30 ∨ z = 31 ∨ z = 32 ∨ z = 33 ∨ z = 34 ∨ z = 35 := by omega
  rcases h with h | h | h | h | h | h | h | h | h | h | h | h | h | h | h | h | h | h | h | h | h | h | h | h | h |
    h | h | h | h | h | h | h | h | h | h <;> subst h <;> decide

/-- the key of a valid spatial ID: the f index offset by `2^(z-1)`, indices unchanged -/
theorem offsetF_valid (z f : Int) (hz : 1 ≤ z) (hz' : z ≤ 35) (h1 : -(2 ^ (z - 1).toNat) ≤ f) (h2 : f < 2 ^ (z - 1).toNat) :
    offsetF f z = some (f + 2 ^ (z - 1).toNat) := by
  unfold offsetF
  simp only [offset_eq z hz hz']
  have hs : arithShift 1 z = 2 ^ z.toNat := by rw [arithShift_nonneg _ _ (by omega)]; omega
  rw [hs, pow_split z hz]
  have : ¬ (z < 1 ∨ f + 2 ^ (z - 1).toNat < 0 ∨ f + 2 ^ (z - 1).toNat ≥ 2 * 2 ^ (z - 1).toNat) := by omega
  rw [if_neg this]

/-- one axis of the tree's prefix test with the offset removed: the offset is a multiple of the zoom ratio -/
theorem offset_prefix (z1 z2 f1 f2 : Int) (h1 : 1 ≤ z1) (h12 : z1 ≤ z2) :
    (f2 + 2 ^ (z2 - 1).toNat) / 2 ^ (z2 - z1).toNat = f1 + 2 ^ (z1 - 1).toNat ↔ f2 / 2 ^ (z2 - z1).toNat = f1 := by
  have e : (2 : Int) ^ (z2 - 1).toNat = 2 ^ (z1 - 1).toNat * 2 ^ (z2 - z1).toNat := by
    rw [← Int.pow_add]; congr 1; omega
  rw [e, Int.add_mul_ediv_right _ _ (Int.ne_of_gt (two_pow_pos _))]
  omega

/-- **sp_iff_meet**: for two valid spatial IDs the tree test on their keys is the `meets` relation of the voxels -/
theorem sp_iff_meet (z1 f1 x1 y1 z2 f2 x2 y2 : Int) (v1 : spValid z1 f1 x1 y1) (v2 : spValid z2 f2 x2 y2) :
    let k1 : Key := ⟨z1, f1 + 2 ^ (z1 - 1).toNat, x1, y1⟩
    let k2 : Key := ⟨z2, f2 + 2 ^ (z2 - 1).toNat, x2, y2⟩
    (k1.isPrefixOf k2 || k2.isPrefixOf k1) = true ↔ meets ⟨z1, x1, y1, z1, f1⟩ ⟨z2, x2, y2, z2, f2⟩ := by
  obtain ⟨a1, a2, _, _, _, _, _, _⟩ := v1
  obtain ⟨b1, b2, _, _, _, _, _, _⟩ := v2
  simp only [Key.isPrefixOf, Bool.or_eq_true, Bool.and_eq_true, decide_eq_true_eq, beq_iff_eq, meets, axisMeet]
  by_cases c : z1 ≤ z2
  · have hn : z1.toNat ≤ z2.toNat := by omega
    have e2 : (z2 - z1).toNat = z2.toNat - z1.toNat := by omega
    simp only [hn, if_true]
    rw [← e2]
    constructor
    · rintro (⟨⟨⟨_, hf⟩, hx⟩, hy⟩ | ⟨⟨⟨hle, hf⟩, hx⟩, hy⟩)
      · exact ⟨hx, hy, (offset_prefix z1 z2 f1 f2 a1 c).mp hf⟩
      · have : z1 = z2 := by omega
        subst this
        simp only [Int.sub_self, Int.toNat_zero, Int.pow_zero, Int.ediv_one] at *
        omega
    · rintro ⟨hx, hy, hf⟩
      exact Or.inl ⟨⟨⟨c, (offset_prefix z1 z2 f1 f2 a1 c).mpr hf⟩, hx⟩, hy⟩
  · have hn : ¬ z1.toNat ≤ z2.toNat := by omega
    have c' : z2 ≤ z1 := by omega
    have e2 : (z1 - z2).toNat = z1.toNat - z2.toNat := by omega
    simp only [hn, if_false]
    rw [← e2]
    constructor
    · rintro (⟨⟨⟨hle, _⟩, _⟩, _⟩ | ⟨⟨⟨_, hf⟩, hx⟩, hy⟩)
      · omega
      · exact ⟨hx, hy, (offset_prefix z2 z1 f2 f1 b1 c').mp hf⟩
    · rintro ⟨hx, hy, hf⟩
      exact Or.inr ⟨⟨⟨c', (offset_prefix z2 z1 f2 f1 b1 c').mpr hf⟩, hx⟩, hy⟩

/-- the key computed from a well-formed, valid spatial ID string -/
theorem spKey_valid (s : String) (z f x y : Int) (h : spAttrs s = some (z, f, x, y)) (v : spValid z f x y) :
    spKey s = some ⟨z, f + 2 ^ (z - 1).toNat, x, y⟩ := by
  obtain ⟨a1, a2, a3, a4, a5, a6, a7, a8⟩ := v
  unfold spKey
  simp only [h, offsetF_valid z f a1 a2 a7 a8]
  have hp := pow_split z a1
  rw [Int.emod_eq_of_lt (by omega) (by omega), Int.emod_eq_of_lt a3 a4, Int.emod_eq_of_lt a5 a6]

/-- **sp pairwise form**: `CheckSpatialIdsOverlap` on two valid IDs answers the `meets` relation -/
theorem overlapSp_valid (a b : String) (z1 f1 x1 y1 z2 f2 x2 y2 : Int)
    (pa : spAttrs a = some (z1, f1, x1, y1)) (pb : spAttrs b = some (z2, f2, x2, y2))
    (v1 : spValid z1 f1 x1 y1) (v2 : spValid z2 f2 x2 y2) :
    overlapSp a b = .ok (decide (meets ⟨z1, x1, y1, z1, f1⟩ ⟨z2, x2, y2, z2, f2⟩)) := by
  unfold overlapSp overlapSpArr
  simp only [List.mapM_cons, List.mapM_nil, spKey_valid a _ _ _ _ pa v1, bind, Option.bind, pure, overlapSpArr.go,
    spKey_valid b _ _ _ _ pb v2, List.isEmpty_cons, treeOverlap, List.any_cons, List.any_nil, Bool.or_false]
  have := sp_iff_meet z1 f1 x1 y1 z2 f2 x2 y2 v1 v2
  simp only at this
  rw [if_neg (by decide)]
  by_cases hm : meets ⟨z1, x1, y1, z1, f1⟩ ⟨z2, x2, y2, z2, f2⟩
  · rw [if_pos (this.mpr hm)]; simp only [hm, decide_true]
  · rw [if_neg (fun h => hm (this.mp h))]; simp only [hm, decide_false]

/-- **sp_eq_ext**: on inputs valid for both, the tree-based check and the zoom-change-based check agree -/
theorem sp_eq_ext (a b : String) (z1 f1 x1 y1 z2 f2 x2 y2 : Int)
    (pa : spAttrs a = some (z1, f1, x1, y1)) (pb : spAttrs b = some (z2, f2, x2, y2))
    (v1 : spValid z1 f1 x1 y1) (v2 : spValid z2 f2 x2 y2) :
    overlapSp a b = overlapE ⟨z1, x1, y1, z1, f1⟩ ⟨z2, x2, y2, z2, f2⟩ := by
  rw [overlapSp_valid a b _ _ _ _ _ _ _ _ pa pb v1 v2, overlapE_iff_meets]
  · unfold spValid at v1; unfold C03.wf; simp only; omega
  · unfold spValid at v2; unfold C03.wf; simp only; omega

/-- **sp_empty**: either list empty ⇒ false (as long as the other list is well-formed), never a panic -/
theorem sp_empty_left (bs : List String) (h : ∀ b ∈ bs, (spKey b).isSome) : overlapSpArr [] bs = .ok false := by
  unfold overlapSpArr
  simp only [List.mapM_nil, pure]
  induction bs with
  | nil => rfl
  | cons b r ih =>
    obtain ⟨k, hk⟩ := Option.isSome_iff_exists.mp (h b List.mem_cons_self)
    simp only [overlapSpArr.go, hk, List.isEmpty_nil, if_true]
    exact ih (fun b hb => h b (List.mem_cons_of_mem _ hb))

theorem mapM_spKey_some (as : List String) (h : ∀ a ∈ as, (spKey a).isSome) : ∃ l, as.mapM spKey = some l := by
  induction as with
  | nil => exact ⟨[], rfl⟩
  | cons a r ih =>
    obtain ⟨k, hk⟩ := Option.isSome_iff_exists.mp (h a List.mem_cons_self)
    obtain ⟨l, hl⟩ := ih (fun b hb => h b (List.mem_cons_of_mem _ hb))
    exact ⟨k :: l, by simp [List.mapM_cons, hk, hl]⟩

theorem sp_empty_right (as : List String) (h : ∀ a ∈ as, (spKey a).isSome) : overlapSpArr as [] = .ok false := by
  obtain ⟨l, hl⟩ := mapM_spKey_some as h
  unfold overlapSpArr
  rw [hl]
  rfl

/-- the model of the spatial check never panics (the empty-tree panic D3 is gone) -/
theorem sp_no_panic (as bs : List String) : overlapSpArr as bs ≠ .panic := by
  unfold overlapSpArr
  split
  · simp
  · rename_i stored _
    induction bs with
    | nil => simp [overlapSpArr.go]
    | cons b r ih =>
      simp only [overlapSpArr.go]
      split
      · simp
      · split
        · exact ih
        · split
          · simp
          · exact ih

example : overlapE ⟨5, 1, 1, 5, -1⟩ ⟨5, 1, 1, 4, -1⟩ = .ok true := by decide
example : overlapE ⟨5, 1, 1, 5, -1⟩ ⟨5, 1, 1, 4, 0⟩ = .ok false := by decide
example : spValid 26 1 1 1 := by unfold spValid; decide

end SpatialId.C05
