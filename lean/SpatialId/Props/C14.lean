/-
C14 — the corridor around a line contains the line and stays within its search box.
Model: SpatialId/Model/Corridor.lean — the set algebra of transform.GetExtendedSpatialIdsWithinRadiusOfLine over three
oracles (the line's voxels, the fitted layer counts of the line voxel the function happens to pick, the distance test),
tied to the Go function by the op family corridor: the harness obtains the oracles' answers from the same library calls, the
driver accepts the implementation's result iff it equals the model's result for the layer counts of SOME line voxel.
-/
import SpatialId.Model.Corridor
import SpatialId.Props.C08
namespace SpatialId.C14
open SpatialId

theorem mem_corridor (line : List Ext) (H V : Int) (close : Ext → Bool) (skips : Bool) (o : Ext) :
    o ∈ corridorE line H V close skips ↔
      o ∈ line ∨ (o ∈ nNE line H V ∧ o ∉ line ∧ (skips = true ∨ close o = true)) := by
  unfold corridorE
  cases skips
  · simp only [Bool.false_eq_true, if_false, mem_dedup, List.mem_append, List.mem_filter, Bool.not_eq_true',
      decide_eq_false_iff_not, false_or]
    constructor
    · rintro (⟨⟨h1, h2⟩, h3⟩ | h); exact Or.inr ⟨h1, h2, h3⟩; exact Or.inl h
    · rintro (h | ⟨h1, h2, h3⟩); exact Or.inr h; exact Or.inl ⟨⟨h1, h2⟩, h3⟩
  · simp only [if_true, mem_dedup, List.mem_append, List.mem_filter, Bool.not_eq_true', decide_eq_false_iff_not, true_or,
      and_true]
    constructor
    · rintro (⟨h1, h2⟩ | h); exact Or.inr ⟨h1, h2⟩; exact Or.inl h
    · rintro (h | ⟨h1, h2⟩); exact Or.inr h; exact Or.inl ⟨h1, h2⟩

/-- **corr_contains_line**: every ID of the line itself is in the result -/
theorem corr_contains_line (line : List Ext) (H V : Int) (close : Ext → Bool) (skips : Bool) (o : Ext) (h : o ∈ line) :
    o ∈ corridorE line H V close skips := (mem_corridor ..).mpr (Or.inl h)

/-- **corr_nodup** -/
theorem corr_nodup (line : List Ext) (H V : Int) (close : Ext → Bool) (skips : Bool) :
    (corridorE line H V close skips).Nodup := by
  unfold corridorE; split <;> exact nodup_dedup _

theorem nOffsets_zero : nOffsets 0 0 = [] := by decide

/-- **corr_radius0**: when the fit reports zero layers (radius 0: the distance to a neighbour is never negative) the result
is exactly the line's IDs -/
theorem corr_radius0 (line : List Ext) (close : Ext → Bool) (skips : Bool) (o : Ext) :
    o ∈ corridorE line 0 0 close skips ↔ o ∈ line := by
  rw [mem_corridor]
  have : nNE line 0 0 = [] := by simp [nNE, nOffsets_zero, dedup]
  simp [this]

/-- **corr_in_box**: every additional ID is a shift of a line voxel by a non-zero offset within the fitted layer counts -/
theorem corr_in_box (line : List Ext) (H V : Int) (close : Ext → Bool) (skips : Bool) (o : Ext)
    (h : o ∈ corridorE line H V close skips) (hn : o ∉ line) :
    ∃ e ∈ line, ∃ d : Off, (-H ≤ d.1 ∧ d.1 ≤ H) ∧ (-H ≤ d.2.1 ∧ d.2.1 ≤ H) ∧ (-V ≤ d.2.2 ∧ d.2.2 ≤ V) ∧
      d ≠ (0, 0, 0) ∧ o = sh e d := by
  rcases (mem_corridor ..).mp h with h | ⟨h1, _, _⟩
  · exact absurd h hn
  · exact (C08.nLayer_set line H V o).mp h1

/-- **corr_measured_subset**: with the distance measurement the result is a subset of the result without it -/
theorem corr_measured_subset (line : List Ext) (H V : Int) (close : Ext → Bool) (o : Ext)
    (h : o ∈ corridorE line H V close false) : o ∈ corridorE line H V close true := by
  rw [mem_corridor] at *
  rcases h with h | ⟨h1, h2, _⟩
  · exact Or.inl h
  · exact Or.inr ⟨h1, h2, Or.inl rfl⟩

/-- **corr_added_close**: with the measurement every added voxel passed the distance test (`dist < radius`) -/
theorem corr_added_close (line : List Ext) (H V : Int) (close : Ext → Bool) (o : Ext)
    (h : o ∈ corridorE line H V close false) (hn : o ∉ line) : close o = true := by
  rcases (mem_corridor ..).mp h with h | ⟨_, _, h3⟩
  · exact absurd h hn
  · rcases h3 with h3 | h3
    · cases h3
    · exact h3

/-- **corr_zoom**: all results are at the zooms of the line's IDs (shifting keeps both zooms) -/
theorem corr_zoom (line : List Ext) (H V : Int) (close : Ext → Bool) (skips : Bool) (h v : Int)
    (hl : ∀ e ∈ line, e.h = h ∧ e.v = v) (o : Ext) (ho : o ∈ corridorE line H V close skips) : o.h = h ∧ o.v = v := by
  rcases (mem_corridor ..).mp ho with hm | ⟨h1, _, _⟩
  · exact hl o hm
  · obtain ⟨e, he, d, _, _, _, _, rfl⟩ := (C08.nLayer_set line H V o).mp h1
    have := hl e he
    simp [sh, shiftE, this]

/-- **corr_errors**: an error of the line query (nil point, invalid zoom) or a negative radius is an error -/
theorem corr_errors (H V : Int) (close : Ext → Bool) (skips : Bool) (l : List Ext) :
    corridor .err false H V close skips = .err ∧ corridor (.ok l) true H V close skips = .err := by
  simp [corridor]

/-- **corr_order_dependent_witness**: the formal reason the Go function is not deterministic (known finding D9) — two
line voxels with different fitted layer counts give different results, and `idsOnLine[0]` is whichever the map iteration
yields first -/
theorem corr_order_dependent_witness :
    corridorE [⟨3, 1, 1, 3, 0⟩, ⟨3, 2, 1, 3, 0⟩] 0 0 (fun _ => true) true ≠
    corridorE [⟨3, 1, 1, 3, 0⟩, ⟨3, 2, 1, 3, 0⟩] 1 0 (fun _ => true) true := by decide

end SpatialId.C14
