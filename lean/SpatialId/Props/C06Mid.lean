/-
C06, the bisection step in binary64. `Model/Line.lean` computes the midpoint of a sub-segment per component as
`s + 0.5·(e − s)` (one rounded subtraction, a halving, one rounded addition). `mid_close` bounds its distance from the exact
midpoint `(s+e)/2`: at most 2^-51 of the larger magnitude (plus a subnormal crumb). Together with `C06.mid_on_segment` (the
exact midpoint of two points of a segment is a point of the segment) this says: every voxel the recursion emits is the voxel
of a point within that distance of the straight segment — the quantitative form of "onto voxels the segment really touches"
for the binary64 recursion, for every pair of end points and every depth.
-/
import SpatialId.Props.C06
import SpatialId.Lemmas.F64Err
namespace SpatialId.C06
open SpatialId F64

/-- scaling by a power of two is one rounding (exact outside the subnormal range) -/
theorem scale_err (x : Dy) (k : Int) :
    |val (scale x k) - val x * (2 : ℚ) ^ k| ≤ (2 : ℚ) ^ (-53 : Int) * |val x * (2 : ℚ) ^ k| + (2 : ℚ) ^ (-1075 : Int) := by
  unfold scale
  have := rnd_err x.m (x.e + k)
  have e : (x.m : ℚ) * (2 : ℚ) ^ (x.e + k) = val x * (2 : ℚ) ^ k := by unfold val; rw [zpow_add₀ two_ne]; ring
  rw [e] at this
  exact this

/-- one component of `P3.mid` -/
def midC (s e : Dy) : Dy := add s (scale (sub e s) (-1))

theorem mid_components (s e : P3) : P3.mid s e = ⟨midC s.x e.x, midC s.y e.y, midC s.z e.z⟩ := rfl

/-- the arithmetic of three chained roundings (pure rational inequality) -/
theorem three_roundings (S E d hv m u c : ℚ) (hu : 0 < u) (hu4 : u ≤ 1 / 4) (hc : 0 < c)
    (h1 : |d - (E - S)| ≤ u * |E - S| + c) (h2 : |hv - d / 2| ≤ u * (|d| / 2) + c) (h3 : |m - (S + hv)| ≤ u * |S + hv| + c) :
    |m - (S + E) / 2| ≤ 4 * u * (|S| + |E|) + 4 * c := by
  set A := |S| + |E| with hA
  have hA0 : 0 ≤ A := by positivity
  have tES : |E - S| ≤ A := by
    have := abs_sub_abs_le_abs_sub E S
    have h := abs_add_le E (-S); rw [abs_neg, ← sub_eq_add_neg] at h; linarith
  have uA : 0 ≤ u * A := mul_nonneg (le_of_lt hu) hA0
  have uES : u * |E - S| ≤ u * A := mul_le_mul_of_nonneg_left tES (le_of_lt hu)
  have uA4 : u * A ≤ A / 4 := by have := mul_le_mul_of_nonneg_right hu4 hA0; linarith
  have uc : u * c ≤ c / 4 := by have := mul_le_mul_of_nonneg_right hu4 (le_of_lt hc); linarith
  -- |d|
  have bd : |d| ≤ 5 / 4 * A + c := by
    have := abs_sub_abs_le_abs_sub d (E - S); linarith
  have nd := abs_nonneg d
  have ud : u * |d| ≤ 5 / 4 * (u * A) + u * c := by
    have := mul_le_mul_of_nonneg_left bd (le_of_lt hu); linarith
  -- |hv|
  have bh : |hv| ≤ 25 / 32 * A + 13 / 8 * c := by
    have := abs_sub_abs_le_abs_sub hv (d / 2)
    have hd2 : |d / 2| = |d| / 2 := by rw [abs_div]; norm_num
    rw [hd2] at this
    linarith
  have uh : u * |hv| ≤ 25 / 32 * (u * A) + 13 / 8 * (u * c) := by
    have := mul_le_mul_of_nonneg_left bh (le_of_lt hu); linarith
  -- |S + hv|
  have bs : |S + hv| ≤ A + |hv| := by
    have := abs_add_le S hv; have := abs_nonneg E; linarith
  have us : u * |S + hv| ≤ u * A + u * |hv| := by
    have := mul_le_mul_of_nonneg_left bs (le_of_lt hu); linarith
  -- assemble
  have split : m - (S + E) / 2 = (m - (S + hv)) + (hv - d / 2) + (d - (E - S)) / 2 := by ring
  rw [split]
  have t1 := abs_add_le ((m - (S + hv)) + (hv - d / 2)) ((d - (E - S)) / 2)
  have t2 := abs_add_le (m - (S + hv)) (hv - d / 2)
  have t3 : |(d - (E - S)) / 2| = |d - (E - S)| / 2 := by rw [abs_div]; norm_num
  rw [t3] at t1
  linarith

/-- **mid_close** — the binary64 midpoint is within 2^-51·(|s|+|e|) (+ 2^-1073) of the exact midpoint -/
theorem mid_close (s e : Dy) :
    |val (midC s e) - (val s + val e) / 2| ≤ (2 : ℚ) ^ (-51 : Int) * (|val s| + |val e|) + (2 : ℚ) ^ (-1073 : Int) := by
  unfold midC
  have hd : |val (sub e s) - (val e - val s)| ≤ (2 : ℚ) ^ (-53 : Int) * |val e - val s| + (2 : ℚ) ^ (-1075 : Int) := by
    have := add_err e (neg s)
    rw [neg_val, ← sub_eq_add_neg] at this
    exact this
  have hh := scale_err (sub e s) (-1)
  have e2 : (2 : ℚ) ^ (-1 : Int) = 1 / 2 := by norm_num
  rw [e2] at hh
  have e3 : val (sub e s) * (1 / 2) = val (sub e s) / 2 := by ring
  have e4 : |val (sub e s) / 2| = |val (sub e s)| / 2 := by rw [abs_div]; norm_num
  rw [e3, e4] at hh
  have hm := add_err s (scale (sub e s) (-1))
  have k53 : (2 : ℚ) ^ (-53 : Int) ≤ 1 / 4 := by norm_num
  have := three_roundings (val s) (val e) (val (sub e s)) (val (scale (sub e s) (-1))) (val (add s (scale (sub e s) (-1))))
    ((2 : ℚ) ^ (-53 : Int)) ((2 : ℚ) ^ (-1075 : Int)) (two_zpow_pos _) k53 (two_zpow_pos _) hd hh hm
  have c73 : (2 : ℚ) ^ (-1073 : Int) = 4 * (2 : ℚ) ^ (-1075 : Int) := by
    rw [show (-1073 : Int) = 2 + (-1075) by norm_num, zpow_add₀ two_ne]; norm_num
  have c51 : (2 : ℚ) ^ (-51 : Int) = 4 * (2 : ℚ) ^ (-53 : Int) := by
    rw [show (-51 : Int) = 2 + (-53) by norm_num, zpow_add₀ two_ne]; norm_num
  rw [c73, c51]
  exact this

/-- all three components at once -/
theorem mid_close3 (s e : P3) :
    |val (P3.mid s e).x - (val s.x + val e.x) / 2| ≤ (2 : ℚ) ^ (-51 : Int) * (|val s.x| + |val e.x|) + (2 : ℚ) ^ (-1073 : Int) ∧
    |val (P3.mid s e).y - (val s.y + val e.y) / 2| ≤ (2 : ℚ) ^ (-51 : Int) * (|val s.y| + |val e.y|) + (2 : ℚ) ^ (-1073 : Int) ∧
    |val (P3.mid s e).z - (val s.z + val e.z) / 2| ≤ (2 : ℚ) ^ (-51 : Int) * (|val s.z| + |val e.z|) + (2 : ℚ) ^ (-1073 : Int) := by
  rw [mid_components]
  exact ⟨mid_close _ _, mid_close _ _, mid_close _ _⟩

end SpatialId.C06
