/-
C18 — projection to a planar CRS and back returns the same point.
Model: SpatialId/Model/Project.lean — the list structure around the third-party projection (wroge/wgs84), which is an
oracle; tied to shape.ConvertPointListToProjectedPointList / ConvertProjectedPointListToPointList by the op family proj
(the harness obtains the oracle's answers from the same third-party call).  The numeric claims for EPSG:3857 are checked on
the implementation's answers (closed form in an independent libm; round trip on the implementation: op family projrt).
-/
import Mathlib.Analysis.SpecialFunctions.Trigonometric.Arctan
import Mathlib.Analysis.SpecialFunctions.Log.Basic
import SpatialId.Model.Project
import SpatialId.Lemmas.Core
namespace SpatialId.C18
open SpatialId F64

/-! ### list structure: length, order, altitude bit for bit, errors -/

/-- **proj_shape**: the i-th output is the oracle's image of the i-th input with the input's altitude, unchanged -/
theorem proj_shape (oracle : GeoPt → Option (Dy × Dy)) (pts : List GeoPt) (l : List PPt) (h : projList oracle pts = .ok l) :
    l.length = pts.length ∧ ∀ i (hi : i < pts.length) (ho : i < l.length),
      l[i].alt = pts[i].alt ∧ oracle pts[i] = some (l[i].x, l[i].y) := by
  unfold projList at h
  cases hm : pts.mapM (fun p => (oracle p).map fun xy => (⟨xy.1, xy.2, p.alt⟩ : PPt)) with
  | none => simp [hm] at h
  | some l' =>
    simp only [hm, Outcome.ok.injEq] at h
    subst h
    obtain ⟨hlen, hget⟩ := mapM_option_spec _ _ _ hm
    refine ⟨hlen, ?_⟩
    intro i hi ho
    have := hget i hi ho
    cases ho' : oracle pts[i] with
    | none => simp [ho'] at this
    | some xy =>
      simp only [ho', Option.map_some, Option.some.injEq] at this
      rw [← this]
      exact ⟨rfl, rfl⟩

/-- **proj_err**: an unknown EPSG code (or any failed transform) is reported as a conversion error -/
theorem proj_err (oracle : GeoPt → Option (Dy × Dy)) (pts : List GeoPt) (p : GeoPt) (hp : p ∈ pts) (h : oracle p = none) :
    projList oracle pts = .err := by
  unfold projList
  rw [mapM_option_none _ pts p hp (by simp [h])]

/-- the inverse direction: same shape; the altitude is carried over whenever the oracle's longitude/latitude are accepted
by `NewPoint` -/
theorem unproj_shape (oracle : PPt → Option (Dy × Dy)) (pts : List PPt) (l : List GeoPt) (h : unprojList oracle pts = .ok l) :
    l.length = pts.length ∧ ∀ i (hi : i < pts.length) (ho : i < l.length),
      ∃ ll, oracle pts[i] = some ll ∧ l[i] = newPointLossy ll.1 ll.2 pts[i].alt := by
  unfold unprojList at h
  cases hm : pts.mapM (fun p => (oracle p).map fun ll => newPointLossy ll.1 ll.2 p.alt) with
  | none => simp [hm] at h
  | some l' =>
    simp only [hm, Outcome.ok.injEq] at h
    subst h
    obtain ⟨hlen, hget⟩ := mapM_option_spec _ _ _ hm
    refine ⟨hlen, ?_⟩
    intro i hi ho
    have := hget i hi ho
    cases ho' : oracle pts[i] with
    | none => simp [ho'] at this
    | some ll =>
      simp only [ho', Option.map_some, Option.some.injEq] at this
      exact ⟨ll, rfl, this.symm⟩

theorem newPointLossy_alt (lon lat alt t : Dy) (h1 : lt c180 (F64.abs lon) = false) (h2 : setLat lat = some t) :
    (newPointLossy lon lat alt).alt = alt ∧ (newPointLossy lon lat alt).lon = lon := by
  simp [newPointLossy, h1, h2]

theorem unproj_err (oracle : PPt → Option (Dy × Dy)) (pts : List PPt) (p : PPt) (hp : p ∈ pts) (h : oracle p = none) :
    unprojList oracle pts = .err := by
  unfold unprojList
  rw [mapM_option_none _ pts p hp (by simp [h])]

theorem proj_no_panic (o1 : GeoPt → Option (Dy × Dy)) (o2 : PPt → Option (Dy × Dy)) (a : List GeoPt) (b : List PPt) :
    projList o1 a ≠ .panic ∧ unprojList o2 b ≠ .panic := by
  unfold projList unprojList
  constructor <;> split <;> simp

/-! ### the formula-level inverse law of the spherical Mercator projection (over ℝ) -/

/-- **merc_inv_fwd**: `φ ↦ ln tan(π/4 + φ/2)` followed by `y ↦ 2·arctan(eʸ) − π/2` is the identity on (−π/2, π/2):
EPSG:3857 forward and inverse, latitude component, on the unit sphere -/
theorem merc_inv_fwd (φ : ℝ) (h1 : -(Real.pi / 2) < φ) (h2 : φ < Real.pi / 2) :
    2 * Real.arctan (Real.exp (Real.log (Real.tan (Real.pi / 4 + φ / 2)))) - Real.pi / 2 = φ := by
  have hpi := Real.pi_pos
  have ha : 0 < Real.pi / 4 + φ / 2 := by linarith
  have hb : Real.pi / 4 + φ / 2 < Real.pi / 2 := by linarith
  have htan : 0 < Real.tan (Real.pi / 4 + φ / 2) := Real.tan_pos_of_pos_of_lt_pi_div_two ha hb
  rw [Real.exp_log htan, Real.arctan_tan (by linarith) hb]
  ring

/-- **merc_x_linear**: the longitude component is linear, hence exactly invertible -/
theorem merc_x_linear (R lam : ℝ) (hR : R ≠ 0) : (R * lam) / R = lam := by
  field_simp

end SpatialId.C18
