/-
C02 (centre) — converting the centre of a voxel back to an ID returns the voxel's own x and f index, on the bit-exact binary64
model, for every valid column / vertical index and every zoom 0..35. Every intermediate value of the computation is
representable, so no rounding occurs (value-level exactness lemmas of Lemmas/F64Val); the row (y) part depends on the
latitude oracle and is checked on the implementation (`ctrrt`).
Also: the general form of C01's `x_on_boundaries` — a longitude that is exactly a tile boundary gets that tile's column.
-/
import SpatialId.Model.Point
import SpatialId.Lemmas.F64Val
namespace SpatialId.C02
open SpatialId F64

theorem val_c180 : val c180 = 180 := by simp [val, c180]
theorem val_c360 : val c360 = 360 := by simp [val, c360]
theorem val_c2 : val c2 = 2 := by simp [val, c2]

theorem val_abs (x : Dy) : val (F64.abs x) = |val x| := by
  unfold F64.abs val
  simp only []
  rw [abs_mul, abs_of_pos (two_zpow_pos x.e)]
  congr 1
  rw [← Int.cast_abs, Int.abs_eq_natAbs]

theorem lt_false_of_val_le (x y : Dy) (h : val y ≤ val x) : lt x y = false := by
  cases hl : lt x y with
  | false => rfl
  | true => exact absurd ((lt_iff_val x y).mp hl) (not_lt.mpr h)

theorem lt_true_of_val_lt (x y : Dy) (h : val x < val y) : lt x y = true := (lt_iff_val x y).mpr h

theorem eq_false_of_val_ne (x y : Dy) (h : val x ≠ val y) : F64.eq x y = false := by
  cases he : F64.eq x y with
  | false => rfl
  | true => exact absurd ((eq_iff_val x y).mp he) h

theorem pow_h_bound (h : Int) (hh : 0 ≤ h ∧ h ≤ 35) : (2 : Int) ^ h.toNat ≤ 2 ^ 35 := by
  have : h.toNat ≤ 35 := by omega
  exact_mod_cast Nat.pow_le_pow_right (by decide : 1 ≤ 2) this

/-- a rational `n / 2^h` with `|n| < 2^53`, `0 ≤ h ≤ 1074` is a binary64 value -/
theorem repVal_frac (n : Int) (h : Int) (hn : n.natAbs < 2 ^ 53) (hh : 0 ≤ h ∧ h ≤ 1074) :
    RepVal ((n : ℚ) / (2 : ℚ) ^ h.toNat) := by
  refine ⟨n, -h, bitLen_le_of_lt _ _ hn, by omega, ?_⟩
  rw [zpow_neg, div_eq_mul_inv]
  congr 2
  rw [← zpow_natCast]; congr 1; omega

/-- **the column of an exact tile boundary** (general form of C01's table `x_on_boundaries`): a longitude whose value is
`360·k/2^h − 180` with `0 ≤ k < 2^h`, `h ≤ 35`, gets column `k` -/
theorem x_exact_on_boundaries (lon : Dy) (k h : Int) (hh : 0 ≤ h ∧ h ≤ 35) (hk : 0 ≤ k ∧ k < 2 ^ h.toNat)
    (hv : val lon = 360 * (k : ℚ) / (2 : ℚ) ^ h.toNat - 180) : xIndex lon h = k := by
  have hp := pow_h_bound h hh
  have hp0 := two_pow_pos h.toNat
  have hpq : (0 : ℚ) < (2 : ℚ) ^ h.toNat := by positivity
  have hkq : (k : ℚ) < (2 : ℚ) ^ h.toNat := by exact_mod_cast hk.2
  have hk0 : (0 : ℚ) ≤ k := by exact_mod_cast hk.1
  unfold xIndex
  -- lon is not 180
  have hne : F64.eq lon c180 = false := by
    apply eq_false_of_val_ne; rw [hv, val_c180]
    intro hc
    have : 360 * (k : ℚ) / (2 : ℚ) ^ h.toNat < 360 := by rw [div_lt_iff₀ hpq]; nlinarith
    linarith
  simp only [hne, Bool.false_eq_true, if_false]
  -- lon + 180 = 360k/2^h, exactly
  have h1 : val (add lon c180) = 360 * (k : ℚ) / (2 : ℚ) ^ h.toNat := by
    have hs : val lon + val c180 = ((360 * k : Int) : ℚ) / (2 : ℚ) ^ h.toNat := by rw [hv, val_c180]; push_cast; ring
    rw [add_val_exact _ _ (by rw [hs]; exact repVal_frac _ h (by omega) (by omega)), hs]; push_cast; ring
  -- divided by 360: k/2^h
  have h2 : val (div (add lon c180) c360) = (k : ℚ) / (2 : ℚ) ^ h.toNat := by
    have hq : val (add lon c180) / val c360 = (k : ℚ) / (2 : ℚ) ^ h.toNat := by rw [h1, val_c360]; field_simp
    rw [div_val_exact _ _ (by decide) (by rw [hq]; exact repVal_frac _ h (by omega) (by omega)), hq]
  -- times 2^h: k
  have h3 : val (scale (div (add lon c180) c360) h) = (k : ℚ) := by
    have hq : val (div (add lon c180) c360) * (2 : ℚ) ^ h = (k : ℚ) := by
      rw [h2]
      have : (2 : ℚ) ^ h = (2 : ℚ) ^ h.toNat := by rw [← zpow_natCast]; congr 1; omega
      rw [this]; field_simp
    rw [scale_val_exact _ _ (by rw [hq]; exact repVal_int _ (by omega)), hq]
  have h4 : floorInt (scale (div (add lon c180) c360) h) = k := by rw [floorInt_val, h3, Int.floor_intCast]
  simp only [h4]
  rw [if_neg (by omega)]

/-! ### the centre of a voxel converts back to the voxel's own column and vertical index -/

theorem h_cast (h : Int) (hh : 0 ≤ h) : (2 : ℚ) ^ (-h) = 1 / (2 : ℚ) ^ h.toNat := by
  rw [zpow_neg, one_div]; congr 1
  rw [← zpow_natCast]; congr 1; omega

/-- value of `360·i/2^h − 180` computed as `sub (scale (mul I c360) (-h)) c180` for an exact integer `I` -/
theorem edge_val (I : Dy) (i h : Int) (hh : 0 ≤ h ∧ h ≤ 35) (hi : 0 ≤ i ∧ i ≤ 2 ^ h.toNat) (hI : val I = (i : ℚ)) :
    val (sub (scale (mul I c360) (-h)) c180) = 360 * (i : ℚ) / (2 : ℚ) ^ h.toNat - 180 := by
  have hp := pow_h_bound h hh
  have hp0 := two_pow_pos h.toNat
  have hpq : (0 : ℚ) < (2 : ℚ) ^ h.toNat := by positivity
  have h1 : val (mul I c360) = ((i * 360 : Int) : ℚ) := by
    have hq : val I * val c360 = ((i * 360 : Int) : ℚ) := by rw [hI, val_c360]; push_cast; ring
    rw [mul_val_exact _ _ (by rw [hq]; exact repVal_int _ (by omega)), hq]
  have h2 : val (scale (mul I c360) (-h)) = ((i * 360 : Int) : ℚ) / (2 : ℚ) ^ h.toNat := by
    have hq : val (mul I c360) * (2 : ℚ) ^ (-h) = ((i * 360 : Int) : ℚ) / (2 : ℚ) ^ h.toNat := by
      rw [h1, h_cast h hh.1]; ring
    rw [scale_val_exact _ _ (by rw [hq]; exact repVal_frac _ h (by omega) (by omega)), hq]
  have hq : val (scale (mul I c360) (-h)) - val c180 = ((i * 360 - 180 * 2 ^ h.toNat : Int) : ℚ) / (2 : ℚ) ^ h.toNat := by
    rw [h2, val_c180]; push_cast; field_simp
  rw [sub_val_exact _ _ (by rw [hq]; exact repVal_frac _ h (by omega) (by omega)), hq]
  push_cast; field_simp

theorem westLon_val (x h : Int) (hh : 0 ≤ h ∧ h ≤ 35) (hx : 0 ≤ x ∧ x ≤ 2 ^ h.toNat) :
    val (westLon x h) = 360 * (x : ℚ) / (2 : ℚ) ^ h.toNat - 180 := by
  have hp := pow_h_bound h hh
  unfold westLon
  exact edge_val _ x h hh hx (ofInt_val_exact x (repVal_int _ (by omega)))

theorem eastLon_val (x h : Int) (hh : 0 ≤ h ∧ h ≤ 35) (hx : 0 ≤ x ∧ x < 2 ^ h.toNat) :
    val (eastLon x h) = 360 * ((x + 1 : Int) : ℚ) / (2 : ℚ) ^ h.toNat - 180 := by
  have hp := pow_h_bound h hh
  unfold eastLon
  apply edge_val _ (x + 1) h hh (by omega)
  have h1 : val (ofInt x) = (x : ℚ) := ofInt_val_exact x (repVal_int _ (by omega))
  have hq : val (ofInt x) + val (⟨1, 0⟩ : Dy) = ((x + 1 : Int) : ℚ) := by rw [h1]; simp [val]
  rw [add_val_exact _ _ (by rw [hq]; exact repVal_int _ (by omega)), hq]

theorem newPointLossy_lon (lon lat alt : Dy) (h : lt c180 (F64.abs lon) = false) : (newPointLossy lon lat alt).lon = lon := by
  unfold newPointLossy
  simp only [h, Bool.false_eq_true, if_false]
  cases setLat lat <;> rfl

theorem wrapLon_id (x h : Int) (hx : 0 ≤ x ∧ x < 2 ^ h.toNat) : wrapLon x h = x := by
  unfold wrapLon
  simp only []
  split
  · exact Int.emod_eq_of_lt hx.1 hx.2
  · rfl

/-- the longitudes of the west and east edge are accepted by `NewPoint` -/
theorem edges_ok (x h : Int) (hh : 0 ≤ h ∧ h ≤ 35) (hx : 0 ≤ x ∧ x < 2 ^ h.toNat) :
    lt c180 (F64.abs (westLon x h)) = false ∧ lt c180 (F64.abs (eastLon x h)) = false := by
  have hp := pow_h_bound h hh
  have hp0 := two_pow_pos h.toNat
  have hpq : (0 : ℚ) < (2 : ℚ) ^ h.toNat := by positivity
  have hxq : (x : ℚ) < (2 : ℚ) ^ h.toNat := by exact_mod_cast hx.2
  have hx0 : (0 : ℚ) ≤ x := by exact_mod_cast hx.1
  have hx1q : (x : ℚ) + 1 ≤ (2 : ℚ) ^ h.toNat := by exact_mod_cast (show x + 1 ≤ 2 ^ h.toNat by omega)
  have hw := westLon_val x h hh ⟨hx.1, by omega⟩
  have he := eastLon_val x h hh hx
  push_cast at he
  constructor
  · apply lt_false_of_val_le; rw [val_abs, val_c180, hw, abs_le]; constructor
    · have : 0 ≤ 360 * (x : ℚ) / (2 : ℚ) ^ h.toNat := by positivity
      linarith
    · have : 360 * (x : ℚ) / (2 : ℚ) ^ h.toNat < 360 := by rw [div_lt_iff₀ hpq]; nlinarith
      linarith
  · apply lt_false_of_val_le; rw [val_abs, val_c180, he, abs_le]; constructor
    · have : 0 < 360 * ((x : ℚ) + 1) / (2 : ℚ) ^ h.toNat := by positivity
      linarith
    · have : 360 * ((x : ℚ) + 1) / (2 : ℚ) ^ h.toNat ≤ 360 := by rw [div_le_iff₀ hpq]; nlinarith
      linarith

/-- the midpoint of the extreme longitudes of the eight vertices: exactly `360·(2x+1)/2^(h+1) − 180` -/
theorem centreMid_lon_val (x h f v : Int) (n s : Dy) (hh : 0 ≤ h ∧ h ≤ 35) (hx : 0 ≤ x ∧ x < 2 ^ h.toNat) :
    val (centreMid x h f v n s (·.lon)) = (180 * (2 * (x : ℚ) + 1)) / (2 : ℚ) ^ h.toNat - 180 := by
  have hp := pow_h_bound h hh
  have hp0 := two_pow_pos h.toNat
  have hpq : (0 : ℚ) < (2 : ℚ) ^ h.toNat := by positivity
  have hxq : (x : ℚ) < (2 : ℚ) ^ h.toNat := by exact_mod_cast hx.2
  have hx0 : (0 : ℚ) ≤ x := by exact_mod_cast hx.1
  have hx1q : (x : ℚ) + 1 ≤ (2 : ℚ) ^ h.toNat := by exact_mod_cast (show x + 1 ≤ 2 ^ h.toNat by omega)
  have hw := westLon_val x h hh ⟨hx.1, by omega⟩
  have he := eastLon_val x h hh hx
  push_cast at he
  have hwl : -180 ≤ val (westLon x h) ∧ val (westLon x h) < 180 := by
    rw [hw]; constructor
    · have : 0 ≤ 360 * (x : ℚ) / (2 : ℚ) ^ h.toNat := by positivity
      linarith
    · have : 360 * (x : ℚ) / (2 : ℚ) ^ h.toNat < 360 := by rw [div_lt_iff₀ hpq]; nlinarith
      linarith
  have hel : -180 < val (eastLon x h) ∧ val (eastLon x h) ≤ 180 := by
    rw [he]; constructor
    · have : 0 < 360 * ((x : ℚ) + 1) / (2 : ℚ) ^ h.toNat := by positivity
      linarith
    · have : 360 * ((x : ℚ) + 1) / (2 : ℚ) ^ h.toNat ≤ 360 := by rw [div_le_iff₀ hpq]; nlinarith
      linarith
  have hwe : val (westLon x h) < val (eastLon x h) := by
    rw [hw, he]
    have : 360 * (x : ℚ) / (2 : ℚ) ^ h.toNat < 360 * ((x : ℚ) + 1) / (2 : ℚ) ^ h.toNat := by
      apply div_lt_div_of_pos_right _ hpq; linarith
    linarith
  have hwok : lt c180 (F64.abs (westLon x h)) = false := by
    apply lt_false_of_val_le; rw [val_abs, val_c180, abs_le]; constructor <;> linarith
  have heok : lt c180 (F64.abs (eastLon x h)) = false := by
    apply lt_false_of_val_le; rw [val_abs, val_c180, abs_le]; constructor <;> linarith
  -- comparisons used by the max / min folds
  have k1 : lt (westLon x h) (westLon x h) = false := lt_false_of_val_le _ _ (le_refl _)
  have k2 : lt (westLon x h) (eastLon x h) = true := lt_true_of_val_lt _ _ hwe
  have k3 : lt (eastLon x h) (eastLon x h) = false := lt_false_of_val_le _ _ (le_refl _)
  have k4 : lt (eastLon x h) (westLon x h) = false := lt_false_of_val_le _ _ (le_of_lt hwe)
  -- the centre's longitude is the midpoint of east and west
  have hmid : centreMid x h f v n s (·.lon) = div (add (eastLon x h) (westLon x h)) c2 := by
    unfold centreMid vertices
    simp only [wrapLon_id x h hx, List.map, newPointLossy_lon _ _ _ hwok, newPointLossy_lon _ _ _ heok, dyMax, dyMin,
      List.foldl, k1, k2, k3, k4, Bool.false_eq_true, if_false, if_true]
  rw [hmid]
  -- value of the midpoint
  have hsum : val (eastLon x h) + val (westLon x h) = ((360 * (2 * x + 1) - 360 * 2 ^ h.toNat : Int) : ℚ) / (2 : ℚ) ^ h.toNat := by
    rw [hw, he]; push_cast; field_simp; ring
  have ha : val (add (eastLon x h) (westLon x h)) = ((360 * (2 * x + 1) - 360 * 2 ^ h.toNat : Int) : ℚ) / (2 : ℚ) ^ h.toNat := by
    rw [add_val_exact _ _ (by rw [hsum]; exact repVal_frac _ h (by omega) (by omega)), hsum]
  have hq : val (add (eastLon x h) (westLon x h)) / val c2 =
      ((180 * (2 * x + 1) - 180 * 2 ^ h.toNat : Int) : ℚ) / (2 : ℚ) ^ h.toNat := by
    rw [ha, val_c2]; push_cast; field_simp; ring
  have hd : val (div (add (eastLon x h) (westLon x h)) c2) =
      ((180 * (2 * x + 1) - 180 * 2 ^ h.toNat : Int) : ℚ) / (2 : ℚ) ^ h.toNat := by
    rw [div_val_exact _ _ (by decide) (by rw [hq]; exact repVal_frac _ h (by omega) (by omega)), hq]
  have hdv : val (div (add (eastLon x h) (westLon x h)) c2) = (180 * (2 * (x : ℚ) + 1)) / (2 : ℚ) ^ h.toNat - 180 := by
    rw [hd]; push_cast; field_simp
  exact hdv

theorem centreMid_lon_ok (x h f v : Int) (n s : Dy) (hh : 0 ≤ h ∧ h ≤ 35) (hx : 0 ≤ x ∧ x < 2 ^ h.toNat) :
    lt c180 (F64.abs (centreMid x h f v n s (·.lon))) = false := by
  have hp0 := two_pow_pos h.toNat
  have hpq : (0 : ℚ) < (2 : ℚ) ^ h.toNat := by positivity
  have hx0 : (0 : ℚ) ≤ x := by exact_mod_cast hx.1
  have hx1q : (x : ℚ) + 1 ≤ (2 : ℚ) ^ h.toNat := by exact_mod_cast (show x + 1 ≤ 2 ^ h.toNat by omega)
  apply lt_false_of_val_le; rw [val_abs, val_c180, centreMid_lon_val x h f v n s hh hx, abs_le]
  have h1 : 0 ≤ (180 * (2 * (x : ℚ) + 1)) / (2 : ℚ) ^ h.toNat := by positivity
  have h2 : (180 * (2 * (x : ℚ) + 1)) / (2 : ℚ) ^ h.toNat ≤ 360 := by rw [div_le_iff₀ hpq]; nlinarith
  constructor <;> linarith

/-- the longitude of the centre: exactly the midpoint of the column -/
theorem centre_lon_val (x h f v : Int) (n s : Dy) (hh : 0 ≤ h ∧ h ≤ 35) (hx : 0 ≤ x ∧ x < 2 ^ h.toNat) :
    val (centre x h f v n s).lon = (180 * (2 * (x : ℚ) + 1)) / (2 : ℚ) ^ h.toNat - 180 := by
  unfold centre
  rw [newPointLossy_lon _ _ _ (centreMid_lon_ok x h f v n s hh hx)]
  exact centreMid_lon_val x h f v n s hh hx

/-- **centre_roundtrip_x**: the column of the centre of column `x` is `x`, for every valid column at every zoom 0..35 -/
theorem centre_roundtrip_x (x h f v : Int) (n s : Dy) (hh : 0 ≤ h ∧ h ≤ 35) (hx : 0 ≤ x ∧ x < 2 ^ h.toNat) :
    xIndex (centre x h f v n s).lon h = x := by
  have hp := pow_h_bound h hh
  have hp0 := two_pow_pos h.toNat
  have hpq : (0 : ℚ) < (2 : ℚ) ^ h.toNat := by positivity
  have hxq : (x : ℚ) + 1 ≤ (2 : ℚ) ^ h.toNat := by exact_mod_cast (show x + 1 ≤ 2 ^ h.toNat by omega)
  have hx0 : (0 : ℚ) ≤ x := by exact_mod_cast hx.1
  have hc := centre_lon_val x h f v n s hh hx
  generalize (centre x h f v n s).lon = lon at hc
  unfold xIndex
  have hne : F64.eq lon c180 = false := by
    apply eq_false_of_val_ne; rw [hc, val_c180]
    intro hcc
    have : (180 * (2 * (x : ℚ) + 1)) / (2 : ℚ) ^ h.toNat < 360 := by rw [div_lt_iff₀ hpq]; nlinarith
    linarith
  simp only [hne, Bool.false_eq_true, if_false]
  have h1 : val (add lon c180) = ((180 * (2 * x + 1) : Int) : ℚ) / (2 : ℚ) ^ h.toNat := by
    have hs : val lon + val c180 = ((180 * (2 * x + 1) : Int) : ℚ) / (2 : ℚ) ^ h.toNat := by
      rw [hc, val_c180]; push_cast; ring
    rw [add_val_exact _ _ (by rw [hs]; exact repVal_frac _ h (by omega) (by omega)), hs]
  have h2 : val (div (add lon c180) c360) = ((2 * x + 1 : Int) : ℚ) / (2 : ℚ) ^ (h + 1).toNat := by
    have hq : val (add lon c180) / val c360 = ((2 * x + 1 : Int) : ℚ) / (2 : ℚ) ^ (h + 1).toNat := by
      rw [h1, val_c360]
      have : (h + 1).toNat = h.toNat + 1 := by omega
      rw [this, pow_succ]; push_cast; field_simp; ring
    rw [div_val_exact _ _ (by decide) (by rw [hq]; exact repVal_frac _ (h + 1) (by omega) (by omega)), hq]
  have h3 : val (scale (div (add lon c180) c360) h) = ((2 * x + 1 : Int) : ℚ) / 2 := by
    have hq : val (div (add lon c180) c360) * (2 : ℚ) ^ h = ((2 * x + 1 : Int) : ℚ) / 2 := by
      rw [h2]
      have e1 : (2 : ℚ) ^ h = (2 : ℚ) ^ h.toNat := by rw [← zpow_natCast]; congr 1; omega
      have e2 : (h + 1).toNat = h.toNat + 1 := by omega
      rw [e1, e2, pow_succ]; field_simp
    have hr : RepVal (((2 * x + 1 : Int) : ℚ) / 2) := by
      have := repVal_frac (2 * x + 1) 1 (by omega) (by omega)
      simpa using this
    rw [scale_val_exact _ _ (by rw [hq]; exact hr), hq]
  have h4 : floorInt (scale (div (add lon c180) c360) h) = x := by
    rw [floorInt_val, h3, Int.floor_eq_iff]
    push_cast; constructor <;> linarith
  simp only [h4]
  rw [if_neg (by omega)]

theorem newPointLossy_alt (lon lat alt t : Dy) (h : lt c180 (F64.abs lon) = false) (hl : setLat lat = some t) :
    (newPointLossy lon lat alt).alt = alt := by
  unfold newPointLossy
  simp only [h, Bool.false_eq_true, if_false, hl]

theorem val_pow2 (n : Int) : val (F64.pow2 n) = (2 : ℚ) ^ n := by simp [val, F64.pow2]

/-- **centre_roundtrip_f**: the vertical index of the centre of cell `f` is `f`, for every vertical index below `2^52` in
magnitude at every zoom pair 0..35, whenever the three latitudes involved (the two row boundaries supplied by the oracle and
their midpoint) are accepted by `SetLat` — otherwise the vertex code leaves the altitude at 0 -/
theorem centre_roundtrip_f (x h f v : Int) (n s tn ts tm : Dy) (hh : 0 ≤ h ∧ h ≤ 35) (hx : 0 ≤ x ∧ x < 2 ^ h.toNat)
    (hv : 0 ≤ v ∧ v ≤ 35) (hf : f.natAbs < 2 ^ 52)
    (hn : setLat n = some tn) (hs : setLat s = some ts) (hm : setLat (centreMid x h f v n s (·.lat)) = some tm) :
    fIndex (centre x h f v n s).alt v = f := by
  have hp := pow_h_bound h hh
  have hp0 := two_pow_pos h.toNat
  have hpq : (0 : ℚ) < (2 : ℚ) ^ h.toNat := by positivity
  have hx0 : (0 : ℚ) ≤ x := by exact_mod_cast hx.1
  have hx1q : (x : ℚ) + 1 ≤ (2 : ℚ) ^ h.toNat := by exact_mod_cast (show x + 1 ≤ 2 ^ h.toNat by omega)
  have hxq : (x : ℚ) < (2 : ℚ) ^ h.toNat := by exact_mod_cast hx.2
  -- longitudes of the vertices and of the centre are accepted
  obtain ⟨hwok, heok⟩ := edges_ok x h hh hx
  have hclok := centreMid_lon_ok x h f v n s hh hx
  -- altitudes of the vertices
  have hfl : f.natAbs < 2 ^ 53 := by omega
  have hbot : val (scale (ofInt f) (25 - v)) = (f : ℚ) * (2 : ℚ) ^ (25 - v) := by
    have h1 : val (ofInt f) = (f : ℚ) := ofInt_val_exact f (repVal_int _ hfl)
    have hq : val (ofInt f) * (2 : ℚ) ^ (25 - v) = (f : ℚ) * (2 : ℚ) ^ (25 - v) := by rw [h1]
    rw [scale_val_exact _ _ (by rw [hq]; exact repVal_dyadic _ _ hfl (by omega)), hq]
  have htop : val (add (scale (ofInt f) (25 - v)) (F64.pow2 (25 - v))) = ((f + 1 : Int) : ℚ) * (2 : ℚ) ^ (25 - v) := by
    have hq : val (scale (ofInt f) (25 - v)) + val (F64.pow2 (25 - v)) = ((f + 1 : Int) : ℚ) * (2 : ℚ) ^ (25 - v) := by
      rw [hbot, val_pow2]; push_cast; ring
    rw [add_val_exact _ _ (by rw [hq]; exact repVal_dyadic _ _ (by omega) (by omega)), hq]
  have hlt : val (scale (ofInt f) (25 - v)) < val (add (scale (ofInt f) (25 - v)) (F64.pow2 (25 - v))) := by
    rw [hbot, htop]; push_cast
    have := two_zpow_pos (25 - v)
    nlinarith
  set bot := scale (ofInt f) (25 - v) with hbdef
  set top := add bot (F64.pow2 (25 - v)) with htdef
  have a1 : lt bot bot = false := lt_false_of_val_le _ _ (le_refl _)
  have a2 : lt bot top = true := lt_true_of_val_lt _ _ hlt
  have a3 : lt top top = false := lt_false_of_val_le _ _ (le_refl _)
  have a4 : lt top bot = false := lt_false_of_val_le _ _ (le_of_lt hlt)
  have hmidA : centreMid x h f v n s (·.alt) = div (add top bot) c2 := by
    unfold centreMid vertices altOf
    simp only [wrapLon_id x h hx, List.map, newPointLossy_alt _ _ _ _ hwok hn, newPointLossy_alt _ _ _ _ heok hn,
      newPointLossy_alt _ _ _ _ hwok hs, newPointLossy_alt _ _ _ _ heok hs, dyMax, dyMin, List.foldl, ← hbdef, ← htdef,
      a1, a2, a3, a4, Bool.false_eq_true, if_false, if_true]
  have hca : (centre x h f v n s).alt = div (add top bot) c2 := by
    unfold centre
    rw [newPointLossy_alt _ _ _ _ hclok hm, hmidA]
  rw [hca]
  -- the midpoint (2f+1)·2^(24-v), and its index
  have hsum : val top + val bot = ((2 * f + 1 : Int) : ℚ) * (2 : ℚ) ^ (25 - v) := by
    rw [htop, hbot]; push_cast; ring
  have ha : val (add top bot) = ((2 * f + 1 : Int) : ℚ) * (2 : ℚ) ^ (25 - v) := by
    rw [add_val_exact _ _ (by rw [hsum]; exact repVal_dyadic _ _ (by omega) (by omega)), hsum]
  have hq : val (add top bot) / val c2 = ((2 * f + 1 : Int) : ℚ) * (2 : ℚ) ^ (24 - v) := by
    rw [ha, val_c2]
    have : (2 : ℚ) ^ (25 - v) = (2 : ℚ) ^ (24 - v) * 2 := by
      rw [show (25 : Int) - v = (24 - v) + 1 by ring, zpow_add₀ two_ne, zpow_one]
    rw [this]; ring
  have hd : val (div (add top bot) c2) = ((2 * f + 1 : Int) : ℚ) * (2 : ℚ) ^ (24 - v) := by
    rw [div_val_exact _ _ (by decide) (by rw [hq]; exact repVal_dyadic _ _ (by omega) (by omega)), hq]
  unfold fIndex
  have hsc : val (scale (div (add top bot) c2) (v - 25)) = ((2 * f + 1 : Int) : ℚ) / 2 := by
    have hq2 : val (div (add top bot) c2) * (2 : ℚ) ^ (v - 25) = ((2 * f + 1 : Int) : ℚ) / 2 := by
      rw [hd, mul_assoc, ← zpow_add₀ two_ne]
      have : (24 - v) + (v - 25) = (-1 : Int) := by ring
      rw [this, zpow_neg, zpow_one]; ring
    have hr : RepVal (((2 * f + 1 : Int) : ℚ) / 2) := by
      have := repVal_frac (2 * f + 1) 1 (by omega) (by omega)
      simpa using this
    rw [scale_val_exact _ _ (by rw [hq2]; exact hr), hq2]
  rw [floorInt_val, hsc, Int.floor_eq_iff]
  push_cast; constructor <;> linarith

/-- the hypotheses of `centre_roundtrip_f` are satisfiable, and its conclusion holds, on a concrete voxel below ground -/
example : (setLat ⟨10, 0⟩).isSome = true ∧ (setLat ⟨5, 0⟩).isSome = true ∧
    (setLat (centreMid 3 2 (-1) 1 ⟨10, 0⟩ ⟨5, 0⟩ (·.lat))).isSome = true ∧
    fIndex (centre 3 2 (-1) 1 ⟨10, 0⟩ ⟨5, 0⟩).alt 1 = -1 ∧ xIndex (centre 3 2 (-1) 1 ⟨10, 0⟩ ⟨5, 0⟩).lon 2 = 3 := by
  decide +kernel

end SpatialId.C02
