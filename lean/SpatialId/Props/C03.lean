/-
C03 — changing zoom yields exactly the voxels that refine or contain the input.
Model: SpatialId/Model/Zoom.lean, tied to integrate.{ChangeExtendedSpatialIdsZoom, ChangeSpatialIdsZoom,
HorizontalZoom, HorizontalZoomMinMax, VerticalZoom} by the op families chgExt, chgSp, axis, axisLattice.
Semantics: SpatialId/Spec/Region.lean (voxels as subsets of ℝ³).
-/
import SpatialId.Lemmas.Zoom
namespace SpatialId.C03
open SpatialId

/-- well-formedness needed by the theorems: non-negative zooms and horizontal indices (every valid ID has it) -/
def wf (e : Ext) : Prop := 0 ≤ e.h ∧ 0 ≤ e.v ∧ 0 ≤ e.x ∧ 0 ≤ e.y

theorem wf_of_valid (e : Ext) (h : e.valid) : wf e := by
  unfold Ext.valid at h; unfold wf; omega

/-- all results are at the requested zooms -/
theorem out_zoom (es : List Ext) (H V : Int) (o : Ext) (h : o ∈ changeExtE es H V) : o.h = H ∧ o.v = V := by
  unfold changeExtE at h
  rw [mem_dedup] at h
  simp only [List.mem_flatMap, zoomOne, List.mem_map] at h
  obtain ⟨e, _, p, _, f, _, rfl⟩ := h
  exact ⟨rfl, rfl⟩

/-- the result has no duplicates -/
theorem out_nodup (es : List Ext) (H V : Int) : (changeExtE es H V).Nodup := nodup_dedup _

/-- **change_exact**: the result is exactly the set of target-zoom voxels that intersect the inputs. -/
theorem change_exact (es : List Ext) (H V : Int) (hH : 0 ≤ H) (hV : 0 ≤ V) (hes : ∀ e ∈ es, wf e) (o : Ext) :
    o ∈ changeExtE es H V ↔ o.h = H ∧ o.v = V ∧ (region o ∩ regionL es).Nonempty := by
  unfold changeExtE
  rw [mem_dedup, List.mem_flatMap]
  constructor
  · rintro ⟨e, he, ho⟩
    obtain ⟨h1, h2, h3, h4⟩ := hes e he
    rw [mem_zoomOne H V e o hH hV h1 h2 h3 h4] at ho
    obtain ⟨p, hp1, hp2⟩ := (meets_iff e o).mpr ho.2.2
    exact ⟨ho.1, ho.2.1, p, hp2, e, he, hp1⟩
  · rintro ⟨h1, h2, p, hp, e, he, hpe⟩
    obtain ⟨g1, g2, g3, g4⟩ := hes e he
    exact ⟨e, he, (mem_zoomOne H V e o hH hV g1 g2 g3 g4).mpr ⟨h1, h2, (meets_iff e o).mp ⟨p, hpe, hp⟩⟩⟩

/-- the horizontal and the vertical axis are treated independently -/
theorem axes_independent (H V : Int) (e o : Ext) :
    o ∈ zoomOne H V e ↔ o.h = H ∧ o.v = V ∧ (o.x, o.y) ∈ hZoomIdx e.h e.x e.y H ∧ o.f ∈ vZoomIdx e.v e.f V := by
  unfold zoomOne
  simp only [List.mem_flatMap, List.mem_map]
  constructor
  · rintro ⟨p, hp, f, hf, rfl⟩; exact ⟨rfl, rfl, hp, hf⟩
  · rintro ⟨rfl, rfl, hp, hf⟩; exact ⟨(o.x, o.y), hp, o.f, hf, by cases o; rfl⟩

/-- raising the zoom: every produced voxel lies inside the input … -/
theorem zoomIn_subset (H V : Int) (e o : Ext) (he : wf e) (hH : e.h ≤ H) (hV : e.v ≤ V) (ho : o ∈ zoomOne H V e) :
    region o ⊆ region e := by
  obtain ⟨h1, h2, h3, h4⟩ := he
  rw [mem_zoomOne H V e o (by omega) (by omega) h1 h2 h3 h4] at ho
  obtain ⟨rfl, rfl, hm⟩ := ho
  exact region_subset_of_meets e o (by omega) (by omega) hm

/-- … and together they cover it: the union of the descendants is the input -/
theorem zoomIn_cover (H V : Int) (e : Ext) (he : wf e) (hH : e.h ≤ H) (hV : e.v ≤ V) (p : Pt) (hp : p ∈ region e) :
    ∃ o ∈ zoomOne H V e, p ∈ region o := by
  obtain ⟨h1, h2, h3, h4⟩ := he
  let o : Ext := ⟨H, cell H.toNat p.u, cell H.toNat p.w, V, cell V.toNat p.a⟩
  have hpo : p ∈ region o := ⟨rfl, rfl, rfl⟩
  refine ⟨o, ?_, hpo⟩
  rw [mem_zoomOne H V e o (by omega) (by omega) h1 h2 h3 h4]
  exact ⟨rfl, rfl, (meets_iff e o).mp ⟨p, hp, hpo⟩⟩

/-- distinct voxels of one zoom pair never share a point (so the descendants partition the input) -/
theorem same_zoom_disjoint (o o' : Ext) (hh : o.h = o'.h) (hv : o.v = o'.v) (hne : o ≠ o') :
    region o ∩ region o' = ∅ := by
  apply Set.eq_empty_of_forall_notMem
  rintro p ⟨⟨a1, a2, a3⟩, ⟨b1, b2, b3⟩⟩
  apply hne
  rw [hh] at a1 a2; rw [hv] at a3
  cases o; cases o'
  simp only [Ext.mk.injEq] at *
  exact ⟨hh, a1.symm.trans b1, a2.symm.trans b2, hv, a3.symm.trans b3⟩

theorem length_flatMap_const {α β} (l : List α) (f : α → List β) (c : Nat) (h : ∀ a ∈ l, (f a).length = c) :
    (l.flatMap f).length = l.length * c := by
  induction l with
  | nil => simp
  | cons a l ih =>
    simp only [List.flatMap_cons, List.length_append, List.length_cons]
    rw [h a (List.mem_cons_self), ih (fun b hb => h b (List.mem_cons_of_mem _ hb))]
    rw [Nat.add_mul, Nat.one_mul, Nat.add_comm]

/-- raising the zooms by `dh`, `dv` produces `4^dh · 2^dv` voxels per input -/
theorem zoomIn_count (e : Ext) (dh dv : Nat) :
    (zoomOne (e.h + dh) (e.v + dv) e).length = 4 ^ dh * 2 ^ dv := by
  unfold zoomOne
  have hv : (vZoomIdx e.v e.f (e.v + dv)).length = 2 ^ dv := by
    unfold vZoomIdx vZoomMinMax
    simp only []
    by_cases h : (dv : Int) > 0
    · have h' : e.v + ↑dv - e.v > 0 := by omega
      simp only [h', if_true, length_irange]
      have : (e.v + ↑dv - e.v).natAbs = dv := by omega
      rw [this, pow2_natCast]
      have hp := two_pow_pos dv
      have : e.f * 2 ^ dv + 2 ^ dv - 1 + 1 - e.f * 2 ^ dv = ((2 ^ dv : Nat) : Int) := by push_cast; omega
      rw [this]; exact Int.toNat_natCast _
    · have h0 : dv = 0 := by omega
      subst h0
      simp [length_irange]
  have hh : (hZoomIdx e.h e.x e.y (e.h + dh)).length = 4 ^ dh := by
    unfold hZoomIdx hZoomMinMax
    simp only []
    by_cases h : (dh : Int) > 0
    · have h' : e.h + ↑dh - e.h > 0 := by omega
      simp only [h', if_true]
      have : (e.h + ↑dh - e.h).natAbs = dh := by omega
      rw [this, pow2_natCast]
      have e1 : ∀ i : Int, i * 2 ^ dh + 2 ^ dh - 1 + 1 - i * 2 ^ dh = ((2 ^ dh : Nat) : Int) := by
        intro i; push_cast; omega
      rw [length_flatMap_const _ _ (2 ^ dh)]
      · rw [length_irange, e1, Int.toNat_natCast, ← Nat.mul_pow]
      · intro a _; rw [List.length_map, length_irange, e1, Int.toNat_natCast]
    · have h0 : dh = 0 := by omega
      subst h0
      simp [irange]
  rw [length_flatMap_const _ _ (2 ^ dv)]
  · rw [hh]
  · intro a _; rw [List.length_map, hv]

theorem irange_self (i : Int) : irange i i = [i] := by simp [irange]

/-- lowering (or keeping) the horizontal zoom yields one (x, y) pair -/
theorem hZoomIdx_out (zi x y zo : Int) (h : zo ≤ zi) : ∃ p, hZoomIdx zi x y zo = [p] := by
  unfold hZoomIdx hZoomMinMax
  simp only []
  have c1 : ¬ (zo - zi > 0) := by omega
  by_cases a1 : zo - zi < 0
  · rw [if_neg c1, if_pos a1]; simp only [irange_self]; exact ⟨_, rfl⟩
  · rw [if_neg c1, if_neg a1]; simp only [irange_self]; exact ⟨_, rfl⟩

/-- lowering (or keeping) the vertical zoom yields one index -/
theorem vZoomIdx_out (zi f zo : Int) (h : zo ≤ zi) : ∃ a, vZoomIdx zi f zo = [a] := by
  unfold vZoomIdx vZoomMinMax
  simp only []
  have c1 : ¬ (zo - zi > 0) := by omega
  by_cases a1 : zo - zi < 0
  · rw [if_neg c1, if_pos a1]; simp only [irange_self]; exact ⟨_, rfl⟩
  · rw [if_neg c1, if_neg a1]; simp only [irange_self]; exact ⟨_, rfl⟩

/-- lowering the zooms returns the single ancestor, and it contains the input -/
theorem zoomOut_ancestor (H V : Int) (e : Ext) (he : wf e) (hH0 : 0 ≤ H) (hV0 : 0 ≤ V) (hH : H ≤ e.h) (hV : V ≤ e.v) :
    ∃ a, zoomOne H V e = [a] ∧ a.h = H ∧ a.v = V ∧ region e ⊆ region a := by
  obtain ⟨h1, h2, h3, h4⟩ := he
  have hlen : ∃ a, zoomOne H V e = [a] := by
    obtain ⟨p, hp⟩ := hZoomIdx_out e.h e.x e.y H hH
    obtain ⟨f, hf⟩ := vZoomIdx_out e.v e.f V hV
    exact ⟨⟨H, p.1, p.2, V, f⟩, by simp [zoomOne, hp, hf]⟩
  obtain ⟨a, ha⟩ := hlen
  have hmem : a ∈ zoomOne H V e := by rw [ha]; exact List.mem_singleton.mpr rfl
  rw [mem_zoomOne H V e a hH0 hV0 h1 h2 h3 h4] at hmem
  obtain ⟨rfl, rfl, hm⟩ := hmem
  refine ⟨a, ha, rfl, rfl, ?_⟩
  have hm' : meets a e := by
    unfold meets at *
    exact ⟨(axisMeet_symm _ _ _ _).mp hm.1, (axisMeet_symm _ _ _ _).mp hm.2.1, (axisMeet_symm _ _ _ _).mp hm.2.2⟩
  exact region_subset_of_meets a e (by omega) (by omega) hm'

/-- floor semantics below ground: the ancestor of `f = -1` is `-1` at every coarser zoom -/
theorem neg_floor (z z' : Int) (_h0 : 0 ≤ z') (h : z' ≤ z) : vZoomIdx z (-1) z' = [-1] := by
  unfold vZoomIdx vZoomMinMax
  simp only []
  have i1 : ∀ i : Int, irange i i = [i] := by intro i; simp [irange]
  by_cases a : z' - z < 0
  · have c : ¬ (z' - z > 0) := by omega
    simp only [c, a, if_true, if_false, i1]
    rw [arithShift_neg _ _ a]
    have hp := two_pow_pos (-(z' - z)).toNat
    have : (-1 : Int) / 2 ^ (-(z' - z)).toNat = -1 := by
      apply Int.le_antisymm
      · have := Int.ediv_lt_of_lt_mul hp (show (-1 : Int) < 0 * 2 ^ (-(z' - z)).toNat by omega); omega
      · exact Int.le_ediv_of_mul_le hp (by omega)
    rw [this]
  · have : z' = z := by omega
    subst this
    simp [i1]

/-- string level: the error behaviour of `ChangeExtendedSpatialIdsZoom` -/
theorem changeExt_zoom_err (ids : List String) (H V : Int) (h : ¬ (0 ≤ H ∧ H ≤ 35 ∧ 0 ≤ V ∧ V ≤ 35)) :
    changeExt ids H V = .err := by
  unfold changeExt checkZoom
  have : (decide (0 ≤ H) && decide (H ≤ 35) && (decide (0 ≤ V) && decide (V ≤ 35))) = false := by
    simp only [Bool.and_eq_false_iff, decide_eq_false_iff_not]; omega
  simp [this]

theorem changeExt_malformed_err (ids : List String) (H V : Int) (h : parseAll ids = none) :
    changeExt ids H V = .err := by
  unfold changeExt
  split
  · rfl
  · simp [h]

theorem changeExt_ok (ids : List String) (es : List Ext) (H V : Int) (hz : 0 ≤ H ∧ H ≤ 35 ∧ 0 ≤ V ∧ V ≤ 35)
    (h : parseAll ids = some es) : changeExt ids H V = .ok ((changeExtE es H V).map Ext.id) := by
  unfold changeExt checkZoom
  have : (decide (0 ≤ H) && decide (H ≤ 35) && (decide (0 ≤ V) && decide (V ≤ 35))) = true := by
    simp only [Bool.and_eq_true, decide_eq_true_eq]; omega
  simp [this, h]

/-- the model never panics on any input strings -/
theorem changeExt_no_panic (ids : List String) (H V : Int) : changeExt ids H V ≠ .panic := by
  unfold changeExt
  split
  · simp
  · split <;> simp

/-- non-vacuity / regression witnesses (kernel-evaluated) -/
example : zoomOne 4 4 ⟨5, 1, 1, 5, -1⟩ = [⟨4, 0, 0, 4, -1⟩] := by decide
example : (zoomOne 6 6 ⟨5, 1, 1, 5, -1⟩).length = 8 := by decide
example : wf ⟨5, 1, 1, 5, -1⟩ := by unfold wf; decide

end SpatialId.C03
