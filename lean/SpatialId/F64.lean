/-
Software binary64 over dyadic rationals (finite values only; round to nearest, ties to even; subnormals
included; no overflow handling — the library never leaves the finite range on its documented domain).
A value is `m · 2^e`.  `rnd` rounds an exact dyadic to the nearest binary64.  Core Lean only, so the driver
executes it and `decide` can evaluate it in the kernel.  Signed zero is not represented (−0 is read as 0).
-/
namespace SpatialId.F64

structure Dy where
  m : Int
  e : Int
deriving Repr, Inhabited, DecidableEq

def bitLen (a : Nat) : Nat := if a = 0 then 0 else a.log2 + 1

/-- round the exact dyadic `m·2^e` to the nearest binary64 (ties to even), subnormals included -/
def rnd (m : Int) (e : Int) : Dy :=
  if m = 0 then ⟨0, 0⟩ else
  let a := m.natAbs
  let len : Int := bitLen a
  let q : Int := max (e + len - 53) (-1074)
  if q ≤ e then ⟨m, e⟩ else
    let sh := (q - e).toNat
    let fl := a >>> sh
    let rem := a - (fl <<< sh)
    let half := 1 <<< (sh - 1)
    let r := if rem > half ∨ (rem = half ∧ fl % 2 = 1) then fl + 1 else fl
    ⟨if m < 0 then -(r : Int) else r, q⟩

def ofInt (i : Int) : Dy := rnd i 0
def zero : Dy := ⟨0, 0⟩

def add (x y : Dy) : Dy :=
  let e := min x.e y.e
  rnd (x.m * 2 ^ (x.e - e).toNat + y.m * 2 ^ (y.e - e).toNat) e
def neg (x : Dy) : Dy := ⟨-x.m, x.e⟩
def sub (x y : Dy) : Dy := add x (neg y)
def mul (x y : Dy) : Dy := rnd (x.m * y.m) (x.e + y.e)
/-- `x / y`, `y ≠ 0`: quotient with ≥ 56 significant bits plus a sticky bit, then one rounding -/
def div (x y : Dy) : Dy :=
  if x.m = 0 then ⟨0, 0⟩ else
  let a := x.m.natAbs; let b := y.m.natAbs
  let k : Nat := (bitLen b + 56) - min (bitLen a) (bitLen b + 56) + 2
  let n := a <<< k
  let q := n / b
  let r := n % b
  let q2 : Nat := q * 2 + (if r = 0 then 0 else 1)
  let s : Int := if (x.m < 0) != (y.m < 0) then -1 else 1
  rnd (s * q2) (x.e - y.e - k - 1)

/-- `math.Floor` as an integer (then `int64(·)` is exact in range) -/
def floorInt (x : Dy) : Int :=
  if x.e ≥ 0 then x.m * 2 ^ x.e.toNat else x.m / 2 ^ (-x.e).toNat
/-- `math.Ceil` as an integer -/
def ceilInt (x : Dy) : Int := -floorInt (neg x)
def floor (x : Dy) : Dy := ofInt (floorInt x)
def ceil (x : Dy) : Dy := ofInt (ceilInt x)
def abs (x : Dy) : Dy := ⟨x.m.natAbs, x.e⟩

/-- comparison of exact values: sign of `x - y` -/
def cmpInt (x y : Dy) : Int :=
  let e := min x.e y.e
  x.m * 2 ^ (x.e - e).toNat - y.m * 2 ^ (y.e - e).toNat
def lt (x y : Dy) : Bool := decide (cmpInt x y < 0)
def le (x y : Dy) : Bool := decide (cmpInt x y ≤ 0)
def eq (x y : Dy) : Bool := decide (cmpInt x y = 0)

/-- exact power of two `2^n` -/
def pow2 (n : Int) : Dy := ⟨1, n⟩

/-- multiplication or division by the exact power of two `2^k`: in IEEE 754 arithmetic this only changes the
exponent (one rounding, which is the identity unless the result is subnormal) -/
def scale (x : Dy) (k : Int) : Dy := rnd x.m (x.e + k)

/-- binary64 bit pattern → value (`none` for NaN/Inf); −0 reads as 0 -/
def ofBits (b : Nat) : Option Dy :=
  let s := b >>> 63
  let ex := (b >>> 52) % 2048
  let fr := b % (2 ^ 52)
  if ex = 2047 then none else
  let m : Nat := if ex = 0 then fr else fr + 2 ^ 52
  let e : Int := if ex = 0 then -1074 else (ex : Int) - 1075
  some ⟨if s % 2 = 1 then -(m : Int) else m, e⟩

/-- value (as produced by `rnd`) → bit pattern -/
def toBits (x : Dy) : Nat :=
  if x.m = 0 then 0 else
  let a := x.m.natAbs
  let len := bitLen a
  let (a, e) : Nat × Int :=
    if len > 53 then (a >>> (len - 53), x.e + (len - 53 : Nat))
    else
      let up := min (53 - len : Nat) ((x.e + 1074).toNat)
      (a <<< up, x.e - up)
  let s : Nat := if x.m < 0 then 1 else 0
  let (ex, fr) : Nat × Nat := if a < 2 ^ 52 then (0, a) else ((e + 1075).toNat, a - 2 ^ 52)
  s <<< 63 + ex <<< 52 + fr

/-- nearest binary64 to the rational `n / d` (`d > 0`): used for decimal literals such as `85.0511287798` -/
def ofRat (n : Int) (d : Nat) : Dy := div ⟨n, 0⟩ ⟨d, 0⟩

end SpatialId.F64
