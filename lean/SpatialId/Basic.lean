/-
Basic vocabulary of the model: outcomes, Go's integer helpers, ID parsing and printing.
Core Lean only (no Mathlib) so that the driver links as a native executable.
-/
namespace SpatialId

/-- Result of an error-returning Go function. `panic` is produced exactly where the Go text
indexes a slice without a length check. -/
inductive Outcome (α : Type) where
  | ok : α → Outcome α
  | err : Outcome α
  | panic : Outcome α
deriving Repr, DecidableEq

namespace Outcome
def map {α β} (f : α → β) : Outcome α → Outcome β
  | ok a => ok (f a)
  | err => err
  | panic => panic
def bind {α β} (o : Outcome α) (f : α → Outcome β) : Outcome β :=
  match o with
  | ok a => f a
  | err => err
  | panic => panic
def ofOption {α} : Option α → Outcome α
  | some a => ok a
  | none => err
def isOk {α} : Outcome α → Bool
  | ok _ => true
  | _ => false
end Outcome

/-! ### integers -/

/-- `int64(math.Pow(2, float64(n)))` for `|n| ≤ 62`: exact for `n ≥ 0`, `0` for `n < 0`
(the fractional power truncates to zero). -/
def pow2 (n : Int) : Int := if 0 ≤ n then 2 ^ n.toNat else 0

/-- `common.CalculateArithmeticShift`: `index << shift` for `shift ≥ 0`, arithmetic (flooring)
`index >> -shift` otherwise. -/
def arithShift (i s : Int) : Int := if 0 ≤ s then i * 2 ^ s.toNat else i >>> (-s).toNat

/-- `shape.CheckZoom` -/
def checkZoom (z : Int) : Bool := decide (0 ≤ z) && decide (z ≤ 35)

/-- the integers `lo, lo+1, …, hi` (empty when `hi < lo`): the Go loop `for i := lo; i <= hi; i++`. -/
def irange (lo hi : Int) : List Int := (List.range (hi + 1 - lo).toNat).map (fun (i : Nat) => lo + (i : Int))

/-! ### de-duplication (Go: insertion into a `map[T]struct{}` followed by iteration in map order).
The model keeps the first occurrence of every element; the implementation returns some permutation
of this list, so all statements about it are phrased through membership, `Nodup` and length. -/
def dedup {α} [DecidableEq α] : List α → List α
  | [] => []
  | a :: l => let r := dedup l; if a ∈ r then r else a :: r

/-! ### strconv.ParseInt(s, 10, 64) -/

def digitVal (c : Char) : Option Nat :=
  if '0' ≤ c ∧ c ≤ '9' then some (c.toNat - '0'.toNat) else none

def parseDigits : List Char → Nat → Option Nat
  | [], acc => some acc
  | c :: cs, acc =>
    match digitVal c with
    | some d => parseDigits cs (acc * 10 + d)
    | none => none

/-- optional sign, at least one decimal digit, nothing else, value within int64. -/
def parseInt64Chars (cs : List Char) : Option Int :=
  let (neg, ds) : Bool × List Char :=
    match cs with
    | '-' :: r => (true, r)
    | '+' :: r => (false, r)
    | r => (false, r)
  if ds.isEmpty then none else
  match parseDigits ds 0 with
  | none => none
  | some n =>
    let v : Int := if neg then -(n : Int) else (n : Int)
    if -(2 ^ 63 : Int) ≤ v ∧ v < (2 ^ 63 : Int) then some v else none

def parseInt64 (s : String) : Option Int := parseInt64Chars s.toList

/-- the value `strconv.ParseInt`/`Atoi` return when the caller ignores the error: 0 on a syntax error,
the clamped value on a range error. -/
def parseInt64Lossy (s : String) : Int :=
  match parseInt64 s with
  | some v => v
  | none =>
    -- range error ⇒ clamped; syntax error ⇒ 0
    let cs := s.toList
    let (neg, ds) : Bool × List Char :=
      match cs with
      | '-' :: r => (true, r)
      | '+' :: r => (false, r)
      | r => (false, r)
    if ds.isEmpty then 0 else
    match parseDigits ds 0 with
    | none => 0
    | some _ => if neg then -(2 ^ 63 : Int) else (2 ^ 63 : Int) - 1


/-- `strings.Split(s, "/")` -/
def splitSlash (s : String) : List String := (s.split ('/' : Char)).toList.map (·.copy)

/-- `strconv.FormatInt(i, 10)` -/
def fmtInt (i : Int) : String := toString i

def joinSlash (l : List String) : String := "/".intercalate l

/-! ### strconv.FormatInt(n, 4) -/

/-- base-4 digits, most significant first, no leading zeros (`strconv.FormatInt(n, 4)`), with fuel -/
def digits4Aux : Nat → Nat → List Nat
  | 0, _ => []
  | fuel + 1, n => if n < 4 then [n] else digits4Aux fuel (n / 4) ++ [n % 4]

def digits4 (n : Nat) : List Nat := digits4Aux 64 n

/-- the characters of `strconv.FormatInt(v, 4)` as digit values; the sign `-` of a negative number is −1 -/
def fmtBase4 (v : Int) : List Int :=
  if v < 0 then (-1) :: (digits4 (-v).toNat).map Int.ofNat else (digits4 v.toNat).map Int.ofNat

/-! ### extended spatial IDs -/

structure Ext where
  h : Int
  x : Int
  y : Int
  v : Int
  f : Int
deriving DecidableEq, Repr, Inhabited

/-- `ExtendedSpatialID.ResetExtendedSpatialID`: exactly five `/`-separated int64 fields. -/
def parseExt (s : String) : Option Ext :=
  match splitSlash s with
  | [a, b, c, d, e] =>
    match parseInt64 a, parseInt64 b, parseInt64 c, parseInt64 d, parseInt64 e with
    | some h, some x, some y, some v, some f => some ⟨h, x, y, v, f⟩
    | _, _, _, _, _ => none
  | _ => none

/-- `ExtendedSpatialID.ID` -/
def Ext.id (e : Ext) : String :=
  joinSlash [fmtInt e.h, fmtInt e.x, fmtInt e.y, fmtInt e.v, fmtInt e.f]

/-- the spatial-ID notation `z/f/x/y` of a voxel with `h = v` (prints `h`). -/
def Ext.spId (e : Ext) : String :=
  joinSlash [fmtInt e.h, fmtInt e.f, fmtInt e.x, fmtInt e.y]

/-- documented validity of an ID: zooms in 0..35, indices inside the grid. -/
def Ext.valid (e : Ext) : Prop :=
  0 ≤ e.h ∧ e.h ≤ 35 ∧ 0 ≤ e.v ∧ e.v ≤ 35 ∧
  0 ≤ e.x ∧ e.x < 2 ^ e.h.toNat ∧ 0 ≤ e.y ∧ e.y < 2 ^ e.h.toNat ∧
  -(2 ^ e.v.toNat) ≤ e.f ∧ e.f < 2 ^ e.v.toNat

instance (e : Ext) : Decidable e.valid := by unfold Ext.valid; exact inferInstance

/-- parse every ID of a list; the first malformed one makes the whole call fail (Go returns the
error as soon as it meets it; no output is produced before). -/
def parseAll (ids : List String) : Option (List Ext) := ids.mapM parseExt

end SpatialId
