/-
Lemmas about the merge model: `Higher` is the floor ancestor, the unit voxels of an input are the
max-zoom voxels meeting it, the grouping fold, and the density count (pigeonhole on duplicate-free lists).
-/
import Mathlib.Data.List.Perm.Subperm
import Mathlib.Data.List.Nodup
import SpatialId.Model.Merge
import SpatialId.Props.C05
namespace SpatialId
open C05 (anc)

/-- the repaired vertical quotient of `Higher`: truncating quotient, minus one for a negative remainder = floor -/
theorem tdiv_floor_fix (f n : Int) (hn : 0 < n) : (if f.tmod n < 0 then f.tdiv n - 1 else f.tdiv n) = f / n := by
  have h1 := Int.mul_tdiv_add_tmod f n
  have h2 := Int.tmod_lt_of_pos f hn
  have h3 := Int.lt_tmod_of_pos f hn
  split
  · rename_i hneg
    have := (Int.ediv_emod_unique (a := f) (b := n) (r := f.tmod n + n) (q := f.tdiv n - 1) hn).mpr
      ⟨by rw [Int.mul_sub, Int.mul_one]; omega, by omega, by omega⟩
    exact this.1.symm
  · rename_i hnn
    have := (Int.ediv_emod_unique (a := f) (b := n) (r := f.tmod n) (q := f.tdiv n) hn).mpr
      ⟨by omega, by omega, by omega⟩
    exact this.1.symm

/-- `Higher` on an eligible, well-formed input is the floor ancestor at the target zooms -/
theorem higher_eq_anc (e : Ext) (H V : Int) (hH : H ≤ e.h) (hV : V ≤ e.v) (hx : 0 ≤ e.x) (hy : 0 ≤ e.y) :
    higher e (e.h - H) (e.v - V) = anc e H V := by
  unfold higher anc
  simp only []
  rw [pow2_nonneg_eq _ (by omega), pow2_nonneg_eq _ (by omega), Int.tdiv_eq_ediv_of_nonneg hx,
    Int.tdiv_eq_ediv_of_nonneg hy, tdiv_floor_fix _ _ (two_pow_pos _)]
  simp only [Ext.mk.injEq, and_true, true_and]
  omega

/-! ### the running maxima -/

theorem foldl_max_ge (l : List Ext) (k : Ext → Int) (m0 : Int) :
    m0 ≤ l.foldl (fun m e => if k e > m then k e else m) m0 ∧
    ∀ e ∈ l, k e ≤ l.foldl (fun m e => if k e > m then k e else m) m0 := by
  induction l generalizing m0 with
  | nil => simp
  | cons a l ih =>
    simp only [List.foldl_cons]
    by_cases c : k a > m0
    · obtain ⟨h1, h2⟩ := ih (k a)
      simp only [c, if_true]
      refine ⟨by omega, ?_⟩
      intro e he
      rcases List.mem_cons.mp he with rfl | he
      · exact h1
      · exact h2 e he
    · obtain ⟨h1, h2⟩ := ih m0
      simp only [c, if_false]
      refine ⟨h1, ?_⟩
      intro e he
      rcases List.mem_cons.mp he with rfl | he
      · omega
      · exact h2 e he

theorem maxZoomH_ge (es : List Ext) : 0 ≤ maxZoomH es ∧ ∀ e ∈ es, e.h ≤ maxZoomH es := foldl_max_ge es (·.h) 0
theorem maxZoomV_ge (es : List Ext) : 0 ≤ maxZoomV es ∧ ∀ e ∈ es, e.v ≤ maxZoomV es := foldl_max_ge es (·.v) 0

/-! ### unit voxels -/

theorem block_iff (a x n : Int) (hn : 0 < n) : (x * n ≤ a ∧ a ≤ (x + 1) * n - 1) ↔ a / n = x := by
  have e : (x + 1) * n - 1 = x * n + n - 1 := by rw [Int.add_mul, Int.one_mul]
  rw [e]; exact (ediv_eq_iff_block a x n hn).symm

/-- the unit voxels of `e` are exactly the `(mH, mV)` voxels that meet `e` -/
theorem mem_unitsOf (e u : Ext) (mH mV : Int) (hh : 0 ≤ e.h) (hv : 0 ≤ e.v) (hH : e.h ≤ mH) (hV : e.v ≤ mV) :
    u ∈ unitsOf e mH mV ↔ u.h = mH ∧ u.v = mV ∧ meets e u := by
  unfold unitsOf meets axisMeet
  simp only [List.mem_flatMap, List.mem_map, mem_irange]
  rw [pow2_nonneg_eq _ (by omega : 0 ≤ mH - e.h), pow2_nonneg_eq _ (by omega : 0 ≤ mV - e.v)]
  constructor
  · rintro ⟨x, hx, y, hy, z, hz, rfl⟩
    have l1 : e.h.toNat ≤ mH.toNat := by omega
    have l2 : e.v.toNat ≤ mV.toNat := by omega
    have e1 : mH.toNat - e.h.toNat = (mH - e.h).toNat := by omega
    have e2 : mV.toNat - e.v.toNat = (mV - e.v).toNat := by omega
    refine ⟨rfl, rfl, ?_, ?_, ?_⟩
    · simp only [l1, if_true, e1]; exact (block_iff _ _ _ (two_pow_pos _)).mp hx
    · simp only [l1, if_true, e1]; exact (block_iff _ _ _ (two_pow_pos _)).mp hy
    · simp only [l2, if_true, e2]; exact (block_iff _ _ _ (two_pow_pos _)).mp hz
  · rintro ⟨rfl, rfl, m1, m2, m3⟩
    have l1 : e.h.toNat ≤ u.h.toNat := by omega
    have l2 : e.v.toNat ≤ u.v.toNat := by omega
    have e1 : u.h.toNat - e.h.toNat = (u.h - e.h).toNat := by omega
    have e2 : u.v.toNat - e.v.toNat = (u.v - e.v).toNat := by omega
    simp only [l1, l2, if_true, e1, e2] at m1 m2 m3
    exact ⟨u.x, (block_iff _ _ _ (two_pow_pos _)).mpr m1, u.y, (block_iff _ _ _ (two_pow_pos _)).mpr m2,
      u.f, (block_iff _ _ _ (two_pow_pos _)).mpr m3, by cases u; rfl⟩

/-- same members as the zoom-in of C03 -/
theorem mem_unitsOf_iff_zoomOne (e u : Ext) (mH mV : Int) (hh : 0 ≤ e.h) (hv : 0 ≤ e.v) (hH : e.h ≤ mH) (hV : e.v ≤ mV)
    (hx : 0 ≤ e.x) (hy : 0 ≤ e.y) : u ∈ unitsOf e mH mV ↔ u ∈ zoomOne mH mV e := by
  rw [mem_unitsOf e u mH mV hh hv hH hV, mem_zoomOne mH mV e u (by omega) (by omega) hh hv hx hy]

/-! ### pigeonhole on duplicate-free lists -/

theorem subset_of_nodup_length_le {α} [DecidableEq α] (l m : List α) (hl : l.Nodup) (hsub : l ⊆ m)
    (hlen : m.length ≤ l.length) : m ⊆ l := by
  have hp : l.Subperm m := List.subperm_of_subset hl hsub
  have : l.Perm m := hp.perm_of_length_le hlen
  exact this.symm.subset

/-! ### density = the members cover the candidate voxel -/

/-- well-formed inputs (what every valid ID satisfies; f is unconstrained) -/
def wfL (es : List Ext) : Prop := ∀ e ∈ es, 0 ≤ e.h ∧ 0 ≤ e.v ∧ 0 ≤ e.x ∧ 0 ≤ e.y

theorem eligible_iff (H V : Int) (e : Ext) : eligible H V e = true ↔ H ≤ e.h ∧ V ≤ e.v := by
  simp [eligible]

theorem mem_membersOf (es : List Ext) (H V : Int) (k e : Ext) :
    e ∈ membersOf es H V k ↔ e ∈ es ∧ (H ≤ e.h ∧ V ≤ e.v) ∧ keyOf H V e = k := by
  simp only [membersOf, List.mem_filter, eligible_iff, decide_eq_true_eq]
  constructor
  · rintro ⟨⟨a, b⟩, c⟩; exact ⟨a, b, c⟩
  · rintro ⟨a, b, c⟩; exact ⟨⟨a, b⟩, c⟩

theorem keyOf_eq_anc (es : List Ext) (hw : wfL es) (H V : Int) (e : Ext) (he : e ∈ es) (h1 : H ≤ e.h) (h2 : V ≤ e.v) :
    keyOf H V e = anc e H V :=
  higher_eq_anc e H V h1 h2 (hw e he).2.2.1 (hw e he).2.2.2

/-- an eligible input lies inside its candidate voxel -/
theorem region_subset_anc (e : Ext) (H V : Int) (hH0 : 0 ≤ H) (hV0 : 0 ≤ V) (h1 : H ≤ e.h) (h2 : V ≤ e.v)
    (hx : 0 ≤ e.x) (hy : 0 ≤ e.y) : region e ⊆ region (anc e H V) := by
  obtain ⟨a, ha, _, _, hsub⟩ := C03.zoomOut_ancestor H V e ⟨by omega, by omega, hx, hy⟩ hH0 hV0 h1 h2
  rw [C05.zoomOne_out e H V h1 h2 hx hy] at ha
  simp only [List.cons.injEq, and_true] at ha
  rw [ha]; exact hsub

theorem anc_wf (e : Ext) (H V : Int) (hH0 : 0 ≤ H) (hV0 : 0 ≤ V) (hx : 0 ≤ e.x) (hy : 0 ≤ e.y) :
    C03.wf (anc e H V) :=
  ⟨hH0, hV0, Int.ediv_nonneg hx (Int.le_of_lt (two_pow_pos _)), Int.ediv_nonneg hy (Int.le_of_lt (two_pow_pos _))⟩

/-- the number of `(mH, mV)` descendants of a candidate at `(H, V)` is Go's threshold -/
theorem desc_count (k : Ext) (mH mV : Int) (h1 : k.h ≤ mH) (h2 : k.v ≤ mV) :
    ((zoomOne mH mV k).length : Int) = pow2 (mH - k.h) * pow2 (mH - k.h) * pow2 (mV - k.v) := by
  have e1 : mH = k.h + ((mH - k.h).toNat : Int) := by omega
  have e2 : mV = k.v + ((mV - k.v).toNat : Int) := by omega
  rw [pow2_nonneg_eq _ (by omega), pow2_nonneg_eq _ (by omega)]
  generalize (mH - k.h).toNat = dh at *
  generalize (mV - k.v).toNat = dv at *
  rw [e1, e2, C03.zoomIn_count k dh dv]
  push_cast
  have : (4 : Int) ^ dh = 2 ^ dh * 2 ^ dh := by rw [← Int.mul_pow]; rfl
  rw [this]

theorem dense_iff_filled (es : List Ext) (hw : wfL es) (H V : Int) (hH0 : 0 ≤ H) (hV0 : 0 ≤ V)
    (e0 : Ext) (he0 : e0 ∈ es) (g1 : H ≤ e0.h) (g2 : V ≤ e0.v) :
    let k := anc e0 H V
    let mH := maxZoomH es
    let mV := maxZoomV es
    let g : Group := ⟨k, membersOf es H V k, (membersOf es H V k).flatMap fun e => unitsOf e mH mV⟩
    g.dense (pow2 (mH - H) * pow2 (mH - H) * pow2 (mV - V)) = true ↔ region k ⊆ regionL (membersOf es H V k) := by
  intro k mH mV g
  have hmH := (maxZoomH_ge es).2
  have hmV := (maxZoomV_ge es).2
  have hkwf : C03.wf k := anc_wf e0 H V hH0 hV0 (hw e0 he0).2.2.1 (hw e0 he0).2.2.2
  have hkH : k.h = H := rfl
  have hkV : k.v = V := rfl
  have hHm : H ≤ mH := Int.le_trans g1 (hmH e0 he0)
  have hVm : V ≤ mV := Int.le_trans g2 (hmV e0 he0)
  -- descendants of k at the unit zooms
  let D := zoomOne mH mV k
  have hDnd : D.Nodup := zoomOne_nodup mH mV k
  have hDmem : ∀ u, u ∈ D ↔ u.h = mH ∧ u.v = mV ∧ meets k u :=
    fun u => mem_zoomOne mH mV k u (by omega) (by omega) hkwf.1 hkwf.2.1 hkwf.2.2.1 hkwf.2.2.2
  have hDlen : (D.length : Int) = pow2 (mH - H) * pow2 (mH - H) * pow2 (mV - V) := desc_count k mH mV hHm hVm
  -- the distinct units
  let U := dedup g.units
  have hUnd : U.Nodup := nodup_dedup _
  have hUmem : ∀ u, u ∈ U ↔ ∃ e ∈ membersOf es H V k, u.h = mH ∧ u.v = mV ∧ meets e u := by
    intro u
    simp only [U, g, mem_dedup, List.mem_flatMap]
    constructor
    · rintro ⟨e, he, hu⟩
      obtain ⟨hes, ⟨h1, h2⟩, _⟩ := (mem_membersOf es H V k e).mp he
      exact ⟨e, he, (mem_unitsOf e u mH mV (hw e hes).1 (hw e hes).2.1 (hmH e hes) (hmV e hes)).mp hu⟩
    · rintro ⟨e, he, hu⟩
      obtain ⟨hes, ⟨h1, h2⟩, _⟩ := (mem_membersOf es H V k e).mp he
      exact ⟨e, he, (mem_unitsOf e u mH mV (hw e hes).1 (hw e hes).2.1 (hmH e hes) (hmV e hes)).mpr hu⟩
  -- members lie inside k
  have hmem_sub : ∀ e ∈ membersOf es H V k, region e ⊆ region k := by
    intro e he
    obtain ⟨hes, ⟨h1, h2⟩, hk⟩ := (mem_membersOf es H V k e).mp he
    rw [keyOf_eq_anc es hw H V e hes h1 h2] at hk
    rw [← hk]
    exact region_subset_anc e H V hH0 hV0 h1 h2 (hw e hes).2.2.1 (hw e hes).2.2.2
  -- every unit is a descendant
  have hUD : U ⊆ D := by
    intro u hu
    obtain ⟨e, he, r1, r2, hm⟩ := (hUmem u).mp hu
    obtain ⟨hes, ⟨h1, h2⟩, _⟩ := (mem_membersOf es H V k e).mp he
    have hsub : region u ⊆ region e :=
      region_subset_of_meets e u (by rw [r1]; have := hmH e hes; omega) (by rw [r2]; have := hmV e hes; omega) hm
    obtain ⟨p, hp⟩ := region_nonempty u
    exact (hDmem u).mpr ⟨r1, r2, (meets_iff k u).mp ⟨p, hmem_sub e he (hsub hp), hp⟩⟩
  have hdense : g.dense (pow2 (mH - H) * pow2 (mH - H) * pow2 (mV - V)) = true ↔ U.length = D.length := by
    simp only [Group.dense, beq_iff_eq, ← hDlen]
    exact Int.ofNat_inj
  rw [hdense]
  constructor
  · intro hlen
    have hDU : D ⊆ U := subset_of_nodup_length_le U D hUnd hUD (Nat.le_of_eq hlen.symm)
    intro p hp
    let u : Ext := ⟨mH, cell mH.toNat p.u, cell mH.toNat p.w, mV, cell mV.toNat p.a⟩
    have hpu : p ∈ region u := ⟨rfl, rfl, rfl⟩
    have huD : u ∈ D := (hDmem u).mpr ⟨rfl, rfl, (meets_iff k u).mp ⟨p, hp, hpu⟩⟩
    obtain ⟨e, he, r1, r2, hm⟩ := (hUmem u).mp (hDU huD)
    obtain ⟨hes, _, _⟩ := (mem_membersOf es H V k e).mp he
    have hsub : region u ⊆ region e :=
      region_subset_of_meets e u (by rw [r1]; have := hmH e hes; omega) (by rw [r2]; have := hmV e hes; omega) hm
    exact ⟨e, he, hsub hpu⟩
  · intro hfill
    have hDU : D ⊆ U := by
      intro d hd
      obtain ⟨r1, r2, hm⟩ := (hDmem d).mp hd
      have hsub : region d ⊆ region k :=
        region_subset_of_meets k d (by rw [r1, hkH]; omega) (by rw [r2, hkV]; omega) hm
      obtain ⟨p, hp⟩ := region_nonempty d
      obtain ⟨e, he, hpe⟩ := hfill (hsub hp)
      exact (hUmem d).mpr ⟨e, he, r1, r2, (meets_iff e d).mp ⟨p, hpe, hp⟩⟩
    exact Nat.le_antisymm (List.subperm_of_subset hUnd hUD).length_le (List.subperm_of_subset hDnd hDU).length_le

end SpatialId
