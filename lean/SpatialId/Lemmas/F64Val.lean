/-
Value-level exactness of the software binary64: if the exact result of an operation is representable, the operation returns
it (as a rational value — the representation `⟨m, e⟩` may differ). This is the IEEE 754 "exact if representable" rule, proved
for the definitions of `SpatialId/F64.lean`.
-/
import SpatialId.Lemmas.F64
import SpatialId.Lemmas.F64Order
import Mathlib.Tactic.Push
import Mathlib.Algebra.Order.Floor.Ring
import Mathlib.Data.Rat.Floor
namespace SpatialId.F64

/-- the rational `q` is a binary64 value: `q = m · 2^e` with at most 53 significant bits and `e ≥ -1074` -/
def RepVal (q : ℚ) : Prop := ∃ m e : Int, bitLen m.natAbs ≤ 53 ∧ -1074 ≤ e ∧ q = (m : ℚ) * (2 : ℚ) ^ e

theorem lt_two_pow_bitLen (a : Nat) : a < 2 ^ bitLen a := by
  unfold bitLen
  split
  · rename_i h; subst h; simp
  · exact Nat.lt_log2_self

theorem lt_of_bitLen_le (a n : Nat) (h : bitLen a ≤ n) : a < 2 ^ n :=
  Nat.lt_of_lt_of_le (lt_two_pow_bitLen a) (Nat.pow_le_pow_right (by decide) h)

theorem two_ne : (2 : ℚ) ≠ 0 := by norm_num

/-- integer form of `m · 2^e = m' · 2^e'` when `e ≤ e'` -/
theorem int_of_dyadic_eq (m m' e e' : Int) (hle : e ≤ e') (h : (m : ℚ) * (2 : ℚ) ^ e = (m' : ℚ) * (2 : ℚ) ^ e') :
    m = m' * 2 ^ (e' - e).toNat := by
  have hp : (0 : ℚ) < (2 : ℚ) ^ e := two_zpow_pos e
  have e1 : (2 : ℚ) ^ e' = (2 : ℚ) ^ ((e' - e).toNat : Int) * (2 : ℚ) ^ e := by
    rw [← zpow_add₀ two_ne]; congr 1; omega
  rw [e1, ← mul_assoc] at h
  have h2 := mul_right_cancel₀ (ne_of_gt hp) h
  rw [zpow_natCast] at h2
  exact_mod_cast h2

theorem val_mk (m e : Int) : val ⟨m, e⟩ = (m : ℚ) * (2 : ℚ) ^ e := rfl

/-- **rnd is exact on representable values** -/
theorem rnd_val_exact (m e : Int) (h : RepVal ((m : ℚ) * (2 : ℚ) ^ e)) : val (rnd m e) = (m : ℚ) * (2 : ℚ) ^ e := by
  by_cases h0 : m = 0
  · subst h0; rw [rnd_zero]; simp [val]
  obtain ⟨m', e', hb, he', heq⟩ := h
  unfold rnd
  simp only [h0, if_false]
  by_cases hq : max (e + (bitLen m.natAbs : Int) - 53) (-1074) ≤ e
  · simp only [hq, if_true]; rfl
  · simp only [hq, if_false]
    have hm'lt : m'.natAbs < 2 ^ 53 := lt_of_bitLen_le _ _ hb
    -- e' > e, otherwise the first branch applies
    have hlt : e < e' := by
      by_contra hc
      have hle : e' ≤ e := by omega
      have hi := int_of_dyadic_eq m' m e' e hle heq.symm
      have hna : m'.natAbs = m.natAbs * 2 ^ (e - e').toNat := by rw [hi, Int.natAbs_mul, Int.natAbs_pow]; rfl
      have hlt2 : m.natAbs * 2 ^ (e - e').toNat < 2 ^ 53 := by rw [← hna]; exact hm'lt
      have hd : (e - e').toNat ≤ 53 := by
        by_contra hcc
        have : 2 ^ 53 < 2 ^ (e - e').toNat := Nat.pow_lt_pow_right (by decide) (by omega)
        have hpos : 0 < m.natAbs := Int.natAbs_pos.mpr h0
        have : 2 ^ (e - e').toNat ≤ m.natAbs * 2 ^ (e - e').toNat := Nat.le_mul_of_pos_left _ hpos
        omega
      have hb2 : m.natAbs < 2 ^ (53 - (e - e').toNat) := by
        have e53 : 2 ^ 53 = 2 ^ (53 - (e - e').toNat) * 2 ^ (e - e').toNat := by rw [← Nat.pow_add]; congr 1; omega
        rw [e53] at hlt2
        exact Nat.lt_of_mul_lt_mul_right hlt2
      have hbl := bitLen_le_of_lt _ _ hb2
      apply hq; omega
    have hi := int_of_dyadic_eq m m' e e' (Int.le_of_lt hlt) heq
    have hna : m.natAbs = m'.natAbs * 2 ^ (e' - e).toNat := by rw [hi, Int.natAbs_mul, Int.natAbs_pow]; rfl
    have hbl : (bitLen m.natAbs : Int) ≤ 53 + (e' - e) := by
      have : m.natAbs < 2 ^ (53 + (e' - e).toNat) := by
        rw [hna, Nat.pow_add]; exact Nat.mul_lt_mul_of_pos_right hm'lt (Nat.two_pow_pos _)
      have := bitLen_le_of_lt _ _ this
      omega
    -- the shift does not exceed the number of trailing zeros of |m|
    have hsh : (max (e + (bitLen m.natAbs : Int) - 53) (-1074) - e).toNat ≤ (e' - e).toNat := by omega
    generalize hS : (max (e + (bitLen m.natAbs : Int) - 53) (-1074) - e).toNat = sh at hsh
    have hSpos : 0 < sh := by omega
    have hQ : max (e + (bitLen m.natAbs : Int) - 53) (-1074) = e + sh := by omega
    have hdvd : m.natAbs = (m'.natAbs * 2 ^ ((e' - e).toNat - sh)) * 2 ^ sh := by
      rw [hna, Nat.mul_assoc, ← Nat.pow_add]; congr 2; omega
    have hfl : m.natAbs >>> sh = m'.natAbs * 2 ^ ((e' - e).toNat - sh) := by
      rw [Nat.shiftRight_eq_div_pow, hdvd, Nat.mul_div_cancel _ (Nat.two_pow_pos _)]
    have hrem : m.natAbs - (m.natAbs >>> sh) <<< sh = 0 := by
      rw [hfl, Nat.shiftLeft_eq, ← hdvd]; omega
    have hhalf : (1 : Nat) <<< (sh - 1) = 2 ^ (sh - 1) := by rw [Nat.shiftLeft_eq, Nat.one_mul]
    have hhp : 0 < 2 ^ (sh - 1) := Nat.two_pow_pos _
    simp only [hrem, hhalf]
    have hc : ¬ (0 > 2 ^ (sh - 1) ∨ (0 = 2 ^ (sh - 1) ∧ (m.natAbs >>> sh) % 2 = 1)) := by omega
    rw [if_neg hc, hQ]
    -- value
    have hval : ((m.natAbs >>> sh : Nat) : ℚ) * (2 : ℚ) ^ (e + sh) = (m.natAbs : ℚ) * (2 : ℚ) ^ e := by
      rw [zpow_add₀ two_ne, zpow_natCast]
      have : (m.natAbs : ℚ) = ((m.natAbs >>> sh : Nat) : ℚ) * 2 ^ sh := by
        rw [hfl]; conv_lhs => rw [hdvd]
        push_cast; ring
      rw [this]; ring
    by_cases hneg : m < 0
    · simp only [hneg, if_true, val]
      have hm : m = -((m.natAbs : Nat) : Int) := by omega
      have : (m : ℚ) = -((m.natAbs : Nat) : ℚ) := by
        conv_lhs => rw [hm]
        simp only [Int.cast_neg, Int.cast_natCast]
      rw [this]
      simp only [Int.cast_neg, Int.cast_natCast, neg_mul]
      rw [hval]
    · simp only [hneg, if_false, val]
      have hm : m = ((m.natAbs : Nat) : Int) := by omega
      have : (m : ℚ) = ((m.natAbs : Nat) : ℚ) := by
        conv_lhs => rw [hm]
        simp only [Int.cast_natCast]
      rw [this]
      simp only [Int.cast_natCast]
      exact hval

/-- the aligned integer sum of `add` denotes `val x + val y` -/
theorem add_aligned_val (x y : Dy) :
    ((x.m * 2 ^ (x.e - min x.e y.e).toNat + y.m * 2 ^ (y.e - min x.e y.e).toNat : Int) : ℚ) * (2 : ℚ) ^ (min x.e y.e) =
      val x + val y := by
  unfold val
  have e1 : (2 : ℚ) ^ x.e = (2 : ℚ) ^ ((x.e - min x.e y.e).toNat : Int) * (2 : ℚ) ^ (min x.e y.e) := by
    rw [← zpow_add₀ two_ne]; congr 1; omega
  have e2 : (2 : ℚ) ^ y.e = (2 : ℚ) ^ ((y.e - min x.e y.e).toNat : Int) * (2 : ℚ) ^ (min x.e y.e) := by
    rw [← zpow_add₀ two_ne]; congr 1; omega
  rw [e1, e2]
  push_cast
  simp only [zpow_natCast]
  ring

/-- **addition is exact when the exact sum is representable** -/
theorem add_val_exact (x y : Dy) (h : RepVal (val x + val y)) : val (add x y) = val x + val y := by
  unfold add
  simp only []
  rw [← add_aligned_val x y] at h ⊢
  exact rnd_val_exact _ _ h

theorem neg_val (x : Dy) : val (neg x) = -val x := by
  unfold neg val; push_cast; ring

theorem sub_val_exact (x y : Dy) (h : RepVal (val x - val y)) : val (sub x y) = val x - val y := by
  unfold sub
  have : val x - val y = val x + val (neg y) := by rw [neg_val]; ring
  rw [this] at h ⊢
  exact add_val_exact x (neg y) h

theorem mul_val_exact (x y : Dy) (h : RepVal (val x * val y)) : val (mul x y) = val x * val y := by
  unfold mul
  have e : val x * val y = ((x.m * y.m : Int) : ℚ) * (2 : ℚ) ^ (x.e + y.e) := by
    unfold val; rw [zpow_add₀ two_ne]; push_cast; ring
  rw [e] at h ⊢
  exact rnd_val_exact _ _ h

/-- multiplication by an exact power of two -/
theorem scale_val_exact (x : Dy) (k : Int) (h : RepVal (val x * (2 : ℚ) ^ k)) : val (scale x k) = val x * (2 : ℚ) ^ k := by
  unfold scale
  have e : val x * (2 : ℚ) ^ k = (x.m : ℚ) * (2 : ℚ) ^ (x.e + k) := by
    unfold val; rw [zpow_add₀ two_ne]; ring
  rw [e] at h ⊢
  exact rnd_val_exact _ _ h

theorem ofInt_val_exact (i : Int) (h : RepVal (i : ℚ)) : val (ofInt i) = (i : ℚ) := by
  unfold ofInt
  have e : (i : ℚ) = (i : ℚ) * (2 : ℚ) ^ (0 : Int) := by simp
  rw [e] at h ⊢
  exact rnd_val_exact _ _ h

/-- integers below 2^53 in magnitude are representable -/
theorem repVal_int (i : Int) (h : i.natAbs < 2 ^ 53) : RepVal (i : ℚ) :=
  ⟨i, 0, bitLen_le_of_lt _ _ h, by omega, by simp⟩

/-- a dyadic `m · 2^e` with `|m| < 2^53` and `e ≥ -1074` is representable -/
theorem repVal_dyadic (m e : Int) (h : m.natAbs < 2 ^ 53) (he : -1074 ≤ e) : RepVal ((m : ℚ) * (2 : ℚ) ^ e) :=
  ⟨m, e, bitLen_le_of_lt _ _ h, he, rfl⟩

theorem eq_iff_val (x y : Dy) : eq x y = true ↔ val x = val y := by
  unfold eq
  simp only [decide_eq_true_eq]
  have h := cmpInt_val x y
  have hp := two_zpow_pos (min x.e y.e)
  constructor
  · intro h0; rw [h0] at h; simp at h; linarith
  · intro hv
    rw [hv, sub_self] at h
    rcases mul_eq_zero.mp h with h1 | h1
    · exact_mod_cast h1
    · exact absurd h1 (ne_of_gt hp)

/-- `floorInt` is the floor of the value -/
theorem floorInt_val (x : Dy) : floorInt x = ⌊val x⌋ := by
  obtain ⟨m, e⟩ := x
  unfold floorInt val
  simp only []
  split
  · rename_i h
    obtain ⟨n, rfl⟩ := Int.eq_ofNat_of_zero_le h
    simp only [Int.toNat_natCast, zpow_natCast]
    have : (m : ℚ) * 2 ^ n = ((m * 2 ^ n : Int) : ℚ) := by push_cast; ring
    rw [this, Int.floor_intCast]
  · rename_i h
    obtain ⟨n, hn⟩ := Int.eq_ofNat_of_zero_le (show 0 ≤ -e by omega)
    have he : e = -(n : Int) := by omega
    subst he
    simp only [Int.neg_neg, Int.toNat_natCast, zpow_neg, zpow_natCast]
    have : (m : ℚ) * ((2 : ℚ) ^ n)⁻¹ = (m : ℚ) / ((2 ^ n : ℕ) : ℚ) := by push_cast; ring
    rw [this, Int.floor_div_natCast, Int.floor_intCast]
    push_cast; rfl

theorem two_pow_bitLen_pred_le (a : Nat) (h : 0 < a) : 2 ^ (bitLen a - 1) ≤ a := by
  unfold bitLen
  have h0 : a ≠ 0 := by omega
  simp only [h0, if_false, Nat.add_sub_cancel]
  exact Nat.log2_self_le h0

/-- the sign factor of `div` times `|x.m| / |y.m|` is `x.m / y.m` -/
theorem sign_quot (xm ym : Int) (hx : xm ≠ 0) (hy : ym ≠ 0) :
    (((if (xm < 0) != (ym < 0) then (-1 : Int) else 1) : Int) : ℚ) * ((xm.natAbs : ℚ) / (ym.natAbs : ℚ)) = (xm : ℚ) / (ym : ℚ) := by
  have hax : (xm.natAbs : ℚ) = |(xm : ℚ)| := by rw [← Int.cast_abs, Int.abs_eq_natAbs]; simp
  have hay : (ym.natAbs : ℚ) = |(ym : ℚ)| := by rw [← Int.cast_abs, Int.abs_eq_natAbs]; simp
  rw [hax, hay]
  have hyq : (ym : ℚ) ≠ 0 := by exact_mod_cast hy
  rcases lt_or_gt_of_ne hx with h1 | h1 <;> rcases lt_or_gt_of_ne hy with h2 | h2
  · have a1 : (xm : ℚ) < 0 := by exact_mod_cast h1
    have a2 : (ym : ℚ) < 0 := by exact_mod_cast h2
    simp only [h1, h2, decide_true, bne_self_eq_false, Bool.false_eq_true, if_false, abs_of_neg a1, abs_of_neg a2]
    push_cast; field_simp
  · have a1 : (xm : ℚ) < 0 := by exact_mod_cast h1
    have a2 : (0 : ℚ) < ym := by exact_mod_cast h2
    have n2 : ¬ ym < 0 := by omega
    simp only [h1, n2, decide_true, decide_false, Bool.true_bne, Bool.not_false, if_true, abs_of_neg a1, abs_of_pos a2]
    push_cast; field_simp
  · have a1 : (0 : ℚ) < xm := by exact_mod_cast h1
    have a2 : (ym : ℚ) < 0 := by exact_mod_cast h2
    have n1 : ¬ xm < 0 := by omega
    simp only [n1, h2, decide_true, decide_false, Bool.false_bne, if_true, abs_of_pos a1, abs_of_neg a2]
    push_cast; field_simp
  · have a1 : (0 : ℚ) < xm := by exact_mod_cast h1
    have a2 : (0 : ℚ) < ym := by exact_mod_cast h2
    have n1 : ¬ xm < 0 := by omega
    have n2 : ¬ ym < 0 := by omega
    simp only [n1, n2, decide_false, bne_self_eq_false, Bool.false_eq_true, if_false, abs_of_pos a1, abs_of_pos a2]
    push_cast; ring

/-- **division is exact when the exact quotient is representable** -/
theorem div_val_exact (x y : Dy) (hy : y.m ≠ 0) (h : RepVal (val x / val y)) : val (div x y) = val x / val y := by
  unfold div
  by_cases hx : x.m = 0
  · simp only [hx, if_true]; simp [val, hx]
  simp only [hx, if_false]
  obtain ⟨m', e', hb, _, heq⟩ := h
  have hm'lt : m'.natAbs < 2 ^ 53 := lt_of_bitLen_le _ _ hb
  generalize hk : (bitLen y.m.natAbs + 56) - min (bitLen x.m.natAbs) (bitLen y.m.natAbs + 56) + 2 = k
  have hapos : 0 < x.m.natAbs := Int.natAbs_pos.mpr hx
  have hbpos : 0 < y.m.natAbs := Int.natAbs_pos.mpr hy
  -- size: |x.m|·2^k ≥ 2^57·|y.m|
  have hsize : y.m.natAbs * 2 ^ 57 < x.m.natAbs * 2 ^ k := by
    have h1 := two_pow_bitLen_pred_le _ hapos
    have h2 := lt_two_pow_bitLen y.m.natAbs
    have hbl : 1 ≤ bitLen x.m.natAbs := by
      unfold bitLen; have : x.m.natAbs ≠ 0 := by omega
      simp [this]
    have hk2 : bitLen y.m.natAbs + 57 ≤ bitLen x.m.natAbs - 1 + k := by omega
    calc y.m.natAbs * 2 ^ 57 < 2 ^ bitLen y.m.natAbs * 2 ^ 57 := Nat.mul_lt_mul_of_pos_right h2 (Nat.two_pow_pos _)
      _ = 2 ^ (bitLen y.m.natAbs + 57) := by rw [Nat.pow_add]
      _ ≤ 2 ^ (bitLen x.m.natAbs - 1 + k) := Nat.pow_le_pow_right (by decide) hk2
      _ = 2 ^ (bitLen x.m.natAbs - 1) * 2 ^ k := by rw [Nat.pow_add]
      _ ≤ x.m.natAbs * 2 ^ k := Nat.mul_le_mul_right _ h1
  -- the quotient in absolute values
  have hyq : (y.m : ℚ) ≠ 0 := by exact_mod_cast hy
  have habs : (x.m.natAbs : ℚ) / (y.m.natAbs : ℚ) = (m'.natAbs : ℚ) * (2 : ℚ) ^ (e' + y.e - x.e) := by
    have hv : val x / val y = ((x.m : ℚ) / (y.m : ℚ)) * (2 : ℚ) ^ (x.e - y.e) := by
      unfold val; rw [zpow_sub₀ two_ne]; field_simp
    rw [hv] at heq
    have h3 : (x.m : ℚ) / (y.m : ℚ) = (m' : ℚ) * (2 : ℚ) ^ (e' + y.e - x.e) := by
      have hp := two_zpow_pos (x.e - y.e)
      have : (2 : ℚ) ^ (e' + y.e - x.e) = (2 : ℚ) ^ e' / (2 : ℚ) ^ (x.e - y.e) := by
        rw [← zpow_sub₀ two_ne]; congr 1; ring
      rw [this, ← mul_div_assoc, ← heq, mul_div_assoc, div_self (ne_of_gt hp), mul_one]
    have h4 := congrArg (fun q : ℚ => |q|) h3
    simp only [abs_mul, abs_div] at h4
    have hpz : |(2 : ℚ) ^ (e' + y.e - x.e)| = (2 : ℚ) ^ (e' + y.e - x.e) := abs_of_pos (two_zpow_pos _)
    rw [hpz] at h4
    have hax : (x.m.natAbs : ℚ) = |(x.m : ℚ)| := by rw [← Int.cast_abs, Int.abs_eq_natAbs]; simp
    have hay : (y.m.natAbs : ℚ) = |(y.m : ℚ)| := by rw [← Int.cast_abs, Int.abs_eq_natAbs]; simp
    have ham : (m'.natAbs : ℚ) = |(m' : ℚ)| := by rw [← Int.cast_abs, Int.abs_eq_natAbs]; simp
    rw [hax, hay, ham]; exact h4
  -- exponent of the shifted quotient is positive
  have hbq : (0 : ℚ) < (y.m.natAbs : ℚ) := by exact_mod_cast hbpos
  have hqk : (x.m.natAbs : ℚ) * 2 ^ k = (m'.natAbs : ℚ) * (y.m.natAbs : ℚ) * (2 : ℚ) ^ (e' + y.e - x.e + k) := by
    have : (x.m.natAbs : ℚ) = (m'.natAbs : ℚ) * (2 : ℚ) ^ (e' + y.e - x.e) * (y.m.natAbs : ℚ) := by
      rw [← habs]; field_simp
    rw [zpow_add₀ two_ne, zpow_natCast]
    conv_lhs => rw [this]
    ring
  have hpos : 4 < e' + y.e - x.e + k := by
    by_contra hc
    have hle : e' + y.e - x.e + (k : Int) ≤ 4 := by omega
    have h2 : (2 : ℚ) ^ (e' + y.e - x.e + k) ≤ (2 : ℚ) ^ (4 : Int) := zpow_le_zpow_right₀ (by norm_num) hle
    have h3 : (m'.natAbs : ℚ) < 2 ^ 53 := by exact_mod_cast hm'lt
    have h4 : (x.m.natAbs : ℚ) * 2 ^ k ≤ (2 : ℚ) ^ 53 * (y.m.natAbs : ℚ) * (2 : ℚ) ^ (4 : Int) := by
      rw [hqk]
      have := two_zpow_pos (e' + y.e - x.e + k)
      have hm0 : (0 : ℚ) ≤ (m'.natAbs : ℚ) := by positivity
      have : (m'.natAbs : ℚ) * (y.m.natAbs : ℚ) ≤ (2 : ℚ) ^ 53 * (y.m.natAbs : ℚ) :=
        mul_le_mul_of_nonneg_right (le_of_lt h3) (le_of_lt hbq)
      exact mul_le_mul this h2 (le_of_lt (two_zpow_pos _)) (by positivity)
    have h5 : ((y.m.natAbs * 2 ^ 57 : Nat) : ℚ) < ((x.m.natAbs * 2 ^ k : Nat) : ℚ) := by exact_mod_cast hsize
    push_cast at h5
    have : (2 : ℚ) ^ 53 * (y.m.natAbs : ℚ) * (2 : ℚ) ^ (4 : Int) = (y.m.natAbs : ℚ) * 2 ^ 57 := by norm_num; ring
    rw [this] at h4
    linarith
  obtain ⟨t, ht⟩ := Int.eq_ofNat_of_zero_le (show 0 ≤ e' + y.e - x.e + k by omega)
  have hnat : x.m.natAbs * 2 ^ k = (m'.natAbs * 2 ^ t) * y.m.natAbs := by
    have : ((x.m.natAbs * 2 ^ k : Nat) : ℚ) = ((m'.natAbs * 2 ^ t * y.m.natAbs : Nat) : ℚ) := by
      push_cast; rw [hqk, ht, zpow_natCast]; ring
    exact_mod_cast this
  have hq : x.m.natAbs <<< k / y.m.natAbs = m'.natAbs * 2 ^ t := by
    rw [Nat.shiftLeft_eq, hnat, Nat.mul_div_cancel _ hbpos]
  have hr : x.m.natAbs <<< k % y.m.natAbs = 0 := by
    rw [Nat.shiftLeft_eq, hnat, Nat.mul_mod_left]
  simp only [hq, hr, if_true, Nat.add_zero]
  -- the value
  have hvalue : (((if (x.m < 0) != (y.m < 0) then (-1 : Int) else 1) * ((m'.natAbs * 2 ^ t * 2 : Nat) : Int) : Int) : ℚ) *
      (2 : ℚ) ^ (x.e - y.e - k - 1) = val x / val y := by
    have hv : val x / val y = ((x.m : ℚ) / (y.m : ℚ)) * (2 : ℚ) ^ (x.e - y.e) := by
      unfold val; rw [zpow_sub₀ two_ne]; field_simp
    rw [hv, ← sign_quot x.m y.m hx hy]
    have hquot : (x.m.natAbs : ℚ) / (y.m.natAbs : ℚ) = (m'.natAbs : ℚ) * 2 ^ t / 2 ^ k := by
      have : ((x.m.natAbs * 2 ^ k : Nat) : ℚ) = ((m'.natAbs * 2 ^ t * y.m.natAbs : Nat) : ℚ) := by exact_mod_cast hnat
      push_cast at this
      field_simp
      linarith
    rw [hquot]
    have e1 : (2 : ℚ) ^ (x.e - y.e - k - 1) = (2 : ℚ) ^ (x.e - y.e) / (2 ^ k * 2) := by
      have : x.e - y.e - (k : Int) - 1 = (x.e - y.e) - ((k : Int) + 1) := by ring
      rw [this, zpow_sub₀ two_ne, zpow_add₀ two_ne, zpow_natCast, zpow_one]
    rw [e1]
    simp only [Int.cast_mul, Int.cast_natCast, Nat.cast_mul, Nat.cast_pow, Nat.cast_ofNat]
    field_simp
    push_cast
    ring
  have hrep : RepVal ((((if (x.m < 0) != (y.m < 0) then (-1 : Int) else 1) * ((m'.natAbs * 2 ^ t * 2 : Nat) : Int) : Int) : ℚ) *
      (2 : ℚ) ^ (x.e - y.e - k - 1)) := by
    rw [hvalue]; exact ⟨m', e', hb, by assumption, heq⟩
  have := rnd_val_exact _ _ hrep
  rw [hvalue] at this
  convert this using 3

end SpatialId.F64
