/-
Closed forms of the altitude-key conversions in the fixed-point semantics of Spec/Altitude.lean.
-/
import SpatialId.Model.AltKey
import SpatialId.Lemmas.Core
import SpatialId.Spec.Altitude
import Mathlib.Tactic.Ring
namespace SpatialId
open Alt

theorem pow_add_toNat (a b : Int) (ha : 0 ≤ a) (hb : 0 ≤ b) : (2 : Int) ^ (a + b).toNat = 2 ^ a.toNat * 2 ^ b.toNat := by
  rw [← Int.pow_add]; congr 1; omega

theorem mul_sub_one_ediv (k c : Int) (hc : 0 < c) : (k * c - 1) / c = k - 1 := by
  have := (Int.ediv_emod_unique (a := k * c - 1) (b := c) (r := c - 1) (q := k - 1) hc).mpr
    ⟨by rw [Int.mul_sub, Int.mul_one, Int.mul_comm]; omega, by omega, by omega⟩
  exact this.1

/-- L1: the arithmetic shift by `s ∈ [-K, K]` is floor division of the `2^K`-scaled value -/
theorem shift_as_div (n s : Int) (K : Nat) (_h1 : -(K : Int) ≤ s) (h2 : s ≤ K) :
    arithShift n s = (n * 2 ^ K) / 2 ^ ((K : Int) - s).toNat := by
  by_cases hs : 0 ≤ s
  · rw [arithShift_nonneg _ _ hs]
    have e : (2 : Int) ^ K = 2 ^ s.toNat * 2 ^ ((K : Int) - s).toNat := by
      rw [← Int.pow_add]; congr 1; omega
    rw [e, ← Int.mul_assoc, Int.mul_ediv_cancel _ (Int.ne_of_gt (two_pow_pos _))]
  · rw [arithShift_neg _ _ (by omega)]
    have e : (2 : Int) ^ ((K : Int) - s).toNat = 2 ^ (-s).toNat * 2 ^ K := by
      rw [← Int.pow_add]; congr 1; omega
    rw [e, Int.mul_ediv_mul_of_pos_left _ _ (two_pow_pos _)]

/-- L3a: for a non-positive shift, shifting `top - 1` is `⌈top·2^s⌉ - 1` -/
theorem shift_top_neg (top s : Int) (K : Nat) (hs : s ≤ 0) :
    arithShift (top - 1) s = (top * 2 ^ K - 1) / 2 ^ ((K : Int) - s).toNat := by
  have e : (2 : Int) ^ ((K : Int) - s).toNat = 2 ^ K * 2 ^ (-s).toNat := by
    rw [← Int.pow_add]; congr 1; omega
  rw [e, ← Int.ediv_ediv_of_nonneg (Int.le_of_lt (two_pow_pos _)), mul_sub_one_ediv _ _ (two_pow_pos _)]
  by_cases h0 : s = 0
  · subst h0; simp [arithShift]
  · rw [arithShift_neg _ _ (by omega)]

/-- L3b: for a non-negative shift `s ≤ K`, `top·2^s - 1` is `⌈top·2^s⌉ - 1` -/
theorem shift_top_pos (top s : Int) (K : Nat) (h0 : 0 ≤ s) (h2 : s ≤ K) :
    arithShift top s - 1 = (top * 2 ^ K - 1) / 2 ^ ((K : Int) - s).toNat := by
  rw [arithShift_nonneg _ _ h0]
  have e : (2 : Int) ^ K = 2 ^ s.toNat * 2 ^ ((K : Int) - s).toNat := by
    rw [← Int.pow_add]; congr 1; omega
  rw [e, ← Int.mul_assoc, mul_sub_one_ediv _ _ (two_pow_pos _)]

theorem validateIndex_iff (i z : Int) (neg : Bool) (hz : 0 ≤ z) :
    validateIndex i z neg = true ↔ (if neg then -(2 ^ z.toNat) else 0) ≤ i ∧ i ≤ 2 ^ z.toNat - 1 := by
  unfold validateIndex
  simp only [arithShift_nonneg 1 z hz, Int.one_mul]
  cases neg <;> simp <;> omega

/-- closed form of `convertZToMinAltitudekey` (before its two range checks) -/
theorem minKey_closed (f zi zo E O : Int) (h1 : 0 ≤ zi ∧ zi ≤ 35) (h2 : 0 ≤ zo ∧ zo ≤ 35) (h3 : 0 ≤ E ∧ E ≤ 35) :
    arithShift (arithShift f (-(zi - 25)) + O) (zo - E) =
      ((widen (fCell f zi)).1 + O * M) / 2 ^ (E - zo + 35).toNat := by
  rw [shift_as_div _ (zo - E) 35 (by omega) (by omega)]
  have e1 : ((35 : Nat) : Int) - (zo - E) = E - zo + 35 := by omega
  rw [e1]
  congr 1
  -- the floor metre of the cell bottom
  have hm : (widen (fCell f zi)).1 = arithShift f (-(zi - 25)) * M := by
    simp only [widen, fCell]
    congr 1
    rw [shift_as_div f (-(zi - 25)) 35 (by omega) (by omega)]
    have e2 : ((35 : Nat) : Int) - -(zi - 25) = zi + 10 := by omega
    rw [e2]
    -- f·2^(60-zi) / 2^35 = f·2^35 / 2^(zi+10): multiply numerator and denominator by 2^(zi-… ) — both are ⌊f·2^(25-zi)⌋
    have e3 : (2 : Int) ^ (60 - zi).toNat * 2 ^ (zi + 10).toNat = 2 ^ 35 * 2 ^ 35 := by
      rw [← Int.pow_add, ← Int.pow_add]; congr 1; omega
    unfold M
    -- a/b = c/d when a*d = c*b … use: (f·P)/2^35 where P·Q = 2^35·2^35
    have hQ := two_pow_pos (zi + 10).toNat
    rw [← Int.mul_ediv_mul_of_pos_left (f * 2 ^ (60 - zi).toNat) (2 ^ 35) hQ, Int.mul_assoc, e3,
      ← Int.mul_assoc, Int.mul_comm (2 ^ 35) (2 ^ (zi + 10).toNat),
      Int.mul_ediv_mul_of_pos_left _ _ (by decide : (0 : Int) < 2 ^ 35)]
  rw [hm, Int.add_mul]
  rfl

/-- the value `convertZToMaxAltitudekey` computes before its output range check -/
def maxKeyRaw (f zi zo E O : Int) : Int :=
  let d := 25 - zi
  let top := if d < 0 then f + 1 + arithShift O (-d) else arithShift (f + 1) d + O
  let scale := if d < 0 then -d else 0
  let sh := zo - E - scale
  if sh < 0 then arithShift (top - 1) sh else arithShift top sh - 1

/-- closed form: the last key whose cell starts below the top of the voxel, `⌈(top+O)/c⌉ - 1` -/
theorem maxKey_closed (f zi zo E O : Int) (h1 : 0 ≤ zi ∧ zi ≤ 35) (h2 : 0 ≤ zo ∧ zo ≤ 35) (h3 : 0 ≤ E ∧ E ≤ 35) :
    maxKeyRaw f zi zo E O = ((fCell f zi).2 + O * M - 1) / 2 ^ (E - zo + 35).toNat := by
  unfold maxKeyRaw
  simp only []
  by_cases hd : 25 - zi < 0
  · -- voxels thinner than one metre
    simp only [hd, if_true]
    have hK : (0 : Int) ≤ 35 + (25 - zi) := by omega
    have htop : (fCell f zi).2 + O * M = (f + 1 + arithShift O (-(25 - zi))) * 2 ^ (35 + (25 - zi)).toNat := by
      simp only [fCell, M]
      rw [arithShift_nonneg _ _ (by omega)]
      have e1 : (60 - zi).toNat = (35 + (25 - zi)).toNat := by omega
      have e2 : (2 : Int) ^ 35 = 2 ^ (-(25 - zi)).toNat * 2 ^ (35 + (25 - zi)).toNat := by
        rw [← Int.pow_add]; congr 1; omega
      rw [e1, e2]; ring
    rw [htop]
    have hKn : ((35 + (25 - zi)).toNat : Int) = 35 + (25 - zi) := by omega
    by_cases hsh : zo - E - -(25 - zi) < 0
    · simp only [hsh, if_true]
      rw [shift_top_neg _ _ (35 + (25 - zi)).toNat (by omega), hKn]
      congr 2; omega
    · simp only [hsh, if_false]
      rw [shift_top_pos _ _ (35 + (25 - zi)).toNat (by omega) (by omega), hKn]
      congr 2; omega
  · simp only [hd, if_false]
    have htop : (fCell f zi).2 + O * M = (arithShift (f + 1) (25 - zi) + O) * 2 ^ 35 := by
      simp only [fCell, M]
      rw [arithShift_nonneg _ _ (by omega)]
      have e2 : (2 : Int) ^ (60 - zi).toNat = 2 ^ (25 - zi).toNat * 2 ^ 35 := by
        rw [← Int.pow_add]; congr 1; omega
      rw [e2]; ring
    rw [htop]
    by_cases hsh : zo - E - 0 < 0
    · simp only [hsh, if_true]
      rw [shift_top_neg _ _ 35 (by omega)]
      congr 2; omega
    · simp only [hsh, if_false]
      rw [shift_top_pos _ _ 35 (by omega) (by omega)]
      congr 2; omega

/-! ### key → f direction -/

/-- the floor metre of the bottom of a key cell: `⌊k·2^(E-zk)⌋ - O` -/
theorem key_widen_lo (k zk E O : Int) (h1 : 0 ≤ zk ∧ zk ≤ 35) (h3 : 0 ≤ E ∧ E ≤ 35) :
    (widen (keyCell k zk E O)).1 = (arithShift k (E - zk) - O) * M := by
  simp only [widen, keyCell]
  congr 1
  rw [shift_as_div k (E - zk) 35 (by omega) (by omega)]
  have e1 : ((35 : Nat) : Int) - (E - zk) = zk - E + 35 := by omega
  rw [e1]
  -- (k·2^(E-zk+35) - O·M)/M = k·2^(E-zk+35)/M - O
  have hsub : (k * 2 ^ (E - zk + 35).toNat - O * M) / M = k * 2 ^ (E - zk + 35).toNat / M - O := by
    rw [Int.sub_eq_add_neg, ← Int.neg_mul, Int.add_mul_ediv_right _ _ (Int.ne_of_gt M_pos)]; omega
  rw [hsub]
  congr 1
  unfold M
  have e3 : (2 : Int) ^ (E - zk + 35).toNat * 2 ^ (zk - E + 35).toNat = 2 ^ 35 * 2 ^ 35 := by
    rw [← Int.pow_add, ← Int.pow_add]; congr 1; omega
  have hQ := two_pow_pos (zk - E + 35).toNat
  rw [← Int.mul_ediv_mul_of_pos_left (k * 2 ^ (E - zk + 35).toNat) (2 ^ 35) hQ, Int.mul_assoc, e3,
    ← Int.mul_assoc, Int.mul_comm (2 ^ 35) (2 ^ (zk - E + 35).toNat),
    Int.mul_ediv_mul_of_pos_left _ _ (by decide : (0 : Int) < 2 ^ 35)]

/-- ceiling metre of the top of a key cell: `iMax + 1 - O` with the Go code's `iMax` -/
theorem key_widen_hi (k zk E O : Int) (h1 : 0 ≤ zk ∧ zk ≤ 35) (h3 : 0 ≤ E ∧ E ≤ 35) :
    (widen (keyCell k zk E O)).2 =
      ((if E - zk > 0 then arithShift (k + 1) (E - zk) - 1 else arithShift k (E - zk)) - O + 1) * M := by
  simp only [widen, keyCell]
  congr 1
  -- -(( -(hi) ) / M) is the ceiling of hi/M
  have hneg : -((k + 1) * 2 ^ (E - zk + 35).toNat - O * M) = (-((k + 1) * 2 ^ (E - zk + 35).toNat)) + O * M := by omega
  rw [hneg, Int.add_mul_ediv_right _ _ (Int.ne_of_gt M_pos)]
  by_cases hz : E - zk > 0
  · simp only [hz, if_true]
    rw [arithShift_nonneg _ _ (by omega)]
    have e : (2 : Int) ^ (E - zk + 35).toNat = 2 ^ (E - zk).toNat * M := by
      unfold M; rw [← Int.pow_add]; congr 1; omega
    rw [e, ← Int.mul_assoc, ← Int.neg_mul, Int.mul_ediv_cancel _ (Int.ne_of_gt M_pos)]
    omega
  · simp only [hz, if_false]
    -- cell thinner than (or equal to) one metre: ⌈(k+1)/2^d⌉ = ⌊k/2^d⌋ + 1
    have hs := shift_top_neg (k + 1) (E - zk) 35 (by omega)
    have e0 : k + 1 - 1 = k := by omega
    rw [e0] at hs
    rw [hs]
    have e1 : ((35 : Nat) : Int) - (E - zk) = zk - E + 35 := by omega
    rw [e1]
    -- ((k+1)·2^35 - 1)/2^(zk-E+35) versus -(-( (k+1)·2^(E-zk+35) ))/2^35
    have e3 : (2 : Int) ^ 35 = 2 ^ (E - zk + 35).toNat * 2 ^ (zk - E).toNat := by
      rw [← Int.pow_add]; congr 1; omega
    have e4 : (2 : Int) ^ (zk - E + 35).toNat = 2 ^ (zk - E).toNat * 2 ^ 35 := by
      rw [← Int.pow_add]; congr 1; omega
    -- let P = 2^(E-zk+35), Q = 2^(zk-E), so M = P·Q
    generalize hP : (2 : Int) ^ (E - zk + 35).toNat = P at *
    generalize hQ : (2 : Int) ^ (zk - E).toNat = Q at *
    have hPpos : 0 < P := by rw [← hP]; exact two_pow_pos _
    have hQpos : 0 < Q := by rw [← hQ]; exact two_pow_pos _
    unfold M
    rw [e4]
    -- RHS inner: ((k+1)·2^35 - 1)/(Q·2^35) = (((k+1)·2^35 - 1)/2^35)/Q … = k / Q
    have r1 : ((k + 1) * 2 ^ 35 - 1) / (Q * 2 ^ 35) = k / Q := by
      rw [Int.mul_comm Q, ← Int.ediv_ediv_of_nonneg (by decide : (0 : Int) ≤ 2 ^ 35),
        mul_sub_one_ediv _ _ (by decide : (0 : Int) < 2 ^ 35)]
      simp
    rw [r1, e3]
    -- LHS: -(-( (k+1)·P ) / (P·Q)) = ⌈(k+1)/Q⌉ = k/Q + 1
    have l1 : (-((k + 1) * P)) / (P * Q) = (-(k + 1)) / Q := by
      rw [← Int.neg_mul, Int.mul_comm _ P, Int.mul_ediv_mul_of_pos _ _ hPpos]
    rw [l1]
    have l2 : -(k + 1) = -k - 1 := by omega
    have hm := Int.emod_nonneg k (Int.ne_of_gt hQpos)
    have hm2 := Int.emod_lt_of_pos k hQpos
    have hd := Int.mul_ediv_add_emod k Q
    have key : (-k - 1) / Q = -(k / Q) - 1 := by
      have := (Int.ediv_emod_unique (a := -k - 1) (b := Q) (r := Q - 1 - k % Q) (q := -(k / Q) - 1) hQpos).mpr
      refine (this ⟨?_, ?_, ?_⟩).1
      · have e : Q * (-(k / Q) - 1) = -(Q * (k / Q)) - Q := by
          rw [Int.mul_sub, Int.mul_neg, Int.mul_one]
        omega
      · omega
      · omega
    rw [l2, key]
    omega

end SpatialId
