/-
Integer lemmas about the per-axis zoom functions: membership in the produced index range is exactly
the floor-division relation `axisMeet` of Spec/Region.lean.
-/
import SpatialId.Model.Zoom
import SpatialId.Lemmas.Core
import SpatialId.Spec.Region
namespace SpatialId

/-- `a / n = x` says `a` lies in the block of `n` consecutive integers starting at `x·n` -/
theorem ediv_eq_iff_block (a x n : Int) (hn : 0 < n) : a / n = x ↔ x * n ≤ a ∧ a ≤ x * n + n - 1 := by
  constructor
  · rintro rfl
    have h1 := Int.ediv_mul_le a (Int.ne_of_gt hn)
    have h2 := Int.lt_ediv_add_one_mul_self a hn
    rw [Int.add_mul, Int.one_mul] at h2
    omega
  · rintro ⟨h1, h2⟩
    apply Int.le_antisymm
    · have : a / n < x + 1 := Int.ediv_lt_of_lt_mul hn (by rw [Int.add_mul, Int.one_mul]; omega)
      omega
    · exact Int.le_ediv_of_mul_le hn h1

theorem natAbs_sub_pos (a b : Int) (ha : 0 ≤ a) (hb : 0 ≤ b) (h : a < b) :
    (b - a).natAbs = b.toNat - a.toNat := by omega

theorem natAbs_sub_neg (a b : Int) (ha : 0 ≤ a) (hb : 0 ≤ b) (h : b < a) :
    (b - a).natAbs = a.toNat - b.toNat := by omega

/-- vertical axis: the produced indices are exactly those whose cell meets the input cell -/
theorem mem_vZoomIdx (zi f zo a : Int) (hzi : 0 ≤ zi) (hzo : 0 ≤ zo) :
    a ∈ vZoomIdx zi f zo ↔ axisMeet zi.toNat zo.toNat f a := by
  unfold vZoomIdx vZoomMinMax axisMeet
  simp only []
  by_cases h1 : zo - zi > 0
  · have hle : zi.toNat ≤ zo.toNat := by omega
    simp only [h1, if_true, hle, mem_irange]
    rw [pow2_natCast, natAbs_sub_pos zi zo hzi hzo (by omega)]
    exact (ediv_eq_iff_block a f _ (two_pow_pos _)).symm
  · by_cases h2 : zo - zi < 0
    · have hnle : ¬ zi.toNat ≤ zo.toNat := by omega
      simp only [h1, h2, if_true, if_false, hnle, mem_irange]
      rw [arithShift_neg f _ h2]
      have : (-(zo - zi)).toNat = zi.toNat - zo.toNat := by omega
      rw [this]
      constructor
      · intro h; omega
      · intro h; omega
    · have heq : zo = zi := by omega
      subst heq
      simp only [h1, h2, if_false, Nat.le_refl, if_true, mem_irange, Nat.sub_self, Int.pow_zero, Int.ediv_one]
      constructor
      · intro h; omega
      · intro h; omega

/-- horizontal axis (one coordinate, non-negative index): same statement; Go's truncating `/` agrees with
floor division because horizontal indices are never negative -/
theorem hAxis_mem (zi i zo a : Int) (hzi : 0 ≤ zi) (hzo : 0 ≤ zo) (hi : 0 ≤ i) :
    (if zo - zi > 0 then i * pow2 ((zo - zi).natAbs : Int) ≤ a ∧ a ≤ i * pow2 ((zo - zi).natAbs : Int) + pow2 ((zo - zi).natAbs : Int) - 1
     else if zo - zi < 0 then i.tdiv (pow2 ((zo - zi).natAbs : Int)) ≤ a ∧ a ≤ i.tdiv (pow2 ((zo - zi).natAbs : Int))
     else i ≤ a ∧ a ≤ i) ↔ axisMeet zi.toNat zo.toNat i a := by
  unfold axisMeet
  by_cases h1 : zo - zi > 0
  · have hle : zi.toNat ≤ zo.toNat := by omega
    simp only [h1, if_true, hle]
    rw [pow2_natCast, natAbs_sub_pos zi zo hzi hzo (by omega)]
    exact (ediv_eq_iff_block a i _ (two_pow_pos _)).symm
  · by_cases h2 : zo - zi < 0
    · have hnle : ¬ zi.toNat ≤ zo.toNat := by omega
      simp only [h1, h2, if_true, if_false, hnle]
      rw [pow2_natCast, natAbs_sub_neg zi zo hzi hzo (by omega), Int.tdiv_eq_ediv_of_nonneg hi]
      constructor
      · intro h; omega
      · intro h; omega
    · have heq : zo = zi := by omega
      subst heq
      simp only [h1, h2, if_false, Nat.le_refl, if_true, Nat.sub_self, Int.pow_zero, Int.ediv_one]
      constructor
      · intro h; omega
      · intro h; omega

theorem mem_hZoomIdx (zi x y zo : Int) (p : Int × Int) (hzi : 0 ≤ zi) (hzo : 0 ≤ zo) (hx : 0 ≤ x) (hy : 0 ≤ y) :
    p ∈ hZoomIdx zi x y zo ↔ axisMeet zi.toNat zo.toNat x p.1 ∧ axisMeet zi.toNat zo.toNat y p.2 := by
  rw [← hAxis_mem zi x zo p.1 hzi hzo hx, ← hAxis_mem zi y zo p.2 hzi hzo hy]
  unfold hZoomIdx hZoomMinMax
  simp only []
  by_cases h1 : zo - zi > 0
  · simp only [h1, if_true, List.mem_flatMap, List.mem_map, mem_irange]
    constructor
    · rintro ⟨b, hb, a, ha, rfl⟩; exact ⟨ha, hb⟩
    · rintro ⟨ha, hb⟩; exact ⟨p.2, hb, p.1, ha, rfl⟩
  · by_cases h2 : zo - zi < 0
    · simp only [h1, h2, if_true, if_false, List.mem_flatMap, List.mem_map, mem_irange]
      constructor
      · rintro ⟨b, hb, a, ha, rfl⟩; exact ⟨ha, hb⟩
      · rintro ⟨ha, hb⟩; exact ⟨p.2, hb, p.1, ha, rfl⟩
    · simp only [h1, h2, if_false, List.mem_flatMap, List.mem_map, mem_irange]
      constructor
      · rintro ⟨b, hb, a, ha, rfl⟩; exact ⟨ha, hb⟩
      · rintro ⟨ha, hb⟩; exact ⟨p.2, hb, p.1, ha, rfl⟩

/-- the voxels one valid input contributes to a zoom change are exactly the target-zoom voxels meeting it -/
theorem mem_zoomOne (H V : Int) (e o : Ext) (hH : 0 ≤ H) (hV : 0 ≤ V) (heh : 0 ≤ e.h) (hev : 0 ≤ e.v)
    (hx : 0 ≤ e.x) (hy : 0 ≤ e.y) :
    o ∈ zoomOne H V e ↔ o.h = H ∧ o.v = V ∧ meets e o := by
  unfold zoomOne meets
  simp only [List.mem_flatMap, List.mem_map]
  constructor
  · rintro ⟨p, hp, f', hf, rfl⟩
    rw [mem_hZoomIdx _ _ _ _ _ heh hH hx hy] at hp
    rw [mem_vZoomIdx _ _ _ _ hev hV] at hf
    exact ⟨rfl, rfl, hp.1, hp.2, hf⟩
  · rintro ⟨rfl, rfl, h1, h2, h3⟩
    refine ⟨(o.x, o.y), (mem_hZoomIdx _ _ _ _ _ heh hH hx hy).mpr ⟨h1, h2⟩, o.f,
      (mem_vZoomIdx _ _ _ _ hev hV).mpr h3, ?_⟩
    cases o; rfl

theorem nodup_flatMap_map_inj {α β γ} (l : List α) (m : List β) (g : α → β → γ) (hl : l.Nodup) (hm : m.Nodup)
    (hinj : ∀ a b a' b', g a b = g a' b' → a = a' ∧ b = b') :
    (l.flatMap fun a => m.map fun b => g a b).Nodup := by
  rw [List.Nodup, List.pairwise_flatMap]
  constructor
  · intro a _
    exact List.Pairwise.map _ (fun b b' (h : b ≠ b') heq => h (hinj _ _ _ _ heq).2) hm
  · refine List.Pairwise.imp ?_ hl
    intro a a' (hne : a ≠ a') x hx y hy heq
    obtain ⟨b, _, rfl⟩ := List.mem_map.mp hx
    obtain ⟨b', _, rfl⟩ := List.mem_map.mp hy
    exact hne (hinj _ _ _ _ heq).1


theorem hZoomIdx_nodup (zi x y zo : Int) : (hZoomIdx zi x y zo).Nodup := by
  unfold hZoomIdx
  simp only []
  apply nodup_flatMap_map_inj _ _ (fun yy xx => (xx, yy)) (nodup_irange _ _) (nodup_irange _ _)
  intro a b a' b' h; simp only [Prod.mk.injEq] at h; exact ⟨h.2, h.1⟩

theorem vZoomIdx_nodup (zi f zo : Int) : (vZoomIdx zi f zo).Nodup := by
  unfold vZoomIdx; exact nodup_irange _ _

theorem zoomOne_nodup (H V : Int) (e : Ext) : (zoomOne H V e).Nodup := by
  unfold zoomOne
  apply nodup_flatMap_map_inj _ _ (fun (p : Int × Int) f' => (⟨H, p.1, p.2, V, f'⟩ : Ext)) (hZoomIdx_nodup _ _ _ _) (vZoomIdx_nodup _ _ _)
  intro a b a' b' h; simp only [Ext.mk.injEq] at h
  exact ⟨Prod.ext h.2.1 h.2.2.1, h.2.2.2.2⟩

end SpatialId
