/-
Rounding error of the software binary64 (`SpatialId/F64.lean`): `rnd` returns a value within half a unit of the last place of
the exact dyadic, and — outside the subnormal range — within the relative error 2^-53.  This is the quantitative counterpart
of `Lemmas/F64Val.lean` (exact when representable).
-/
import SpatialId.Lemmas.F64Val
import Mathlib.Tactic.Ring
import Mathlib.Tactic.Linarith
import Mathlib.Algebra.Order.AbsoluteValue.Basic
namespace SpatialId.F64

/-- the exponent of the last place `rnd m e` rounds to (for `m ≠ 0`) -/
def ulpExp (m e : Int) : Int := max (e + (bitLen m.natAbs : Int) - 53) (-1074)

/-- round-to-nearest on naturals: dropping `sh ≥ 1` low bits moves the value by at most half of `2^sh` -/
theorem round_nat (a sh : Nat) (hsh : 0 < sh) :
    let fl := a >>> sh
    let rem := a - (fl <<< sh)
    let half := 1 <<< (sh - 1)
    let r := if rem > half ∨ (rem = half ∧ fl % 2 = 1) then fl + 1 else fl
    (r * 2 ^ sh ≤ a + 2 ^ (sh - 1)) ∧ (a ≤ r * 2 ^ sh + 2 ^ (sh - 1)) := by
  intro fl rem half r
  have hfl : fl = a / 2 ^ sh := Nat.shiftRight_eq_div_pow a sh
  have hshl : fl <<< sh = fl * 2 ^ sh := Nat.shiftLeft_eq fl sh
  have hhalf : half = 2 ^ (sh - 1) := by show 1 <<< (sh - 1) = _; rw [Nat.shiftLeft_eq, Nat.one_mul]
  have hpow : 2 ^ sh = 2 * 2 ^ (sh - 1) := by
    conv_lhs => rw [show sh = (sh - 1) + 1 by omega]
    rw [Nat.pow_succ]; ring
  have hdm := Nat.div_add_mod a (2 ^ sh)
  have hmod := Nat.mod_lt a (Nat.two_pow_pos sh)
  have hle : fl * 2 ^ sh ≤ a := by rw [hfl]; exact Nat.div_mul_le_self a (2 ^ sh)
  have hrem : rem = a % 2 ^ sh := by
    show a - fl <<< sh = _
    rw [hshl, hfl]
    have : 2 ^ sh * (a / 2 ^ sh) = a / 2 ^ sh * 2 ^ sh := Nat.mul_comm _ _
    omega
  have hremlt : rem < 2 * 2 ^ (sh - 1) := by rw [hrem, ← hpow]; exact hmod
  have ha : a = fl * 2 ^ sh + rem := by
    rw [hrem, hfl]
    have : 2 ^ sh * (a / 2 ^ sh) = a / 2 ^ sh * 2 ^ sh := Nat.mul_comm _ _
    omega
  show (r * 2 ^ sh ≤ a + 2 ^ (sh - 1)) ∧ (a ≤ r * 2 ^ sh + 2 ^ (sh - 1))
  by_cases hc : rem > half ∨ (rem = half ∧ fl % 2 = 1)
  · have hr : r = fl + 1 := if_pos hc
    rw [hr, Nat.add_mul, Nat.one_mul]
    have : half ≤ rem := by rcases hc with h | h <;> omega
    rw [hhalf] at this
    constructor <;> omega
  · have hr : r = fl := if_neg hc
    rw [hr]
    have : rem ≤ half := by
      by_contra hgt
      exact hc (Or.inl (by omega))
    rw [hhalf] at this
    constructor <;> omega

/-- **rnd_abs_error** — `rnd m e` lies within half a unit of the last place of the exact value `m·2^e` -/
theorem rnd_abs_error (m e : Int) (h0 : m ≠ 0) :
    |val (rnd m e) - (m : ℚ) * (2 : ℚ) ^ e| ≤ (2 : ℚ) ^ (ulpExp m e - 1) := by
  unfold rnd ulpExp
  simp only [h0, if_false]
  by_cases hq : max (e + (bitLen m.natAbs : Int) - 53) (-1074) ≤ e
  · simp only [hq, if_true, val_mk, sub_self, abs_zero]
    exact le_of_lt (two_zpow_pos _)
  · simp only [hq, if_false]
    generalize hS : (max (e + (bitLen m.natAbs : Int) - 53) (-1074) - e).toNat = sh
    have hSpos : 0 < sh := by omega
    have hQ : max (e + (bitLen m.natAbs : Int) - 53) (-1074) = e + sh := by omega
    obtain ⟨h1, h2⟩ := round_nat m.natAbs sh hSpos
    generalize hr : (if m.natAbs - (m.natAbs >>> sh) <<< sh > 1 <<< (sh - 1) ∨
        (m.natAbs - (m.natAbs >>> sh) <<< sh = 1 <<< (sh - 1) ∧ (m.natAbs >>> sh) % 2 = 1)
        then m.natAbs >>> sh + 1 else m.natAbs >>> sh) = r at h1 h2
    rw [hQ]
    -- |r·2^sh − a| ≤ 2^(sh−1) over ℚ
    have q1 : ((r : ℚ) * 2 ^ sh) - (m.natAbs : ℚ) ≤ 2 ^ (sh - 1) := by
      have : ((r * 2 ^ sh : Nat) : ℚ) ≤ ((m.natAbs + 2 ^ (sh - 1) : Nat) : ℚ) := by exact_mod_cast h1
      push_cast at this; linarith
    have q2 : (m.natAbs : ℚ) - ((r : ℚ) * 2 ^ sh) ≤ 2 ^ (sh - 1) := by
      have : ((m.natAbs : Nat) : ℚ) ≤ ((r * 2 ^ sh + 2 ^ (sh - 1) : Nat) : ℚ) := by exact_mod_cast h2
      push_cast at this; linarith
    have habs : |((r : ℚ) * 2 ^ sh) - (m.natAbs : ℚ)| ≤ 2 ^ (sh - 1) := abs_le.mpr ⟨by linarith, q1⟩
    have hpe : (0 : ℚ) < (2 : ℚ) ^ e := two_zpow_pos e
    have e1 : (2 : ℚ) ^ (e + (sh : Int)) = (2 : ℚ) ^ sh * (2 : ℚ) ^ e := by
      rw [zpow_add₀ two_ne, zpow_natCast]; ring
    have e2 : (2 : ℚ) ^ (e + (sh : Int) - 1) = (2 : ℚ) ^ (sh - 1) * (2 : ℚ) ^ e := by
      rw [show e + (sh : Int) - 1 = ((sh - 1 : Nat) : Int) + e by omega, zpow_add₀ two_ne, zpow_natCast]
    rw [e2]
    by_cases hneg : m < 0
    · simp only [hneg, if_true, val_mk]
      have hm : (m : ℚ) = -((m.natAbs : Nat) : ℚ) := by
        have : m = -((m.natAbs : Nat) : Int) := by omega
        conv_lhs => rw [this]
        simp only [Int.cast_neg, Int.cast_natCast]
      rw [hm, e1]
      have : (((-(r : Int) : Int) : ℚ)) * ((2 : ℚ) ^ sh * (2 : ℚ) ^ e) - -((m.natAbs : Nat) : ℚ) * (2 : ℚ) ^ e
          = -(((r : ℚ) * 2 ^ sh) - (m.natAbs : ℚ)) * (2 : ℚ) ^ e := by push_cast; ring
      rw [this, abs_mul, abs_neg, abs_of_pos hpe]
      exact mul_le_mul_of_nonneg_right habs (le_of_lt hpe)
    · simp only [hneg, if_false, val_mk]
      have hm : (m : ℚ) = ((m.natAbs : Nat) : ℚ) := by
        have : m = ((m.natAbs : Nat) : Int) := by omega
        conv_lhs => rw [this]
        simp only [Int.cast_natCast]
      rw [hm, e1]
      have : (((r : Int) : ℚ)) * ((2 : ℚ) ^ sh * (2 : ℚ) ^ e) - ((m.natAbs : Nat) : ℚ) * (2 : ℚ) ^ e
          = (((r : ℚ) * 2 ^ sh) - (m.natAbs : ℚ)) * (2 : ℚ) ^ e := by push_cast; ring
      rw [this, abs_mul, abs_of_pos hpe]
      exact mul_le_mul_of_nonneg_right habs (le_of_lt hpe)

/-- **rnd_rel_error** — outside the subnormal range the relative error is at most 2^-53 -/
theorem rnd_rel_error (m e : Int) (h0 : m ≠ 0) (hn : -1074 ≤ e + (bitLen m.natAbs : Int) - 53) :
    |val (rnd m e) - (m : ℚ) * (2 : ℚ) ^ e| ≤ (2 : ℚ) ^ (-53 : Int) * |(m : ℚ) * (2 : ℚ) ^ e| := by
  refine le_trans (rnd_abs_error m e h0) ?_
  have hu : ulpExp m e = e + (bitLen m.natAbs : Int) - 53 := by unfold ulpExp; omega
  rw [hu]
  have hpos : 0 < m.natAbs := Int.natAbs_pos.mpr h0
  have hlow := two_pow_bitLen_pred_le m.natAbs hpos
  have hpe : (0 : ℚ) < (2 : ℚ) ^ e := two_zpow_pos e
  have habs : |(m : ℚ) * (2 : ℚ) ^ e| = (m.natAbs : ℚ) * (2 : ℚ) ^ e := by
    rw [abs_mul, abs_of_pos hpe]
    congr 1
    rw [← Int.cast_abs, Int.abs_eq_natAbs]; simp
  rw [habs]
  have hb1 : 1 ≤ bitLen m.natAbs := by
    unfold bitLen; split <;> omega
  have e1 : (2 : ℚ) ^ (e + (bitLen m.natAbs : Int) - 53 - 1) = (2 : ℚ) ^ (-53 : Int) * ((2 : ℚ) ^ (bitLen m.natAbs - 1) * (2 : ℚ) ^ e) := by
    rw [← zpow_natCast, ← zpow_add₀ two_ne, ← zpow_add₀ two_ne]; congr 1; omega
  rw [e1]
  have : ((2 : ℚ) ^ (bitLen m.natAbs - 1)) ≤ (m.natAbs : ℚ) := by exact_mod_cast hlow
  have h53 : (0 : ℚ) < (2 : ℚ) ^ (-53 : Int) := two_zpow_pos _
  exact mul_le_mul_of_nonneg_left (mul_le_mul_of_nonneg_right this (le_of_lt hpe)) (le_of_lt h53)


/-- **rnd_err** — one bound for both ranges: relative 2^-53 plus the absolute half-ulp of the subnormal range -/
theorem rnd_err (m e : Int) :
    |val (rnd m e) - (m : ℚ) * (2 : ℚ) ^ e| ≤ (2 : ℚ) ^ (-53 : Int) * |(m : ℚ) * (2 : ℚ) ^ e| + (2 : ℚ) ^ (-1075 : Int) := by
  by_cases h0 : m = 0
  · subst h0; rw [rnd_zero]; simp only [val_mk, Int.cast_zero, zero_mul, sub_self, abs_zero, mul_zero, zero_add]
    exact le_of_lt (two_zpow_pos _)
  have t1 : (0 : ℚ) ≤ (2 : ℚ) ^ (-53 : Int) * |(m : ℚ) * (2 : ℚ) ^ e| :=
    mul_nonneg (le_of_lt (two_zpow_pos _)) (abs_nonneg _)
  have t2 : (0 : ℚ) < (2 : ℚ) ^ (-1075 : Int) := two_zpow_pos _
  by_cases hn : -1074 ≤ e + (bitLen m.natAbs : Int) - 53
  · have := rnd_rel_error m e h0 hn; linarith
  · have := rnd_abs_error m e h0
    have hu : ulpExp m e = -1074 := by unfold ulpExp; omega
    rw [hu] at this
    have : (2 : ℚ) ^ ((-1074 : Int) - 1) = (2 : ℚ) ^ (-1075 : Int) := by norm_num
    linarith

/-- **add_err** — the sum is the exact sum up to one rounding -/
theorem add_err (x y : Dy) :
    |val (add x y) - (val x + val y)| ≤ (2 : ℚ) ^ (-53 : Int) * |val x + val y| + (2 : ℚ) ^ (-1075 : Int) := by
  unfold add
  simp only []
  have := rnd_err (x.m * 2 ^ (x.e - min x.e y.e).toNat + y.m * 2 ^ (y.e - min x.e y.e).toNat) (min x.e y.e)
  rw [add_aligned_val] at this
  exact this

/-- scaling a binary64 value by a power of two that keeps it out of the subnormal range is exact -/
theorem scale_val_of_rep (x : Dy) (k : Int) (hr : Rep x) (hk : -1074 ≤ x.e + k) : val (scale x k) = val x * (2 : ℚ) ^ k := by
  unfold scale
  by_cases h0 : x.m = 0
  · simp [h0, rnd_zero, val]
  · rw [rnd_of_fits x.m (x.e + k) h0 hr.1 hk, val_mk, zpow_add₀ two_ne]
    unfold val; ring

/-- **div_err** — the quotient is the exact quotient up to relative error 2^-52 (sticky-bit quotient, then one rounding) -/
theorem div_err (x y : Dy) (hy : y.m ≠ 0) :
    |val (div x y) - val x / val y| ≤ (2 : ℚ) ^ (-52 : Int) * |val x / val y| + (2 : ℚ) ^ (-1075 : Int) := by
  unfold div
  by_cases hx : x.m = 0
  · simp only [hx, if_true]
    simp only [val, hx, Int.cast_zero, zero_mul, zero_div, sub_self, abs_zero, mul_zero, zero_add]
    exact le_of_lt (two_zpow_pos _)
  simp only [hx, if_false]
  generalize hk : (bitLen y.m.natAbs + 56) - min (bitLen x.m.natAbs) (bitLen y.m.natAbs + 56) + 2 = k
  have hapos : 0 < x.m.natAbs := Int.natAbs_pos.mpr hx
  have hbpos : 0 < y.m.natAbs := Int.natAbs_pos.mpr hy
  have hsize : y.m.natAbs * 2 ^ 57 < x.m.natAbs * 2 ^ k := by
    have h1 := two_pow_bitLen_pred_le _ hapos
    have h2 := lt_two_pow_bitLen y.m.natAbs
    have hbl : 1 ≤ bitLen x.m.natAbs := by
      unfold bitLen; have : x.m.natAbs ≠ 0 := by omega
      simp [this]
    have hk2 : bitLen y.m.natAbs + 57 ≤ bitLen x.m.natAbs - 1 + k := by omega
    calc y.m.natAbs * 2 ^ 57 < 2 ^ bitLen y.m.natAbs * 2 ^ 57 := Nat.mul_lt_mul_of_pos_right h2 (Nat.two_pow_pos _)
      _ = 2 ^ (bitLen y.m.natAbs + 57) := by rw [Nat.pow_add]
      _ ≤ 2 ^ (bitLen x.m.natAbs - 1 + k) := Nat.pow_le_pow_right (by decide) hk2
      _ = 2 ^ (bitLen x.m.natAbs - 1) * 2 ^ k := by rw [Nat.pow_add]
      _ ≤ x.m.natAbs * 2 ^ k := Nat.mul_le_mul_right _ h1
  rw [Nat.shiftLeft_eq]
  generalize hn : x.m.natAbs * 2 ^ k = n at hsize
  generalize hq : n / y.m.natAbs = q
  generalize hr : n % y.m.natAbs = r
  have hdm : n = y.m.natAbs * q + r := by rw [← hq, ← hr]; exact (Nat.div_add_mod n _).symm
  have hrlt : r < y.m.natAbs := by rw [← hr]; exact Nat.mod_lt _ hbpos
  have hq57 : 2 ^ 57 ≤ q := by
    rw [← hq]; exact (Nat.le_div_iff_mul_le hbpos).mpr (by rw [Nat.mul_comm]; exact Nat.le_of_lt hsize)
  -- rational bookkeeping
  set S : Int := if (x.m < 0) != (y.m < 0) then -1 else 1 with hS
  set E : Int := x.e - y.e - k - 1 with hE
  set q2 : Nat := q * 2 + (if r = 0 then 0 else 1) with hq2
  have hSabs : |(S : ℚ)| = 1 := by
    rw [hS]; split <;> simp
  have hU : (0 : ℚ) < (2 : ℚ) ^ E := two_zpow_pos E
  have hbq : (0 : ℚ) < (y.m.natAbs : ℚ) := by exact_mod_cast hbpos
  -- the exact quotient in units of 2^E
  have hT : val x / val y = (S : ℚ) * ((2 * (n : ℚ)) / (y.m.natAbs : ℚ)) * (2 : ℚ) ^ E := by
    have hv : val x / val y = ((x.m : ℚ) / (y.m : ℚ)) * (2 : ℚ) ^ (x.e - y.e) := by
      have hyq : (y.m : ℚ) ≠ 0 := by exact_mod_cast hy
      unfold val; rw [zpow_sub₀ two_ne]; field_simp
    rw [hv, ← sign_quot x.m y.m hx hy, ← hS]
    have e1 : (2 : ℚ) ^ (x.e - y.e) = (2 : ℚ) ^ E * (2 ^ k * 2) := by
      have : (2 : ℚ) ^ k * 2 = (2 : ℚ) ^ ((k : Int) + 1) := by rw [zpow_add₀ two_ne, zpow_natCast, zpow_one]
      rw [this, ← zpow_add₀ two_ne]; congr 1; omega
    have e2 : (n : ℚ) = (x.m.natAbs : ℚ) * 2 ^ k := by rw [← hn]; push_cast; ring
    rw [e1, e2]
    field_simp
  -- |q2 − 2n/b| ≤ 1
  have hdiff : |(q2 : ℚ) - (2 * (n : ℚ)) / (y.m.natAbs : ℚ)| ≤ 1 := by
    have hnq : (n : ℚ) = (y.m.natAbs : ℚ) * q + r := by exact_mod_cast hdm
    have e : (2 * (n : ℚ)) / (y.m.natAbs : ℚ) = 2 * q + 2 * (r : ℚ) / (y.m.natAbs : ℚ) := by
      rw [hnq]; field_simp
    rw [e]
    by_cases hr0 : r = 0
    · have : (q2 : ℚ) = q * 2 := by simp [hq2, hr0]
      rw [this, hr0]
      have : (q : ℚ) * 2 - (2 * q + 2 * ((0 : Nat) : ℚ) / (y.m.natAbs : ℚ)) = 0 := by simp; ring
      rw [this]; simp
    · have hq2v : (q2 : ℚ) = q * 2 + 1 := by simp [hq2, hr0]
      rw [hq2v]
      have hrpos : (0 : ℚ) < r := by exact_mod_cast Nat.pos_of_ne_zero hr0
      have hrb : (r : ℚ) < (y.m.natAbs : ℚ) := by exact_mod_cast hrlt
      have f1 : 0 < 2 * (r : ℚ) / (y.m.natAbs : ℚ) := by positivity
      have f2 : 2 * (r : ℚ) / (y.m.natAbs : ℚ) < 2 := by
        rw [div_lt_iff₀ hbq]; linarith
      rw [abs_le]; constructor <;> linarith
  -- 2n/b ≥ 2^58
  have hbig : (2 : ℚ) ^ 58 ≤ (2 * (n : ℚ)) / (y.m.natAbs : ℚ) := by
    rw [le_div_iff₀ hbq]
    have : ((y.m.natAbs * 2 ^ 57 : Nat) : ℚ) < ((n : Nat) : ℚ) := by exact_mod_cast hsize
    push_cast at this
    have : (2 : ℚ) ^ 58 = 2 * 2 ^ 57 := by norm_num
    nlinarith
  set Tq : ℚ := (2 * (n : ℚ)) / (y.m.natAbs : ℚ) with hTq
  have hTqpos : 0 < Tq := lt_of_lt_of_le (by positivity) hbig
  -- pre-rounding value and the two error terms
  have hP : ((S * (q2 : Int) : Int) : ℚ) * (2 : ℚ) ^ E - val x / val y = (S : ℚ) * ((q2 : ℚ) - Tq) * (2 : ℚ) ^ E := by
    rw [hT]; push_cast; ring
  have hTabs : |val x / val y| = Tq * (2 : ℚ) ^ E := by
    rw [hT, abs_mul, abs_mul, hSabs, one_mul, abs_of_pos hTqpos, abs_of_pos hU]
  have hPT : |((S * (q2 : Int) : Int) : ℚ) * (2 : ℚ) ^ E - val x / val y| ≤ (2 : ℚ) ^ (-58 : Int) * |val x / val y| := by
    rw [hP, abs_mul, abs_mul, hSabs, one_mul, abs_of_pos hU, hTabs]
    have : |(q2 : ℚ) - Tq| ≤ (2 : ℚ) ^ (-58 : Int) * Tq := by
      have h58 : (2 : ℚ) ^ (-58 : Int) * (2 : ℚ) ^ 58 = 1 := by norm_num
      calc |(q2 : ℚ) - Tq| ≤ 1 := hdiff
        _ = (2 : ℚ) ^ (-58 : Int) * (2 : ℚ) ^ 58 := h58.symm
        _ ≤ (2 : ℚ) ^ (-58 : Int) * Tq := mul_le_mul_of_nonneg_left hbig (le_of_lt (two_zpow_pos _))
    calc |(q2 : ℚ) - Tq| * (2 : ℚ) ^ E ≤ ((2 : ℚ) ^ (-58 : Int) * Tq) * (2 : ℚ) ^ E := mul_le_mul_of_nonneg_right this (le_of_lt hU)
      _ = (2 : ℚ) ^ (-58 : Int) * (Tq * (2 : ℚ) ^ E) := by ring
  have hrn := rnd_err (S * (q2 : Int)) E
  -- |P| ≤ (1 + 2^-58)|T|
  have hPabs : |((S * (q2 : Int) : Int) : ℚ) * (2 : ℚ) ^ E| ≤ (1 + (2 : ℚ) ^ (-58 : Int)) * |val x / val y| := by
    have := abs_sub_abs_le_abs_sub (((S * (q2 : Int) : Int) : ℚ) * (2 : ℚ) ^ E) (val x / val y)
    linarith
  have hTnn : 0 ≤ |val x / val y| := abs_nonneg _
  have tri : |val (rnd (S * (q2 : Int)) E) - val x / val y| ≤
      |val (rnd (S * (q2 : Int)) E) - ((S * (q2 : Int) : Int) : ℚ) * (2 : ℚ) ^ E| +
      |((S * (q2 : Int) : Int) : ℚ) * (2 : ℚ) ^ E - val x / val y| := by
    exact abs_sub_le _ _ _
  have c53 : (2 : ℚ) ^ (-53 : Int) * (1 + (2 : ℚ) ^ (-58 : Int)) + (2 : ℚ) ^ (-58 : Int) ≤ (2 : ℚ) ^ (-52 : Int) := by norm_num
  have h53 : (0 : ℚ) < (2 : ℚ) ^ (-53 : Int) := two_zpow_pos _
  calc |val (rnd (S * (q2 : Int)) E) - val x / val y|
      ≤ ((2 : ℚ) ^ (-53 : Int) * |((S * (q2 : Int) : Int) : ℚ) * (2 : ℚ) ^ E| + (2 : ℚ) ^ (-1075 : Int)) +
          (2 : ℚ) ^ (-58 : Int) * |val x / val y| := by
        exact le_trans tri (add_le_add hrn hPT)
    _ ≤ ((2 : ℚ) ^ (-53 : Int) * ((1 + (2 : ℚ) ^ (-58 : Int)) * |val x / val y|) + (2 : ℚ) ^ (-1075 : Int)) +
          (2 : ℚ) ^ (-58 : Int) * |val x / val y| := by
        have := mul_le_mul_of_nonneg_left hPabs (le_of_lt h53); linarith
    _ = ((2 : ℚ) ^ (-53 : Int) * (1 + (2 : ℚ) ^ (-58 : Int)) + (2 : ℚ) ^ (-58 : Int)) * |val x / val y| + (2 : ℚ) ^ (-1075 : Int) := by ring
    _ ≤ (2 : ℚ) ^ (-52 : Int) * |val x / val y| + (2 : ℚ) ^ (-1075 : Int) := by
        have := mul_le_mul_of_nonneg_right c53 hTnn; linarith


/-- the result of a rounding is a binary64 value (as a rational: the mantissa `2^53` of a carry is renormalised) -/
theorem repVal_rnd (m e : Int) : RepVal (val (rnd m e)) := by
  by_cases h0 : m = 0
  · subst h0; rw [rnd_zero]; exact ⟨0, 0, by decide, by decide, by simp [val]⟩
  unfold rnd
  simp only [h0, if_false]
  by_cases hq : max (e + (bitLen m.natAbs : Int) - 53) (-1074) ≤ e
  · simp only [hq, if_true]
    exact ⟨m, e, by omega, by omega, rfl⟩
  · simp only [hq, if_false]
    generalize hS : (max (e + (bitLen m.natAbs : Int) - 53) (-1074) - e).toNat = sh
    have hSpos : 0 < sh := by omega
    have hQ : max (e + (bitLen m.natAbs : Int) - 53) (-1074) = e + sh := by omega
    have hlen : bitLen m.natAbs ≤ 53 + sh := by omega
    have hfl : m.natAbs >>> sh < 2 ^ 53 := by
      rw [Nat.shiftRight_eq_div_pow, Nat.div_lt_iff_lt_mul (Nat.two_pow_pos _), ← Nat.pow_add]
      exact lt_of_bitLen_le _ _ hlen
    generalize hr : (if m.natAbs - (m.natAbs >>> sh) <<< sh > 1 <<< (sh - 1) ∨
        (m.natAbs - (m.natAbs >>> sh) <<< sh = 1 <<< (sh - 1) ∧ (m.natAbs >>> sh) % 2 = 1)
        then m.natAbs >>> sh + 1 else m.natAbs >>> sh) = r
    have hrle : r ≤ 2 ^ 53 := by
      rw [← hr]; split <;> omega
    rw [hQ]
    by_cases hcarry : r = 2 ^ 53
    · -- carry: r·2^q = 2^52·2^(q+1)
      refine ⟨if m < 0 then -(2 ^ 52 : Int) else 2 ^ 52, e + sh + 1, ?_, by omega, ?_⟩
      · split <;> decide
      · simp only [val_mk]
        rw [hcarry, zpow_add₀ two_ne (e + (sh : Int)) 1]
        split <;> (push_cast; ring)
    · have hrlt : r < 2 ^ 53 := by omega
      refine ⟨if m < 0 then -(r : Int) else r, e + sh, ?_, by omega, rfl⟩
      have : (if m < 0 then -(r : Int) else (r : Int)).natAbs = r := by split <;> simp
      rw [this]
      exact bitLen_le_of_lt _ _ hrlt

theorem repVal_add (x y : Dy) : RepVal (val (add x y)) := by unfold add; exact repVal_rnd _ _
theorem repVal_div (x y : Dy) : RepVal (val (div x y)) := by
  unfold div
  split
  · exact ⟨0, 0, by decide, by decide, by simp [val]⟩
  · exact repVal_rnd _ _

/-- a binary64 value times a non-negative power of two is a binary64 value (overflow is not modelled) -/
theorem repVal_mul_pow (q : ℚ) (h : RepVal q) (k : Int) (hk : 0 ≤ k) : RepVal (q * (2 : ℚ) ^ k) := by
  obtain ⟨m, e, hb, he, rfl⟩ := h
  exact ⟨m, e + k, hb, by omega, by rw [zpow_add₀ two_ne]; ring⟩

end SpatialId.F64
