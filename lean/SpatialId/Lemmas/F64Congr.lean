/-
The software binary64 works on pairs ⟨m, e⟩ without a canonical form: 3·2^1 and 6·2^0 are different pairs with the same
value. This file proves that the representation never matters: rounding, and with it every arithmetic operation, is a function
of the VALUES of its operands (`rnd_val_congr`, `add_val_congr`, `mul_val_congr`, `sub_val_congr`, `scale_val_congr`), and so
are the comparisons (`Lemmas/F64Order`: `lt_iff_val`, `le_iff_val`, `eq_iff_val`). Hence the model may be read as arithmetic on
binary64 values, as the hardware does it.
-/
import SpatialId.Lemmas.F64Err
namespace SpatialId.F64

theorem bitLen_mul_pow (a k : Nat) (ha : 0 < a) : bitLen (a * 2 ^ k) = bitLen a + k := by
  unfold bitLen
  have h1 : a ≠ 0 := by omega
  have h2 : a * 2 ^ k ≠ 0 := Nat.mul_ne_zero h1 (Nat.pos_iff_ne_zero.mp (Nat.two_pow_pos k))
  simp only [h1, h2, if_false]
  have hl := Nat.log2_self_le h1
  have hu : a < 2 ^ (a.log2 + 1) := Nat.lt_log2_self
  have : (a * 2 ^ k).log2 = a.log2 + k := by
    rw [Nat.log2_eq_iff h2]
    constructor
    · rw [Nat.pow_add]; exact Nat.mul_le_mul_right _ hl
    · rw [show a.log2 + k + 1 = (a.log2 + 1) + k by omega, Nat.pow_add]
      exact Nat.mul_lt_mul_of_pos_right hu (Nat.two_pow_pos k)
  omega

/-- shifting the representation (`m·2^k` at exponent `e − k`) does not change the rounded value -/
theorem rnd_shift_val (m e : Int) (k : Nat) : val (rnd (m * 2 ^ k) (e - k)) = val (rnd m e) := by
  by_cases h0 : m = 0
  · subst h0; simp [rnd_zero]
  have hk0 : m * 2 ^ k ≠ 0 := Int.mul_ne_zero h0 (by positivity)
  have hpos : 0 < m.natAbs := Int.natAbs_pos.mpr h0
  have hna : (m * 2 ^ k).natAbs = m.natAbs * 2 ^ k := by rw [Int.natAbs_mul, Int.natAbs_pow]; rfl
  have hbl : bitLen (m * 2 ^ k).natAbs = bitLen m.natAbs + k := by rw [hna]; exact bitLen_mul_pow _ _ hpos
  have hsign : (m * 2 ^ k < 0) ↔ (m < 0) := by
    have : (0 : Int) < 2 ^ k := by positivity
    constructor
    · intro h; by_contra hc; have : 0 ≤ m * 2 ^ k := Int.mul_nonneg (by omega) (by omega); omega
    · intro h; exact Int.mul_neg_of_neg_of_pos h this
  -- the exact value is the same
  have hexact : ((m * 2 ^ k : Int) : ℚ) * (2 : ℚ) ^ (e - k) = (m : ℚ) * (2 : ℚ) ^ e := by
    rw [zpow_sub₀ two_ne, zpow_natCast]; push_cast; field_simp
  -- both sides are within half an ulp of that value at the SAME last-place exponent, and both are multiples of it …
  -- direct computation instead: unfold both
  unfold rnd
  simp only [h0, hk0, if_false, hbl]
  have hq : max (e - (k : Int) + ((bitLen m.natAbs + k : Nat) : Int) - 53) (-1074) = max (e + (bitLen m.natAbs : Int) - 53) (-1074) := by
    push_cast; congr 1; omega
  rw [hq]
  generalize hQ : max (e + (bitLen m.natAbs : Int) - 53) (-1074) = q
  by_cases c1 : q ≤ e
  · -- right side keeps ⟨m, e⟩
    simp only [c1, if_true]
    by_cases c2 : q ≤ e - k
    · simp only [c2, if_true, val_mk]; exact hexact
    · simp only [c2, if_false]
      -- the left side shifts by sh' ≤ k bits, all of them zero
      generalize hS : (q - (e - (k : Int))).toNat = sh'
      have hsh : sh' ≤ k := by omega
      have hshpos : 0 < sh' := by omega
      have hfl : (m.natAbs * 2 ^ k) >>> sh' = m.natAbs * 2 ^ (k - sh') := by
        rw [Nat.shiftRight_eq_div_pow]
        have : m.natAbs * 2 ^ k = m.natAbs * 2 ^ (k - sh') * 2 ^ sh' := by
          rw [Nat.mul_assoc, ← Nat.pow_add]; congr 2; omega
        rw [this, Nat.mul_div_cancel _ (Nat.two_pow_pos _)]
      have hrem : m.natAbs * 2 ^ k - ((m.natAbs * 2 ^ k) >>> sh') <<< sh' = 0 := by
        rw [hfl, Nat.shiftLeft_eq, Nat.mul_assoc, ← Nat.pow_add]
        have : k - sh' + sh' = k := by omega
        rw [this]; omega
      rw [hna, hrem]
      have hhalf : (1 : Nat) <<< (sh' - 1) = 2 ^ (sh' - 1) := by rw [Nat.shiftLeft_eq, Nat.one_mul]
      have hhp : 0 < 2 ^ (sh' - 1) := Nat.two_pow_pos _
      have hc : ¬ (0 > (1 : Nat) <<< (sh' - 1) ∨ (0 = (1 : Nat) <<< (sh' - 1) ∧ ((m.natAbs * 2 ^ k) >>> sh') % 2 = 1)) := by
        rw [hhalf]; omega
      rw [if_neg hc, hfl]
      have hqe : q = e - k + sh' := by omega
      have hv : ((m.natAbs * 2 ^ (k - sh') : Nat) : ℚ) * (2 : ℚ) ^ q = (m.natAbs : ℚ) * (2 : ℚ) ^ e := by
        rw [hqe]
        have : e - (k : Int) + (sh' : Int) = e - ((k - sh' : Nat) : Int) := by omega
        rw [this, zpow_sub₀ two_ne, zpow_natCast]; push_cast; field_simp
      by_cases hneg : m < 0
      · have hneg' := hsign.mpr hneg
        simp only [hneg, hneg', if_true, val_mk]
        have hm : (m : ℚ) = -((m.natAbs : Nat) : ℚ) := by
          have : m = -((m.natAbs : Nat) : Int) := by omega
          conv_lhs => rw [this]
          simp only [Int.cast_neg, Int.cast_natCast]
        rw [hm, Int.cast_neg, Int.cast_natCast, neg_mul, hv, neg_mul]
      · have hneg' : ¬ (m * 2 ^ k < 0) := fun h => hneg (hsign.mp h)
        simp only [hneg, hneg', if_false, val_mk]
        have hm : (m : ℚ) = ((m.natAbs : Nat) : ℚ) := by
          have : m = ((m.natAbs : Nat) : Int) := by omega
          conv_lhs => rw [this]
          simp only [Int.cast_natCast]
        rw [hm, Int.cast_natCast, hv]
  · -- both sides round; the left shift is the right shift plus k
    have c2 : ¬ q ≤ e - k := by omega
    simp only [c1, c2, if_false]
    generalize hS : (q - e).toNat = sh
    have hS' : (q - (e - (k : Int))).toNat = sh + k := by omega
    rw [hS', hna]
    have hshpos : 0 < sh := by omega
    have hfl : (m.natAbs * 2 ^ k) >>> (sh + k) = m.natAbs >>> sh := by
      rw [Nat.shiftRight_eq_div_pow, Nat.shiftRight_eq_div_pow, Nat.pow_add,
        Nat.mul_div_mul_right _ _ (Nat.two_pow_pos k)]
    have hle : (m.natAbs >>> sh) <<< sh ≤ m.natAbs := by
      rw [Nat.shiftRight_eq_div_pow, Nat.shiftLeft_eq]; exact Nat.div_mul_le_self _ _
    have hrem : m.natAbs * 2 ^ k - (m.natAbs >>> sh) <<< (sh + k) = (m.natAbs - (m.natAbs >>> sh) <<< sh) * 2 ^ k := by
      rw [Nat.shiftLeft_eq, Nat.shiftLeft_eq, Nat.pow_add, ← Nat.mul_assoc, Nat.sub_mul]
    have hhalf : (1 : Nat) <<< (sh + k - 1) = (1 <<< (sh - 1)) * 2 ^ k := by
      rw [Nat.shiftLeft_eq, Nat.shiftLeft_eq, Nat.one_mul, Nat.one_mul, ← Nat.pow_add]; congr 1; omega
    rw [hfl, hrem, hhalf]
    have hkp : 0 < 2 ^ k := Nat.two_pow_pos k
    have g1 : ((m.natAbs - (m.natAbs >>> sh) <<< sh) * 2 ^ k > (1 <<< (sh - 1)) * 2 ^ k) ↔
        (m.natAbs - (m.natAbs >>> sh) <<< sh > 1 <<< (sh - 1)) := by
      constructor
      · intro h; exact Nat.lt_of_mul_lt_mul_right h
      · intro h; exact Nat.mul_lt_mul_of_pos_right h hkp
    have g2 : ((m.natAbs - (m.natAbs >>> sh) <<< sh) * 2 ^ k = (1 <<< (sh - 1)) * 2 ^ k) ↔
        (m.natAbs - (m.natAbs >>> sh) <<< sh = 1 <<< (sh - 1)) := by
      constructor
      · intro h; exact Nat.eq_of_mul_eq_mul_right hkp h
      · intro h; rw [h]
    simp only [g1, g2]
    by_cases hneg : m < 0
    · have hneg' := hsign.mpr hneg
      simp only [hneg, hneg', if_true]
    · have hneg' : ¬ (m * 2 ^ k < 0) := fun h => hneg (hsign.mp h)
      simp only [hneg, hneg', if_false]

/-- **rnd_val_congr** — rounding is a function of the value -/
theorem rnd_val_congr (m e m' e' : Int) (h : (m : ℚ) * (2 : ℚ) ^ e = (m' : ℚ) * (2 : ℚ) ^ e') :
    val (rnd m e) = val (rnd m' e') := by
  rcases le_total e e' with hle | hle
  · have hi := int_of_dyadic_eq m m' e e' hle h
    have := rnd_shift_val m' e' (e' - e).toNat
    rwa [← hi, show e' - ((e' - e).toNat : Int) = e by omega] at this
  · have hi := int_of_dyadic_eq m' m e' e hle h.symm
    have := rnd_shift_val m e (e - e').toNat
    rw [← hi, show e - ((e - e').toNat : Int) = e' by omega] at this
    exact this.symm

theorem add_val_congr (x x' y y' : Dy) (hx : val x = val x') (hy : val y = val y') : val (add x y) = val (add x' y') := by
  unfold add
  apply rnd_val_congr
  rw [add_aligned_val, add_aligned_val, hx, hy]

theorem neg_val_congr (x x' : Dy) (hx : val x = val x') : val (neg x) = val (neg x') := by rw [neg_val, neg_val, hx]

theorem sub_val_congr (x x' y y' : Dy) (hx : val x = val x') (hy : val y = val y') : val (sub x y) = val (sub x' y') := by
  unfold sub; exact add_val_congr _ _ _ _ hx (neg_val_congr _ _ hy)

theorem mul_val_congr (x x' y y' : Dy) (hx : val x = val x') (hy : val y = val y') : val (mul x y) = val (mul x' y') := by
  unfold mul
  apply rnd_val_congr
  have e1 : ((x.m * y.m : Int) : ℚ) * (2 : ℚ) ^ (x.e + y.e) = val x * val y := by
    unfold val; rw [zpow_add₀ two_ne]; push_cast; ring
  have e2 : ((x'.m * y'.m : Int) : ℚ) * (2 : ℚ) ^ (x'.e + y'.e) = val x' * val y' := by
    unfold val; rw [zpow_add₀ two_ne]; push_cast; ring
  rw [e1, e2, hx, hy]

theorem scale_val_congr (x x' : Dy) (k : Int) (hx : val x = val x') : val (scale x k) = val (scale x' k) := by
  unfold scale
  apply rnd_val_congr
  have e1 : (x.m : ℚ) * (2 : ℚ) ^ (x.e + k) = val x * (2 : ℚ) ^ k := by unfold val; rw [zpow_add₀ two_ne]; ring
  have e2 : (x'.m : ℚ) * (2 : ℚ) ^ (x'.e + k) = val x' * (2 : ℚ) ^ k := by unfold val; rw [zpow_add₀ two_ne]; ring
  rw [e1, e2, hx]

end SpatialId.F64
