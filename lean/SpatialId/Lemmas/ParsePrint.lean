/-
The string layer of IDs is lossless: printing an ID and parsing it back gives the ID, for every int64 component.
  parseInt64 (fmtInt i) = some i        (strconv.FormatInt ∘ strconv.ParseInt on the int64 range)
  splitSlash (joinSlash l) = l          (strings.Split ∘ strings.Join when no field contains '/')
  parseExt e.id = some e
-/
import SpatialId.Basic
namespace SpatialId

theorem digitVal_of_isDigit (c : Char) (h : c.isDigit) : digitVal c = some (c.toNat - '0'.toNat) := by
  unfold digitVal
  have h' : '0' ≤ c ∧ c ≤ '9' := by
    simp only [Char.isDigit, Bool.and_eq_true, decide_eq_true_eq] at h
    exact ⟨by simpa [Char.le_def] using h.1, by simpa [Char.le_def] using h.2⟩
  simp [h']

theorem parseDigits_eq (cs : List Char) (acc : Nat) (h : ∀ c ∈ cs, c.isDigit) :
    parseDigits cs acc = some (Nat.ofDigitChars 10 cs acc) := by
  induction cs generalizing acc with
  | nil => simp [parseDigits]
  | cons c cs ih =>
    have hc := h c (by simp)
    simp only [parseDigits, digitVal_of_isDigit c hc, Nat.ofDigitChars_cons]
    rw [ih _ (fun d hd => h d (by simp [hd])), Nat.mul_comm]

theorem parseDigits_toDigits (n : Nat) : parseDigits (Nat.toDigits 10 n) 0 = some n := by
  rw [parseDigits_eq _ _ (fun c hc => Nat.isDigit_of_mem_toDigits (by decide) (by decide) hc)]
  simp


theorem parseInt64Chars_digits (cs : List Char) (h : ∀ c ∈ cs, c.isDigit) (hne : cs ≠ []) :
    parseInt64Chars cs =
      if ((Nat.ofDigitChars 10 cs 0 : Nat) : Int) < 2 ^ 63 then some ((Nat.ofDigitChars 10 cs 0 : Nat) : Int) else none := by
  unfold parseInt64Chars
  split
  · rename_i neg ds heq
    split at heq
    · rename_i r; exact absurd (h '-' (by simp)) (by decide)
    · rename_i r; exact absurd (h '+' (by simp)) (by decide)
    · simp only [Prod.mk.injEq] at heq
      obtain ⟨rfl, rfl⟩ := heq
      have : cs.isEmpty = false := by cases cs <;> simp_all
      simp only [this, Bool.false_eq_true, ↓reduceIte, parseDigits_eq cs 0 h]
      have h0 : -(2 ^ 63 : Int) ≤ ((Nat.ofDigitChars 10 cs 0 : Nat) : Int) := by omega
      by_cases hb : ((Nat.ofDigitChars 10 cs 0 : Nat) : Int) < 2 ^ 63
      · rw [if_pos ⟨h0, hb⟩, if_pos hb]
      · rw [if_neg (fun h => hb h.2), if_neg hb]

theorem parseInt64Chars_neg (cs : List Char) (h : ∀ c ∈ cs, c.isDigit) (hne : cs ≠ []) :
    parseInt64Chars ('-' :: cs) =
      if ((Nat.ofDigitChars 10 cs 0 : Nat) : Int) ≤ 2 ^ 63 then some (-((Nat.ofDigitChars 10 cs 0 : Nat) : Int)) else none := by
  unfold parseInt64Chars
  have : cs.isEmpty = false := by cases cs <;> simp_all
  simp only [this, Bool.false_eq_true, ↓reduceIte, parseDigits_eq cs 0 h]
  by_cases hb : ((Nat.ofDigitChars 10 cs 0 : Nat) : Int) ≤ 2 ^ 63
  · have : -(2 ^ 63 : Int) ≤ -((Nat.ofDigitChars 10 cs 0 : Nat) : Int) ∧ -((Nat.ofDigitChars 10 cs 0 : Nat) : Int) < 2 ^ 63 := by omega
    rw [if_pos this, if_pos hb]
  · have : ¬ (-(2 ^ 63 : Int) ≤ -((Nat.ofDigitChars 10 cs 0 : Nat) : Int)) := by omega
    rw [if_neg (fun h => this h.1), if_neg hb]

/-- `strconv.ParseInt(strconv.FormatInt(i, 10), 10, 64) = i` for every int64 `i`. -/
theorem parseInt64_fmtInt (i : Int) (hlo : -(2 ^ 63 : Int) ≤ i) (hhi : i < 2 ^ 63) : parseInt64 (fmtInt i) = some i := by
  unfold parseInt64 fmtInt
  rw [Int.toString_eq_repr, Int.repr_eq_if]
  have dig : ∀ n : Nat, ∀ c ∈ Nat.toDigits 10 n, c.isDigit :=
    fun n c hc => Nat.isDigit_of_mem_toDigits (by decide) (by decide) hc
  split
  · rename_i h0
    rw [Nat.toList_repr, parseInt64Chars_digits _ (dig _) Nat.toDigits_ne_nil]
    simp only [Nat.ofDigitChars_ten_toDigits]
    have : ((i.toNat : Nat) : Int) = i := by omega
    rw [this, if_pos hhi]
  · rename_i h0
    have : ("-" ++ (-i).toNat.repr).toList = '-' :: Nat.toDigits 10 (-i).toNat := by
      simp [String.toList_append, Nat.toList_repr]
    rw [this, parseInt64Chars_neg _ (dig _) Nat.toDigits_ne_nil]
    simp only [Nat.ofDigitChars_ten_toDigits]
    have e : (((-i).toNat : Nat) : Int) = -i := by omega
    have : -i ≤ 2 ^ 63 := by omega
    rw [e, if_pos this, Int.neg_neg]

/-- the printed form of an integer contains no `/`. -/
theorem slash_not_in_fmtInt (i : Int) : '/' ∉ (fmtInt i).toList := by
  unfold fmtInt
  rw [Int.toString_eq_repr, Int.repr_eq_if]
  have dig : ∀ n : Nat, '/' ∉ Nat.toDigits 10 n :=
    fun n hc => absurd (Nat.isDigit_of_mem_toDigits (by decide) (by decide) hc) (by decide)
  split
  · rw [Nat.toList_repr]; exact dig _
  · simp only [String.toList_append, Nat.toList_repr, List.mem_append, not_or]
    exact ⟨by decide, dig _⟩

/-- `strings.Split(strings.Join(l, "/"), "/") = l` when no field contains `/` (and `l` is not empty). -/
theorem splitSlash_joinSlash (l : List String) (hne : l ≠ []) (h : ∀ s ∈ l, '/' ∉ s.toList) :
    splitSlash (joinSlash l) = l := by
  unfold splitSlash joinSlash
  have e : ("/" : String) = String.singleton '/' := rfl
  rw [e, String.toList_split_intercalate h]
  simp [hne]

/-- an ID whose components are int64 values parses back to itself. -/
def Ext.int64 (e : Ext) : Prop :=
  (-(2 ^ 63 : Int) ≤ e.h ∧ e.h < 2 ^ 63) ∧ (-(2 ^ 63 : Int) ≤ e.x ∧ e.x < 2 ^ 63) ∧ (-(2 ^ 63 : Int) ≤ e.y ∧ e.y < 2 ^ 63) ∧
  (-(2 ^ 63 : Int) ≤ e.v ∧ e.v < 2 ^ 63) ∧ (-(2 ^ 63 : Int) ≤ e.f ∧ e.f < 2 ^ 63)

theorem parseExt_id (e : Ext) (h : e.int64) : parseExt e.id = some e := by
  obtain ⟨h1, h2, h3, h4, h5⟩ := h
  unfold parseExt Ext.id
  rw [splitSlash_joinSlash _ (by simp)]
  · simp only [parseInt64_fmtInt _ h1.1 h1.2, parseInt64_fmtInt _ h2.1 h2.2, parseInt64_fmtInt _ h3.1 h3.2,
      parseInt64_fmtInt _ h4.1 h4.2, parseInt64_fmtInt _ h5.1 h5.2]
  · intro s hs
    simp only [List.mem_cons, List.not_mem_nil, or_false] at hs
    rcases hs with rfl | rfl | rfl | rfl | rfl <;> exact slash_not_in_fmtInt _

theorem Ext.valid.int64 {e : Ext} (h : e.valid) : e.int64 := by
  obtain ⟨h1, h2, h3, h4, h5, h6, h7, h8, h9, h10⟩ := h
  have p : ∀ z : Int, 0 ≤ z → z ≤ 35 → (2 : Int) ^ z.toNat ≤ 2 ^ 35 := fun z _ _ => by
    have : (2 : Nat) ^ z.toNat ≤ 2 ^ 35 := Nat.pow_le_pow_right (by decide) (by omega)
    exact_mod_cast this
  have ph := p e.h h1 h2
  have pv := p e.v h3 h4
  refine ⟨⟨?_, ?_⟩, ⟨?_, ?_⟩, ⟨?_, ?_⟩, ⟨?_, ?_⟩, ⟨?_, ?_⟩⟩ <;> omega

/-- every valid ID survives print-then-parse: the string interface loses nothing on the documented domain. -/
theorem parseExt_id_valid (e : Ext) (h : e.valid) : parseExt e.id = some e := parseExt_id e h.int64

end SpatialId
