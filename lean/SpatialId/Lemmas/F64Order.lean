/-
The comparison of the software binary64 is the order of the rational values: `val ⟨m, e⟩ = m · 2^e`.
-/
import Mathlib.Algebra.Order.Field.Power
import Mathlib.Tactic.Ring
import Mathlib.Tactic.Linarith
import Mathlib.Tactic.Positivity
import Mathlib.Tactic.FieldSimp
import SpatialId.F64
namespace SpatialId.F64

/-- the rational number a dyadic denotes -/
def val (x : Dy) : ℚ := (x.m : ℚ) * (2 : ℚ) ^ x.e

theorem two_zpow_pos (e : Int) : (0 : ℚ) < (2 : ℚ) ^ e := zpow_pos (by norm_num) e

/-- `cmpInt x y` is `val x - val y` scaled by the positive factor `2^(-min e)` -/
theorem cmpInt_val (x y : Dy) : ((cmpInt x y : Int) : ℚ) * (2 : ℚ) ^ (min x.e y.e) = val x - val y := by
  unfold cmpInt val
  simp only []
  have h2 : (2 : ℚ) ≠ 0 := by norm_num
  have e1 : (2 : ℚ) ^ x.e = (2 : ℚ) ^ ((x.e - min x.e y.e).toNat : Int) * (2 : ℚ) ^ (min x.e y.e) := by
    rw [← zpow_add₀ h2]; congr 1; omega
  have e2 : (2 : ℚ) ^ y.e = (2 : ℚ) ^ ((y.e - min x.e y.e).toNat : Int) * (2 : ℚ) ^ (min x.e y.e) := by
    rw [← zpow_add₀ h2]; congr 1; omega
  rw [e1, e2]
  push_cast
  simp only [zpow_natCast]
  ring

theorem le_iff_val (x y : Dy) : le x y = true ↔ val x ≤ val y := by
  unfold le
  simp only [decide_eq_true_eq]
  have h := cmpInt_val x y
  have hp := two_zpow_pos (min x.e y.e)
  constructor
  · intro hc
    have : ((cmpInt x y : Int) : ℚ) ≤ 0 := by exact_mod_cast hc
    have : ((cmpInt x y : Int) : ℚ) * (2 : ℚ) ^ (min x.e y.e) ≤ 0 := mul_nonpos_of_nonpos_of_nonneg this (le_of_lt hp)
    linarith
  · intro hv
    have h1 : ((cmpInt x y : Int) : ℚ) * (2 : ℚ) ^ (min x.e y.e) ≤ 0 := by linarith
    have : ((cmpInt x y : Int) : ℚ) ≤ 0 := by
      by_contra hc
      rw [not_le] at hc
      have := mul_pos hc hp
      linarith
    exact_mod_cast this

theorem lt_iff_val (x y : Dy) : lt x y = true ↔ val x < val y := by
  unfold lt
  simp only [decide_eq_true_eq]
  have h := cmpInt_val x y
  have hp := two_zpow_pos (min x.e y.e)
  constructor
  · intro hc
    have : ((cmpInt x y : Int) : ℚ) < 0 := by exact_mod_cast hc
    have : ((cmpInt x y : Int) : ℚ) * (2 : ℚ) ^ (min x.e y.e) < 0 := mul_neg_of_neg_of_pos this hp
    linarith
  · intro hv
    have h1 : ((cmpInt x y : Int) : ℚ) * (2 : ℚ) ^ (min x.e y.e) < 0 := by linarith
    have : ((cmpInt x y : Int) : ℚ) < 0 := by
      by_contra hc
      rw [not_lt] at hc
      have := mul_nonneg hc (le_of_lt hp)
      linarith
    exact_mod_cast this

theorem le_trans' (x y z : Dy) (h1 : le x y = true) (h2 : le y z = true) : le x z = true := by
  rw [le_iff_val] at *; exact _root_.le_trans h1 h2

theorem le_total' (x y : Dy) : le x y = true ∨ le y x = true := by
  rw [le_iff_val, le_iff_val]; exact _root_.le_total _ _

end SpatialId.F64
