/-
What a successful `parseExt` says about the string: exactly five fields, each parsing to the component.
-/
import SpatialId.Basic
namespace SpatialId

theorem parseExt_fields (s : String) (e : Ext) (h : parseExt s = some e) :
    ∃ a b c d f, splitSlash s = [a, b, c, d, f] ∧ parseInt64 a = some e.h ∧ parseInt64 b = some e.x ∧
      parseInt64 c = some e.y ∧ parseInt64 d = some e.v ∧ parseInt64 f = some e.f := by
  unfold parseExt at h
  split at h
  · rename_i a b c d f hs
    split at h
    · rename_i h' x' y' v' f' h1 h2 h3 h4 h5
      simp only [Option.some.injEq] at h; subst h
      exact ⟨a, b, c, d, f, hs, h1, h2, h3, h4, h5⟩
    · simp at h
  · simp at h

theorem parseExt_arity (s : String) (h : (splitSlash s).length ≠ 5) : parseExt s = none := by
  unfold parseExt
  split
  · rename_i hs; rw [hs] at h; simp at h
  · rfl


theorem parseInt64Lossy_of_some (s : String) (v : Int) (h : parseInt64 s = some v) : parseInt64Lossy s = v := by
  simp [parseInt64Lossy, h]

end SpatialId
