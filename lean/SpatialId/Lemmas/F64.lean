/-
Facts about the software binary64 that the point theorems need: rounding is the identity on values that fit,
signs are preserved, floor of a dyadic commutes with zoom-out.
-/
import SpatialId.F64
import SpatialId.Lemmas.Core
namespace SpatialId.F64

/-- representable as written: at most 53 significant bits and an exponent not below the subnormal one -/
def Rep (x : Dy) : Prop := bitLen x.m.natAbs ≤ 53 ∧ -1074 ≤ x.e

theorem rnd_of_fits (m e : Int) (h0 : m ≠ 0) (h1 : bitLen m.natAbs ≤ 53) (h2 : -1074 ≤ e) : rnd m e = ⟨m, e⟩ := by
  unfold rnd
  simp only [h0, if_false]
  have : max (e + (bitLen m.natAbs : Int) - 53) (-1074) ≤ e := by omega
  simp [this]

theorem rnd_zero (e : Int) : rnd 0 e = ⟨0, 0⟩ := by simp [rnd]

theorem floorInt_zero (e : Int) : floorInt ⟨0, e⟩ = 0 := by
  unfold floorInt; split <;> simp

/-- rounding a value that fits does not change its floor -/
theorem floorInt_rnd_of_fits (m e : Int) (h1 : bitLen m.natAbs ≤ 53) (h2 : -1074 ≤ e) :
    floorInt (rnd m e) = floorInt ⟨m, e⟩ := by
  by_cases h0 : m = 0
  · subst h0; rw [rnd_zero, floorInt_zero, floorInt_zero]
  · rw [rnd_of_fits m e h0 h1 h2]

/-- `floor(m·2^e) / 2^d = floor(m·2^(e-d))` (floor division): zoom-out commutes with the floor of a dyadic -/
theorem floorInt_zoomOut (m e : Int) (d : Nat) : floorInt ⟨m, e⟩ / 2 ^ d = floorInt ⟨m, e - d⟩ := by
  unfold floorInt
  simp only []
  by_cases h1 : e - d ≥ 0
  · have h2 : e ≥ 0 := by omega
    simp only [h1, h2, if_true]
    have : (2 : Int) ^ e.toNat = 2 ^ (e - d).toNat * 2 ^ d := by rw [← Int.pow_add]; congr 1; omega
    rw [this, ← Int.mul_assoc, Int.mul_ediv_cancel _ (Int.ne_of_gt (two_pow_pos _))]
  · by_cases h2 : e ≥ 0
    · simp only [h1, h2, if_true, if_false]
      have : (2 : Int) ^ d = 2 ^ (-(e - d)).toNat * 2 ^ e.toNat := by rw [← Int.pow_add]; congr 1; omega
      rw [this, Int.mul_ediv_mul_of_pos_left _ _ (two_pow_pos _)]
    · simp only [h1, h2, if_false]
      have : (2 : Int) ^ (-(e - d)).toNat = 2 ^ (-e).toNat * 2 ^ d := by rw [← Int.pow_add]; congr 1; omega
      rw [this, Int.ediv_ediv_of_nonneg (Int.le_of_lt (two_pow_pos _))]

theorem floorInt_nonneg (m e : Int) (h : 0 ≤ m) : 0 ≤ floorInt ⟨m, e⟩ := by
  unfold floorInt
  split
  · exact Int.mul_nonneg h (Int.le_of_lt (two_pow_pos _))
  · exact Int.ediv_nonneg h (Int.le_of_lt (two_pow_pos _))

theorem floorInt_nonneg' (x : Dy) (h : 0 ≤ x.m) : 0 ≤ floorInt x := by
  cases x; exact floorInt_nonneg _ _ h

theorem floorInt_neg (m e : Int) (h : m < 0) : floorInt ⟨m, e⟩ ≤ -1 := by
  unfold floorInt
  simp only []
  split
  · have hp := two_pow_pos e.toNat
    have : m * 2 ^ e.toNat ≤ (-1) * 2 ^ e.toNat := Int.mul_le_mul_of_nonneg_right (by omega) (Int.le_of_lt hp)
    omega
  · have hp := two_pow_pos (-e).toNat
    have := Int.ediv_lt_of_lt_mul hp (show m < 0 * 2 ^ (-e).toNat by omega)
    omega

/-- rounding preserves the sign of non-negative values -/
theorem rnd_nonneg (m e : Int) (h : 0 ≤ m) : 0 ≤ (rnd m e).m := by
  unfold rnd
  split
  · simp
  · simp only []
    split
    · exact h
    · have : ¬ m < 0 := by omega
      simp only [this, if_false]
      exact Int.natCast_nonneg _

theorem scale_nonneg (x : Dy) (k : Int) (h : 0 ≤ x.m) : 0 ≤ (scale x k).m := rnd_nonneg _ _ h

theorem div_nonneg (x y : Dy) (hx : 0 ≤ x.m) (hy : 0 < y.m) : 0 ≤ (div x y).m := by
  unfold div
  split
  · simp
  · simp only []
    have h1 : ¬ x.m < 0 := by omega
    have h2 : ¬ y.m < 0 := by omega
    apply rnd_nonneg
    simp only [h1, h2, decide_false, bne_self_eq_false, Bool.false_eq_true, if_false, Int.one_mul]
    exact Int.natCast_nonneg _

/-- `lon ≥ -180` as a comparison of exact values is exactly non-negativity of the numerator of `lon + 180` -/
theorem add180_nonneg (lon : Dy) (h : 0 ≤ cmpInt lon ⟨-180, 0⟩) : 0 ≤ (add lon ⟨180, 0⟩).m := by
  unfold add
  apply rnd_nonneg
  unfold cmpInt at h
  simp only [] at h ⊢
  omega

theorem bitLen_le_of_lt (a n : Nat) (h : a < 2 ^ n) : bitLen a ≤ n := by
  unfold bitLen
  split
  · omega
  · rename_i hne
    have := (Nat.log2_lt hne).mpr h
    omega

theorem ofBits_rep (b : Nat) (x : Dy) (h : ofBits b = some x) : Rep x := by
  unfold ofBits at h
  simp only [] at h
  split at h
  · cases h
  · simp only [Option.some.injEq] at h
    subst h
    have key : ∀ (s mm : Nat), (Int.natAbs (if s % 2 = 1 then -(mm : Int) else (mm : Int))) = mm := by
      intro s mm; split <;> simp
    unfold Rep
    simp only [key]
    have hfr : b % 2 ^ 52 < 2 ^ 52 := Nat.mod_lt _ (by decide)
    constructor
    · apply bitLen_le_of_lt
      split <;> omega
    · split <;> omega

end SpatialId.F64
