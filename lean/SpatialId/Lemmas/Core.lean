/-
Helper lemmas over core Lean only: pow2, arithShift, irange, dedup.
-/
import SpatialId.Basic
namespace SpatialId

theorem two_pow_pos (n : Nat) : (0 : Int) < 2 ^ n := Int.pow_pos (by decide)

theorem pow2_nonneg_eq (n : Int) (h : 0 ≤ n) : pow2 n = 2 ^ n.toNat := by simp [pow2, h]

theorem pow2_pos (n : Int) (h : 0 ≤ n) : 0 < pow2 n := by
  rw [pow2_nonneg_eq n h]; exact two_pow_pos _

theorem pow2_natCast (n : Nat) : pow2 (n : Int) = 2 ^ n := by
  simp [pow2]

/-- the flooring shift is floor division -/
theorem arithShift_neg (i s : Int) (h : s < 0) : arithShift i s = i / 2 ^ (-s).toNat := by
  have : ¬ (0 ≤ s) := by omega
  simp only [arithShift, this, if_false, Int.shiftRight_eq_div_pow]
  norm_cast

theorem arithShift_nonneg (i s : Int) (h : 0 ≤ s) : arithShift i s = i * 2 ^ s.toNat := by
  simp [arithShift, h]

/-! ### irange -/

theorem mem_irange (lo hi a : Int) : a ∈ irange lo hi ↔ lo ≤ a ∧ a ≤ hi := by
  simp only [irange, List.mem_map, List.mem_range]
  constructor
  · rintro ⟨i, hi', rfl⟩; omega
  · rintro ⟨h1, h2⟩
    refine ⟨(a - lo).toNat, by omega, by omega⟩

theorem length_irange (lo hi : Int) : (irange lo hi).length = (hi + 1 - lo).toNat := by
  simp [irange]

theorem nodup_irange (lo hi : Int) : (irange lo hi).Nodup := by
  unfold irange
  exact List.Pairwise.map _ (fun a b (h : a ≠ b) => by omega) List.nodup_range

/-! ### dedup -/

theorem mem_dedup {α} [DecidableEq α] (a : α) (l : List α) : a ∈ dedup l ↔ a ∈ l := by
  induction l with
  | nil => simp [dedup]
  | cons b l ih =>
    simp only [dedup]
    split
    · rename_i hb
      simp only [List.mem_cons, ih]
      constructor
      · intro h; exact Or.inr h
      · rintro (rfl | h)
        · exact (ih.mp hb) |> fun _ => by simpa [ih] using hb
        · exact h
    · simp [ih]

theorem nodup_dedup {α} [DecidableEq α] (l : List α) : (dedup l).Nodup := by
  induction l with
  | nil => simp [dedup]
  | cons b l ih =>
    simp only [dedup]
    split
    · exact ih
    · rename_i hb; exact List.nodup_cons.mpr ⟨hb, ih⟩

theorem dedup_eq_self_of_nodup {α} [DecidableEq α] (l : List α) (h : l.Nodup) : dedup l = l := by
  induction l with
  | nil => simp [dedup]
  | cons b l ih =>
    have hb := (List.nodup_cons.mp h)
    simp only [dedup, ih hb.2]
    simp [hb.1]

/-! ### Option-valued mapM (Go: return the error at the first bad element) -/

theorem mapM_option_spec {α β} (f : α → Option β) : ∀ (l : List α) (out : List β), l.mapM f = some out →
    out.length = l.length ∧ ∀ i (hi : i < l.length) (ho : i < out.length), f l[i] = some out[i] := by
  intro l
  induction l with
  | nil => intro out h; simp at h; subst h; simp
  | cons a l ih =>
    intro out h
    rw [List.mapM_cons] at h
    cases ha : f a with
    | none => simp [ha] at h
    | some b =>
      cases hl : l.mapM f with
      | none => simp [ha, hl] at h
      | some bs =>
        simp [ha, hl] at h
        subst h
        obtain ⟨h1, h2⟩ := ih bs hl
        refine ⟨by simp [h1], ?_⟩
        intro i hi ho
        cases i with
        | zero => simpa using ha
        | succ j => simpa using h2 j (by simpa using hi) (by simpa using ho)
theorem mapM_option_none {α β} (f : α → Option β) (l : List α) (a : α) (ha : a ∈ l) (hf : f a = none) : l.mapM f = none := by
  induction l with
  | nil => simp at ha
  | cons b l ih =>
    rw [List.mapM_cons]
    rcases List.mem_cons.mp ha with rfl | h
    · simp [hf]
    · cases f b <;> simp [ih h]

end SpatialId
