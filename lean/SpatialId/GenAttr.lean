/- simp set for the generated helper functions (lean/SpatialId/Gen/Int64Fns.lean): an unexported function that a translated
function calls is translated too and tagged `gen_helper`, so that the tie proofs (Props/Tie) unfold it -/
import Lean
register_simp_attr gen_helper
