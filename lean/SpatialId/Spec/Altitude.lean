/-
Semantic domain of the altitude-key properties (C12, C13): altitude intervals in fixed point.
All cell boundaries that can occur for zooms and base exponents in 0..35 are integer multiples of
2^-35 m, so an altitude is an integer count of that unit and a cell is a half-open integer interval.
Two such intervals overlap as sets of real altitudes iff they share an integer point.
-/
import SpatialId.Basic
namespace SpatialId.Alt

/-- number of units (2^-35 m) per metre -/
def M : Int := 2 ^ 35

abbrev Ivl := Int × Int   -- [lo, hi)

/-- two half-open intervals share a point -/
def inter (I J : Ivl) : Prop := ∃ t : Int, I.1 ≤ t ∧ t < I.2 ∧ J.1 ≤ t ∧ t < J.2

/-- the altitude interval of vertical index `f` at vertical zoom `z` (cell height 2^(25-z) m = 2^(60-z) units) -/
def fCell (f z : Int) : Ivl := (f * 2 ^ (60 - z).toNat, (f + 1) * 2 ^ (60 - z).toNat)

/-- the altitude interval of altitude key `j` on the scale (zoom `z`, base exponent `E`, base offset `O`):
cell height 2^(E-z) m, key 0 starts at -O m -/
def keyCell (j z E O : Int) : Ivl :=
  (j * 2 ^ (E - z + 35).toNat - O * M, (j + 1) * 2 ^ (E - z + 35).toNat - O * M)

/-- an interval widened outward to whole metres -/
def widen (I : Ivl) : Ivl := (I.1 / M * M, -((-I.2) / M) * M)

theorem inter_symm (I J : Ivl) : inter I J ↔ inter J I := by
  constructor <;> rintro ⟨t, a, b, c, d⟩ <;> exact ⟨t, c, d, a, b⟩

theorem inter_iff (I J : Ivl) : inter I J ↔ I.1 < I.2 ∧ J.1 < J.2 ∧ I.1 < J.2 ∧ J.1 < I.2 := by
  constructor
  · rintro ⟨t, a, b, c, d⟩; omega
  · rintro ⟨a, b, c, d⟩
    by_cases h : I.1 ≤ J.1
    · exact ⟨J.1, h, d, Int.le_refl _, b⟩
    · exact ⟨I.1, Int.le_refl _, a, by omega, c⟩

/-- cells of size `c` shifted by `o`: the cells meeting `[a,b)` are those from `⌊(a+o)/c⌋` to `⌊(b+o-1)/c⌋` -/
theorem cell_inter_iff (j c o a b : Int) (hc : 0 < c) (hab : a < b) :
    inter (j * c - o, (j + 1) * c - o) (a, b) ↔ (a + o) / c ≤ j ∧ j ≤ (b + o - 1) / c := by
  rw [inter_iff]
  simp only []
  have h1 : j * c - o < (j + 1) * c - o := by rw [Int.add_mul, Int.one_mul]; omega
  have e1 : j * c - o < b ↔ j ≤ (b + o - 1) / c := by
    rw [Int.le_ediv_iff_mul_le hc]; omega
  have e2 : a < (j + 1) * c - o ↔ (a + o) / c ≤ j := by
    have : (a + o) / c < j + 1 ↔ a + o < (j + 1) * c := Int.ediv_lt_iff_lt_mul hc
    omega
  constructor
  · rintro ⟨_, _, h3, h4⟩; exact ⟨e2.mp h4, e1.mp h3⟩
  · rintro ⟨h3, h4⟩; exact ⟨h1, hab, e1.mpr h4, e2.mpr h3⟩

theorem M_pos : 0 < M := by unfold M; decide

theorem widen_lo_le (I : Ivl) : (widen I).1 ≤ I.1 := by
  simp only [widen]; exact Int.ediv_mul_le _ (Int.ne_of_gt M_pos)

theorem widen_hi_ge (I : Ivl) : I.2 ≤ (widen I).2 := by
  simp only [widen]
  have := Int.ediv_mul_le (-I.2) (Int.ne_of_gt M_pos)
  rw [Int.neg_mul]; omega

end SpatialId.Alt
