/-
The semantic domain of the integer properties: a voxel is a set of points of ℝ³, and the index
arithmetic of the library is justified against that reading.

A point is `(u, w, a)` with `u` the longitude fraction `(lon+180)/360`, `w` the Mercator fraction and
`a = alt / 2^25`.  The cell of `t` at zoom `z` on one axis is `⌊t · 2^z⌋`.
-/
import Mathlib.Algebra.Order.Floor.Ring
import Mathlib.Algebra.Order.Archimedean.Real.Basic
import Mathlib.Tactic.Ring
import Mathlib.Tactic.Linarith
import Mathlib.Tactic.Positivity
import SpatialId.Basic
namespace SpatialId

/-- 1-D dyadic cell index of a real coordinate at zoom `z` -/
noncomputable def cell (z : ℕ) (t : ℝ) : ℤ := ⌊t * 2 ^ z⌋

/-- the ancestor of a cell is obtained by **floor** division -/
theorem cell_zoomOut (z d : ℕ) (t : ℝ) : cell z t = cell (z + d) t / 2 ^ d := by
  unfold cell
  have h2 : (0:ℝ) < 2 ^ d := by positivity
  rw [pow_add, ← mul_assoc]
  have := Int.floor_div_natCast (t * 2 ^ z * 2 ^ d) (2 ^ d)
  simp only [Nat.cast_pow, Nat.cast_ofNat] at this
  rw [← this, mul_div_assoc, div_self (ne_of_gt h2), mul_one]

/-- the lower corner of cell `i` at zoom `z` lies in that cell -/
theorem cell_corner (z : ℕ) (i : ℤ) : cell z ((i : ℝ) / 2 ^ z) = i := by
  unfold cell
  have h2 : (0:ℝ) < 2 ^ z := by positivity
  rw [div_mul_cancel₀ _ (ne_of_gt h2)]
  exact Int.floor_intCast i

/-- index-level relation "cell `i` of zoom `z` and cell `j` of zoom `Z` on one axis share a point":
the finer index floor-divided down to the coarser zoom equals the coarser index. -/
def axisMeet (z Z : ℕ) (i j : ℤ) : Prop :=
  if z ≤ Z then j / 2 ^ (Z - z) = i else i / 2 ^ (z - Z) = j

instance (z Z : ℕ) (i j : ℤ) : Decidable (axisMeet z Z i j) := by unfold axisMeet; exact inferInstance

theorem axisMeet_iff (z Z : ℕ) (i j : ℤ) : (∃ t : ℝ, cell z t = i ∧ cell Z t = j) ↔ axisMeet z Z i j := by
  unfold axisMeet
  split
  · rename_i h
    obtain ⟨d, rfl⟩ := Nat.exists_eq_add_of_le h
    simp only [Nat.add_sub_cancel_left]
    constructor
    · rintro ⟨t, rfl, rfl⟩; exact (cell_zoomOut z d t).symm
    · intro hj
      refine ⟨(j : ℝ) / 2 ^ (z + d), ?_, cell_corner _ j⟩
      rw [cell_zoomOut z d, cell_corner, hj]
  · rename_i h
    obtain ⟨d, rfl⟩ := Nat.exists_eq_add_of_le (Nat.le_of_lt (Nat.lt_of_not_le h))
    simp only [Nat.add_sub_cancel_left]
    constructor
    · rintro ⟨t, rfl, rfl⟩; exact (cell_zoomOut Z d t).symm
    · intro hj
      refine ⟨(i : ℝ) / 2 ^ (Z + d), cell_corner _ i, ?_⟩
      rw [cell_zoomOut Z d, cell_corner, hj]

theorem axisMeet_symm (z Z : ℕ) (i j : ℤ) : axisMeet z Z i j ↔ axisMeet Z z j i := by
  rw [← axisMeet_iff, ← axisMeet_iff]
  constructor <;> rintro ⟨t, a, b⟩ <;> exact ⟨t, b, a⟩

/-- a point of space in grid coordinates -/
structure Pt where
  u : ℝ
  w : ℝ
  a : ℝ

/-- the region of space a voxel names (zooms are read as naturals; valid IDs have them in 0..35) -/
def region (e : Ext) : Set Pt :=
  {p | cell e.h.toNat p.u = e.x ∧ cell e.h.toNat p.w = e.y ∧ cell e.v.toNat p.a = e.f}

def regionL (l : List Ext) : Set Pt := {p | ∃ e ∈ l, p ∈ region e}

/-- decidable index characterisation of "two voxels share a point" -/
def meets (e o : Ext) : Prop :=
  axisMeet e.h.toNat o.h.toNat e.x o.x ∧ axisMeet e.h.toNat o.h.toNat e.y o.y ∧
  axisMeet e.v.toNat o.v.toNat e.f o.f

instance (e o : Ext) : Decidable (meets e o) := by unfold meets; exact inferInstance

theorem meets_iff (e o : Ext) : (region e ∩ region o).Nonempty ↔ meets e o := by
  unfold meets
  rw [← axisMeet_iff, ← axisMeet_iff, ← axisMeet_iff]
  constructor
  · rintro ⟨p, ⟨h1, h2, h3⟩, ⟨h4, h5, h6⟩⟩
    exact ⟨⟨p.u, h1, h4⟩, ⟨p.w, h2, h5⟩, ⟨p.a, h3, h6⟩⟩
  · rintro ⟨⟨u, h1, h4⟩, ⟨w, h2, h5⟩, ⟨a, h3, h6⟩⟩
    exact ⟨⟨u, w, a⟩, ⟨h1, h2, h3⟩, ⟨h4, h5, h6⟩⟩

/-- voxels are never empty -/
theorem region_nonempty (e : Ext) : (region e).Nonempty :=
  ⟨⟨(e.x : ℝ) / 2 ^ e.h.toNat, (e.y : ℝ) / 2 ^ e.h.toNat, (e.f : ℝ) / 2 ^ e.v.toNat⟩,
    cell_corner _ _, cell_corner _ _, cell_corner _ _⟩

/-- on one axis two cells are either disjoint or nested: if they meet, the finer one lies inside the coarser -/
theorem axis_nested (z d : ℕ) (i j : ℤ) (h : axisMeet z (z + d) i j) (t : ℝ) (ht : cell (z + d) t = j) :
    cell z t = i := by
  unfold axisMeet at h
  simp only [Nat.le_add_right, if_true, Nat.add_sub_cancel_left] at h
  rw [cell_zoomOut z d, ht, h]

/-- if `o` is at least as fine as `e` on both axes and they meet, then `o ⊆ e` -/
theorem region_subset_of_meets (e o : Ext) (hh : e.h.toNat ≤ o.h.toNat) (hv : e.v.toNat ≤ o.v.toNat)
    (hm : meets e o) : region o ⊆ region e := by
  obtain ⟨dh, hdh⟩ := Nat.exists_eq_add_of_le hh
  obtain ⟨dv, hdv⟩ := Nat.exists_eq_add_of_le hv
  rintro p ⟨h1, h2, h3⟩
  unfold meets at hm
  rw [hdh, hdv] at hm
  rw [hdh] at h1 h2; rw [hdv] at h3
  exact ⟨axis_nested _ _ _ _ hm.1 _ h1, axis_nested _ _ _ _ hm.2.1 _ h2, axis_nested _ _ _ _ hm.2.2 _ h3⟩

end SpatialId
