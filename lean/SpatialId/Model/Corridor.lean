/-
transform/voxel_around_line.go: GetExtendedSpatialIdsWithinRadiusOfLine, as set algebra over three oracles:
the line's voxels (C06), the layer counts `FitClearanceAroundExtendedSpatialID` reports for the voxel the function happens to
pick (`idsOnLine[0]` after `Unique`, i.e. an arbitrary line voxel), and the distance test of a candidate voxel
(geodesy + closest_go).
-/
import SpatialId.Model.Shift
namespace SpatialId

/-- the corridor for layer counts `(H, V)` and the distance test `close` (`dist < radius`) -/
def corridorE (line : List Ext) (H V : Int) (close : Ext → Bool) (skips : Bool) : List Ext :=
  let around := nNE line H V                                   -- GetNspatialIdsAroundVoxcels(idsOnLine, H, V)
  let aroundLine := around.filter fun o => !decide (o ∈ line)  -- common.Difference(around, idsOnLine)
  if skips then dedup (dedup (aroundLine ++ line))             -- Unique(Union(idsAroundLine, idsOnLine))
  else dedup (dedup ((aroundLine.filter close) ++ line))       -- Unique(Union(idsToAdd, idsOnLine))

/-- the exported function given the oracles' answers; a negative radius is rejected by the clearance fit -/
def corridor (line : Outcome (List Ext)) (radiusNeg : Bool) (H V : Int) (close : Ext → Bool) (skips : Bool) :
    Outcome (List Ext) :=
  match line with
  | .ok l => if radiusNeg then .err else .ok (corridorE l H V close skips)
  | o => o

end SpatialId
