/-
common/util.go: the generic slice helpers, Max/Min, Combinations, CalculateArithmeticShift
(the latter is `arithShift` in Basic.lean).  Instantiated at Int for the correspondence check; the theorems are
generic where the Go code is.
-/
import SpatialId.Basic
namespace SpatialId

/-- `common.Union`: every element of either slice once (Go: map iteration order) -/
def unionL {α} [DecidableEq α] (l1 l2 : List α) : List α := dedup (l1 ++ l2)
/-- `common.Intersect`: the elements of `l2` that occur in `l1`, in the order (and multiplicity) of `l2` -/
def intersectL {α} [DecidableEq α] (l1 l2 : List α) : List α := l2.filter fun a => decide (a ∈ l1)
/-- `common.Difference`: the elements of `l1` that do not occur in `l2`, in the order (and multiplicity) of `l1` -/
def differenceL {α} [DecidableEq α] (l1 l2 : List α) : List α := l1.filter fun a => !decide (a ∈ l2)
/-- `common.Unique` -/
def uniqueL {α} [DecidableEq α] (l : List α) : List α := dedup l
/-- `common.Include` -/
def includeL {α} [DecidableEq α] (l : List α) (t : α) : Bool := decide (t ∈ l)

/-- `common.Max`: error on the empty slice, else a left fold with `if max < number` -/
def maxL : List Int → Option Int
  | [] => none
  | a :: l => some ((a :: l).foldl (fun m x => if m < x then x else m) a)
def minL : List Int → Option Int
  | [] => none
  | a :: l => some ((a :: l).foldl (fun m x => if m > x then x else m) a)

/-- one step of `common.Combinations` after `f(pattern)`: find the rightmost position that can still grow
(`pattern[pos] != n+pos-k`), increment it and reset everything to its right; `none` when there is none -/
def combStep (n k : Int) (p : List Int) : Option (List Int) :=
  -- scan from the right
  let rec find : Nat → Option Nat
    | 0 => none
    | pos + 1 => if p.getD pos 0 = n + (pos : Int) - k then find pos else some pos
  match find k.toNat with
  | none => none
  | some pos =>
    let v := p.getD pos 0 + 1
    some ((p.take pos) ++ (List.range (k.toNat - pos)).map fun (i : Nat) => v + (i : Int))

/-- `common.Combinations(n, k, f)`: the sequence of patterns handed to `f` (fuel bounds the outer loop) -/
def combinations (n k : Int) (fuel : Nat) : List (List Int) :=
  let rec go : Nat → List Int → List (List Int)
    | 0, _ => []
    | fuel + 1, p => p :: (match combStep n k p with | none => [] | some p' => go fuel p')
  go fuel ((List.range k.toNat).map fun (i : Nat) => (i : Int))

/-- specification: the `k`-element sublists of `l` in lexicographic order -/
def chooseK {α} : Nat → List α → List (List α)
  | 0, _ => [[]]
  | _ + 1, [] => []
  | k + 1, a :: l => (chooseK k l).map (a :: ·) ++ chooseK (k + 1) l

end SpatialId
