/-
shape/line.go: GetExtendedSpatialIdsOnLine / GetSpatialIdsOnLine and the midpoint recursion middleSpatialIds
(with common/spatial Line3.ToPoint, NewVectorFromPoints), over binary64.
The voxel of a 3-D point is a parameter `vox` (x and f are computed; the row index y comes from an oracle table
latitude ↦ row supplied by the harness from the same library calls).
-/
import SpatialId.Model.Point
import SpatialId.Model.Shift
namespace SpatialId
open F64

/-- `spatial.Point3` -/
structure P3 where
  x : Dy
  y : Dy
  z : Dy
deriving Repr, Inhabited

/-- `NewLineFromPoints(start, end).ToPoint(0.5)`: `start + 0.5·(end − start)` per component -/
def P3.mid (s e : P3) : P3 :=
  ⟨add s.x (scale (sub e.x s.x) (-1)), add s.y (scale (sub e.y s.y) (-1)), add s.z (scale (sub e.z s.z) (-1))⟩

/-- the termination thresholds (decimal literals as the compiler rounds them) -/
def lonMinima : Dy := ofRat 2 100000000
def latMinima : Dy := ofRat 2 100000000
def altMinima : Dy := ofRat 3 1000
def hiLonMinima : Dy := ofRat 5 1000000000
def hiLatMinima : Dy := ofRat 5 10000000000
def hiAltMinima : Dy := ofRat 5 10000

/-- the threshold stop: every component of `end − start` is below its minima -/
def belowThr (lonM latM altM : Dy) (s e : P3) : Bool :=
  lt (F64.abs (sub e.x s.x)) lonM && lt (F64.abs (sub e.y s.y)) latM && lt (F64.abs (sub e.z s.z)) altM

/-- `middleSpatialIds`: the voxels handed to `operate`, in call order; `none` when the fuel runs out -/
def middle (vox : P3 → Ext) (thr : P3 → P3 → Bool) : Nat → P3 → P3 → Option (List Ext)
  | 0, _, _ => none
  | fuel + 1, s, e =>
    let m := P3.mid s e
    let vm := vox m
    if thr s e then some [vm] else
    let ns := n6E (vox s) ++ [vox s]
    let ne := n6E (vox e) ++ [vox e]
    if vm ∈ ns ∧ vm ∈ ne then some [vm]
    else if vm ∈ ns then (middle vox thr fuel m e).map (vm :: ·)
    else if vm ∈ ne then (middle vox thr fuel s m).map (vm :: ·)
    else
      match middle vox thr fuel s m, middle vox thr fuel m e with
      | some a, some b => some (vm :: (a ++ b))
      | _, _ => none

/-- `b` is `a` or one of its 26 neighbours (the full 3×3×3 shell, wrap included) -/
def adj (a b : Ext) : Prop := b = a ∨ ∃ d ∈ stencil26, b = sh a d
/-- consecutive voxels of a chain touch at least at a corner, in either direction -/
def touch (a b : Ext) : Prop := adj a b ∨ adj b a
instance : DecidableRel adj := fun a b => by unfold adj; exact inferInstance
instance : DecidableRel touch := fun a b => by unfold touch; exact inferInstance

/-- the recursion's own record of its threshold stops: `true` iff at every threshold stop the mid voxel touches both
end voxels of the sub-segment (the side condition "a span below the thresholds changes each index by at most one") -/
def thrTight (vox : P3 → Ext) (thr : P3 → P3 → Bool) : Nat → P3 → P3 → Bool
  | 0, _, _ => true
  | fuel + 1, s, e =>
    let m := P3.mid s e
    let vm := vox m
    if thr s e then decide (touch (vox s) vm) && decide (touch vm (vox e)) else
    let ns := n6E (vox s) ++ [vox s]
    let ne := n6E (vox e) ++ [vox e]
    if vm ∈ ns ∧ vm ∈ ne then true
    else if vm ∈ ns then thrTight vox thr fuel m e
    else if vm ∈ ne then thrTight vox thr fuel s m
    else thrTight vox thr fuel s m && thrTight vox thr fuel m e

/-- oracle table: stored latitude (bit pattern) ↦ Mercator row at the current horizontal zoom -/
abbrev RowTable := List (Nat × Int)

/-- the row of a stored latitude; `-1` marks a latitude the table does not know -/
def rowOf (tbl : RowTable) (lat : Dy) : Int := (tbl.lookup (toBits lat)).getD (-1)

/-- voxel of a stored point (top level: `GetExtendedSpatialIdsOnPoints` on the caller's points) -/
def voxStored (tbl : RowTable) (h v : Int) (p : GeoPt) : Ext := ⟨h, xIndex p.lon h, rowOf tbl p.lat, v, fIndex p.alt v⟩

/-- voxel of a point of the recursion: `object.NewPoint` first (the latitude is truncated again) -/
def voxP3 (tbl : RowTable) (h v : Int) (p : P3) : Ext := voxStored tbl h v (newPointLossy p.x p.y p.z)

/-- `shape.GetExtendedSpatialIdsOnLine` for two non-nil stored points -/
def lineExt (tbl : RowTable) (s e : GeoPt) (h v : Int) (fuel : Nat) : Outcome (List Ext) :=
  if !(checkZoom h && checkZoom v) then .err else
  let a := voxStored tbl h v s
  let b := voxStored tbl h v e
  if a = b then .ok [a] else
  let lonM := if h ≥ 31 then hiLonMinima else lonMinima
  let latM := if h ≥ 31 then hiLatMinima else latMinima
  let altM := if v ≥ 34 then hiAltMinima else altMinima
  match middle (voxP3 tbl h v) (belowThr lonM latM altM) fuel ⟨s.lon, s.lat, s.alt⟩ ⟨e.lon, e.lat, e.alt⟩ with
  | none => .panic      -- the recursion did not terminate within the fuel (never observed; reported as a violation)
  | some l => .ok (dedup ([a, b] ++ l))

end SpatialId
