/-
Model of `common/spatial`: 3-D vectors, points, lines and 3×3 matrices (vector3.go, point3.go, line3.go, matrix3.go) and the
algebraic part of quat.go. The definitions are generic in the scalar type: instantiated with the software binary64 `F64.Dy`
(operators = rounded operations, in the evaluation order of the Go / gonum r3 source) they are what the driver executes and
compares bit for bit with the implementation; instantiated with a commutative ring or with ℝ they are what the identities of
`Props/C20.lean` are proved about. Core only.
-/
import SpatialId.F64
namespace SpatialId.Vec

structure V3 (α : Type) where
  x : α
  y : α
  z : α
deriving DecidableEq, Repr

/-- row-major 3×3 matrix (`Matrix3 [3][3]float64`) -/
structure M3 (α : Type) where
  m00 : α
  m01 : α
  m02 : α
  m10 : α
  m11 : α
  m12 : α
  m20 : α
  m21 : α
  m22 : α
deriving DecidableEq, Repr

structure Quat (α : Type) where
  w : α
  x : α
  y : α
  z : α
deriving DecidableEq, Repr

section
variable {α : Type} [Add α] [Sub α] [Mul α]

/-- `Vector3.Add` (r3.Add) -/
def V3.add (a b : V3 α) : V3 α := ⟨a.x + b.x, a.y + b.y, a.z + b.z⟩
/-- `Vector3.Sub` (r3.Sub) -/
def V3.sub (a b : V3 α) : V3 α := ⟨a.x - b.x, a.y - b.y, a.z - b.z⟩
/-- `Vector3.Scale` (r3.Scale f a = {f*a.X, f*a.Y, f*a.Z}) -/
def V3.scale (a : V3 α) (f : α) : V3 α := ⟨f * a.x, f * a.y, f * a.z⟩
/-- `Vector3.Dot` (r3.Dot: a.X*b.X + a.Y*b.Y + a.Z*b.Z, left to right) -/
def V3.dot (a b : V3 α) : α := a.x * b.x + a.y * b.y + a.z * b.z
/-- `Vector3.Cross` (r3.Cross) -/
def V3.cross (a b : V3 α) : V3 α :=
  ⟨a.y * b.z - a.z * b.y, a.z * b.x - a.x * b.z, a.x * b.y - a.y * b.x⟩
/-- `NewVectorFromPoints p q` = q − p -/
def vecFromPoints (p q : V3 α) : V3 α := q.sub p
/-- `Point3.Translate` -/
def translate (p a : V3 α) : V3 α := p.add a

/-- `Line3{Point, Direction}` -/
structure Line (α : Type) where
  point : V3 α
  dir : V3 α

/-- `NewLineFromPoints` -/
def lineFromPoints (s e : V3 α) : Line α := ⟨s, vecFromPoints s e⟩
/-- `Line3.ToPoint t` = Point + t·Direction -/
def Line.toPoint (l : Line α) (t : α) : V3 α := translate l.point (l.dir.scale t)
/-- `Line3.Start` -/
def Line.start (l : Line α) : V3 α := l.point
/-- `Line3.End` -/
def Line.end_ (l : Line α) : V3 α := translate l.point l.dir

/-- `Matrix3.Mul` -/
def M3.mul (a b : M3 α) : M3 α :=
  ⟨a.m00 * b.m00 + a.m01 * b.m10 + a.m02 * b.m20, a.m00 * b.m01 + a.m01 * b.m11 + a.m02 * b.m21,
   a.m00 * b.m02 + a.m01 * b.m12 + a.m02 * b.m22,
   a.m10 * b.m00 + a.m11 * b.m10 + a.m12 * b.m20, a.m10 * b.m01 + a.m11 * b.m11 + a.m12 * b.m21,
   a.m10 * b.m02 + a.m11 * b.m12 + a.m12 * b.m22,
   a.m20 * b.m00 + a.m21 * b.m10 + a.m22 * b.m20, a.m20 * b.m01 + a.m21 * b.m11 + a.m22 * b.m21,
   a.m20 * b.m02 + a.m21 * b.m12 + a.m22 * b.m22⟩

/-- `Matrix3.MulVec` (v.X*a[i][0] + v.Y*a[i][1] + v.Z*a[i][2]) -/
def M3.mulVec (a : M3 α) (v : V3 α) : V3 α :=
  ⟨v.x * a.m00 + v.y * a.m01 + v.z * a.m02, v.x * a.m10 + v.y * a.m11 + v.z * a.m12,
   v.x * a.m20 + v.y * a.m21 + v.z * a.m22⟩

/-- Hamilton product -/
def Quat.mul (p q : Quat α) : Quat α :=
  ⟨p.w * q.w - p.x * q.x - p.y * q.y - p.z * q.z,
   p.w * q.x + p.x * q.w + p.y * q.z - p.z * q.y,
   p.w * q.y - p.x * q.z + p.y * q.w + p.z * q.x,
   p.w * q.z + p.x * q.y - p.y * q.x + p.z * q.w⟩

/-- squared norm of a quaternion -/
def Quat.normSq (q : Quat α) : α := q.w * q.w + q.x * q.x + q.y * q.y + q.z * q.z
end

section
variable {α : Type} [Add α] [Sub α] [Mul α] [Neg α]
/-- conjugate -/
def Quat.conj (q : Quat α) : Quat α := ⟨q.w, -q.x, -q.y, -q.z⟩
/-- the vector part of `q · (0,v) · q*`: the rotation a unit quaternion represents -/
def Quat.rotate (q : Quat α) (zero : α) (v : V3 α) : V3 α :=
  let r := (q.mul ⟨zero, v.x, v.y, v.z⟩).mul q.conj
  ⟨r.x, r.y, r.z⟩
end

section
variable {α : Type} [Zero α] [One α]
/-- `NewUnitMatrix3` -/
def M3.one : M3 α := ⟨1, 0, 0, 0, 1, 0, 0, 0, 1⟩
end

/-! ### the binary64 instance (rounded operations) used by the driver -/
namespace Dy
scoped instance : Add F64.Dy := ⟨F64.add⟩
scoped instance : Sub F64.Dy := ⟨F64.sub⟩
scoped instance : Mul F64.Dy := ⟨F64.mul⟩
scoped instance : Neg F64.Dy := ⟨F64.neg⟩
end Dy

/-- `Vector3.L1Norm` on binary64 -/
def l1NormDy (a : V3 F64.Dy) : F64.Dy := F64.add (F64.add (F64.abs a.x) (F64.abs a.y)) (F64.abs a.z)

/-! ### point-list helpers of point3.go on binary64 -/
open Dy in
/-- `MaxPoint`: the first point with the largest dot product with `vec` (strict `<` keeps the earlier one); `none` for `[]` -/
def maxPoint (pts : List (V3 F64.Dy)) (vec : V3 F64.Dy) : Option (V3 F64.Dy) :=
  match pts with
  | [] => none
  | p0 :: _ =>
    some (pts.foldl (fun (acc : V3 F64.Dy × F64.Dy) p =>
      let v := p.dot vec
      if F64.lt acc.2 v then (p, v) else acc) (p0, p0.dot vec)).1

open Dy in
/-- `MinPoint` -/
def minPoint (pts : List (V3 F64.Dy)) (vec : V3 F64.Dy) : Option (V3 F64.Dy) :=
  match pts with
  | [] => none
  | p0 :: _ =>
    some (pts.foldl (fun (acc : V3 F64.Dy × F64.Dy) p =>
      let v := p.dot vec
      if F64.lt v acc.2 then (p, v) else acc) (p0, p0.dot vec)).1

/-- `common.AlmostEqual x y absTol` = `x == y || |x - y| <= absTol` -/
def almostEqual (x y tol : F64.Dy) : Bool := F64.eq x y || F64.le (F64.abs (F64.sub x y)) tol

/-- `Point3.IsClose` -/
def isClose (p q : V3 F64.Dy) (eps : F64.Dy) : Bool :=
  almostEqual p.x q.x eps && almostEqual p.y q.y eps && almostEqual p.z q.z eps

/-- `UniqueAppend`: append unless some listed point is close to the new one -/
def uniqueAppend (pts : List (V3 F64.Dy)) (a : V3 F64.Dy) (eps : F64.Dy) : List (V3 F64.Dy) :=
  if pts.any (fun p => isClose p a eps) then pts else pts ++ [a]

end SpatialId.Vec
