/-
integrate/merge_zoom.go: MergeExtendedSpatialIds / MergeSpatialIds, with ExtendedSpatialID.Higher
(common/object/spatial_id.go).  Go groups by the printed ID of the candidate voxel in a map and counts
distinct unit IDs in a map; the model keeps groups in an association list (first-appearance order) and
counts a de-duplicated unit list.  The result is de-duplicated, so the order is irrelevant.
-/
import SpatialId.Model.Zoom
namespace SpatialId

/-- `ExtendedSpatialID.Higher(hDiff, vDiff)`: x, y by Go's truncating `/`, the vertical index by floor
(truncating quotient, minus one when the remainder is negative). -/
def higher (e : Ext) (dh dv : Int) : Ext :=
  let hd := pow2 dh
  let vd := pow2 dv
  let z := e.f.tdiv vd
  let z := if e.f.tmod vd < 0 then z - 1 else z
  ⟨e.h - dh, e.x.tdiv hd, e.y.tdiv hd, e.v - dv, z⟩

/-- `NewUnitDividedSpatialID`: the unit voxels of `e` at zooms `(mH, mV)` (x outer, y, z inner as in Go) -/
def unitsOf (e : Ext) (mH mV : Int) : List Ext :=
  let nh := pow2 (mH - e.h)
  let nv := pow2 (mV - e.v)
  (irange (e.x * nh) ((e.x + 1) * nh - 1)).flatMap fun x =>
    (irange (e.y * nh) ((e.y + 1) * nh - 1)).flatMap fun y =>
      (irange (e.f * nv) ((e.f + 1) * nv - 1)).map fun z => ⟨mH, x, y, mV, z⟩

/-- a merge candidate: the voxel at the target zooms, the inputs below it, and their unit voxels -/
structure Group where
  key : Ext
  low : List Ext
  units : List Ext
deriving Repr

def eligible (H V : Int) (e : Ext) : Bool := decide (e.h ≥ H) && decide (e.v ≥ V)

def maxZoomH (es : List Ext) : Int := es.foldl (fun m e => if e.h > m then e.h else m) 0
def maxZoomV (es : List Ext) : Int := es.foldl (fun m e => if e.v > m then e.v else m) 0

/-- the candidate voxel an eligible input is filed under: `u.Higher(u.HZoom()-hZoom, u.VZoom()-vZoom)` -/
def keyOf (H V : Int) (e : Ext) : Ext := higher e (e.h - H) (e.v - V)

/-- the eligible inputs filed under candidate `k`, in input order (Go: `lowIDs` grows by `append` in the
order of the input slice as `highSpatialIDs[id]` is looked up and `Merge`d) -/
def membersOf (es : List Ext) (H V : Int) (k : Ext) : List Ext :=
  (es.filter (eligible H V)).filter fun e => keyOf H V e = k

/-- Go's `map[string]*HighSpatialID` after the grouping loop, read declaratively: one group per distinct
candidate, holding its members and the union of their unit voxels -/
def groupsOf (es : List Ext) (H V : Int) : List Group :=
  let mH := maxZoomH es
  let mV := maxZoomV es
  (dedup ((es.filter (eligible H V)).map (keyOf H V))).map fun k =>
    ⟨k, membersOf es H V k, (membersOf es H V k).flatMap fun e => unitsOf e mH mV⟩

/-- `HighSpatialID.IsDense`: number of distinct units = `(2^dh)² · 2^dv` -/
def Group.dense (g : Group) (thr : Int) : Bool := ((dedup g.units).length : Int) == thr

def mergeExtE (es : List Ext) (H V : Int) : List Ext :=
  let mH := maxZoomH es
  let mV := maxZoomV es
  let thr := pow2 (mH - H) * pow2 (mH - H) * pow2 (mV - V)
  let inel := es.filter fun e => !eligible H V e
  let out := (groupsOf es H V).flatMap fun g => if g.dense thr then [g.key] else g.low
  dedup (inel ++ out)

/-- `integrate.MergeExtendedSpatialIds` -/
def mergeExt (ids : List String) (H V : Int) : Outcome (List String) :=
  if !(checkZoom H && checkZoom V) then .err else
  match parseAll ids with
  | none => .err
  | some es => .ok ((mergeExtE es H V).map Ext.id)

/-- `integrate.MergeSpatialIds` -/
def mergeSp (ids : List String) (Z : Int) : Outcome (List String) :=
  match sp2ext ids with
  | .ok ext =>
    match mergeExt ext Z Z with
    | .ok r => (match ext2sp r with | .ok s => .ok s | _ => .ok [])
    | o => o
  | o => o

end SpatialId
