/-
transform/convert_quadkey_and_Vertical_id.go: the altitude-key conversions
validateIndexExists, convertZToMinAltitudekey, convertZToMaxAltitudekey, ConvertZToMinMaxAltitudekey,
ConvertAltitudekeyToMinMaxZ, and the tile conversions built on them.
Literal models: one `let` per Go statement, `arithShift` for `common.CalculateArithmeticShift`.
-/
import SpatialId.Model.Zoom
namespace SpatialId

/-- `validateIndexExists(inputIndex, inputZoom, minValueIsNegative)` → ok? -/
def validateIndex (i z : Int) (neg : Bool) : Bool :=
  let res := arithShift 1 z
  let maxI := res - 1
  let minI := if neg then -res else 0
  !(decide (i > maxI) || decide (i < minI))

/-- `convertZToMinAltitudekey` -/
def zToMinKey (f zi zo E O : Int) : Option Int :=
  if !validateIndex f zi true then none else
  let o := arithShift f (-(zi - 25))
  let o := o + O
  let o := arithShift o (zo - E)
  if !validateIndex o zo false then none else some o

/-- `convertZToMaxAltitudekey` -/
def zToMaxKey (f zi zo E O : Int) : Option Int :=
  if !validateIndex f zi true then none else
  let d := 25 - zi
  let top := if d < 0 then f + 1 + arithShift O (-d) else arithShift (f + 1) d + O
  let scale := if d < 0 then -d else 0
  let sh := zo - E - scale
  let o := if sh < 0 then arithShift (top - 1) sh else arithShift top sh - 1
  if !validateIndex o zo false then none else some o

/-- `ConvertZToMinMaxAltitudekey` -/
def z2k (f zi zo E O : Int) : Outcome (Int × Int) :=
  match zToMinKey f zi zo E O with
  | none => .err
  | some lo =>
    match zToMaxKey f zi zo E O with
    | none => .err
    | some hi => if lo > hi then .ok (lo, lo) else .ok (lo, hi)

/-- `ConvertAltitudekeyToMinMaxZ` -/
def k2z (k zk zo E O : Int) : Outcome (Int × Int) :=
  let inRes := arithShift 1 zk
  let maxIn := inRes - 1
  if k > maxIn ∨ k < 0 then .err else
  let zd := E - zk
  let iMin := arithShift k zd
  let iMax := if zd > 0 then arithShift (k + 1) zd - 1 else iMin
  let od := zo - 25
  let oMin := arithShift (iMin - O) od
  let oMax := if od > 0 then arithShift (iMax - O + 1) od - 1 else arithShift (iMax - O) od
  let oRes := arithShift 1 zo
  if oMax > oRes - 1 ∨ oMin < -oRes then .err else .ok (oMin, oMax)

end SpatialId

namespace SpatialId

/-- `object.TileXYZ` (hZoom, x, y, vZoom, z) -/
structure Tile where
  h : Int
  x : Int
  y : Int
  v : Int
  z : Int
deriving DecidableEq, Repr

/-- `transform.extendedSpatialIDCheckZoom` / `quadkeyCheckZoom` -/
def extCheckZoom (h v : Int) : Bool := decide (0 ≤ h) && decide (h ≤ 35) && (decide (0 ≤ v) && decide (v ≤ 35))
def qkCheckZoom (h v : Int) : Bool := decide (1 ≤ h) && decide (h ≤ 31) && (decide (0 ≤ v) && decide (v ≤ 35))

/-- `object.NewTileXYZ` (after the fix: both zooms in 0..35) -/
def newTile (h x y v z : Int) : Option Tile :=
  if !(decide (0 ≤ h) && decide (h ≤ 35)) then none
  else if !(decide (0 ≤ v) && decide (v ≤ 35)) then none
  else some ⟨h, x, y, v, z⟩

/-- the voxels one tile contributes; `none` = error -/
def tileToExt (E O outV : Int) (t : Tile) : Option (List Ext) :=
  if !extCheckZoom t.h outV then none else
  match k2z t.z t.v outV E O with
  | .ok (lo, hi) => some ((irange lo hi).map fun z => ⟨t.h, t.x, t.y, outV, z⟩)
  | _ => none

/-- `ConvertTileXYZsToExtendedSpatialIDs`: any failing tile fails the whole call; duplicates removed -/
def tilesToExt (ts : List Tile) (E O outV : Int) : Outcome (List Ext) :=
  match ts.mapM (tileToExt E O outV) with
  | none => .err
  | some ls => .ok (dedup ls.flatten)

/-- `ConvertTileXYZsToSpatialIDs` -/
def tilesToSp (ts : List Tile) (E O outV : Int) : Outcome (List Ext) :=
  (tilesToExt ts E O outV).map fun l => l.flatMap expandExt

end SpatialId
