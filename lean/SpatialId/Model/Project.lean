/-
shape.ConvertPointListToProjectedPointList / ConvertProjectedPointListToPointList: the list structure around the
third-party projection (github.com/wroge/wgs84), which is an oracle parameter.
-/
import SpatialId.Model.Point
namespace SpatialId
open F64

/-- `object.ProjectedPoint` -/
structure PPt where
  x : Dy
  y : Dy
  alt : Dy
deriving Repr, Inhabited, DecidableEq

/-- geographic → projected: `none` from the oracle (unknown EPSG code, failed transform) is a conversion error for the
whole call; the altitude is copied, never transformed -/
def projList (oracle : GeoPt → Option (Dy × Dy)) (pts : List GeoPt) : Outcome (List PPt) :=
  match pts.mapM (fun p => (oracle p).map fun xy => (⟨xy.1, xy.2, p.alt⟩ : PPt)) with
  | none => .err
  | some l => .ok l

/-- projected → geographic: the result goes through `object.NewPoint` with the error ignored -/
def unprojList (oracle : PPt → Option (Dy × Dy)) (pts : List PPt) : Outcome (List GeoPt) :=
  match pts.mapM (fun p => (oracle p).map fun ll => newPointLossy ll.1 ll.2 p.alt) with
  | none => .err
  | some l => .ok l

end SpatialId
