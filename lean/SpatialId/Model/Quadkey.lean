/-
transform/convert_quadkey_and_Vertical_id.go: convertHorizontalIDToQuadkey, convertQuadkeyToHorizontalID and the
exported conversions between extended IDs and (quadkey, vertical index / altitude key) pairs
(the branch maxHeight == minHeight; the binary-subdivision branch is in Model/BitAlt.lean).
-/
import SpatialId.Model.AltKey
namespace SpatialId

/-- one of the two bit loops of `convertHorizontalIDToQuadkey`:
`for i = 0; v > 0 && i < zoom; i++ { m := v % 2; v = v / 2; quadkey += (m*mult) << (i*2) }` (fuel = zoom) -/
def encLoop (mult : Int) : Nat → Nat → Int → Int → Int
  | 0, _, _, acc => acc
  | fuel + 1, i, v, acc =>
    if v > 0 then encLoop mult fuel (i + 1) (v.tdiv 2) (acc + (v.tmod 2 * mult) * 2 ^ (2 * i)) else acc

/-- `convertHorizontalIDToQuadkey("z/x/y")` -/
def qkEnc (z x y : Int) : Int := encLoop 2 z.toNat 0 y (encLoop 1 z.toNat 0 x 0)

/-- one step of the digit walk of `convertQuadkeyToHorizontalID` -/
def decStep (p : Int × Int) (d : Nat) : Int × Int :=
  (2 * p.1 + (if d = 1 ∨ d = 3 then 1 else 0), 2 * p.2 + (if d = 2 ∨ d = 3 then 1 else 0))

/-- `convertQuadkeyToHorizontalID(quadkey, zoom)`: walk the digits, stop after `zoom` of them
(a negative key prints a leading `-`, which the walk treats like a `0`) -/
def qkDec (key zoom : Int) : Int × Int :=
  let ds := if key < 0 then 0 :: digits4 (-key).toNat else digits4 key.toNat
  let ds := if zoom ≥ 1 then ds.take zoom.toNat else ds
  ds.foldl decStep (0, 0)

/-- an element of the request: quadkeyZoom, quadkey, vZoom, vIndex (heights equal) -/
structure QV where
  qz : Int
  q : Int
  vz : Int
  vi : Int
deriving DecidableEq, Repr

/-- `ConvertQuadkeysAndVerticalIDsToExtendedSpatialIDs` with maxHeight == minHeight on every element -/
def qvToExt (l : List QV) (outH outV : Int) : Outcome (List Ext) :=
  if !extCheckZoom outH outV then .err else
  let one (e : QV) : Option (List Ext) :=
    if !qkCheckZoom e.qz e.vz then none
    else if e.q > 4611686018427388064 then none
    else
      let (x, y) := qkDec e.q e.qz
      some ((hZoomIdx e.qz x y outH).flatMap fun p => (vZoomIdx e.vz e.vi outV).map fun f => ⟨outH, p.1, p.2, outV, f⟩)
  match l.mapM one with
  | none => .err
  | some ls => .ok (dedup ls.flatten)

/-- one returned group: the (quadkey, vertical) pairs that were not reported by an earlier group -/
structure QGroup where
  pairs : List (Int × Int)
deriving Repr

/-- the cross-call de-duplication of both exported "to quadkey" functions: each input contributes the pairs
`quadkeys × verticals` not seen before; empty groups are skipped -/
def groupPairs (cands : List (List (Int × Int))) : List (List (Int × Int)) :=
  let step (st : List (Int × Int) × List (List (Int × Int))) (c : List (Int × Int)) :=
    let fresh := (c.foldl (fun (acc : List (Int × Int) × List (Int × Int)) p =>
      if p ∈ acc.1 then acc else (p :: acc.1, acc.2 ++ [p])) (st.1, [])).2
    let seen := fresh.reverse ++ st.1
    if fresh.isEmpty then (seen, st.2) else (seen, st.2 ++ [fresh])
  (cands.foldl step ([], [])).2

/-- `ConvertExtendedSpatialIDsToQuadkeysAndVerticalIDs` with maxHeight == minHeight (after the D6 fix:
exactly five fields) → the groups of (quadkey, vIndex) pairs -/
def extToQV (ids : List String) (outH outV : Int) : Outcome (List (List (Int × Int))) :=
  if !qkCheckZoom outH outV then .err else
  let one (s : String) : Option (List (Int × Int)) :=
    match parseExt s with
    | none => none
    | some e =>
      if !extCheckZoom e.h e.v then none else
      let qs := (hZoomIdx e.h e.x e.y outH).map fun p => qkEnc outH p.1 p.2
      let vs := dedup (vZoomIdx e.v e.f outV)
      some (qs.flatMap fun q => vs.map fun v => (q, v))
  match ids.mapM one with
  | none => .err
  | some cs => .ok (groupPairs cs)

/-- `ConvertExtendedSpatialIDsToQuadkeysAndAltitudekeys` → groups of (quadkey, altitudekey) pairs -/
def extToQA (ids : List String) (outQ outA E O : Int) : Outcome (List (List (Int × Int))) :=
  if !qkCheckZoom outQ outA then .err else
  let one (s : String) : Option (List (Int × Int)) :=
    match parseExt s with
    | none => none
    | some e =>
      if !extCheckZoom e.h e.v then none else
      let qs := (hZoomIdx e.h e.x e.y outQ).map fun p => qkEnc outQ p.1 p.2
      match z2k e.f e.v outA E O with
      | .ok (lo, hi) => some (qs.flatMap fun q => (irange lo hi).map fun a => (q, a))
      | _ => none
  match ids.mapM one with
  | none => .err
  | some cs => .ok (groupPairs cs)

end SpatialId
