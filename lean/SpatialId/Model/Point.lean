/-
common/object/coordinate.go (NewPoint, SetLon, SetLat) and shape/point.go (point → ID, ID → vertices / centre)
over the software binary64 of F64.lean.  Transcendental sub-expressions are *oracle parameters*:
  `u`       = `1 - math.Log(math.Tan(r)+1/math.Cos(r))/math.Pi` for the stored latitude (Mercator fraction ×2),
  `rowLat k`= `RadianToDegree(math.Atan(math.Sinh(math.Pi*(1-2*k/hLimit))))` for a row boundary.
The correspondence harness evaluates these sub-expressions with the same Go code and hands the values over,
so the logic around them is compared exactly.
-/
import SpatialId.F64
import SpatialId.Basic
import SpatialId.Model.Notation
namespace SpatialId
open F64

def c180 : Dy := ⟨180, 0⟩
def c360 : Dy := ⟨360, 0⟩
def c2 : Dy := ⟨2, 0⟩
def c1e10 : Dy := ⟨10000000000, 0⟩
/-- the literal `85.0511287798` as the compiler rounds it -/
def latLimit : Dy := ofRat 850511287798 10000000000

structure GeoPt where
  lon : Dy
  lat : Dy
  alt : Dy
deriving Repr, Inhabited, DecidableEq

/-- `Point.SetLat`: cut toward zero at 1e-10 degrees, then the domain check -/
def setLat (lat : Dy) : Option Dy :=
  let t := if lt zero lat then div (floor (mul lat c1e10)) c1e10 else div (ceil (mul lat c1e10)) c1e10
  if lt latLimit (abs t) then none else some t

/-- `object.NewPoint` -/
def newPoint (lon lat alt : Dy) : Option GeoPt :=
  if lt c180 (abs lon) then none else
  match setLat lat with
  | none => none
  | some t => some ⟨lon, t, alt⟩

/-- x index of `getHorizontalTileIdOnPoint` (after the D10 fix: clamped below `2^h`) -/
def xIndex (lon : Dy) (h : Int) : Int :=
  let lon := if eq lon c180 then neg lon else lon
  -- `math.Pow(2, h) * t` multiplies by an exact power of two
  let i := floorInt (scale (div (add lon c180) c360) h)
  if i ≥ 2 ^ h.toNat then 2 ^ h.toNat - 1 else i

/-- y index from the oracle value `u`: `floor(2^h * u / 2)` -/
def yIndex (u : Dy) (h : Int) : Int := floorInt (scale (scale u h) (-1))

/-- f index of `getVerticalTileIdOnAltitude`: `floor(alt / (2^25 / 2^v))` -/
def fIndex (alt : Dy) (v : Int) : Int := floorInt (scale alt (v - 25))

/-- the voxel of a stored point, given the oracle value `u` for its latitude -/
def pointToExt (p : GeoPt) (u : Dy) (h v : Int) : Ext := ⟨h, xIndex p.lon h, yIndex u h, v, fIndex p.alt v⟩

/-- `shape.GetExtendedSpatialIdsOnPoints`: zoom check, nil check, then one ID per point in order.
An element is `none` for a nil pointer, else the stored point with the oracle value for its latitude. -/
def pointsToExt (pts : List (Option (GeoPt × Dy))) (h v : Int) : Outcome (List Ext) :=
  if !(checkZoom h && checkZoom v) then .err
  else if pts.any Option.isNone then .err
  else .ok (pts.filterMap fun o => o.map fun (p, u) => pointToExt p u h v)

/-! ### ID → geometry -/

/-- `getAltitudeOnVerticalIndexAndZoom` → (alt, resolution) -/
def altOf (f v : Int) : Dy × Dy :=
  let res := F64.pow2 (25 - v)
  (scale (ofInt f) (25 - v), res)

/-- longitude index after the wrap of `getVertexOnVoxelOffset` (`math.Mod` on integral floats is exact) -/
def wrapLon (x h : Int) : Int :=
  let n : Int := 2 ^ h.toNat
  if n - 1 ≤ x ∨ x < 0 then x % n else x

/-- row index after the clamp of `getVertexOnVoxelOffset` -/
def clampRow (y h : Int) : Int :=
  let n : Int := 2 ^ h.toNat
  if n - 1 ≤ y then n - 1 else if y < 0 then 0 else y

def westLon (x h : Int) : Dy := sub (scale (mul (ofInt x) c360) (-h)) c180
def eastLon (x h : Int) : Dy := sub (scale (mul (add (ofInt x) ⟨1, 0⟩) c360) (-h)) c180

/-- `object.NewPoint` with the error ignored, as the vertex code does: on error the returned object keeps the
fields set so far (lon always; lat and alt stay 0 when the latitude is rejected) -/
def newPointLossy (lon lat alt : Dy) : GeoPt :=
  if lt c180 (abs lon) then ⟨zero, zero, zero⟩ else
  match setLat lat with
  | none => ⟨lon, zero, zero⟩
  | some t => ⟨lon, t, alt⟩

/-- `getVertexOnVoxelOffset` with the two row-boundary latitudes supplied by the oracle -/
def vertices (x h f v : Int) (northLat southLat : Dy) : List GeoPt :=
  let xi := wrapLon x h
  let w := westLon xi h
  let e := eastLon xi h
  let (alt, res) := altOf f v
  let top := add alt res
  [newPointLossy w northLat alt, newPointLossy e northLat alt, newPointLossy e southLat alt, newPointLossy w southLat alt,
   newPointLossy w northLat top, newPointLossy e northLat top, newPointLossy e southLat top, newPointLossy w southLat top]

def dyMin (l : List Dy) (d : Dy) : Dy := l.foldl (fun m x => if lt x m then x else m) d
def dyMax (l : List Dy) (d : Dy) : Dy := l.foldl (fun m x => if lt m x then x else m) d

/-- midpoint of the extreme values of one coordinate `g` over the eight vertices -/
def centreMid (x h f v : Int) (northLat southLat : Dy) (g : GeoPt → Dy) : Dy :=
  let ps := vertices x h f v northLat southLat
  match ps with
  | [] => zero
  | p :: _ => div (add (dyMax (ps.map g) (g p)) (dyMin (ps.map g) (g p))) c2

/-- `getCenterPointOnVoxelOffset`: midpoint of the extreme coordinates of the eight vertices -/
def centre (x h f v : Int) (northLat southLat : Dy) : GeoPt :=
  newPointLossy (centreMid x h f v northLat southLat (·.lon)) (centreMid x h f v northLat southLat (·.lat))
    (centreMid x h f v northLat southLat (·.alt))

/-- `shape.GetPointOnExtendedSpatialId(id, option)`: parse (five int64 fields), zoom check, option dispatch
(0 = Vertex, 1 = Center, anything else is an option error) -/
def pointOnExt (id : String) (opt : Int) (north south : Dy) : Outcome (List GeoPt) :=
  match parseExt id with
  | none => .err
  | some e =>
    if !(checkZoom e.h && checkZoom e.v) then .err
    else if opt = 1 then .ok [centre e.x e.h e.f e.v north south]
    else if opt = 0 then .ok (vertices e.x e.h e.f e.v north south)
    else .err

/-- `shape.GetPointOnSpatialId`: rewrite `z/f/x/y` as an extended ID first -/
def pointOnSp (id : String) (opt : Int) (north south : Dy) : Outcome (List GeoPt) :=
  match sp2ext1 id with
  | none => .err
  | some ext => pointOnExt ext opt north south

end SpatialId
