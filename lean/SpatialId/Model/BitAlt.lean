/-
transform/convert_quadkey_and_Vertical_id.go, the binary-subdivision altitude IDs used when maxHeight > minHeight:
calcBitIndex, convertVerticallIDToBit, convertBitToVerticalID and the corresponding branches of the two exported
conversions.  binary64 arithmetic through F64.lean.
-/
import SpatialId.Model.Point
import SpatialId.Model.Quadkey
namespace SpatialId
open F64

/-- `calcBitIndex`: `zoom` rounds of "which half of [min, max) contains the altitude" -/
def calcBitLoop (alt : Dy) : Nat → Int → Dy → Dy → Int
  | 0, idx, _, _ => idx
  | n + 1, idx, maxH, minH =>
    let border := add (scale (sub maxH minH) (-1)) minH
    if le border alt then calcBitLoop alt n (idx * 2 + 1) maxH border
    else calcBitLoop alt n (idx * 2) border minH

def calcBit (alt : Dy) (zoom : Int) (maxH minH : Dy) : Int := calcBitLoop alt zoom.toNat 0 maxH minH

/-- the altitude `float64(i) * alt25 / 2^vZoom` of the bottom of vertical index `i` -/
def idxAlt (i vZoom : Int) : Dy := scale (scale (ofInt i) 25) (-vZoom)

/-- `convertVerticallIDToBit` -/
def v2b (vZoom vIndex outZoom : Int) (maxH minH : Dy) : List Int :=
  let maxBit := calcBit (idxAlt (vIndex + 1) vZoom) outZoom maxH minH
  let minBit := calcBit (idxAlt vIndex vZoom) outZoom maxH minH
  if maxBit = minBit then [maxBit] else [maxBit, minBit] ++ irange (minBit + 1) (maxBit - 1)

/-- `convertBitToVerticalID`: the vertical indices (at `outZoom`) from the cell's bottom to its top altitude -/
def b2v (vZoom vIndex outZoom : Int) (maxH minH : Dy) : List Int :=
  let voxelHeight := scale (sub maxH minH) (-vZoom)
  let maxAlt := add (mul (ofInt (vIndex + 1)) voxelHeight) minH
  let minAlt := add (mul (ofInt vIndex) voxelHeight) minH
  let fMax := fIndex maxAlt outZoom
  let fMin := fIndex minAlt outZoom
  [fMax, fMin] ++ irange (fMin + 1) (fMax - 1)

/-- `ConvertExtendedSpatialIDsToQuadkeysAndVerticalIDs` for any height pair: equal ⇒ index form (Model/Quadkey.lean),
max > min ⇒ bit form, max < min ⇒ error -/
def extToQVH (ids : List String) (outH outV : Int) (maxH minH : Dy) : Outcome (List (List (Int × Int))) :=
  if !qkCheckZoom outH outV then .err else
  let one (s : String) : Option (List (Int × Int)) :=
    match parseExt s with
    | none => none
    | some e =>
      if !extCheckZoom e.h e.v then none else
      let qs := (hZoomIdx e.h e.x e.y outH).map fun p => qkEnc outH p.1 p.2
      if F64.eq maxH minH then
        let vs := dedup (vZoomIdx e.v e.f outV)
        some (qs.flatMap fun q => vs.map fun v => (q, v))
      else if lt minH maxH then
        let vs := v2b e.v e.f outV maxH minH
        some (qs.flatMap fun q => vs.map fun v => (q, v))
      else none
  match ids.mapM one with
  | none => .err
  | some cs => .ok (groupPairs cs)

/-- `ConvertQuadkeysAndVerticalIDsToExtendedSpatialIDs` for any height pair (the same for every element here) -/
def qvToExtH (l : List QV) (outH outV : Int) (maxH minH : Dy) : Outcome (List Ext) :=
  if !extCheckZoom outH outV then .err else
  let one (e : QV) : Option (List Ext) :=
    if !qkCheckZoom e.qz e.vz then none
    else if e.q > 4611686018427388064 then none
    else
      let (x, y) := qkDec e.q e.qz
      if F64.eq maxH minH then
        some ((hZoomIdx e.qz x y outH).flatMap fun p => (vZoomIdx e.vz e.vi outV).map fun f => ⟨outH, p.1, p.2, outV, f⟩)
      else if lt minH maxH then
        if e.vi > pow2 (e.vz + 1) then none else
        let vs := b2v e.vz e.vi outV maxH minH
        some ((hZoomIdx e.qz x y outH).flatMap fun p => vs.map fun f => ⟨outH, p.1, p.2, outV, f⟩)
      else none
  match l.mapM one with
  | none => .err
  | some ls => .ok (dedup ls.flatten)

/-- the same conversion with the height pair of EVERY ELEMENT (the Go object carries its own `maxHeight`/`minHeight`): an element
is read in the index form when its two heights are equal, in the bit form when max > min, and makes the call fail otherwise -/
def qvToExtM (l : List (QV × Dy × Dy)) (outH outV : Int) : Outcome (List Ext) :=
  if !extCheckZoom outH outV then .err else
  let one (t : QV × Dy × Dy) : Option (List Ext) :=
    let e := t.1; let maxH := t.2.1; let minH := t.2.2
    if !qkCheckZoom e.qz e.vz then none
    else if e.q > 4611686018427388064 then none
    else
      let (x, y) := qkDec e.q e.qz
      if F64.eq maxH minH then
        some ((hZoomIdx e.qz x y outH).flatMap fun p => (vZoomIdx e.vz e.vi outV).map fun f => ⟨outH, p.1, p.2, outV, f⟩)
      else if lt minH maxH then
        if e.vi > pow2 (e.vz + 1) then none else
        let vs := b2v e.vz e.vi outV maxH minH
        some ((hZoomIdx e.qz x y outH).flatMap fun p => vs.map fun f => ⟨outH, p.1, p.2, outV, f⟩)
      else none
  match l.mapM one with
  | none => .err
  | some ls => .ok (dedup ls.flatten)

end SpatialId
