/-
integrate/change_zoom.go: HorizontalZoomMinMax, HorizontalZoom, VerticalZoom,
ChangeExtendedSpatialIdsZoom, ChangeSpatialIdsZoom.
Go's `/` on int64 truncates toward zero: `Int.tdiv`.
-/
import SpatialId.Basic
import SpatialId.Model.Notation
namespace SpatialId

/-- `integrate.HorizontalZoomMinMax` → (minX, minY, maxX, maxY) -/
def hZoomMinMax (zi x y zo : Int) : Int × Int × Int × Int :=
  let d := zo - zi
  let n := pow2 (d.natAbs : Int)
  if d > 0 then (x * n, y * n, x * n + n - 1, y * n + n - 1)
  else if d < 0 then (x.tdiv n, y.tdiv n, x.tdiv n, y.tdiv n)
  else (x, y, x, y)

/-- the (x, y) pairs of `integrate.HorizontalZoom`, in the order of the Go loops (y outer, x inner). -/
def hZoomIdx (zi x y zo : Int) : List (Int × Int) :=
  let (x0, y0, x1, y1) := hZoomMinMax zi x y zo
  (irange y0 y1).flatMap fun yy => (irange x0 x1).map fun xx => (xx, yy)

/-- `integrate.HorizontalZoom`: strings `zo/x/y`. -/
def hZoom (zi x y zo : Int) : List String :=
  (hZoomIdx zi x y zo).map fun p => joinSlash [fmtInt zo, fmtInt p.1, fmtInt p.2]

/-- (min, max) of `integrate.VerticalZoom` (zoom-out through the flooring arithmetic shift). -/
def vZoomMinMax (zi f zo : Int) : Int × Int :=
  let d := zo - zi
  let n := pow2 (d.natAbs : Int)
  if d > 0 then (f * n, f * n + n - 1)
  else if d < 0 then (arithShift f d, arithShift f d)
  else (f, f)

def vZoomIdx (zi f zo : Int) : List Int :=
  let (lo, hi) := vZoomMinMax zi f zo
  irange lo hi

/-- `integrate.VerticalZoom`: strings `zo/f`. -/
def vZoom (zi f zo : Int) : List String :=
  (vZoomIdx zi f zo).map fun f' => joinSlash [fmtInt zo, fmtInt f']

/-- the voxels one input contributes to `ChangeExtendedSpatialIdsZoom` (h outer, v inner). -/
def zoomOne (H V : Int) (e : Ext) : List Ext :=
  (hZoomIdx e.h e.x e.y H).flatMap fun p => (vZoomIdx e.v e.f V).map fun f' => ⟨H, p.1, p.2, V, f'⟩

def changeExtE (es : List Ext) (H V : Int) : List Ext := dedup (es.flatMap (zoomOne H V))

/-- `integrate.ChangeExtendedSpatialIdsZoom` -/
def changeExt (ids : List String) (H V : Int) : Outcome (List String) :=
  if !(checkZoom H && checkZoom V) then .err else
  match parseAll ids with
  | none => .err
  | some es => .ok ((changeExtE es H V).map Ext.id)

/-- `integrate.ChangeSpatialIdsZoom` -/
def changeSp (ids : List String) (Z : Int) : Outcome (List String) :=
  match sp2ext ids with
  | .ok ext =>
    match changeExt ext Z Z with
    | .ok r => (match ext2sp r with | .ok s => .ok s | _ => .ok [])
    | o => o
  | o => o

/-- `transform.ConvertExtendedSpatialIDToSpatialIDs` on a parsed ID (x-major order as in the Go loops). -/
def expandExt (e : Ext) : List Ext :=
  if e.h < e.v then
    let (x0, y0, x1, y1) := hZoomMinMax e.h e.x e.y e.v
    (irange x0 x1).flatMap fun x => (irange y0 y1).map fun y => ⟨e.v, x, y, e.v, e.f⟩
  else if e.h > e.v then
    (vZoomIdx e.v e.f e.h).map fun f => ⟨e.h, e.x, e.y, e.h, f⟩
  else [e]


end SpatialId
