/-
operated/shifting_spatial_id.go: GetShiftingSpatialID and the four neighbourhood queries.
-/
import SpatialId.Basic
namespace SpatialId

/-- the wrap step of `GetShiftingSpatialID` for one horizontal index:
`if s > max || s < 0 { for s < 0 { s += 2^h }; s = int64(math.Mod(float64(s), 2^h)) }`.
`fuel` bounds the `for` loop (it adds `2^h` until the value is non-negative). -/
def wrapLoop (n : Int) : Nat → Int → Int
  | 0, s => s
  | fuel + 1, s => if s < 0 then wrapLoop n fuel (s + n) else s

def wrapIdx (h s : Int) : Int :=
  let n := pow2 h
  if s > n - 1 ∨ s < 0 then
    let s' := wrapLoop n (if n > 0 then ((-s) / n + 2).toNat else 0) s
    Int.tmod s' n
  else s

def shiftE (e : Ext) (dx dy dv : Int) : Ext :=
  ⟨e.h, wrapIdx e.h (e.x + dx), wrapIdx e.h (e.y + dy), e.v, e.f + dv⟩

/-- `operated.GetShiftingSpatialID` (`""` when the ID is malformed). -/
def shift (id : String) (dx dy dv : Int) : String :=
  match parseExt id with
  | none => ""
  | some e => (shiftE e dx dy dv).id

/-! The neighbourhood queries call `GetShiftingSpatialID` on ID *strings* (and `Get26…` re-parses the
strings it has just printed).  The model parses once and works on the parsed voxel; a malformed ID makes
every shift return `""`, so the Go functions return 6, 8 and 26 empty strings. -/

/-- `Get6spatialIdsAdjacentToFaces`, in the Go order -/
def n6E (e : Ext) : List Ext :=
  [-1, 1].flatMap fun (s : Int) => [shiftE e s 0 0, shiftE e 0 s 0, shiftE e 0 0 s]

/-- `Get8spatialIdsAroundHorizontal` -/
def n8E (e : Ext) : List Ext :=
  [-1, 1].flatMap fun (s : Int) => [shiftE e s 0 0, shiftE e 0 s 0, shiftE e s s 0, shiftE e s (-s) 0]

/-- `Get26spatialIdsAroundVoxel` -/
def n26E (e : Ext) : List Ext :=
  [-1, 0, 1].flatMap fun (s : Int) =>
    let vs := shiftE e 0 0 s
    (if s ≠ 0 then [vs] else []) ++ n8E vs

def n6 (id : String) : List String :=
  match parseExt id with
  | none => List.replicate 6 ""
  | some e => (n6E e).map Ext.id

def n8 (id : String) : List String :=
  match parseExt id with
  | none => List.replicate 8 ""
  | some e => (n8E e).map Ext.id

def n26 (id : String) : List String :=
  match parseExt id with
  | none => List.replicate 26 ""
  | some e => (n26E e).map Ext.id

/-- the offsets of `GetNspatialIdsAroundVoxcels` in loop order (x outer, y, v inner), `(0,0,0)` skipped -/
def nOffsets (H V : Int) : List (Int × Int × Int) :=
  (irange (-H) H).flatMap fun dx => (irange (-H) H).flatMap fun dy =>
    (irange (-V) V).filterMap fun dv => if dx = 0 ∧ dy = 0 ∧ dv = 0 then none else some (dx, dy, dv)

def nNE (es : List Ext) (H V : Int) : List Ext :=
  dedup ((nOffsets H V).flatMap fun o => es.map fun e => shiftE e o.1 o.2.1 o.2.2)

/-- `GetNspatialIdsAroundVoxcels` (after the fix: malformed IDs are rejected up front). -/
def nN (ids : List String) (H V : Int) : Outcome (List String) :=
  if H < 0 ∨ V < 0 then .err else
  match parseAll ids with
  | none => .err
  | some es =>
    .ok ((nNE es H V).map Ext.id)

/-! ### the stencils of the neighbourhood queries (used by the theorems of C08 and by the line model) -/
abbrev Off := Int × Int × Int
def sh (e : Ext) (o : Off) : Ext := shiftE e o.1 o.2.1 o.2.2

/-- the three stencils, in the order in which the Go loops emit them -/
def stencil6 : List Off := [(-1,0,0), (0,-1,0), (0,0,-1), (1,0,0), (0,1,0), (0,0,1)]
def stencil8 : List Off := [(-1,0,0), (0,-1,0), (-1,-1,0), (-1,1,0), (1,0,0), (0,1,0), (1,1,0), (1,-1,0)]
def stencil26 : List Off :=
  [(0,0,-1)] ++ stencil8.map (fun o => (o.1, o.2.1, -1)) ++ stencil8 ++
  [(0,0,1)] ++ stencil8.map (fun o => (o.1, o.2.1, 1))


end SpatialId
