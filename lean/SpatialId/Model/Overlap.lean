/-
detector/check_spatial_id_overlap.go: the extended-ID checks (through zoom change) and the spatial-ID checks
(through the multidimensional radix tree, modelled abstractly as a set of keys with the prefix relation).
-/
import SpatialId.Model.Zoom
namespace SpatialId

/-! ### extended IDs -/

/-- the structured core of the extended check for two parsed IDs: both are brought to the coarser zoom of
each axis and the (single) results are compared -/
def overlapAt (tH tV : Int) (e1 e2 : Ext) : Outcome Bool :=
  match changeExtE [e1] tH tV, changeExtE [e2] tH tV with
  | x :: _, y :: _ => .ok (x == y)
  | _, _ => .panic        -- `ids[0]` on an empty result

def overlapE (e1 e2 : Ext) : Outcome Bool :=
  overlapAt (if e1.h > e2.h then e2.h else e1.h) (if e1.v > e2.v then e2.v else e1.v) e1 e2

/-- the two `ChangeExtendedSpatialIdsZoom` calls of the extended check at target zooms `(tH, tV)`:
zoom check, then parse; Go compares the two printed IDs, the model compares the voxels
(printing is injective; tied by the correspondence check). -/
def overlapExtAt (tH tV : Int) (a b : String) : Outcome Bool :=
  if !(checkZoom tH && checkZoom tV) then .err else
  match parseExt a, parseExt b with
  | some e1, some e2 => overlapAt tH tV e1 e2
  | _, _ => .err

/-- `CheckExtendedSpatialIdsOverlap` -/
def overlapExt (a b : String) : Outcome Bool :=
  let arr1 := splitSlash a
  let arr2 := splitSlash b
  if arr1.length ≠ 5 ∨ arr2.length ≠ 5 then .err else
  -- zoom fields through `strconv.Atoi` with the error ignored
  let h1 := parseInt64Lossy (arr1.getD 0 "")
  let h2 := parseInt64Lossy (arr2.getD 0 "")
  let v1 := parseInt64Lossy (arr1.getD 3 "")
  let v2 := parseInt64Lossy (arr2.getD 3 "")
  overlapExtAt (if h1 > h2 then h2 else h1) (if v1 > v2 then v2 else v1) a b

/-- every ID of the list is a well-formed extended ID (`validateExtendedSpatialIds`) -/
def allExt (l : List String) : Bool := l.all fun s => (parseExt s).isSome

/-- inner loop of `CheckExtendedSpatialIdsArrayOverlap` for one element `a` of the first list (`restA` = the elements of
the first list after `a`): first error wins; at the first overlapping pair the elements not compared yet are validated -/
def ovInner (a : String) (restA : List String) : List String → Outcome Bool
  | [] => .ok false
  | b :: bs =>
    match overlapExt a b with
    | .ok true => if allExt restA && allExt bs then .ok true else .err
    | .ok false => ovInner a restA bs
    | .err => .err
    | .panic => .panic

def ovOuter (bs : List String) : List String → Outcome Bool
  | [] => .ok false
  | a :: as =>
    match ovInner a as bs with
    | .ok false => ovOuter bs as
    | r => r

/-- `CheckExtendedSpatialIdsArrayOverlap` (after the fix: when one list is empty no pair is compared, so the other list is
validated explicitly) -/
def overlapExtArr (as bs : List String) : Outcome Bool :=
  match ovOuter bs as with
  | .ok false => if (as.isEmpty || bs.isEmpty) && !(allExt as && allExt bs) then .err else .ok false
  | r => r

/-! ### spatial IDs through the radix tree -/

/-- `getSpatialIdAttrs` (after the fix: every `Atoi` error is examined): zoom, f, x, y -/
def spAttrs (s : String) : Option (Int × Int × Int × Int) :=
  match splitSlash s with
  | [z, f, x, y] =>
    match parseInt64 z, parseInt64 f, parseInt64 x, parseInt64 y with
    | some z, some f, some x, some y => some (z, f, x, y)
    | _, _, _, _ => none
  | _ => none

/-- `offsetFIndex`: f index made non-negative by adding `2^(zoom-1)`; range and zoom-0 errors -/
def offsetF (f zoom : Int) : Option Int :=
  let c := f + arithShift (2 ^ 24) (zoom - 25)
  if zoom < 1 ∨ c < 0 ∨ c ≥ arithShift 1 zoom then none else some c

/-- a key of the 3-D radix tree: zoom level and the three indices, of which the tree reads the low `zoom` bits -/
structure Key where
  z : Int
  f : Int
  x : Int
  y : Int
deriving DecidableEq, Repr

def spKey (s : String) : Option Key :=
  match spAttrs s with
  | none => none
  | some (z, f, x, y) =>
    match offsetF f z with
    | none => none
    | some c => some ⟨z, c % 2 ^ z.toNat, x % 2 ^ z.toNat, y % 2 ^ z.toNat⟩

/-- `k` is a prefix-ancestor of (or equal to) `q` -/
def Key.isPrefixOf (k q : Key) : Bool :=
  decide (k.z ≤ q.z) && (q.f / 2 ^ (q.z - k.z).toNat == k.f) && (q.x / 2 ^ (q.z - k.z).toNat == k.x) &&
    (q.y / 2 ^ (q.z - k.z).toNat == k.y)

/-- `Tree.IsOverlap`: some stored key is an ancestor-or-equal or a descendant of the query -/
def treeOverlap (stored : List Key) (q : Key) : Bool := stored.any fun k => k.isPrefixOf q || q.isPrefixOf k

/-- `CheckSpatialIdsArrayOverlap` (after the fixes): both lists are validated completely, then the tree is queried -/
def overlapSpArr (as bs : List String) : Outcome Bool :=
  match as.mapM spKey with
  | none => .err
  | some stored =>
    match bs.mapM spKey with
    | none => .err
    | some qs => if as.isEmpty then .ok false else .ok (qs.any fun q => treeOverlap stored q)

def overlapSp (a b : String) : Outcome Bool := overlapSpArr [a] [b]

end SpatialId
