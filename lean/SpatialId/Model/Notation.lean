/-
shape.ConvertSpatialIdsToExtendedSpatialIds / ConvertExtendedSpatialIdsToSpatialIds,
transform.ConvertExtendedSpatialIDToSpatialIDs, transform.GetVoxelIDfromSpatialID.
The two notation conversions do not interpret the fields: they only split, check the arity and permute.
-/
import SpatialId.Basic
namespace SpatialId

/-- one ID: `z/f/x/y ↦ z/x/y/z/f` -/
def sp2ext1 (s : String) : Option String :=
  match splitSlash s with
  | [z, f, x, y] => some (joinSlash [z, x, y, z, f])
  | _ => none

/-- one ID: `h/x/y/v/f ↦ h/f/x/y` -/
def ext2sp1 (s : String) : Option String :=
  match splitSlash s with
  | [h, x, y, _v, f] => some (joinSlash [h, f, x, y])
  | _ => none

def sp2ext (ids : List String) : Outcome (List String) := Outcome.ofOption (ids.mapM sp2ext1)
def ext2sp (ids : List String) : Outcome (List String) := Outcome.ofOption (ids.mapM ext2sp1)

/-- `transform.GetVoxelIDfromSpatialID`: indexes fields 1, 2, 4 without a length check, ignores parse
errors (`ParseInt` yields 0 on a syntax error; on a range error the clamped value). -/
def parseInt64Lossy (s : String) : Int :=
  match parseInt64 s with
  | some v => v
  | none =>
    -- range error ⇒ clamped; syntax error ⇒ 0
    let cs := s.toList
    let (neg, ds) : Bool × List Char :=
      match cs with
      | '-' :: r => (true, r)
      | '+' :: r => (false, r)
      | r => (false, r)
    if ds.isEmpty then 0 else
    match parseDigits ds 0 with
    | none => 0
    | some _ => if neg then -(2 ^ 63 : Int) else (2 ^ 63 : Int) - 1

def voxelId (s : String) : Outcome (List Int) :=
  match splitSlash s with
  | _ :: x :: y :: _ :: f :: _ => .ok [parseInt64Lossy x, parseInt64Lossy y, parseInt64Lossy f]
  | _ => .panic

end SpatialId
