/-
shape.ConvertSpatialIdsToExtendedSpatialIds / ConvertExtendedSpatialIdsToSpatialIds,
transform.ConvertExtendedSpatialIDToSpatialIDs, transform.GetVoxelIDfromSpatialID.
The two notation conversions do not interpret the fields: they only split, check the arity and permute.
-/
import SpatialId.Basic
namespace SpatialId

/-- one ID: `z/f/x/y ↦ z/x/y/z/f` -/
def sp2ext1 (s : String) : Option String :=
  match splitSlash s with
  | [z, f, x, y] => some (joinSlash [z, x, y, z, f])
  | _ => none

/-- one ID: `h/x/y/v/f ↦ h/f/x/y` -/
def ext2sp1 (s : String) : Option String :=
  match splitSlash s with
  | [h, x, y, _v, f] => some (joinSlash [h, f, x, y])
  | _ => none

def sp2ext (ids : List String) : Outcome (List String) := Outcome.ofOption (ids.mapM sp2ext1)
def ext2sp (ids : List String) : Outcome (List String) := Outcome.ofOption (ids.mapM ext2sp1)

/-- `transform.GetVoxelIDfromSpatialID`: indexes fields 1, 2, 4 without a length check and ignores parse errors. -/
def voxelId (s : String) : Outcome (List Int) :=
  match splitSlash s with
  | _ :: x :: y :: _ :: f :: _ => .ok [parseInt64Lossy x, parseInt64Lossy y, parseInt64Lossy f]
  | _ => .panic

end SpatialId
