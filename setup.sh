#!/bin/sh
# Build the whole framework offline from files on disk: Lean project (model, proofs, driver), Go harness.
set -e
cd "$(dirname "$0")"
export GOFLAGS=-mod=mod GOPROXY=off GOSUMDB=off GOTOOLCHAIN=local
exec ./check setup
